import LachesisVerif.Proofs.VecHB2
/-!
Preservation of the branch-table invariant I1 (`BranchInv`) and of `BranchConsec` by `add`.
-/
namespace VecProofs
open Model.Vec

theorem branchInv_of_view {nVals : Nat} {h : Hist} {s s' : VState} {e : Event} {me : Nat}
    (_hv : Valid nVals h) (hn : ValidNext nVals h e) (bi : BranchInv h s) (hnv : s.nVals = nVals)
    (V : AddView h s e s' me) : BranchInv (h ++ [e]) s' := by
  have evo : ∀ i, i < h.length → Hist.ev (h ++ [e]) i = h.ev i := fun i hi => ev_snoc_lt h e hi
  have evn : Hist.ev (h ++ [e]) h.length = e := ev_snoc_eq h e
  have bro : ∀ i, i < h.length → s'.branchOf i = s.branchOf i := fun i hi => V.branchOf_old hi
  have brn : s'.branchOf h.length = me := V.branchOf_new
  have hle := V.nBr_le
  have hnl := bi.nVals_le
  constructor
  · -- size_eq
    rw [V.size_eq, length_snoc]
  · -- nVals_le
    rw [V.nVals_eq]; omega
  · -- primary
    intro c hc
    rw [V.nVals_eq] at hc
    rw [V.creatorOf_old c (by omega)]; exact bi.primary c hc
  · -- creator_lt
    intro b hb
    rw [V.nVals_eq]
    by_cases hbm : b = me
    · subst hbm; rw [V.creatorOf_me, hnv]; exact hn.creator_lt
    · have := V.lt_of_ne_me hb hbm
      rw [V.creatorOf_old b this]; exact bi.creator_lt b this
  · -- branch_lt
    intro i hi
    rcases idx_cases hi with hi | rfl
    · rw [bro i hi]; have := bi.branch_lt i hi; omega
    · rw [brn]; exact V.me_lt
  · -- creator_eq
    intro i hi
    rcases idx_cases hi with hi | rfl
    · rw [bro i hi, evo i hi, V.creatorOf_old _ (bi.branch_lt i hi)]; exact bi.creator_eq i hi
    · rw [brn, evn]; exact V.creatorOf_me
  · -- seq_inj
    intro i j hi hj hb hs
    rcases idx_cases hi with hi | rfl <;> rcases idx_cases hj with hj | rfl
    · rw [bro i hi, bro j hj] at hb
      rw [evo i hi, evo j hj] at hs
      exact bi.seq_inj i j hi hj hb hs
    · rw [bro i hi, brn] at hb
      rw [evo i hi, evn] at hs
      have := (V.old_on_me bi hi hb).1
      omega
    · rw [bro j hj, brn] at hb
      rw [evo j hj, evn] at hs
      have := (V.old_on_me bi hj hb.symm).1
      omega
    · rfl
  · -- chain
    intro i j hi hj hb hs
    rcases idx_cases hi with hi | rfl <;> rcases idx_cases hj with hj | rfl
    · rw [bro i hi, bro j hj] at hb
      rw [evo i hi, evo j hj] at hs
      exact (bi.chain i j hi hj hb hs).snoc e
    · rw [bro i hi, brn] at hb
      rw [evo i hi, evn] at hs
      have := (V.old_on_me bi hi hb).1
      omega
    · rw [bro j hj, brn] at hb
      exact (V.old_on_me bi hj hb.symm).2
    · exact Anc.refl (by rw [length_snoc]; omega)
  · -- last_ub
    intro i hi
    rcases idx_cases hi with hi | rfl
    · rw [bro i hi, evo i hi, V.lastSeq_eq]
      by_cases hb : s.branchOf i = me
      · rw [if_pos hb]; have := (V.old_on_me bi hi hb).1; omega
      · rw [if_neg hb]; exact bi.last_ub i hi
    · rw [brn, evn, V.lastSeq_eq, if_pos rfl]; exact Nat.le_refl _
  · -- last_attained
    intro b hb hl
    by_cases hbm : b = me
    · subst hbm
      refine ⟨h.length, by rw [length_snoc]; omega, brn, ?_⟩
      rw [evn, V.lastSeq_eq, if_pos rfl]
    · rw [V.lastSeq_eq, if_neg hbm] at hl ⊢
      obtain ⟨i, hi, hib, his⟩ := bi.last_attained b (V.lt_of_ne_me hb hbm) hl
      refine ⟨i, by rw [length_snoc]; omega, ?_, ?_⟩
      · rw [bro i hi]; exact hib
      · rw [evo i hi]; exact his
  · -- last_zero
    intro b hb
    have := V.me_lt
    rw [V.lastSeq_eq, if_neg (by omega)]
    exact bi.last_zero b (by omega)
  · -- parents_eq
    intro i hi
    rw [V.parents_eq]
    rcases idx_cases hi with hi | rfl
    · rw [if_neg (Nat.ne_of_lt hi), evo i hi]; exact bi.parents_eq i hi
    · rw [if_pos rfl, evn]

/-- I1 is preserved by indexing a valid next event -/
theorem branchInv_add {nVals : Nat} {h : Hist} {s : VState} {e : Event} (hv : Valid nVals h)
    (hn : ValidNext nVals h e) (bi : BranchInv h s) (hnv : s.nVals = nVals) :
    BranchInv (h ++ [e]) (s.add e) :=
  branchInv_of_view hv hn bi hnv (add_view hv hn bi hnv)

theorem consec_of_view {nVals : Nat} {h : Hist} {s s' : VState} {e : Event} {me : Nat}
    (hv : Valid nVals h) (bi : BranchInv h s) (bc : BranchConsec h s)
    (V : AddView h s e s' me) : BranchConsec (h ++ [e]) s' := by
  have evo : ∀ i, i < h.length → Hist.ev (h ++ [e]) i = h.ev i := fun i hi => ev_snoc_lt h e hi
  have evn : Hist.ev (h ++ [e]) h.length = e := ev_snoc_eq h e
  have bro : ∀ i, i < h.length → s'.branchOf i = s.branchOf i := fun i hi => V.branchOf_old hi
  have brn : s'.branchOf h.length = me := V.branchOf_new
  have hnew : h.length < (h ++ [e]).length := by rw [length_snoc]; omega
  have lift : ∀ m, m < h.length → m < (h ++ [e]).length := by intro m hm; rw [length_snoc]; omega
  intro i j hi hj hb k hk1 hk2
  rcases idx_cases hi with hi | rfl <;> rcases idx_cases hj with hj | rfl
  · rw [bro i hi, bro j hj] at hb
    rw [evo j hj] at hk1
    rw [evo i hi] at hk2
    obtain ⟨m, hm, hmb, hms⟩ := bc i j hi hj hb k hk1 hk2
    exact ⟨m, lift m hm, by rw [bro m hm, bro i hi]; exact hmb, by rw [evo m hm]; exact hms⟩
  · rw [bro i hi, brn] at hb
    rw [evn] at hk1
    rw [evo i hi] at hk2
    have := (V.old_on_me bi hi hb).1
    omega
  · rw [bro j hj, brn] at hb
    rw [evo j hj] at hk1
    rw [evn] at hk2
    by_cases hke : k = e.seq
    · exact ⟨h.length, hnew, rfl, by rw [evn, hke]⟩
    · obtain ⟨hl, _⟩ := V.on_branch j hj hb.symm
      have hpos := (hv.ev_facts j hj).seq_pos
      have hmelt : me < s.nBr := by rw [hb]; exact bi.branch_lt j hj
      obtain ⟨i0, hi0, hi0b, hi0s⟩ := bi.last_attained me hmelt (by omega)
      obtain ⟨m, hm, hmb, hms⟩ := bc i0 j hi0 hj (by rw [hi0b, hb]) k hk1 (by omega)
      exact ⟨m, lift m hm, by rw [bro m hm, brn, hmb, hi0b], by rw [evo m hm]; exact hms⟩
  · rw [evn] at hk1 hk2
    exact ⟨h.length, hnew, rfl, by rw [evn]; omega⟩

end VecProofs
