import LachesisVerif.Model.Ancestor
/-! Helper lemmas for C19 and C20 (emitter/ancestor). -/
namespace Proofs.Ancestor
open Model.Ancestor

/-! ### C19 -/

theorem mem_optionSet (existing options : List Nat) (x : Nat) :
    x ∈ optionSet existing options ↔ x ∈ options ∧ x ∉ existing := by
  unfold optionSet
  simp [List.mem_filter, List.mem_eraseDups]

theorem isPermOf_subset {a b : List Nat} (h : isPermOf a b = true) : ∀ x ∈ a, x ∈ b := by
  intro x hx
  unfold isPermOf at h
  simp only [Bool.and_eq_true, List.all_eq_true, beq_iff_eq] at h
  have hc := h.2 x hx
  have : 0 < a.count x := List.count_pos_iff.2 hx
  exact List.count_pos_iff.1 (by omega)

theorem getD_mem (l : List Nat) (i : Nat) (h : i < l.length) : l.getD i 0 ∈ l := by
  rw [List.getD_eq_getElem?_getD, List.getElem?_eq_getElem h]
  simp

/-- the loop invariant of ChooseParents, from iteration `acc.length` on -/
theorem chooseFrom_spec (existing options : List Nat) (n : Nat) :
    ∀ (calls : List Call) (acc rest : List Nat),
      acc.length + calls.length = n →
      callsOk n acc.length calls rest = true →
      (∀ x ∈ rest, x ∈ options ∧ x ∉ existing ∧ x ∉ acc) →
      (∀ x ∈ options, x ∈ existing ∨ x ∈ acc ∨ x ∈ rest) →
      acc.Nodup → (∀ x ∈ acc, x ∈ options ∧ x ∉ existing) →
      ∃ added, chooseFrom n acc.length calls (existing ++ acc) rest = (existing ++ added, added.length) ∧
        added.length ≤ n ∧ (∀ x ∈ added, x ∈ options ∧ x ∉ existing) ∧ added.Nodup ∧
        (added.length < n → ∀ x ∈ options, x ∈ existing ∨ x ∈ added) := by
  intro calls
  induction calls with
  | nil =>
    intro acc rest hlen _ _ _ hnd hacc
    refine ⟨acc, rfl, by simp at hlen; omega, hacc, hnd, ?_⟩
    intro h; simp at hlen; omega
  | cons c cs ih =>
    intro acc rest hlen hok hrest hcover hnd hacc
    simp only [List.length_cons] at hlen
    unfold chooseFrom
    unfold callsOk at hok
    by_cases hc : Gen.Emitter.chooseLoop acc.length n rest.length = true
    · rw [if_pos hc] at hok ⊢
      simp only [Bool.and_eq_true, decide_eq_true_eq] at hok
      obtain ⟨⟨hperm, hbest⟩, hok'⟩ := hok
      have hp : c.seen.getD c.best 0 ∈ rest := isPermOf_subset hperm _ (getD_mem _ _ hbest)
      generalize c.seen.getD c.best 0 = p at hp hok' ⊢
      have hpr := hrest p hp
      have := ih (acc ++ [p]) (rest.filter (fun o => o != p)) (by simp; omega)
        (by simpa using hok')
        (by
          intro x hx
          have hx' := List.mem_filter.1 hx
          have hxr := hrest x hx'.1
          have hne : x ≠ p := by simpa using hx'.2
          refine ⟨hxr.1, hxr.2.1, ?_⟩
          intro hm
          rcases List.mem_append.1 hm with h | h
          · exact hxr.2.2 h
          · simp at h; exact hne h)
        (by
          intro x hx
          rcases hcover x hx with h | h | h
          · exact Or.inl h
          · exact Or.inr (Or.inl (List.mem_append_left _ h))
          · by_cases hxp : x = p
            · exact Or.inr (Or.inl (by simp [hxp]))
            · exact Or.inr (Or.inr (List.mem_filter.2 ⟨h, by simpa using hxp⟩)))
        (by
          rw [List.nodup_append]
          refine ⟨hnd, by simp, ?_⟩
          intro a ha b hb
          simp at hb; subst hb
          intro e; subst e; exact hpr.2.2 ha)
        (by
          intro x hx
          rcases List.mem_append.1 hx with h | h
          · exact hacc x h
          · simp at h; subst h; exact ⟨hpr.1, hpr.2.1⟩)
      simp only [List.length_append, List.length_cons, List.length_nil, Nat.zero_add] at this
      simp only [List.append_assoc]
      exact this
    · rw [if_neg hc]
      refine ⟨acc, rfl, by omega, hacc, hnd, ?_⟩
      intro hlt
      have hrest0 : rest = [] := by
        unfold Gen.Emitter.chooseLoop at hc
        simp only [Bool.and_eq_true, decide_eq_true_eq, not_and] at hc
        have := hc (by omega)
        cases rest with
        | nil => rfl
        | cons a as => simp at this
      subst hrest0
      intro x hx
      rcases hcover x hx with h | h | h
      · exact Or.inl h
      · exact Or.inr h
      · cases h

/-! metric strategy -/

theorem metricChooseFrom_spec (ws pre : List Nat) (maxI maxW : Nat)
    (h0 : pre = [] → maxW = 0 ∧ maxI = 0)
    (h1 : pre ≠ [] → maxI < pre.length ∧ pre.getD maxI 0 = maxW)
    (h2 : ∀ x ∈ pre, x ≤ maxW) :
    let r := metricChooseFrom ws pre.length maxI maxW
    (pre ++ ws ≠ [] → r < (pre ++ ws).length) ∧ ∀ x ∈ pre ++ ws, x ≤ (pre ++ ws).getD r 0 := by
  induction ws generalizing pre maxI maxW with
  | nil =>
    simp only [metricChooseFrom, List.append_nil]
    by_cases hp : pre = []
    · subst hp; simp
    · have := h1 hp
      exact ⟨fun _ => this.1, fun x hx => by rw [this.2]; exact h2 x hx⟩
  | cons w ws ih =>
    have e : pre ++ w :: ws = (pre ++ [w]) ++ ws := by simp
    have hl : (pre ++ [w]).length = pre.length + 1 := by simp
    simp only [metricChooseFrom]
    by_cases hu : Gen.Emitter.chooseUpdate maxW w = true
    · rw [if_pos hu, e, ← hl]
      apply ih
      · intro h; simp at h
      · intro _
        refine ⟨by simp, ?_⟩
        rw [List.getD_eq_getElem?_getD]
        simp
      · intro x hx
        unfold Gen.Emitter.chooseUpdate at hu
        simp only [Bool.or_eq_true, decide_eq_true_eq] at hu
        rcases List.mem_append.1 hx with h | h
        · have := h2 x h; omega
        · simp at h; omega
    · rw [if_neg hu, e, ← hl]
      unfold Gen.Emitter.chooseUpdate at hu
      simp only [Bool.or_eq_true, decide_eq_true_eq, not_or] at hu
      have hpne : pre ≠ [] := fun h => hu.1 (h0 h).1
      have := h1 hpne
      apply ih
      · intro h; simp at h
      · intro _
        refine ⟨by simp; omega, ?_⟩
        rw [List.getD_eq_getElem?_getD, List.getElem?_append_left this.1, ← List.getD_eq_getElem?_getD]; exact this.2
      · intro x hx
        rcases List.mem_append.1 hx with h | h
        · exact h2 x h
        · simp at h; omega

/-! ### C20: loops -/

/-- Hoare rule for `for i := i0; i < n; i++` -/
theorem forLoop_inv {σ : Type} (n : Nat) (body : Nat → σ → σ) (P : Nat → σ → Prop)
    (hstep : ∀ i s, i < n → P i s → P (i + 1) (body i s)) :
    ∀ fuel i s, i ≤ n → n - i ≤ fuel → P i s →
      P n (forLoop (fun v => decide (v < n)) body fuel i s) := by
  intro fuel
  induction fuel with
  | zero =>
    intro i s hi hf hp
    have : i = n := by omega
    subst this; exact hp
  | succ fuel ih =>
    intro i s hi hf hp
    unfold forLoop
    by_cases h : i < n
    · simp only [h, decide_true, if_true]
      exact ih (i + 1) (body i s) (by omega) (by omega) (hstep i s h hp)
    · have : i = n := by omega
      subst this
      simp only [Nat.lt_irrefl, decide_false, Bool.false_eq_true, if_false]
      exact hp

/-! ### weighted median -/

def weight (l : List (Nat × Nat)) : Nat := (l.map (·.2)).sum

/-- weight of the entries whose value is at least `s` -/
def weightGE (l : List (Nat × Nat)) (s : Nat) : Nat := weight (l.filter (fun p => decide (s ≤ p.1)))

/-- `m` is the largest `s` with `weight {i | valueᵢ ≥ s} ≥ q` -/
def IsMedian (l : List (Nat × Nat)) (q m : Nat) : Prop := weightGE l m ≥ q ∧ ∀ s, s > m → weightGE l s < q

/-- what `sort.Slice` guarantees for the less function `a.seq > b.seq`: a later element is never
    `less` than an earlier one -/
def SortedDesc (l : List (Nat × Nat)) : Prop := l.Pairwise (fun a b => Gen.Emitter.sortBefore b.1 a.1 = false)

theorem weight_append (a b : List (Nat × Nat)) : weight (a ++ b) = weight a + weight b := by
  simp [weight, List.sum_append]

theorem weightGE_append (a b : List (Nat × Nat)) (s : Nat) : weightGE (a ++ b) s = weightGE a s + weightGE b s := by
  simp [weightGE, weight_append]

theorem weightGE_cons (p : Nat × Nat) (ps : List (Nat × Nat)) (s : Nat) :
    weightGE (p :: ps) s = (if s ≤ p.1 then p.2 else 0) + weightGE ps s := by
  unfold weightGE weight
  rw [List.filter_cons]
  by_cases h : s ≤ p.1 <;> simp [h]

theorem weightGE_le (l : List (Nat × Nat)) (s : Nat) : weightGE l s ≤ weight l := by
  induction l with
  | nil => simp [weightGE, weight]
  | cons p ps ih =>
    rw [weightGE_cons]
    have : weight (p :: ps) = p.2 + weight ps := by simp [weight]
    rw [this]
    split <;> omega

theorem weightGE_all (l : List (Nat × Nat)) (s : Nat) (h : ∀ p ∈ l, p.1 ≥ s) : weightGE l s = weight l := by
  unfold weightGE
  rw [List.filter_eq_self.2 (by intro p hp; simpa using h p hp)]

theorem weightGE_none (l : List (Nat × Nat)) (s : Nat) (h : ∀ p ∈ l, p.1 < s) : weightGE l s = 0 := by
  unfold weightGE
  rw [List.filter_eq_nil_iff.2 (by intro p hp; have := h p hp; simp; omega)]
  rfl

theorem weight_perm {a b : List (Nat × Nat)} (h : a.Perm b) : weight a = weight b :=
  (List.Perm.map (fun p : Nat × Nat => p.2) h).sum_nat

theorem weightGE_perm {a b : List (Nat × Nat)} (h : a.Perm b) (s : Nat) : weightGE a s = weightGE b s :=
  weight_perm (h.filter _)

theorem isMedian_perm {a b : List (Nat × Nat)} (h : a.Perm b) (q m : Nat) : IsMedian a q m → IsMedian b q m := by
  intro ⟨h1, h2⟩
  exact ⟨by rw [← weightGE_perm h]; exact h1, fun s hs => by rw [← weightGE_perm h]; exact h2 s hs⟩

theorem weightGE_mono (l : List (Nat × Nat)) (s t : Nat) (h : s ≤ t) : weightGE l t ≤ weightGE l s := by
  induction l with
  | nil => simp [weightGE, weight]
  | cons p ps ih =>
    rw [weightGE_cons, weightGE_cons]
    split <;> split <;> omega

/-- the median is unique -/
theorem isMedian_unique (l : List (Nat × Nat)) (q m₁ m₂ : Nat) (h₁ : IsMedian l q m₁) (h₂ : IsMedian l q m₂) : m₁ = m₂ := by
  have a : ¬ m₁ > m₂ := fun h => by have := h₂.2 m₁ h; have := h₁.1; omega
  have b : ¬ m₂ > m₁ := fun h => by have := h₁.2 m₂ h; have := h₂.1; omega
  omega

/-- the loop of `wmedian.Of` on a descending list, started after the prefix `pre` -/
theorem wmedianFrom_spec (stop : Nat) :
    ∀ (suf pre : List (Nat × Nat)), SortedDesc (pre ++ suf) → weight pre < stop →
      stop ≤ weight (pre ++ suf) → weight (pre ++ suf) < 4294967296 →
      ∃ m, wmedianFrom suf (weight pre) stop = some m ∧ IsMedian (pre ++ suf) stop m := by
  intro suf
  induction suf with
  | nil => intro pre _ h1 h2 _; simp at h2; omega
  | cons x rest ih =>
    intro pre hs hlt hge h32
    obtain ⟨s, w⟩ := x
    have hsplit := List.pairwise_append.1 hs
    have hpre_ge : ∀ p ∈ pre, p.1 ≥ s := by
      intro p hp
      have := hsplit.2.2 p hp (s, w) List.mem_cons_self
      unfold Gen.Emitter.sortBefore at this
      simpa using this
    have hrest_le : ∀ p ∈ rest, p.1 ≤ s := by
      intro p hp
      have := (List.pairwise_cons.1 hsplit.2.1).1 p hp
      unfold Gen.Emitter.sortBefore at this
      simpa using this
    have hw : weight (pre ++ (s, w) :: rest) = weight pre + w + weight rest := by
      rw [weight_append]; simp [weight]; omega
    have hadd : Gen.Emitter.medianAdd (weight pre) w = weight pre + w := by
      unfold Gen.Emitter.medianAdd
      exact Nat.mod_eq_of_lt (by omega)
    unfold wmedianFrom
    rw [hadd]
    by_cases hstop : Gen.Emitter.medianStop (weight pre + w) stop = true
    · rw [if_pos hstop]
      refine ⟨s, rfl, ?_, ?_⟩
      · -- everything up to and including this entry has value ≥ s
        have : weightGE (pre ++ (s, w) :: rest) s ≥ weight pre + w := by
          rw [weightGE_append, weightGE_all pre s hpre_ge]
          have : weightGE ((s, w) :: rest) s ≥ w := by
            rw [weightGE_cons]; simp
          omega
        unfold Gen.Emitter.medianStop at hstop
        simp only [decide_eq_true_eq] at hstop
        omega
      · intro s' hs'
        have h1 : weightGE ((s, w) :: rest) s' = 0 := by
          apply weightGE_none
          intro p hp
          rcases List.mem_cons.1 hp with rfl | hp
          · exact hs'
          · have := hrest_le p hp; omega
        rw [weightGE_append, h1]
        have := weightGE_le pre s'
        omega
    · rw [if_neg hstop]
      unfold Gen.Emitter.medianStop at hstop
      simp only [decide_eq_true_eq] at hstop
      have e : pre ++ (s, w) :: rest = (pre ++ [(s, w)]) ++ rest := by simp
      have hw' : weight (pre ++ [(s, w)]) = weight pre + w := by rw [weight_append]; simp [weight]
      have := ih (pre ++ [(s, w)]) (by rw [← e]; exact hs) (by omega) (by rw [← e]; exact hge) (by rw [← e]; exact h32)
      rw [hw', ← e] at this
      exact this

theorem insertDesc_perm (x : Nat × Nat) (l : List (Nat × Nat)) : (insertDesc x l).Perm (x :: l) := by
  induction l with
  | nil => exact List.Perm.refl _
  | cons y ys ih =>
    unfold insertDesc
    split
    · exact List.Perm.refl _
    · exact (List.Perm.cons y ih).trans (List.Perm.swap x y ys)

theorem sortDesc_perm (l : List (Nat × Nat)) : (sortDesc l).Perm l := by
  induction l with
  | nil => exact List.Perm.refl _
  | cons x xs ih => exact (insertDesc_perm x _).trans (List.Perm.cons x ih)

theorem insertDesc_sorted (x : Nat × Nat) (l : List (Nat × Nat)) (hs : SortedDesc l) : SortedDesc (insertDesc x l) := by
  induction l with
  | nil => simp [insertDesc, SortedDesc]
  | cons y ys ih =>
    have hy := List.pairwise_cons.1 hs
    unfold insertDesc
    by_cases hxy : Gen.Emitter.sortBefore x.1 y.1 = true
    · rw [if_pos hxy]
      refine List.pairwise_cons.2 ⟨?_, hs⟩
      intro z hz
      unfold Gen.Emitter.sortBefore at hxy ⊢
      simp only [decide_eq_true_eq] at hxy
      rcases List.mem_cons.1 hz with rfl | hz
      · simp; omega
      · have := hy.1 z hz
        unfold Gen.Emitter.sortBefore at this
        simp only [decide_eq_false_iff_not] at this
        simp; omega
    · rw [if_neg hxy]
      refine List.pairwise_cons.2 ⟨?_, ih hy.2⟩
      intro z hz
      have : z ∈ x :: ys := (insertDesc_perm x ys).subset hz
      rcases List.mem_cons.1 this with rfl | hz
      · simpa using hxy
      · exact hy.1 z hz

/-- the model's insertion sort is one admissible behaviour of `sort.Slice` -/
theorem sortDesc_sorted (l : List (Nat × Nat)) : SortedDesc (sortDesc l) := by
  induction l with
  | nil => simp [sortDesc, SortedDesc]
  | cons x xs ih => exact insertDesc_sorted x _ ih

/-! ### C20: the indexer -/

def sumTo (n : Nat) (f : Nat → Nat) : Nat := ((List.range n).map f).sum

theorem sumTo_succ (n : Nat) (f : Nat → Nat) : sumTo (n + 1) f = sumTo n f + f n := by
  simp [sumTo, List.range_succ, List.sum_append]

theorem weight_rowPairs (q : QI) (v : Nat) : weight (rowPairs q v) = sumTo q.n q.weights := by
  simp [weight, rowPairs, sumTo, List.map_map, Function.comp_def]

/-- what is assumed of `sort.Slice`: it returns a permutation ordered by the less function -/
def SorterOk (sorter : List (Nat × Nat) → List (Nat × Nat)) : Prop :=
  ∀ l, (sorter l).Perm l ∧ SortedDesc (sorter l)

theorem sortDesc_ok : SorterOk sortDesc := fun l => ⟨sortDesc_perm l, sortDesc_sorted l⟩

/-- `wmedian.Of` after `sort.Slice`: never panics and returns the median, for any tie order -/
theorem wmedian_ok (sorter : List (Nat × Nat) → List (Nat × Nat)) (hs : SorterOk sorter)
    (l : List (Nat × Nat)) (stop : Nat) (h1 : 1 ≤ stop) (h2 : stop ≤ weight l) (h3 : weight l < 4294967296) :
    ∃ m, wmedianFrom (sorter l) 0 stop = some m ∧ IsMedian l stop m := by
  have hp := (hs l).1
  have hw := weight_perm hp
  have := wmedianFrom_spec stop (sorter l) [] (by simpa using (hs l).2) (by simp [weight]; omega)
    (by simp; omega) (by simp; omega)
  obtain ⟨m, h, hm⟩ := this
  exact ⟨m, by simpa [weight] using h, isMedian_perm (by simpa using hp) stop m hm⟩

/-- validator set parameters under which the indexer works: 1 ≤ quorum ≤ total < 2^32 -/
structure WF (n : Nat) (w : Nat → Nat) (quorum : Nat) : Prop where
  pos : 1 ≤ quorum
  le : quorum ≤ sumTo n w
  lt : sumTo n w < 4294967296

/-- invariant of the indexer state: parameters fixed, and a clean state caches the medians of the
    current matrix -/
structure Good (n : Nat) (w : Nat → Nat) (quorum : Nat) (q : QI) : Prop where
  hn : q.n = n
  hw : q.weights = w
  hq : q.quorum = quorum
  coherent : q.dirty = false → ∀ v, v < n → IsMedian (rowPairs q v) quorum (q.medians v)

theorem rowPairs_congr (q q' : QI) (v : Nat) (h1 : q'.n = q.n) (h2 : q'.weights = q.weights)
    (h3 : q'.matrix = q.matrix) : rowPairs q' v = rowPairs q v := by
  unfold rowPairs; rw [h1, h2, h3]

theorem recache_spec (sorter : List (Nat × Nat) → List (Nat × Nat)) (hs : SorterOk sorter)
    (n : Nat) (w : Nat → Nat) (quorum : Nat) (wf : WF n w quorum) (q : QI)
    (hn : q.n = n) (hw : q.weights = w) (hq : q.quorum = quorum) :
    ∃ q', recache sorter q = some q' ∧ q'.n = q.n ∧ q'.weights = q.weights ∧ q'.quorum = q.quorum ∧
      q'.matrix = q.matrix ∧ q'.selfSeqs = q.selfSeqs ∧ q'.dirty = false ∧
      ∀ v, v < n → IsMedian (rowPairs q v) quorum (q'.medians v) := by
  let P : Nat → Option QI → Prop := fun i st =>
    ∃ q', st = some q' ∧ q'.n = q.n ∧ q'.weights = q.weights ∧ q'.quorum = q.quorum ∧
      q'.matrix = q.matrix ∧ q'.selfSeqs = q.selfSeqs ∧
      ∀ v, v < i → IsMedian (rowPairs q v) quorum (q'.medians v)
  have hloop : P q.n (forLoop (fun v => decide (v < q.n)) (recacheBody sorter) q.n 0 (some q)) := by
    apply forLoop_inv q.n (recacheBody sorter) P
    · intro i st hi ⟨q', hst, h1, h2, h3, h4, h5, h6⟩
      subst hst
      have hrow : rowPairs q' i = rowPairs q i := rowPairs_congr q q' i h1 h2 h4
      have hwt : weight (rowPairs q i) = sumTo n w := by rw [weight_rowPairs, hn, hw]
      obtain ⟨m, hm, hmed⟩ := wmedian_ok sorter hs (rowPairs q i) quorum wf.pos
        (by rw [hwt]; exact wf.le) (by rw [hwt]; exact wf.lt)
      refine ⟨{ q' with medians := set1 q'.medians i m }, ?_, h1, h2, h3, h4, h5, ?_⟩
      · unfold recacheBody
        simp only [hrow, h3, hq, hm]
      · intro v hv
        show IsMedian (rowPairs q v) quorum (set1 q'.medians i m v)
        unfold set1
        by_cases hvi : v = i
        · rw [if_pos hvi, hvi]; exact hmed
        · rw [if_neg hvi]; exact h6 v (by omega)
    · exact Nat.zero_le _
    · omega
    · exact ⟨q, rfl, rfl, rfl, rfl, rfl, rfl, fun v hv => absurd hv (Nat.not_lt_zero v)⟩
  obtain ⟨q', hst, h1, h2, h3, h4, h5, h6⟩ := hloop
  refine ⟨{ q' with dirty := false }, ?_, h1, h2, h3, h4, h5, rfl, fun v hv => h6 v (by omega)⟩
  unfold recache
  have : (fun v => Gen.Emitter.recacheLoop v q.n) = fun v => decide (v < q.n) := rfl
  rw [this, hst]

theorem processEvent_spec (q : QI) (hb : Nat → Seq) (c : Nat) (self : Bool) :
    let q' := processEvent q hb c self
    q'.n = q.n ∧ q'.weights = q.weights ∧ q'.quorum = q.quorum ∧ q'.medians = q.medians ∧ q'.dirty = true ∧
    (∀ a b, q'.matrix a b = if a < q.n ∧ b = c then seqOf (hb a) else q.matrix a b) ∧
    (∀ a, q'.selfSeqs a = if self = true ∧ a < q.n then seqOf (hb a) else q.selfSeqs a) := by
  let P : Nat → QI → Prop := fun i s =>
    s.n = q.n ∧ s.weights = q.weights ∧ s.quorum = q.quorum ∧ s.medians = q.medians ∧
    (∀ a b, s.matrix a b = if a < i ∧ b = c then seqOf (hb a) else q.matrix a b) ∧
    (∀ a, s.selfSeqs a = if self = true ∧ a < i then seqOf (hb a) else q.selfSeqs a)
  have hloop : P q.n (forLoop (fun v => decide (v < q.n)) (processBody hb c self) q.n 0 q) := by
    apply forLoop_inv q.n (processBody hb c self) P
    · intro i s hi ⟨h1, h2, h3, h4, h5, h6⟩
      refine ⟨h1, h2, h3, h4, ?_, ?_⟩
      · intro a b
        show set2 s.matrix i c (seqOf (hb i)) a b = _
        unfold set2
        rw [h5 a b]
        by_cases ha : a = i
        · subst ha
          by_cases hbc : b = c
          · simp [hbc]
          · simp [hbc]
        · have h1 : ¬ (a = i ∧ b = c) := fun h => ha h.1
          rw [if_neg h1]
          by_cases hai : a < i
          · have : a < i + 1 := by omega
            simp [hai, this]
          · have : ¬ a < i + 1 := by omega
            simp [hai, this]
      · intro a
        show (if Gen.Emitter.processSelf self then set1 s.selfSeqs i (seqOf (hb i)) else s.selfSeqs) a = _
        unfold Gen.Emitter.processSelf
        cases self with
        | false => simp [h6 a]
        | true =>
          simp only [if_true, set1]
          rw [h6 a]
          by_cases ha : a = i
          · subst ha; simp
          · rw [if_neg ha]
            by_cases hai : a < i
            · have : a < i + 1 := by omega
              simp [hai, this]
            · have : ¬ a < i + 1 := by omega
              simp [hai, this]
    · exact Nat.zero_le _
    · omega
    · exact ⟨rfl, rfl, rfl, rfl, by simp, by simp⟩
  obtain ⟨h1, h2, h3, h4, h5, h6⟩ := hloop
  have e : (fun v => Gen.Emitter.processLoop v q.n) = fun v => decide (v < q.n) := rfl
  unfold processEvent
  rw [e]
  exact ⟨h1, h2, h3, h4, rfl, h5, h6⟩

theorem metricLoop_spec (n : Nat) (d : Nat → Nat) :
    forLoop (fun v => Gen.Emitter.metricLoop v n) (fun v m => Gen.Emitter.metricAdd m (d v)) n 0 0
      = sumTo n d % 18446744073709551616 := by
  have e : (fun v => Gen.Emitter.metricLoop v n) = fun v => decide (v < n) := rfl
  rw [e]
  apply forLoop_inv n (fun v m => Gen.Emitter.metricAdd m (d v)) (fun i m => m = sumTo i d % 18446744073709551616)
  · intro i m _ hm
    subst hm
    unfold Gen.Emitter.metricAdd
    rw [sumTo_succ]
    omega
  · exact Nat.zero_le _
  · omega
  · simp [sumTo]

theorem getD_range_map (n : Nat) (f : Nat → Nat) (v : Nat) (hv : v < n) : ((List.range n).map f).getD v 0 = f v := by
  rw [List.getD_eq_getElem?_getD]
  simp [hv]

/-- `if h.dirty { h.recacheState() }`: afterwards the state is clean and coherent, nothing else
    changed, and no panic occurred -/
theorem clean_spec (sorter : List (Nat × Nat) → List (Nat × Nat)) (hs : SorterOk sorter)
    (n : Nat) (w : Nat → Nat) (quorum : Nat) (wf : WF n w quorum) (q : QI) (hg : Good n w quorum q) :
    ∃ q', (if q.dirty = true then recache sorter q else some q) = some q' ∧ Good n w quorum q' ∧
      q'.matrix = q.matrix ∧ q'.selfSeqs = q.selfSeqs ∧ q'.dirty = false := by
  cases hd : q.dirty with
  | true =>
    obtain ⟨q', h0, h1, h2, h3, h4, h5, h6, h7⟩ := recache_spec sorter hs n w quorum wf q hg.hn hg.hw hg.hq
    refine ⟨q', by simpa using h0, ⟨h1.trans hg.hn, h2.trans hg.hw, h3.trans hg.hq, ?_⟩, h4, h5, h6⟩
    intro _ v hv
    rw [rowPairs_congr q q' v h1 h2 h4]
    exact h7 v hv
  | false => exact ⟨q, by simp, hg, rfl, rfl, hd⟩

end Proofs.Ancestor
