import LachesisVerif.Proofs.OrdererTable
/-!
L5 (C10/C01), part 2: the open election of `Model.Orderer`.

`EInv N vals f FR fed el`: the election `el` for frame `f` is sound against the rules (`JS`), the fed
roots `fed` have stored votes (`Stored`), stored votes and decisions come from fed roots and are
decisions of the rules (`JC`), every decision the rules derive from a fed root is stored
(`Complete`), and nothing is decidable yet (`chooseAtropos el = none`). One `processRoot` call
(`einv_step`), one frame of `processKnownRoots` (`einv_frame`) and the whole of `processKnownRoots`
(`pkr_spec`) preserve it or return the Atropos of the rules; "all decided no" is excluded by L6.
-/
namespace OrdererProofs
open Model.Pos Model.Election Model.Orderer ElectionRules ElectionRefine ElectionProofs VecProofs

structure EInv (N : Net) (vals : Vals) (f : Nat) (FR : Nat → List Root) (fed : List Root) (el : Election) : Prop where
  js : JS N vals f FR el
  stored : Stored f fed el
  jc : JC N f fed el
  complete : Complete N f fed el
  undecided : chooseAtropos el = .ok none

theorem EInv.mono_table {N : Net} {vals : Vals} {f : Nat} {FR FR' : Nat → List Root} {fed : List Root}
    {el : Election} (I : EInv N vals f FR fed el) (h : ∀ g r, r ∈ FR g → r ∈ FR' g) : EInv N vals f FR' fed el :=
  { js := { ftd := I.js.ftd, vals := I.js.vals
            votes := fun r s vote hm => by
              obtain ⟨a, b, c⟩ := I.js.votes r s vote hm
              exact ⟨a, h _ _ b, c⟩
            decided := I.js.decided }
    stored := I.stored, jc := I.jc, complete := I.complete, undecided := I.undecided }

theorem EInv.mono_fed {N : Net} {vals : Vals} {f : Nat} {FR : Nat → List Root} {fed : List Root}
    {el : Election} (I : EInv N vals f FR fed el) (r : Root) (hr : r ∈ fed) : EInv N vals f FR (r :: fed) el :=
  { js := I.js
    stored := by
      intro x hx hfx s hs
      rcases List.mem_cons.1 hx with rfl | hx
      · exact I.stored x hr hfx s hs
      · exact I.stored x hx hfx s hs
    jc := I.jc.mono (fun x hx => List.mem_cons_of_mem _ hx)
    complete := by
      intro x hx hfx s hs hd
      rcases List.mem_cons.1 hx with rfl | hx
      · exact I.complete x hr hfx s hs hd
      · exact I.complete x hx hfx s hs hd
    undecided := I.undecided }

/-- a fresh election is open as soon as there is a validator -/
theorem EInv_reset (N : Net) (vals : Vals) (f : Nat) (FR : Nat → List Root) (ok : ValsOK vals N.nVals N.w)
    (hn : 0 < N.nVals) : EInv N vals f FR [] (reset vals f) :=
  { js := JS_reset N vals f FR
    stored := by intro r hr; cases hr
    jc := JC_reset N vals f
    complete := by intro r hr; cases hr
    undecided := by
      unfold chooseAtropos
      have e : (reset vals f).vals.sorted = (List.range N.nVals).map (fun i => (i, N.w i)) := ok.canon
      rw [e]
      obtain ⟨m, hm⟩ : ∃ m, N.nVals = m + 1 := ⟨N.nVals - 1, by omega⟩
      rw [hm, List.range_succ_eq_map]
      simp [chooseAtroposFrom, reset] }

section Step
variable {N : Net} {vals : Vals} {f : Nat} {observe : Nat → Nat → Bool} {FR : Nat → List Root}

/-- one `processRoot` call on an open election: it stays open with the root fed, or it returns the
    Atropos of the rules (and then some fed root lies above the frame to decide) -/
theorem einv_step (S : Setup N vals f observe FR) (hl6 : ¬ ∀ v, v < N.nVals → N.DecidedNo f v)
    {fed : List Root} {el : Election} (I : EInv N vals f FR fed el) (nr : Root) (hroot : nr ∈ FR nr.frame)
    (hb : nr.frame < 4294967296)
    (hclosed : ∀ p ∈ FR (nr.frame - 1), f < p.frame → observe nr.id p.id = true → p ∈ fed) :
    (∃ el', processRoot observe FR el nr = .ok (el', none) ∧ EInv N vals f FR (nr :: fed) el') ∨
    (∃ el' a, processRoot observe FR el nr = .ok (el', some (f, a)) ∧ N.IsAtropos f a ∧
      ∃ r, r ∈ FR r.frame ∧ f < r.frame) := by
  rcases processRoot_refines S I.js fed I.stored nr hroot hb hclosed with ⟨_, hall⟩ | ⟨el', res, he, js', hst', hat⟩
  · exact absurd hall hl6
  · obtain ⟨jc', hch, hcomp'⟩ := processRoot_complete S I.js fed I.stored I.jc I.complete nr hroot hb hclosed el' res he
    cases res with
    | none => exact Or.inl ⟨el', he, ⟨js', hst' rfl, jc', hcomp' rfl, hch⟩⟩
    | some b =>
      obtain ⟨f', a⟩ := b
      obtain ⟨hf', hat'⟩ := hat f' a rfl
      subst hf'
      refine Or.inr ⟨el', a, he, hat', ?_⟩
      have hch' := hch
      unfold chooseAtropos at hch'
      rw [sorted_eq S.vals js'] at hch'
      obtain ⟨_, v, _, _, _, vote, hl, _, _⟩ := chooseAtroposFrom_range el' N.w N.nVals 0 f' a hch'
      obtain ⟨_, r, hm⟩ := jc'.dec_src v vote (lookup_mem _ _ _ hl)
      obtain ⟨h1, h2, _⟩ := js'.votes r v vote hm
      exact ⟨r, h2, h1⟩

/-- feeding the roots `L` of one frame `g`, all roots of frame `g - 1` above `f` having been fed -/
theorem einv_frame (S : Setup N vals f observe FR) (hl6 : ¬ ∀ v, v < N.nVals → N.DecidedNo f v) (g : Nat)
    (hg : g < 4294967296) (L : List Root) :
    ∀ (fed : List Root) (el : Election), EInv N vals f FR fed el → (∀ r ∈ L, r ∈ FR g ∧ r.frame = g) →
      (∀ p ∈ FR (g - 1), f < p.frame → p ∈ fed) →
      (∃ el', runRoots observe FR el L = .ok (el', none) ∧ EInv N vals f FR (L.reverse ++ fed) el') ∨
      (∃ el' a, runRoots observe FR el L = .ok (el', some (f, a)) ∧ N.IsAtropos f a ∧
        ∃ r, r ∈ FR r.frame ∧ f < r.frame) := by
  induction L with
  | nil => intro fed el I _ _; exact Or.inl ⟨el, rfl, I⟩
  | cons r rest ih =>
    intro fed el I hL hprev
    obtain ⟨hr1, hr2⟩ := hL r List.mem_cons_self
    rcases einv_step S hl6 I r (by rw [hr2]; exact hr1) (by rw [hr2]; exact hg)
        (by rw [hr2]; intro p hp hfp _; exact hprev p hp hfp) with ⟨el', he, I'⟩ | ⟨el', a, he, hat⟩
    · have e : runRoots observe FR el (r :: rest) = runRoots observe FR el' rest := by
        simp only [runRoots, he]
      rw [e]
      have hrev : (r :: rest).reverse ++ fed = rest.reverse ++ (r :: fed) := by
        rw [List.reverse_cons, List.append_assoc]; rfl
      rw [hrev]
      exact ih (r :: fed) el' I' (fun x hx => hL x (List.mem_cons_of_mem _ hx))
        (fun p hp hfp => List.mem_cons_of_mem _ (hprev p hp hfp))
    · exact Or.inr ⟨el', a, by simp only [runRoots, he], hat⟩

end Step
/-- the standing hypotheses of L5: the history is valid with accepted, bounded frames and forkers
    below one third; the validator record is the canonical one; the forkless-cause oracle answers the
    graph relation; the application never seals (one epoch) -/
structure Ctx (N : Net) (vals : Vals) (env : Env) : Prop where
  hv : Valid N.nVals N.h
  hfa : N.FramesAccepted
  hbft : N.BFT
  hb : FrameBound N
  ok : ValsOK vals N.nVals N.w
  obs : ∀ a b, env.observe a b = true ↔ N.FC a b
  noseal : ∀ ep f, env.sealAt ep f = none

theorem Ctx.nVals_pos {N : Net} {vals : Vals} {env : Env} (C : Ctx N vals env) : 0 < N.nVals := by
  have h := N.total_pos_of_BFT C.hbft
  obtain ⟨v, hv, _⟩ := N.weightOf_pos _ h
  omega

theorem Ctx.l6 {N : Net} {vals : Vals} {env : Env} (C : Ctx N vals env) (f : Nat) (hf : 1 ≤ f) :
    ¬ ∀ v, v < N.nVals → N.DecidedNo f v :=
  N.L6_holds C.hv C.hfa C.hbft f hf

theorem filter_length_lt {α} (p q : α → Bool) (l : List α) (hpq : ∀ x ∈ l, q x = true → p x = true)
    (x : α) (hx : x ∈ l) (hp : p x = true) (hq : q x = false) : (l.filter q).length < (l.filter p).length := by
  induction l with
  | nil => cases hx
  | cons y ys ih =>
    have hle : ∀ (zs : List α), (∀ z ∈ zs, q z = true → p z = true) → (zs.filter q).length ≤ (zs.filter p).length := by
      intro zs
      induction zs with
      | nil => intro _; exact Nat.le_refl _
      | cons z zs ih2 =>
        intro h
        have h2 := ih2 (fun w hw => h w (List.mem_cons_of_mem _ hw))
        have h1 := h z List.mem_cons_self
        simp only [List.filter_cons]
        cases hqz : q z <;> cases hpz : p z <;> simp_all <;> omega
    have hys := hle ys (fun z hz => hpq z (List.mem_cons_of_mem _ hz))
    rcases List.mem_cons.1 hx with rfl | hx'
    · simp only [List.filter_cons, hp, hq, if_true, Bool.false_eq_true, if_false, List.length_cons]
      omega
    · have h3 := ih (fun z hz => hpq z (List.mem_cons_of_mem _ hz)) hx'
      have h1 := hpq y List.mem_cons_self
      simp only [List.filter_cons]
      cases hqy : q y <;> cases hpy : p y <;> simp_all <;> omega

theorem pkr_succ (env : Env) (s : OState) (fuel g : Nat) (el : Election) :
    processKnownRoots env s (fuel + 1) g el =
      match runRoots env.observe (frameRoots s) el (frameRoots s g) with
      | .error x => .error x
      | .ok (el', some res) => .ok (el', some res)
      | .ok (el', none) =>
        if Gen.Orderer.knownRootsStop (frameRoots s g).length then .ok (el', none)
        else processKnownRoots env s fuel (g + 1) el' := by
  rw [← knownRootsFrame_eq]; rfl

theorem table_frame_lt {N : Net} {done : List Nat} {roots : List Root} (hb : FrameBound N)
    (T : Table N done roots) (r : Root) (hr : r ∈ roots) : r.frame < 2147483648 := by
  obtain ⟨_, b, _⟩ := (T.mem r).1 hr
  have := hb r.id b.1
  have := b.2.2
  omega

/-- `processKnownRoots` from frame `g` on, the roots of the frames between `f` and `g` having been fed:
    either everything in the table above `f` ends up fed and the election stays open, or the
    Atropos of the rules is returned -/
theorem pkr_spec {N : Net} {vals : Vals} {env : Env} (C : Ctx N vals env) {done : List Nat} {s : OState}
    (T : Table N done s.roots) (hc : Closed N done) (f : Nat) (hf1 : 1 ≤ f) (hf : f < 4294967296) :
    ∀ (fuel g : Nat) (fed : List Root) (el : Election), EInv N vals f (frameRoots s) fed el → f ≤ g →
      (∀ r ∈ s.roots, f < r.frame → r.frame < g → r ∈ fed) → (∀ r ∈ fed, r ∈ s.roots) →
      (s.roots.filter (fun r => decide (g ≤ r.frame))).length < fuel →
      (∃ el' fed', processKnownRoots env s fuel g el = .ok (el', none) ∧ EInv N vals f (frameRoots s) fed' el' ∧
        (∀ r ∈ s.roots, f < r.frame → r ∈ fed') ∧ (∀ r ∈ fed', r ∈ s.roots)) ∨
      (∃ el' a, processKnownRoots env s fuel g el = .ok (el', some (f, a)) ∧ N.IsAtropos f a ∧
        ∃ r, r ∈ s.roots ∧ f < r.frame) := by
  have S : Setup N vals f env.observe (frameRoots s) := setup_of_table C.hv C.hfa C.hbft C.ok C.obs T hc f hf
  intro fuel
  induction fuel with
  | zero => intro g fed el _ _ _ _ hm; omega
  | succ fuel ih =>
    intro g fed el I hfg hbelow hsub hm
    rw [pkr_succ]
    by_cases hempty : frameRoots s g = []
    · rw [hempty]
      refine Or.inl ⟨el, fed, rfl, I, ?_, hsub⟩
      intro r hr hfr
      by_cases hlt : r.frame < g
      · exact hbelow r hr hfr hlt
      · exfalso
        obtain ⟨p, hp, hpf⟩ := frames_contig C.hfa T hc (r.frame - g) r hr g (by omega) (by omega)
        have : p ∈ frameRoots s g := (mem_frameRoots s g p).2 ⟨hp, hpf⟩
        rw [hempty] at this; cases this
    · obtain ⟨x, hx⟩ := List.exists_mem_of_ne_nil _ hempty
      obtain ⟨hx1, hx2⟩ := (mem_frameRoots s g x).1 hx
      have hg : g < 4294967296 := by have := table_frame_lt C.hb T x hx1; omega
      rcases einv_frame S (C.l6 f hf1) g hg (frameRoots s g) fed el I
          (fun r hr => ⟨hr, ((mem_frameRoots s g r).1 hr).2⟩)
          (fun p hp hfp => by
            obtain ⟨h1, h2⟩ := (mem_frameRoots s _ p).1 hp
            exact hbelow p h1 hfp (by omega)) with ⟨el', he, I'⟩ | ⟨el', a, he, hat, r, hr, hfr⟩
      · rw [he]
        have hstop : Gen.Orderer.knownRootsStop (frameRoots s g).length = false := by
          unfold Gen.Orderer.knownRootsStop
          simp only [decide_eq_false_iff_not]
          intro h0
          exact hempty (List.eq_nil_of_length_eq_zero h0)
        simp only [hstop, Bool.false_eq_true, if_false]
        apply ih (g + 1) _ el' I' (by omega)
        · intro r hr hfr hlt
          by_cases hrg : r.frame = g
          · exact List.mem_append_left _ (List.mem_reverse.2 ((mem_frameRoots s g r).2 ⟨hr, hrg⟩))
          · exact List.mem_append_right _ (hbelow r hr hfr (by omega))
        · intro r hr
          rcases List.mem_append.1 hr with h | h
          · exact ((mem_frameRoots s g r).1 (List.mem_reverse.1 h)).1
          · exact hsub r h
        · have := filter_length_lt (fun r : Root => decide (g ≤ r.frame)) (fun r : Root => decide (g + 1 ≤ r.frame))
            s.roots (by intro y _ hy; simp only [decide_eq_true_eq] at hy ⊢; omega) x hx1
            (by simp only [decide_eq_true_eq]; omega) (by simp only [decide_eq_false_iff_not]; omega)
          omega
      · rw [he]
        exact Or.inr ⟨el', a, rfl, hat, r, ((mem_frameRoots s _ r).1 hr).1, hfr⟩

end OrdererProofs
