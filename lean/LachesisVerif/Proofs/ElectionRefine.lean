import LachesisVerif.Proofs.ElectionRefineB
/-!
Single-election refinement (C10), part C: feeding roots to `Model.Election.processRoot` with
`observe` = the graph forkless cause and `frameRoots` = the roots by frame computes exactly the
votes `voteYes` and decisions of `Spec/ElectionRules.lean`, reaches no error branch other than
"all decided no", and a returned Atropos satisfies `IsAtropos`.
-/
namespace ElectionRefine
open Model.Pos Model.Election ElectionRules ElectionProofs VecProofs

/-- the hypotheses tying the oracles of the election model to the graph `N` -/
structure Setup (N : Net) (vals : Vals) (f : Nat) (observe : Nat → Nat → Bool) (frameRoots : Nat → List Root) : Prop where
  /-- validators are numbered canonically, carry the weights of `N`, the total passes `calcCaches` -/
  vals : ValsOK vals N.nVals N.w
  /-- `observe` is the graph forkless cause -/
  obs : ∀ a b, observe a b = true ↔ N.FC a b
  /-- `frameRoots g` lists roots of frame `g`, labelled with their creator, once each … -/
  roots_sound : ∀ g r, r ∈ frameRoots g → (r.frame = g ∧ N.IsRoot r.id g ∧ r.validator = N.creator r.id)
  /-- … and it lists every root that a listed root forkless-causes (the table may be that of a
      parents-first prefix of the history: `Setup.ofIff` is the case of the complete table) -/
  roots_seen : ∀ nr, nr ∈ frameRoots nr.frame → ∀ p g, N.IsRoot p g → N.FC nr.id p →
    (⟨p, g, N.creator p⟩ : Root) ∈ frameRoots g
  nodup : ∀ g, (frameRoots g).Nodup
  creators : ∀ e, e < N.h.length → N.creator e < N.nVals
  /-- slot uniqueness (conclusion of L2; `Net.slotUnique_of_BFT`) -/
  slots : N.SlotUnique
  accepted : N.FramesAccepted
  fbound : f < 4294967296

/-- the complete table of the roots of `N` satisfies both table hypotheses of `Setup` -/
theorem roots_seen_of_iff {N : Net} {frameRoots : Nat → List Root}
    (h : ∀ g r, r ∈ frameRoots g ↔ (r.frame = g ∧ N.IsRoot r.id g ∧ r.validator = N.creator r.id)) :
    ∀ nr, nr ∈ frameRoots nr.frame → ∀ p g, N.IsRoot p g → N.FC nr.id p →
      (⟨p, g, N.creator p⟩ : Root) ∈ frameRoots g :=
  fun _ _ _ g hp _ => (h g _).2 ⟨rfl, hp, rfl⟩

/-- the candidate for subject `s`: a root of its slot in frame `f` forkless-caused by a root of `f+1` -/
def Cand (N : Net) (f s b : Nat) : Prop :=
  N.IsRoot b f ∧ N.creator b = s ∧ ∃ r, N.IsRoot r (f + 1) ∧ N.FC r b

theorem Cand.unique {N : Net} (hsu : N.SlotUnique) {f s b b' : Nat} (h : Cand N f s b) (h' : Cand N f s b') : b = b' := by
  obtain ⟨r1, c1, x, _, fx⟩ := h
  obtain ⟨r2, c2, y, _, fy⟩ := h'
  exact hsu f b b' x y r1 r2 (c1.trans c2.symm) fx fy

/-- soundness of the election state against the graph-level rules -/
structure JS (N : Net) (vals : Vals) (f : Nat) (frameRoots : Nat → List Root) (el : Election) : Prop where
  ftd : el.frameToDecide = f
  vals : el.vals = vals
  /-- every stored vote is the graph-level vote of a root of a later frame -/
  votes : ∀ r s vote, ((r, s), vote) ∈ el.votes → f < r.frame ∧ r ∈ frameRoots r.frame ∧ s < N.nVals ∧
    (vote.yes = true ↔ N.voteYes f (r.frame - f) r.id s) ∧ (vote.yes = true → Cand N f s vote.observedRoot)
  /-- every stored decision is a graph-level decision -/
  decided : ∀ s vote, (s, vote) ∈ el.decidedRoots → s < N.nVals ∧
    (vote.yes = true → N.DecidedYes f s ∧ Cand N f s vote.observedRoot) ∧ (vote.yes = false → N.DecidedNo f s)

/-- the roots fed so far have a stored vote on every subject that is still undecided -/
def Stored (f : Nat) (fed : List Root) (el : Election) : Prop :=
  ∀ r ∈ fed, f < r.frame → ∀ s ∈ notDecided el, ∃ vote, el.votes.lookup (r, s) = some vote

theorem JS_reset (N : Net) (vals : Vals) (f : Nat) (frameRoots : Nat → List Root) : JS N vals f frameRoots (reset vals f) :=
  { ftd := rfl, vals := rfl
    votes := by intro r s v h; simp [reset] at h
    decided := by intro s v h; simp [reset] at h }

theorem total_eq {N : Net} {vals : Vals} (ok : ValsOK vals N.nVals N.w) : vals.total = N.total := by
  rw [← ok.total, canon_weights ok.canon]
  unfold Net.total Net.weightOf
  simp only [decide_true]
  rw [List.filter_eq_self.2 (fun _ _ => rfl)]

theorem quorum_eq {N : Net} {vals : Vals} (ok : ValsOK vals N.nVals N.w) : vals.quorum = N.quorum := by
  unfold Vals.quorum Net.quorum
  rw [C11.quorum_no_overflow _ ok.limit, total_eq ok]
  omega

theorem hasQuorum_iff {N : Net} {vals : Vals} (ok : ValsOK vals N.nVals N.w) (c : Counter) :
    hasQuorum vals c = true ↔ N.quorum ≤ c.sum := by
  unfold hasQuorum Gen.Pos.hasQuorum
  rw [quorum_eq ok]
  simp

section Choose
variable {N : Net} {vals : Vals} {f : Nat} {frameRoots : Nat → List Root} {el : Election}

theorem sorted_eq (ok : ValsOK vals N.nVals N.w) (js : JS N vals f frameRoots el) :
    el.vals.sorted = (List.range' 0 N.nVals).map (fun i => (i, N.w i)) := by
  rw [js.vals, ok.canon, List.range_eq_range']

/-- a returned Atropos is the Atropos of the rules -/
theorem choose_some (ok : ValsOK vals N.nVals N.w) (js : JS N vals f frameRoots el) (f' a : Nat)
    (h : chooseAtropos el = .ok (some (f', a))) : f' = f ∧ N.IsAtropos f a := by
  unfold chooseAtropos at h
  rw [sorted_eq ok js] at h
  obtain ⟨h1, v, _, hv, hno, vote, hl, hy, ha⟩ := chooseAtroposFrom_range el N.w N.nVals 0 f' a h
  refine ⟨h1.trans js.ftd, v, by omega, ?_⟩
  obtain ⟨_, dy, _⟩ := js.decided v vote (lookup_mem _ _ _ hl)
  subst ha
  obtain ⟨d1, c1, c2, c3⟩ := dy hy
  refine ⟨d1, ?_, c1, c2, c3⟩
  intro u hu
  obtain ⟨vt, hlu, hyu⟩ := hno u (Nat.zero_le _) hu
  exact (js.decided u vt (lookup_mem _ _ _ hlu)).2.2 hyu

/-- the only error of `chooseAtropos` is "all decided no", and then all are, by the rules -/
theorem choose_error (ok : ValsOK vals N.nVals N.w) (js : JS N vals f frameRoots el) (e : ElErr)
    (h : chooseAtropos el = .error e) : e = .allNo ∧ ∀ v, v < N.nVals → N.DecidedNo f v := by
  unfold chooseAtropos at h
  rw [sorted_eq ok js] at h
  obtain ⟨h1, hno⟩ := chooseAtroposFrom_range_error el N.w N.nVals 0 e h
  refine ⟨h1, fun v hv => ?_⟩
  obtain ⟨vt, hl, hy⟩ := hno v (Nat.zero_le _) (by omega)
  exact (js.decided v vt (lookup_mem _ _ _ hl)).2.2 hy

end Choose
/-- what the refinement says about one computed vote of root `R` (round `k`) on subject `s` -/
structure VF (N : Net) (f k R s : Nat) (vote : VoteValue) : Prop where
  yes : vote.yes = true ↔ N.voteYes f k R s
  cand : vote.yes = true → Cand N f s vote.observedRoot
  decYes : vote.decided = true → vote.yes = true → N.DecidesYes f k R s
  decNo : vote.decided = true → vote.yes = false → N.DecidesNo f k R s
  decIff : vote.decided = true ↔ (N.DecidesYes f k R s ∨ N.DecidesNo f k R s)

theorem not_decides_one (N : Net) (f R s : Nat) : ¬ (N.DecidesYes f 1 R s ∨ N.DecidesNo f 1 R s) := by
  rintro (h | h)
  · exact absurd h.1 (by decide)
  · exact absurd h.1 (by decide)

section Seen
variable {N : Net} {vals : Vals} {f : Nat} {observe : Nat → Nat → Bool} {frameRoots : Nat → List Root}

theorem seen_mem (S : Setup N vals f observe frameRoots) (nr : Root) (hroot : nr ∈ frameRoots nr.frame) (r : Root) :
    r ∈ seenRoots observe frameRoots nr ↔
      r.frame = Gen.Election.prevFrame nr.frame ∧ N.IsRoot r.id (Gen.Election.prevFrame nr.frame) ∧
      r.validator = N.creator r.id ∧ N.FC nr.id r.id := by
  unfold seenRoots
  rw [List.mem_filter, S.obs]
  constructor
  · rintro ⟨h, d⟩
    obtain ⟨a, b, c⟩ := S.roots_sound _ r h
    exact ⟨a, b, c, d⟩
  · rintro ⟨a, b, c, d⟩
    have := S.roots_seen nr hroot r.id _ b d
    rw [← c, ← a] at this
    exact ⟨by rw [← a]; exact this, d⟩

theorem seen_set_iff (S : Setup N vals f observe frameRoots) (nr : Root) (hroot : nr ∈ frameRoots nr.frame)
    (Yp : Nat → Prop) (i : Nat) :
    (∃ r ∈ seenRoots observe frameRoots nr, r.validator = i ∧ Yp r.id) ↔
      ∃ p, N.IsRoot p (Gen.Election.prevFrame nr.frame) ∧ N.creator p = i ∧ N.FC nr.id p ∧ Yp p := by
  constructor
  · rintro ⟨r, hr, hv, hy⟩
    obtain ⟨_, b, c, d⟩ := (seen_mem S nr hroot r).1 hr
    exact ⟨r.id, b, by rw [← c]; exact hv, d, hy⟩
  · rintro ⟨p, b, c, d, hy⟩
    exact ⟨⟨p, Gen.Election.prevFrame nr.frame, N.creator p⟩, (seen_mem S nr hroot _).2 ⟨rfl, b, rfl, d⟩, c, hy⟩

theorem seen_validators_nodup (S : Setup N vals f observe frameRoots) (nr : Root) (hroot : nr ∈ frameRoots nr.frame) :
    ((seenRoots observe frameRoots nr).map (·.validator)).Nodup := by
  have hnd : (seenRoots observe frameRoots nr).Nodup := List.Pairwise.filter _ (S.nodup _)
  unfold List.Nodup at *
  rw [List.pairwise_map]
  refine List.Pairwise.imp_of_mem ?_ hnd
  intro a b ha hb hne heq
  obtain ⟨a1, a2, a3, a4⟩ := (seen_mem S nr hroot a).1 ha
  obtain ⟨b1, b2, b3, b4⟩ := (seen_mem S nr hroot b).1 hb
  have hid : a.id = b.id := S.slots _ a.id b.id nr.id nr.id a2 b2 (by rw [← a3, ← b3]; exact heq) a4 b4
  apply hne
  cases a; cases b
  simp only at a1 b1 hid heq
  simp only [Root.mk.injEq]
  exact ⟨hid, a1.trans b1.symm, heq⟩

/-- first-round votes -/
theorem first_vote_facts (S : Setup N vals f observe frameRoots) (nr : Root) (hroot : nr ∈ frameRoots nr.frame)
    (hnr : N.IsRoot nr.id (f + 1))
    (hprev : Gen.Election.prevFrame nr.frame = f) (s : Nat) :
    VF N f 1 nr.id s (firstVote (seenMap (seenRoots observe frameRoots nr)) s) := by
  have sound : ∀ r, (seenMap (seenRoots observe frameRoots nr)).lookup s = some r →
      N.IsRoot r.id f ∧ N.creator r.id = s ∧ N.FC nr.id r.id := by
    intro r hl
    have hm := lookup_mem _ _ _ hl
    obtain ⟨h1, h2⟩ := seenMap_sound (seenRoots observe frameRoots nr) []
      (fun k r => r ∈ seenRoots observe frameRoots nr ∧ r.validator = k)
      (by intro x hx; cases hx) (fun r hr => ⟨hr, rfl⟩) (s, r) hm
    obtain ⟨_, b, c, d⟩ := (seen_mem S nr hroot r).1 h1
    rw [hprev] at b
    exact ⟨b, by rw [← c]; exact h2, d⟩
  cases hl : (seenMap (seenRoots observe frameRoots nr)).lookup s with
  | some r =>
    obtain ⟨b, c, d⟩ := sound r hl
    have e : firstVote (seenMap (seenRoots observe frameRoots nr)) s =
        { decided := false, yes := true, observedRoot := r.id } := by unfold firstVote; rw [hl]
    rw [e]
    exact { yes := ⟨fun _ => ⟨r.id, b, c, d⟩, fun _ => rfl⟩
            cand := fun _ => ⟨b, c, nr.id, hnr, d⟩
            decYes := by intro h; cases h
            decNo := by intro h; cases h
            decIff := ⟨(by intro h; cases h), fun h => absurd h (not_decides_one N f nr.id s)⟩ }
  | none =>
    have e : firstVote (seenMap (seenRoots observe frameRoots nr)) s = { decided := false, yes := false } := by
      unfold firstVote; rw [hl]
    rw [e]
    refine { yes := ⟨(by intro h; cases h), ?_⟩, cand := (by intro h; cases h),
             decYes := (by intro h; cases h), decNo := (by intro h; cases h),
             decIff := ⟨(by intro h; cases h), fun h => absurd h (not_decides_one N f nr.id s)⟩ }
    rintro ⟨b, hb, hc, hfc⟩
    exfalso
    have hm : (⟨b, f, s⟩ : Root) ∈ seenRoots observe frameRoots nr :=
      (seen_mem S nr hroot _).2 ⟨hprev.symm, by rw [hprev]; exact hb, hc.symm, hfc⟩
    have hk := (seenMap_keys (seenRoots observe frameRoots nr) []).2 _ hm
    obtain ⟨v, hv⟩ := lookup_isSome_of_key _ _ hk
    have hv' : (seenMap (seenRoots observe frameRoots nr)).lookup s = some v := hv
    rw [hl] at hv'; cases hv'

end Seen
section Later
variable {N : Net} {vals : Vals} {f : Nat} {observe : Nat → Nat → Bool} {frameRoots : Nat → List Root}

/-- later-round votes: the tally finishes, sees a quorum, and the vote is the one of the rules -/
theorem later_vote_facts (S : Setup N vals f observe frameRoots) {el : Election} (js : JS N vals f frameRoots el)
    (nr : Root) (hroot : nr ∈ frameRoots nr.frame) (j : Nat) (hj : 1 ≤ j) (hnr : N.IsRoot nr.id (f + (j + 1)))
    (hprev : Gen.Election.prevFrame nr.frame = f + j) (s : Nat)
    (hstored : ∀ r ∈ seenRoots observe frameRoots nr, ∃ vote, el.votes.lookup (r, s) = some vote) :
    ∃ t, tally el s (seenRoots observe frameRoots nr) (tally0 el) = .ok t ∧
      Gen.Election.notEnoughVotes (hasQuorum el.vals t.all) = false ∧ VF N f (j + 1) nr.id s (roundVote el t) := by
  have ok : ValsOK el.vals N.nVals N.w := by rw [js.vals]; exact S.vals
  have hobs : ∀ r ∈ seenRoots observe frameRoots nr, r.validator < N.nVals ∧ ¬ False ∧
      ∃ vote, el.votes.lookup (r, s) = some vote ∧ (vote.yes = true ↔ N.voteYes f j r.id s) ∧
        (vote.yes = true → Cand N f s vote.observedRoot) := by
    intro r hr
    obtain ⟨a, b, c, _⟩ := (seen_mem S nr hroot r).1 hr
    obtain ⟨vote, hl⟩ := hstored r hr
    obtain ⟨_, _, _, v4, v5⟩ := js.votes r s vote (lookup_mem _ _ _ hl)
    have e : r.frame - f = j := by rw [a, hprev]; omega
    rw [e] at v4
    exact ⟨by rw [c]; exact S.creators _ b.1, not_false, vote, hl, v4, v5⟩
  obtain ⟨t, ht, ts⟩ := tally_spec ok (Cand N f s) (fun b b' h h' => Cand.unique S.slots h h')
    (fun r => N.voteYes f j r.id s) s (seenRoots observe frameRoots nr) (tally0 el)
    (fun _ => False) (fun _ => False) (fun _ => False)
    ⟨CSet.new _ _, CSet.new _ _, CSet.new _ _, by intro b hb; cases hb⟩ hobs (seen_validators_nodup S nr hroot)
  -- the three sums are the caused weights of the rules
  have hyes : t.yes.sum = N.causedWeight nr.id (f + j) (fun p => N.voteYes f j p s) := by
    rw [ts.yes.sum ok]
    apply N.weightOf_congr
    intro i _
    rw [← hprev, ← seen_set_iff S nr hroot (fun p => N.voteYes f j p s) i]
    exact ⟨fun h => h.resolve_left not_false, Or.inr⟩
  have hno : t.no.sum = N.causedWeight nr.id (f + j) (fun p => ¬ N.voteYes f j p s) := by
    rw [ts.no.sum ok]
    apply N.weightOf_congr
    intro i _
    rw [← hprev, ← seen_set_iff S nr hroot (fun p => ¬ N.voteYes f j p s) i]
    exact ⟨fun h => h.resolve_left not_false, Or.inr⟩
  have hall : t.all.sum = N.causedWeight nr.id (f + j) (fun _ => True) := by
    rw [ts.all.sum ok]
    apply N.weightOf_congr
    intro i _
    rw [← hprev, ← seen_set_iff S nr hroot (fun _ => True) i]
    constructor
    · rintro (h | ⟨r, hr, hv⟩)
      · exact absurd h not_false
      · exact ⟨r, hr, hv, trivial⟩
    · rintro ⟨r, hr, hv, _⟩; exact Or.inr ⟨r, hr, hv⟩
  have hq := N.root_prev_quorum S.accepted (g := f + j) hnr (by omega)
  have hqa : hasQuorum el.vals t.all = true := by rw [hasQuorum_iff ok, hall]; exact hq
  have hqpos := N.quorum_pos
  have hvy : Gen.Election.voteYes t.yes.sum t.no.sum = true ↔ N.voteYes f (j + 1) nr.id s := by
    rw [N.voteYes_succ f j nr.id s hj, ← hyes, ← hno]
    unfold Gen.Election.voteYes
    simp
  have tinv : TInv (fun _ s b => Cand N f s b) el.frameToDecide s t :=
    tally_inv (fun _ s b => Cand N f s b) el s
      (fun k vote hm hy => (js.votes k.1 k.2 vote hm).2.2.2.2 hy) _ (tally0 el) t
      { some := (by intro x hx; cases hx), none := fun _ => ⟨rfl, rfl⟩ } ht
  have hdi : (roundVote el t).decided = true ↔ (N.DecidesYes f (j + 1) nr.id s ∨ N.DecidesNo f (j + 1) nr.id s) := by
    rw [N.decidesYes_succ f j nr.id s hj, N.decidesNo_succ f j nr.id s hj, ← hyes, ← hno,
      ← hasQuorum_iff ok, ← hasQuorum_iff ok]
    show Gen.Election.voteDecided (hasQuorum el.vals t.yes) (hasQuorum el.vals t.no) = true ↔ _
    unfold Gen.Election.voteDecided
    rw [Bool.or_eq_true]
    exact ⟨fun h => h.elim (fun a => Or.inl ⟨hnr, a⟩) (fun a => Or.inr ⟨hnr, a⟩),
      fun h => h.elim (fun a => Or.inl a.2) (fun a => Or.inr a.2)⟩
  refine ⟨t, ht, by rw [hqa]; rfl, { yes := hvy, cand := ?_, decYes := ?_, decNo := ?_, decIff := hdi }⟩
  · intro hy
    have hy' : Gen.Election.voteYes t.yes.sum t.no.sum = true := hy
    show Cand N f s (if Gen.Election.voteYes t.yes.sum t.no.sum = true then
      (match t.subject with | some h => h | none => 0) else 0)
    rw [if_pos hy']
    cases hs : t.subject with
    | some b => exact ts.subj b hs
    | none =>
      exfalso
      obtain ⟨h0, hna⟩ := tinv.none hs
      unfold Gen.Election.voteYes at hy'
      simp only [decide_eq_true_eq] at hy'
      rw [hna] at hy'
      omega
  · intro hd hy
    have hy' : t.yes.sum ≥ t.no.sum := by
      have : Gen.Election.voteYes t.yes.sum t.no.sum = true := hy
      unfold Gen.Election.voteYes at this; simpa using this
    have hd' : hasQuorum el.vals t.yes = true ∨ hasQuorum el.vals t.no = true := by
      have : Gen.Election.voteDecided (hasQuorum el.vals t.yes) (hasQuorum el.vals t.no) = true := hd
      unfold Gen.Election.voteDecided at this; simpa using this
    rw [hasQuorum_iff ok, hasQuorum_iff ok] at hd'
    rw [N.decidesYes_succ f j nr.id s hj, ← hyes]
    exact ⟨hnr, by omega⟩
  · intro hd hy
    have hy' : ¬ t.yes.sum ≥ t.no.sum := by
      have : Gen.Election.voteYes t.yes.sum t.no.sum = false := hy
      unfold Gen.Election.voteYes at this; simpa using this
    have hd' : hasQuorum el.vals t.yes = true ∨ hasQuorum el.vals t.no = true := by
      have : Gen.Election.voteDecided (hasQuorum el.vals t.yes) (hasQuorum el.vals t.no) = true := hd
      unfold Gen.Election.voteDecided at this; simpa using this
    rw [hasQuorum_iff ok, hasQuorum_iff ok] at hd'
    rw [N.decidesNo_succ f j nr.id s hj, ← hno]
    exact ⟨hnr, by omega⟩

end Later
theorem notDecided_sub {e e' : Election} (hv : e'.vals = e.vals)
    (hd : ∀ x ∈ e.decidedRoots, x ∈ e'.decidedRoots) : ∀ s ∈ notDecided e', s ∈ notDecided e := by
  intro s hs
  obtain ⟨h1, h2⟩ := List.mem_filter.1 hs
  rw [hv] at h1
  refine List.mem_filter.2 ⟨h1, ?_⟩
  cases hl : e.decidedRoots.lookup s with
  | none => rfl
  | some v =>
    exfalso
    have hm := hd _ (lookup_mem _ _ _ hl)
    exact lookup_none_not_mem _ _ h2 (List.mem_map.2 ⟨(s, v), hm, rfl⟩)

theorem key_of_lookup {α β} [BEq α] [LawfulBEq α] (l : List (α × β)) (k : α) (v : β)
    (h : l.lookup k = some v) : k ∈ l.map (·.1) :=
  List.mem_map.2 ⟨(k, v), lookup_mem _ _ _ h, rfl⟩

/-- the vote of root `nr` on subject `s`, as `voteLoop` computes it -/
def voteOf (observe : Nat → Nat → Bool) (frameRoots : Nat → List Root) (el : Election) (nr : Root) (s : Nat) : VoteValue :=
  if Gen.Election.firstRound (Gen.Election.round nr.frame el.frameToDecide) then
    firstVote (seenMap (seenRoots observe frameRoots nr)) s
  else match tally el s (seenRoots observe frameRoots nr) (tally0 el) with
    | .ok t => roundVote el t
    | .error _ => default

section Step
variable {N : Net} {vals : Vals} {f : Nat} {observe : Nat → Nat → Bool} {frameRoots : Nat → List Root}

/-- the voting branch of `processRoot`: no error, and every computed vote is the one of the rules -/
theorem vote_branch (S : Setup N vals f observe frameRoots) {el : Election} (js : JS N vals f frameRoots el)
    (fed : List Root) (hst : Stored f fed el) (nr : Root) (hroot : nr ∈ frameRoots nr.frame)
    (hb : nr.frame < 4294967296)
    (hclosed : ∀ p ∈ frameRoots (nr.frame - 1), f < p.frame → observe nr.id p.id = true → p ∈ fed)
    (hs : Gen.Election.skipOldRoot nr.frame el.frameToDecide = false) :
    voteLoop el nr (Gen.Election.round nr.frame el.frameToDecide) (seenMap (seenRoots observe frameRoots nr))
      (seenRoots observe frameRoots nr) (notDecided el) el =
        .ok (pushAll nr (voteOf observe frameRoots el nr) (notDecided el) el) ∧
    f < nr.frame ∧
    ∀ s ∈ notDecided el, VF N f (nr.frame - f) nr.id s (voteOf observe frameRoots el nr s) := by
  have hf := S.fbound
  obtain ⟨hlt, hround, hfirst, hlater, hprev⟩ := round_facts nr.frame el.frameToDecide hb (by rw [js.ftd]; exact hf) hs
  rw [js.ftd] at hlt hfirst hlater
  have hnrRoot : N.IsRoot nr.id nr.frame := (S.roots_sound _ nr hroot).2.1
  by_cases hfr : Gen.Election.firstRound (Gen.Election.round nr.frame el.frameToDecide) = true
  · -- round 1
    have hp := hfirst (by rw [← js.ftd]; exact hfr)
    have hk : nr.frame = f + 1 := by rw [hprev] at hp; omega
    have hvf : ∀ s, voteOf observe frameRoots el nr s = firstVote (seenMap (seenRoots observe frameRoots nr)) s := by
      intro s; unfold voteOf; rw [if_pos hfr]
    refine ⟨?_, hlt, ?_⟩
    · exact voteLoop_eq_pushAll el nr _ _ _ _ _ (fun _ s _ => hvf s) (fun h => by rw [hfr] at h; cases h) el
    · intro s _
      rw [hvf s, show nr.frame - f = 1 by omega]
      exact first_vote_facts S nr hroot (by rw [← hk]; exact hnrRoot) hp s
  · -- later rounds
    have hfr' : Gen.Election.firstRound (Gen.Election.round nr.frame el.frameToDecide) = false := by simpa using hfr
    have h2 := hlater (by rw [← js.ftd]; exact hfr')
    obtain ⟨j, hj⟩ : ∃ j, nr.frame = f + (j + 1) := ⟨nr.frame - f - 1, by omega⟩
    have hj1 : 1 ≤ j := by omega
    have hp : Gen.Election.prevFrame nr.frame = f + j := by rw [hprev]; omega
    have facts : ∀ s ∈ notDecided el, ∃ t, tally el s (seenRoots observe frameRoots nr) (tally0 el) = .ok t ∧
        Gen.Election.notEnoughVotes (hasQuorum el.vals t.all) = false ∧ VF N f (j + 1) nr.id s (roundVote el t) := by
      intro s hs
      apply later_vote_facts S js nr hroot j hj1 (by rw [← hj]; exact hnrRoot) hp s
      intro r hr
      obtain ⟨a, _, _, _⟩ := (seen_mem S nr hroot r).1 hr
      obtain ⟨h1, h2⟩ := List.mem_filter.1 hr
      rw [hprev] at h1
      exact hst r (hclosed r h1 (by rw [a, hp]; omega) h2) (by rw [a, hp]; omega) s hs
    have hvf : ∀ s ∈ notDecided el, ∃ t, tally el s (seenRoots observe frameRoots nr) (tally0 el) = .ok t ∧
        Gen.Election.notEnoughVotes (hasQuorum el.vals t.all) = false ∧
        voteOf observe frameRoots el nr s = roundVote el t ∧ VF N f (j + 1) nr.id s (roundVote el t) := by
      intro s hs
      obtain ⟨t, ht, hne, hvf⟩ := facts s hs
      refine ⟨t, ht, hne, ?_, hvf⟩
      unfold voteOf
      rw [if_neg hfr, ht]
    refine ⟨?_, hlt, ?_⟩
    · apply voteLoop_eq_pushAll el nr _ _ _ _ _ (fun h => by rw [hfr'] at h; cases h)
      intro _ s hs
      obtain ⟨t, ht, hne, e, _⟩ := hvf s hs
      exact ⟨t, ht, hne, e⟩
    · intro s hs
      obtain ⟨t, _, _, e, vfact⟩ := hvf s hs
      rw [e, show nr.frame - f = j + 1 by omega]
      exact vfact

end Step
end ElectionRefine
