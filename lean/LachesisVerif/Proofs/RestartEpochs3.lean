import LachesisVerif.Proofs.RestartEpochs2
/-!
Composition, part 9: restarts in a several-epoch run of the combined model. `runEpochsIxR` is
`Compose.runEpochsIx` with restarts (`restartIndexed`) at arbitrary points of arbitrary epochs;
`indexed_epochs_restarts`: it emits literally the block list of the plain run and ends with the same
persisted Orderer state, index and indexing order. Per epoch `epoch_restart_lockstep`; a seal leaves both
runs exactly in `Model.Indexed.initial (ep+1) nv`, so the run decomposes into per-epoch runs from `initial`
(as in `indexed_epochs_agree`).
-/
namespace Compose
open Model.Pos Model.Election Model.Orderer Model.Vec Model.Indexed VecProofs ElectionRules ElectionRefine
open OrdererProofs OrdererEpochs OrdererRestart OrdererRestart3

/-- what the instance is given in one epoch, and where it is restarted: `rs[i]` restarts before the
    `i`-th submitted event of the epoch (missing entries = 0), `rs[ids.length]` after the last one -/
structure IEpochInR where
  N : Net
  ids : List Nat
  rs : List Nat

/-- the same input without the restarts -/
def IEpochInR.plain (e : IEpochInR) : IEpochIn := ⟨e.N, e.ids⟩

/-- epoch after epoch with restarts; otherwise as `runEpochsIx` -/
def runEpochsIxR (app : App) : List IEpochInR → IState → List Block → Option (IState × List Block)
  | [], s, out => some (s, out)
  | e :: rest, s, out =>
    match runEpochIxR e.N app e.ids e.rs s [] with
    | none => none
    | some (s', bs, _) => if bs.any (·.d.sealed) then runEpochsIxR app rest s' (out ++ bs) else some (s', out ++ bs)

/-- the graph-side hypotheses, epoch by epoch: the instance is in epoch `ep` with validators `vals` -/
def GRestartsOK (sealAt : Nat → Nat → Option Vals) : Nat → Vals → List IEpochInR → Prop
  | _, _, [] => True
  | ep, vals, p :: rest =>
    GOK p.N vals ∧ PFFrom p.N [] p.ids ∧
    ∀ nv, (∃ F, sealAt ep F = some nv) → GRestartsOK sealAt (Gen.Orderer.sealedEpoch ep) nv rest

/-- one epoch from `initial`, with and without restarts -/
theorem epoch_restarts_initial {N : Net} {vals : Vals} (app : App) (G : GOK N vals) (ep : Nat) (ids rs : List Nat)
    (pf : PFFrom N [] ids) :
    ∃ t₁ t₂ bs sk, runEpochIx N app ids (Model.Indexed.initial ep vals) [] = some (t₁, bs, sk) ∧
      runEpochIxR N app ids rs (Model.Indexed.initial ep vals) [] = some (t₂, bs, sk) ∧
      (∀ b ∈ bs, b.cheaters = specCheaters N b.d.atropos) ∧
      ((bs.any (·.d.sealed) = true ∧ ∃ nv, (∃ F, app.sealAt ep F = some nv) ∧
          t₁ = Model.Indexed.initial (Gen.Orderer.sealedEpoch ep) nv ∧
          t₂ = Model.Indexed.initial (Gen.Orderer.sealedEpoch ep) nv) ∨
       (bs.any (·.d.sealed) = false ∧ sk = [] ∧ SamePersisted t₁.o t₂.o ∧ t₁.v = t₂.v ∧ t₁.evs = t₂.evs ∧
          t₁.o.epoch = ep ∧ t₁.o.vals = vals)) := by
  obtain ⟨I0, O0⟩ := initial_inv (ctx_unsealed G app) ep
  obtain ⟨t₁, t₂, more, sk, r1, r2, hch, hcase⟩ := epoch_restart_lockstep app G ep ids rs (Model.Orderer.initial ep vals)
    (Model.Orderer.initial ep vals).el (VState.init vals.len) [] [] [] [] (cInv_initial G.ok ep) (cInv_initial G.ok ep)
    I0 O0 O0 rfl (fun _ => Iff.rfl) pf
  exact ⟨t₁, t₂, more, sk, r1, r2, hch, hcase⟩

/-- **Several epochs of the combined model with restarts.** -/
theorem indexed_epochs_restarts (app : App) : ∀ (ps : List IEpochInR) (ep : Nat) (vals : Vals) (out : List Block),
    GRestartsOK app.sealAt ep vals ps →
    ∃ t₁ t₂ bs, runEpochsIx app (ps.map IEpochInR.plain) (Model.Indexed.initial ep vals) out = some (t₁, bs) ∧
      runEpochsIxR app ps (Model.Indexed.initial ep vals) out = some (t₂, bs) ∧
      SamePersisted t₁.o t₂.o ∧ t₁.v = t₂.v ∧ t₁.evs = t₂.evs := by
  intro ps
  induction ps with
  | nil => intro ep vals out _; exact ⟨_, _, out, rfl, rfl, ⟨rfl, rfl, rfl, rfl⟩, rfl, rfl⟩
  | cons p rest ih =>
    intro ep vals out hok
    obtain ⟨G, pf, hnext⟩ := hok
    obtain ⟨t₁, t₂, bs, sk, r₁, r₂, _, hcase⟩ := epoch_restarts_initial app G ep p.ids p.rs pf
    rcases hcase with ⟨hany, nv, hF, rfl, rfl⟩ | ⟨hany, _, hsp, hv, he, _, _⟩
    · obtain ⟨u₁, u₂, bs', a, b, c⟩ := ih (Gen.Orderer.sealedEpoch ep) nv (out ++ bs) (hnext nv hF)
      refine ⟨u₁, u₂, bs', ?_, ?_, c⟩
      · simp only [List.map_cons, runEpochsIx, IEpochInR.plain, r₁, hany, if_true]; exact a
      · simp only [runEpochsIxR, r₂, hany, if_true]; exact b
    · refine ⟨t₁, t₂, out ++ bs, ?_, ?_, hsp, hv, he⟩
      · simp only [List.map_cons, runEpochsIx, IEpochInR.plain, r₁, hany, Bool.false_eq_true, if_false]
      · simp only [runEpochsIxR, r₂, hany, Bool.false_eq_true, if_false]

end Compose
