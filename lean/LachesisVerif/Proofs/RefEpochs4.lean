import LachesisVerif.Proofs.RefEpochs3
/-!
# Several epochs, part 4: model = reference over a sequence of epochs

`refEpochs` drives the reference epoch after epoch (the reference analogue of `OrdererEpochs.runEpochs`);
`runEpochsNamed` is `runEpochs` with every decided frame translated to the reference's naming of that
epoch's events (`runEpochsNamed_runEpochs`). `BothOK`: the hypotheses, epoch by epoch.
`SameTransitions`: how the two end states are tied. `epochs_model_eq_reference`: same key sequence,
same transitions.
-/
namespace RefEpochs
open Spec.Lachesis RefEquiv VecProofs ElectionRules OrdererProofs OrdererEpochs
open Model.Pos Model.Election Model.Orderer
open Spec.Lachesis.Inst (Block)

/-- what the two sides are given in one epoch -/
structure EpochBoth where
  /-- the events the reference accepts in this epoch, in the reference's order -/
  evs : List Ev
  /-- the reference's state after all of them with the empty seal table: it names the epoch's graph
      (`netOf fin`) and its events (position ↦ protocol number) -/
  fin : Inst
  /-- the model's oracles in this epoch -/
  env : Env
  /-- the model's processing order (positions in `fin`) -/
  ids : List Nat

def EpochBoth.name (p : EpochBoth) : Nat → Nat := fun a => (p.fin.ev a).n
def EpochBoth.model (p : EpochBoth) : EpochIn := ⟨netOf p.fin, p.env, p.ids⟩

/-- the reference, epoch after epoch; the next epoch's events are submitted only after a seal -/
def refEpochs (seals : Seals) : List (List Ev) → Inst → List Block → Option (Inst × List Block)
  | [], s, out => some (s, out)
  | evs :: rest, s, out =>
    match refEpoch seals evs s [] with
    | none => none
    | some (s', bs, _) => if bs.any (·.sealed) then refEpochs seals rest s' (out ++ bs) else some (s', out ++ bs)

/-- `OrdererEpochs.runEpochs` emitting keys: the Atropos of each epoch named by that epoch's `name` -/
def runEpochsNamed : List EpochBoth → OState → List Key → Option (OState × List Key)
  | [], s, out => some (s, out)
  | p :: rest, s, out =>
    match runEpoch (netOf p.fin) p.env p.ids s [] with
    | none => none
    | some (s', ds, _) =>
      if ds.any (·.sealed) then runEpochsNamed rest s' (out ++ ds.map (dkey p.name))
      else some (s', out ++ ds.map (dkey p.name))

/-- the hypotheses, epoch by epoch: the reference is `start ep rvals`, the model `initial ep vals` -/
def BothOK (seals : Seals) (sealAt : Nat → Nat → Option Vals) :
    Nat → List (Nat × Nat) → Vals → List EpochBoth → Prop
  | _, _, _, [] => True
  | ep, rvals, vals, p :: rest =>
    (∃ out, Run ep rvals p.evs p.fin out) ∧ Ctx (netOf p.fin) vals (noSeal p.env) ∧ p.env.sealAt = sealAt ∧
    PFFrom (netOf p.fin) [] p.ids ∧ (∀ e, e < p.fin.size → e ∈ p.ids) ∧ ep + 1 < 4294967296 ∧
    SealsAgree seals sealAt ep ∧
    ∀ F nv pairs, sealAt ep F = some nv → seals.lookup (ep, F) = some pairs →
      BothOK seals sealAt (ep + 1) (canonVals pairs) nv rest

/-- the two end states after the epochs `ps`, started in epoch `ep` as `initial ep vals` /
    `start ep rvals`: every listed epoch but possibly the last was sealed by entries of the two tables
    at the same `(epoch, frame)`, the next epoch starting from exactly `initial (ep+1) nv` /
    `Inst.fresh (ep+1) pairs`; the last listed epoch either sealed too (both are the fresh instances of
    the next epoch) or did not (same epoch, the epoch's validators, same last decided frame) -/
def SameTransitions (seals : Seals) (sealAt : Nat → Nat → Option Vals) :
    Nat → List (Nat × Nat) → Vals → List EpochBoth → OState → Inst → Prop
  | ep, rvals, vals, [], sm, sr => sm = initial ep vals ∧ sr = start ep rvals
  | ep, rvals, vals, _ :: rest, sm, sr =>
    (∃ F nv pairs, sealAt ep F = some nv ∧ seals.lookup (ep, F) = some pairs ∧
      SameTransitions seals sealAt (ep + 1) (canonVals pairs) nv rest sm sr) ∨
    (sm.epoch = ep ∧ sr.epoch = ep ∧ sm.vals = vals ∧ sr.vals = rvals ∧ sm.ldf = sr.ldf)

theorem sameTransitions_end (seals : Seals) (sealAt : Nat → Nat → Option Vals) : ∀ (ps : List EpochBoth)
    (ep : Nat) (rvals : List (Nat × Nat)) (vals : Vals) (sm : OState) (sr : Inst),
    SameTransitions seals sealAt ep rvals vals ps sm sr → sm.epoch = sr.epoch ∧ sm.ldf = sr.ldf := by
  intro ps
  induction ps with
  | nil => intro ep rvals vals sm sr h; obtain ⟨rfl, rfl⟩ := h; exact ⟨rfl, rfl⟩
  | cons p rest ih =>
    intro ep rvals vals sm sr h
    rcases h with ⟨F, nv, pairs, _, _, h⟩ | ⟨h1, h2, _, _, h5⟩
    · exact ih _ _ _ _ _ h
    · exact ⟨h1.trans h2.symm, h5⟩

/-- forgetting the names, `runEpochsNamed` is the model run `OrdererEpochs.runEpochs` of C01 -/
theorem runEpochsNamed_runEpochs : ∀ (ps : List EpochBoth) (s : OState) (ks : List Key) (ds : List Decided),
    ks.map (fun k => (k.1, k.2.1, k.2.2.2)) = ds.map (fun d => (d.epoch, d.frame, d.sealed)) →
    ∀ (sm : OState) (ks' : List Key), runEpochsNamed ps s ks = some (sm, ks') →
    ∃ ds', runEpochs (ps.map EpochBoth.model) s ds = some (sm, ds') ∧
      ks'.map (fun k => (k.1, k.2.1, k.2.2.2)) = ds'.map (fun d => (d.epoch, d.frame, d.sealed)) := by
  intro ps
  induction ps with
  | nil =>
    intro s ks ds hk sm ks' h
    simp only [runEpochsNamed, Option.some.injEq, Prod.mk.injEq] at h
    obtain ⟨rfl, rfl⟩ := h
    exact ⟨ds, rfl, hk⟩
  | cons p rest ih =>
    intro s ks ds hk sm ks' h
    simp only [runEpochsNamed] at h
    simp only [List.map_cons, runEpochs, EpochBoth.model]
    cases hre : runEpoch (netOf p.fin) p.env p.ids s [] with
    | none => rw [hre] at h; cases h
    | some q =>
      obtain ⟨s', dd, sk⟩ := q
      rw [hre] at h
      simp only at h ⊢
      have hk' : (ks ++ dd.map (dkey p.name)).map (fun k => (k.1, k.2.1, k.2.2.2)) =
          (ds ++ dd).map (fun d => (d.epoch, d.frame, d.sealed)) := by
        rw [List.map_append, List.map_append, hk, List.map_map]
        rfl
      by_cases hany : dd.any (·.sealed) = true
      · rw [if_pos hany] at h ⊢
        exact ih _ _ _ hk' _ _ h
      · rw [if_neg hany] at h ⊢
        simp only [Option.some.injEq, Prod.mk.injEq] at h
        obtain ⟨rfl, rfl⟩ := h
        exact ⟨_, rfl, hk'⟩

/-- **Model = reference over several epochs.** -/
theorem epochs_model_eq_reference (seals : Seals) (sealAt : Nat → Nat → Option Vals) :
    ∀ (ps : List EpochBoth) (ep : Nat) (rvals : List (Nat × Nat)) (vals : Vals) (outr : List Block),
    BothOK seals sealAt ep rvals vals ps →
    ∃ sm sr bs, runEpochsNamed ps (initial ep vals) (outr.map bkey) = some (sm, bs.map bkey) ∧
      refEpochs seals (ps.map (·.evs)) (start ep rvals) outr = some (sr, bs) ∧
      SameTransitions seals sealAt ep rvals vals ps sm sr := by
  intro ps
  induction ps with
  | nil => intro ep rvals vals outr _; exact ⟨_, _, outr, rfl, rfl, rfl, rfl⟩
  | cons p rest ih =>
    intro ep rvals vals outr hok
    obtain ⟨⟨out, hrun⟩, C, hsa, hpf, hall, hepb, hag, hnext⟩ := hok
    obtain ⟨sm, ds, skm, sr, bs, skr, rm, rr, hk, hcase⟩ :=
      epoch_model_eq_reference hrun C seals (by rw [hsa]; exact hag) p.ids hpf hall hepb
    rcases hcase with ⟨hanym, hanyr, F, nv, pairs, hF1, hF2, rfl, rfl⟩ | ⟨hanym, hanyr, _, _, e1, e2, v1, v2, hl⟩
    · rw [hsa] at hF1
      obtain ⟨tm, tr, bs', a, b, c⟩ := ih (ep + 1) (canonVals pairs) nv (outr ++ bs) (hnext F nv pairs hF1 hF2)
      refine ⟨tm, tr, bs', ?_, ?_, Or.inl ⟨F, nv, pairs, hF1, hF2, c⟩⟩
      · simp only [runEpochsNamed, rm, hanym, if_true]
        rw [show p.name = fun a => (p.fin.ev a).n from rfl, hk, ← List.map_append]
        exact a
      · simp only [List.map_cons, refEpochs, rr, hanyr, if_true]
        exact b
    · refine ⟨sm, sr, outr ++ bs, ?_, ?_, Or.inr ⟨e1, e2, v1, v2, hl⟩⟩
      · simp only [runEpochsNamed, rm, hanym, Bool.false_eq_true, if_false]
        rw [show p.name = fun a => (p.fin.ev a).n from rfl, hk, ← List.map_append]
      · simp only [List.map_cons, refEpochs, rr, hanyr, Bool.false_eq_true, if_false]

end RefEpochs
