import LachesisVerif.Proofs.VecLA5
/-!
C05, part 6: order independence at the level of the graph definition. Two histories that are
re-orderings of one another (`HistIso`: a bijection of positions preserving creator, seq and
parents) have the same `Anc`, `ForkSeen` and `FCSpec` up to the bijection.
-/
namespace VecProofs
open Model.Vec

/-- `f`/`g` are mutually inverse maps between the positions of `h` and `h'` that preserve events -/
structure HistIso (h h' : Hist) (f g : Nat → Nat) : Prop where
  f_lt : ∀ i, i < h.length → f i < h'.length
  g_lt : ∀ j, j < h'.length → g j < h.length
  gf : ∀ i, i < h.length → g (f i) = i
  fg : ∀ j, j < h'.length → f (g j) = j
  creator : ∀ i, i < h.length → (Hist.ev h' (f i)).creator = (Hist.ev h i).creator
  seq : ∀ i, i < h.length → (Hist.ev h' (f i)).seq = (Hist.ev h i).seq
  parents : ∀ i, i < h.length → (Hist.ev h' (f i)).parents = (Hist.ev h i).parents.map f

section Iso
variable {h h' : Hist} {f g : Nat → Nat}

theorem HistIso.symm (I : HistIso h h' f g) (hpf : PF h) : HistIso h' h g f where
  f_lt := I.g_lt
  g_lt := I.f_lt
  gf := I.fg
  fg := I.gf
  creator := fun j hj => by have := I.creator (g j) (I.g_lt j hj); rw [I.fg j hj] at this; exact this.symm
  seq := fun j hj => by have := I.seq (g j) (I.g_lt j hj); rw [I.fg j hj] at this; exact this.symm
  parents := fun j hj => by
    have hgj := I.g_lt j hj
    have := I.parents (g j) hgj
    rw [I.fg j hj] at this
    rw [this, List.map_map]
    have hid : ∀ p, p ∈ (Hist.ev h (g j)).parents → (g ∘ f) p = p := by
      intro p hp
      have := hpf (g j) hgj p hp
      exact I.gf p (by omega)
    rw [List.map_congr_left hid, List.map_id'' (fun _ => rfl)]

theorem la_iso_anc_fwd (I : HistIso h h' f g) {a x : Nat} (hax : Anc h a x) : Anc h' (f a) (f x) := by
  induction hax with
  | refl hlt => exact Anc.refl (I.f_lt _ hlt)
  | step hlt hp _ ih =>
    refine Anc.step (I.f_lt _ hlt) ?_ ih
    rw [I.parents _ hlt]; exact List.mem_map_of_mem hp

theorem la_iso_anc_iff (I : HistIso h h' f g) (hpf : PF h) {a x : Nat} (ha : a < h.length)
    (hx : x < h.length) : Anc h a x ↔ Anc h' (f a) (f x) := by
  refine ⟨la_iso_anc_fwd I, fun hax => ?_⟩
  have := la_iso_anc_fwd (I.symm hpf) hax
  rwa [I.gf a ha, I.gf x hx] at this

theorem la_iso_fork_fwd (I : HistIso h h' f g) {a c : Nat} (hf : ForkSeen h a c) :
    ForkSeen h' (f a) c := by
  obtain ⟨x, y, hne, hx, hy, hcx, hcy, hs⟩ := hf
  have hxl := la_anc_lt_right' hx
  have hyl := la_anc_lt_right' hy
  refine ⟨f x, f y, ?_, la_iso_anc_fwd I hx, la_iso_anc_fwd I hy, ?_, ?_, ?_⟩
  · intro heq
    apply hne
    rw [← I.gf x hxl, ← I.gf y hyl, heq]
  · rw [I.creator x hxl]; exact hcx
  · rw [I.creator y hyl]; exact hcy
  · rw [I.seq x hxl, I.seq y hyl]; exact hs

theorem la_iso_fork_iff (I : HistIso h h' f g) (hpf : PF h) {a : Nat} (ha : a < h.length) (c : Nat) :
    ForkSeen h a c ↔ ForkSeen h' (f a) c := by
  refine ⟨la_iso_fork_fwd I, fun hf => ?_⟩
  have := la_iso_fork_fwd (I.symm hpf) hf
  rwa [I.gf a ha] at this

theorem la_iso_between_fwd (I : HistIso h h' f g) {a b v : Nat}
    (hb : ∃ e, (Hist.ev h e).creator = v ∧ Anc h e b ∧ Anc h a e) :
    ∃ e, (Hist.ev h' e).creator = v ∧ Anc h' e (f b) ∧ Anc h' (f a) e := by
  obtain ⟨e, hc, heb, hae⟩ := hb
  have he := la_anc_lt_left heb
  exact ⟨f e, by rw [I.creator e he]; exact hc, la_iso_anc_fwd I heb, la_iso_anc_fwd I hae⟩

open Classical in
/-- the graph definition of forkless cause depends on the graph only, not on the indexing order -/
theorem la_iso_fcspec (I : HistIso h h' f g) (hpf : PF h) (nVals : Nat) (weight : Nat → Nat)
    (quorum : Nat) {a b : Nat} (ha : a < h.length) (hb : b < h.length) :
    FCSpec h nVals weight quorum a b ↔ FCSpec h' nVals weight quorum (f a) (f b) := by
  unfold FCSpec
  rw [I.creator b hb, la_iso_fork_iff I hpf ha]
  have hfil : (List.range nVals).filter (fun v => decide
        (¬ ForkSeen h a v ∧ ∃ e, (Hist.ev h e).creator = v ∧ Anc h e b ∧ Anc h a e)) =
      (List.range nVals).filter (fun v => decide
        (¬ ForkSeen h' (f a) v ∧ ∃ e, (Hist.ev h' e).creator = v ∧ Anc h' e (f b) ∧ Anc h' (f a) e)) := by
    apply List.filter_congr
    intro v _
    rw [decide_eq_decide, la_iso_fork_iff I hpf ha]
    apply and_congr_right; intro _
    refine ⟨la_iso_between_fwd I, fun hx => ?_⟩
    have := la_iso_between_fwd (I.symm hpf) hx
    rwa [I.gf a ha, I.gf b hb] at this
  rw [hfil]

end Iso
end VecProofs
