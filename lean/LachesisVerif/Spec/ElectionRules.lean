import LachesisVerif.Proofs.VecDefs
/-!
Prop-level (graph-level) statement of the Lachesis election rules, from the rule text of C10
(DESIGN Appendix F): forkless cause = `FCSpec` of C05, roots, the frame rule, votes by recursion on
the round, decisions, the Atropos, forkers and the BFT hypothesis. Events are positions in a
parents-first history (`VecProofs.Hist`), validators are canonical indices `< nVals`, `fr` gives the
accepted frame of every event. Nothing here is executable; the theorems about these definitions are
in `Proofs/ElectionGraph*.lean` and are stated in `Props/C10.lean`.
-/
namespace ElectionRules
open VecProofs
open Classical

structure Net where
  h : Hist
  nVals : Nat
  w : Nat → Nat            -- weight by canonical validator index
  fr : Nat → Nat           -- accepted frame of each event (position)

namespace Net
variable (N : Net)

noncomputable def weightOf (P : Nat → Prop) : Nat :=
  (((List.range N.nVals).filter (fun v => decide (P v))).map N.w).sum
noncomputable def total : Nat := N.weightOf (fun _ => True)
noncomputable def quorum : Nat := N.total * 2 / 3 + 1
def creator (e : Nat) : Nat := (N.h.ev e).creator

/-- C05: graph definition of forkless cause -/
def FC (a b : Nat) : Prop :=
  ¬ ForkSeen N.h a (N.creator b) ∧
  N.quorum ≤ N.weightOf (fun v => ¬ ForkSeen N.h a v ∧ ∃ e, N.creator e = v ∧ Anc N.h e b ∧ Anc N.h a e)

/-- `FC` is `FCSpec` (the statement proved about the vector index in C05) at this net's weights -/
theorem FC_eq_FCSpec (a b : Nat) : N.FC a b ↔ FCSpec N.h N.nVals N.w N.quorum a b := by
  unfold FC FCSpec weightOf creator
  apply Iff.of_eq
  congr 6
  funext v
  congr

/-- frame of the self-parent (0 if none) -/
def spf (e : Nat) : Nat :=
  if (N.h.ev e).seq ≤ 1 then 0 else match (N.h.ev e).parents with | [] => 0 | p :: _ => N.fr p

def IsRoot (e f : Nat) : Prop := e < N.h.length ∧ N.spf e < f ∧ f ≤ N.fr e

/-- weight of the creators of the roots of frame `f` that forkless-cause `e` and satisfy `P` -/
noncomputable def causedWeight (e f : Nat) (P : Nat → Prop) : Nat :=
  N.weightOf (fun u => ∃ r, N.IsRoot r f ∧ N.creator r = u ∧ N.FC e r ∧ P r)

/-- C04: the frames that may be claimed by `e`. The quorum is counted over the roots *other than
    `e` itself* (as `quorumOn` of the executable reference does, `r != i`): when the frame of an event
    is checked the event is not yet a root. The difference only shows when one validator alone holds
    a quorum (then `FC e e`). -/
def Allowed (e f : Nat) : Prop :=
  if (N.h.ev e).seq ≤ 1 then f = 1
  else N.spf e ≤ f ∧ ∀ g, N.spf e ≤ g → g < f → N.quorum ≤ N.causedWeight e g (fun r => r ≠ e)

def FramesAccepted : Prop := ∀ e, e < N.h.length → N.Allowed e (N.fr e)

/-- vote of root `r` (as a root of frame `f + k`) on subject `v` in the election of frame `f` -/
noncomputable def voteYes (f : Nat) : Nat → Nat → Nat → Prop
  | 0, _, _ => False
  | 1, r, v => ∃ b, N.IsRoot b f ∧ N.creator b = v ∧ N.FC r b
  | k + 2, r, v =>
      N.causedWeight r (f + k + 1) (fun p => ¬ voteYes f (k + 1) p v) ≤
      N.causedWeight r (f + k + 1) (fun p => voteYes f (k + 1) p v)

def DecidesYes (f k r v : Nat) : Prop :=
  2 ≤ k ∧ N.IsRoot r (f + k) ∧ N.quorum ≤ N.causedWeight r (f + k - 1) (fun p => N.voteYes f (k - 1) p v)
def DecidesNo (f k r v : Nat) : Prop :=
  2 ≤ k ∧ N.IsRoot r (f + k) ∧ N.quorum ≤ N.causedWeight r (f + k - 1) (fun p => ¬ N.voteYes f (k - 1) p v)

def DecidedYes (f v : Nat) : Prop := ∃ k r, N.DecidesYes f k r v
def DecidedNo (f v : Nat) : Prop := ∃ k r, N.DecidesNo f k r v

/-- the Atropos of frame `f` is root `a` -/
def IsAtropos (f a : Nat) : Prop :=
  ∃ v, v < N.nVals ∧ N.DecidedYes f v ∧ (∀ u, u < v → N.DecidedNo f u) ∧
       N.IsRoot a f ∧ N.creator a = v ∧ ∃ r, N.IsRoot r (f + 1) ∧ N.FC r a

/-- validators that fork anywhere in the history -/
def Forker (v : Nat) : Prop :=
  ∃ x y, x ≠ y ∧ x < N.h.length ∧ y < N.h.length ∧ N.creator x = v ∧ N.creator y = v ∧
    (N.h.ev x).seq = (N.h.ev y).seq
def BFT : Prop := 3 * N.weightOf N.Forker < N.total

/-! ### the lemma chain (statements; proofs in `Proofs/ElectionGraph.lean`, `ElectionL2/L4/L6.lean`) -/

/-- L1 (quorum arithmetic as in C11): two quorums share a never-forking validator -/
def L1 : Prop := N.BFT → ∀ P Q : Nat → Prop, N.quorum ≤ N.weightOf P → N.quorum ≤ N.weightOf Q →
  ∃ v, v < N.nVals ∧ P v ∧ Q v ∧ ¬ N.Forker v

/-- L2: two different roots of one slot never both forkless-cause anything -/
def L2 : Prop := Valid N.nVals N.h → N.FramesAccepted → N.BFT →
  ∀ f b₁ b₂ a a', N.IsRoot b₁ f → N.IsRoot b₂ f → N.creator b₁ = N.creator b₂ → b₁ ≠ b₂ →
    ¬ (N.FC a b₁ ∧ N.FC a' b₂)

/-- L4: a decision fixes all later votes and excludes the opposite decision -/
def L4 : Prop := Valid N.nVals N.h → N.FramesAccepted → N.BFT →
  ∀ f v, (N.DecidedYes f v → ¬ N.DecidedNo f v) ∧
    (∀ k r, N.DecidesYes f k r v → ∀ k' r', k ≤ k' → N.IsRoot r' (f + k') → N.voteYes f k' r' v) ∧
    (∀ k r, N.DecidesNo f k r v → ∀ k' r', k ≤ k' → N.IsRoot r' (f + k') → ¬ N.voteYes f k' r' v)

/-- consequence used by C10/C01: the Atropos is unique -/
def AtroposUnique : Prop := Valid N.nVals N.h → N.FramesAccepted → N.BFT →
  ∀ f a a', N.IsAtropos f a → N.IsAtropos f a' → a = a'

/-- L6: not every subject is decided "no" (proved in `Proofs/ElectionL6.lean`). Frames start at 1:
    for `f = 0` there are no roots to vote for, every round-1 vote is "no", and any root of frame 2
    decides every subject "no" — hence `1 ≤ f` (the Orderer only ever decides frames ≥ 1). -/
def L6 : Prop := Valid N.nVals N.h → N.FramesAccepted → N.BFT → ∀ f, 1 ≤ f → ¬ ∀ v, v < N.nVals → N.DecidedNo f v

end Net
end ElectionRules
