/-! Byte strings as `List Nat` (entries < 256) with the lexicographic order of `bytes.Compare`. -/
abbrev Bytes := List Nat

namespace Bytes

def lexLt : Bytes → Bytes → Bool
  | [], [] => false
  | [], _ :: _ => true
  | _ :: _, [] => false
  | a :: as, b :: bs => decide (a < b) || (a == b && lexLt as bs)

def lexLe (a b : Bytes) : Bool := !lexLt b a

/-- sign of `bytes.Compare a b` as "lt" / "eq" / "gt" -/
def cmpStr (a b : Bytes) : String := if lexLt a b then "lt" else if lexLt b a then "gt" else "eq"

def isPrefix : Bytes → Bytes → Bool
  | [], _ => true
  | _ :: _, [] => false
  | a :: as, b :: bs => a == b && isPrefix as bs

end Bytes
