import LachesisVerif.Model.Pos
/-!
# Reference implementation of the Lachesis rules (graph level)

An independent, naive, executable implementation of the rules quoted in properties C04, C05, C06,
C10, C02, C03 — written from the rule text, not from the structure of the Go code:

* ancestry by transitive closure (bit masks over the positions of an instance's events),
* fork = two different events of one creator with equal seq inside an ancestry,
* forkless cause = no fork of B's creator seen by A, and a quorum of unforked validators having an
  event between B and A,
* frame rule, roots, round-1 votes, weighted majority (tie = yes), decision on quorum, Atropos =
  root voted for by the first validator in canonical order decided yes with all earlier decided no,
* block = (frame, atropos, cheaters in canonical order, newly confirmed ancestry).

It is the oracle of the `cons` correspondence stream (and of `vec`). Sets are `Nat` bit masks.
-/
namespace Spec.Lachesis

structure Ev where
  n : Nat            -- protocol number (stands for the event id)
  epoch : Nat
  creator : Nat      -- validator id
  seq : Nat
  lamport : Nat
  frame : Nat        -- claimed / accepted frame
  parents : List Nat -- protocol numbers; self-parent first when seq > 1
deriving Repr, Inhabited

/-- state of one consensus instance (current epoch only) -/
structure Inst where
  epoch : Nat := 1
  vals : List (Nat × Nat) := []       -- canonical order (id, weight)
  evs : Array Ev := #[]               -- accepted events of the epoch, in processing order
  anc : Array Nat := #[]              -- ancestors-or-self mask
  desc : Array Nat := #[]             -- descendants-or-self mask
  forks : Array Nat := #[]            -- mask over validator indices: fork visible in the ancestry
  byCreator : Array Nat := #[]        -- validator index -> mask of its events
  ldf : Nat := 0                      -- last decided frame
  confirmed : Nat := 0                -- mask of events delivered in blocks
deriving Inhabited

def bit (m i : Nat) : Bool := m.testBit i

def members (m n : Nat) : List Nat := (List.range n).filter (bit m)

namespace Inst

def nv (s : Inst) : Nat := s.vals.length
def total (s : Inst) : Nat := (s.vals.map (·.2)).foldl (· + ·) 0
def quorum (s : Inst) : Nat := s.total * 2 / 3 + 1
def weightIdx (s : Inst) (v : Nat) : Nat := (s.vals.getD v (0, 0)).2
def idOf (s : Inst) (v : Nat) : Nat := (s.vals.getD v (0, 0)).1
def idxOf (s : Inst) (id : Nat) : Option Nat := s.vals.findIdx? (fun p => p.1 == id)
def size (s : Inst) : Nat := s.evs.size
def ev (s : Inst) (i : Nat) : Ev := s.evs.getD i default
def posOf (s : Inst) (n : Nat) : Option Nat := s.evs.findIdx? (fun e => e.n == n)
def creatorIdx (s : Inst) (i : Nat) : Nat := (s.idxOf (s.ev i).creator).getD 0
def ancOf (s : Inst) (i : Nat) : Nat := s.anc.getD i 0
def descOf (s : Inst) (i : Nat) : Nat := s.desc.getD i 0
def forksOf (s : Inst) (i : Nat) : Nat := s.forks.getD i 0

/-- weight of a set of validator indices given as a mask -/
def weightMask (s : Inst) (m : Nat) : Nat :=
  ((List.range s.nv).filter (bit m)).foldl (fun acc v => acc + s.weightIdx v) 0

/-- two different events of validator index `v` with equal seq inside the event set `m` -/
def forkIn (s : Inst) (m v : Nat) : Bool :=
  let es := members (m &&& s.byCreator.getD v 0) s.size
  es.any (fun i => es.any (fun j => i != j && (s.ev i).seq == (s.ev j).seq))

/-- highest seq of validator `v` inside the event set `m` (0 if none) -/
def maxSeqIn (s : Inst) (m v : Nat) : Nat :=
  (members (m &&& s.byCreator.getD v 0) s.size).foldl (fun acc i => max acc (s.ev i).seq) 0

/-- C06: merged view of the ancestry of event `a` for validator index `v`; none = fork -/
def hbSpec (s : Inst) (a v : Nat) : Option Nat :=
  if bit (s.forksOf a) v then none else some (s.maxSeqIn (s.ancOf a) v)

/-- C05: forkless cause on the graph -/
def fcSpec (s : Inst) (a b : Nat) : Bool :=
  let am := s.ancOf a
  let fa := s.forksOf a
  if bit fa (s.creatorIdx b) then false else
  let between := am &&& s.descOf b
  let yes := (List.range s.nv).filter (fun v => !bit fa v && (between &&& s.byCreator.getD v 0) != 0)
  decide (yes.foldl (fun acc v => acc + s.weightIdx v) 0 ≥ s.quorum)

/-- frame of the self-parent (0 if none) -/
def selfParentFrame (s : Inst) (e : Ev) : Nat :=
  if e.seq ≤ 1 then 0 else
  match e.parents with
  | [] => 0
  | p :: _ => match s.posOf p with | some i => (s.ev i).frame | none => 0

/-- roots of frame `f`: events whose self-parent's frame is below `f` and whose own frame is at least `f` -/
def rootsAt (s : Inst) (f : Nat) : List Nat :=
  (List.range s.size).filter (fun i => decide (s.selfParentFrame (s.ev i) < f) && decide (f ≤ (s.ev i).frame))

/-- event `i` is forkless-caused by roots of frame `f` holding a quorum (by creator) -/
def quorumOn (s : Inst) (i f : Nat) : Bool :=
  let seen := ((s.rootsAt f).filter (fun r => r != i && s.fcSpec i r)).foldl (fun m r => m ||| (1 <<< s.creatorIdx r)) 0
  decide (s.weightMask seen ≥ s.quorum)

/-- insert an event (parents must be present); computes ancestry, descendants, visible forks -/
def insert (s : Inst) (e : Ev) : Option Inst :=
  let i := s.size
  let ps := e.parents.map s.posOf
  if ps.any (·.isNone) then none else
  match s.idxOf e.creator with
  | none => none
  | some cv =>
    let pidx := ps.filterMap id
    let am := pidx.foldl (fun m p => m ||| s.ancOf p) (1 <<< i)
    let byC := if cv < s.byCreator.size then s.byCreator.modify cv (· ||| (1 <<< i))
               else s.byCreator
    let s1 : Inst := { s with evs := s.evs.push e, anc := s.anc.push am, byCreator := byC,
                              desc := (s.desc.mapIdx (fun j d => if bit am j then d ||| (1 <<< i) else d)).push (1 <<< i),
                              forks := s.forks.push 0 }
    let fk := (List.range s1.nv).foldl (fun m v => if s1.forkIn am v then m ||| (1 <<< v) else m) 0
    some { s1 with forks := s1.forks.set! i fk }

/-- C04: is `claimed` an allowed frame for the (already inserted) event at position `i`? -/
def allowed (s : Inst) (i : Nat) : Bool :=
  let e := s.ev i
  let spf := s.selfParentFrame e
  if e.seq ≤ 1 || e.parents.isEmpty then e.frame == 1
  else decide (spf ≤ e.frame) && decide (1 ≤ e.frame) &&
       (List.range (e.frame - spf)).all (fun k => s.quorumOn i (spf + k))

/-- C04: the highest allowed frame, at most 100 above the self-parent's -/
def maxFrameFrom (s : Inst) (i : Nat) : Nat → Nat → Nat
  | 0, f => f
  | fuel + 1, f => if s.quorumOn i f then maxFrameFrom s i fuel (f + 1) else f

def maxFrame (s : Inst) (i : Nat) : Nat :=
  let spf := s.selfParentFrame (s.ev i)
  let f := s.maxFrameFrom i 100 spf
  if f == 0 then 1 else f

/-! ### election -/

structure Vote where
  yes : Bool
  decided : Bool
  obs : Nat          -- position of the observed root (for yes votes)
deriving Repr, Inhabited

/-- votes of the roots of one frame: root position ↦ votes by subject (validator index) -/
abbrev FrameVotes := List (Nat × Array Vote)

def lookupVote (fv : FrameVotes) (root v : Nat) : Vote :=
  match fv.find? (fun x => x.1 == root) with
  | some (_, a) => a.getD v default
  | none => default

/-- votes of all roots of frame `fr` in the election of frame `f`, given the votes of `fr - 1` -/
def votesOfFrame (s : Inst) (f fr : Nat) (prev : FrameVotes) : FrameVotes :=
  (s.rootsAt fr).map (fun r =>
    (r, Array.ofFn (n := s.nv) (fun v =>
      if fr == f + 1 then
        -- round 1: yes iff r forkless-causes a root of subject v in frame f
        match (s.rootsAt f).find? (fun b => s.creatorIdx b == v.val && s.fcSpec r b) with
        | some b => { yes := true, decided := false, obs := b }
        | none => { yes := false, decided := false, obs := 0 }
      else
        let seen := (s.rootsAt (fr - 1)).filter (fun p => s.fcSpec r p)
        let yesR := seen.filter (fun p => (lookupVote prev p v.val).yes)
        let noR := seen.filter (fun p => !(lookupVote prev p v.val).yes)
        let wOf := fun (l : List Nat) => s.weightMask (l.foldl (fun m p => m ||| (1 <<< s.creatorIdx p)) 0)
        let yw := wOf yesR
        let nw := wOf noR
        let obs := match yesR with | [] => 0 | p :: _ => (lookupVote prev p v.val).obs
        { yes := decide (yw ≥ nw), decided := decide (yw ≥ s.quorum) || decide (nw ≥ s.quorum), obs := obs })))

/-- first decision for each subject, scanning frames upward -/
def electionFrom (s : Inst) (f : Nat) : Nat → Nat → FrameVotes → Array (Option Vote) → Array (Option Vote)
  | 0, _, _, dec => dec
  | fuel + 1, fr, prev, dec =>
    if (s.rootsAt fr).isEmpty then dec else
    let cur := s.votesOfFrame f fr prev
    let dec' := dec.mapIdx (fun v d =>
      match d with
      | some x => some x
      | none => if fr ≥ f + 2 then
                  (cur.find? (fun x => (x.2.getD v default).decided)).map (fun x => x.2.getD v default)
                else none)
    electionFrom s f fuel (fr + 1) cur dec'

inductive Outcome
  | undecided
  | atropos (root : Nat)
  | allNo
deriving Repr

/-- the Atropos of frame `f` from everything the instance knows -/
def atroposSpec (s : Inst) (f : Nat) : Outcome :=
  let maxF := s.evs.foldl (fun m e => max m e.frame) 0
  let dec := s.electionFrom f (maxF + 1 - f) (f + 1) [] (Array.replicate s.nv none)
  let rec go : List Nat → Outcome
    | [] => .allNo
    | v :: vs => match dec.getD v none with
      | none => .undecided
      | some vt => if vt.yes then .atropos vt.obs else go vs
  if s.nv == 0 then .undecided else go (List.range s.nv)

structure Block where
  epoch : Nat
  frame : Nat
  atropos : Nat        -- protocol number
  cheaters : List Nat  -- validator ids in canonical order
  events : List Nat    -- protocol numbers, ascending
  sealed : Bool
deriving Repr

end Inst

/-- seals requested by the application: (epoch, frame) ↦ new validator pairs (unsorted) -/
abbrev Seals := List ((Nat × Nat) × List (Nat × Nat))

def sortNat (l : List Nat) : List Nat :=
  l.foldr (fun x acc => let rec ins : List Nat → List Nat
                          | [] => [x]
                          | y :: ys => if x ≤ y then x :: y :: ys else y :: ins ys
                        ins acc) []

def canonVals (pairs : List (Nat × Nat)) : List (Nat × Nat) :=
  Model.Pos.sortPairs (pairs.foldl (fun b p => Model.Pos.set b p.1 p.2) [])

def Inst.fresh (epoch : Nat) (pairs : List (Nat × Nat)) : Inst :=
  let vals := canonVals pairs
  { epoch := epoch, vals := vals, byCreator := Array.replicate vals.length 0 }

/-- decide as many frames as the known events allow (C10/C02/C03/C09) -/
def decideLoop (seals : Seals) : Nat → Inst → List Inst.Block → Inst × List Inst.Block
  | 0, s, out => (s, out)
  | fuel + 1, s, out =>
    match s.atroposSpec (s.ldf + 1) with
    | .undecided => (s, out)
    | .allNo => (s, out)
    | .atropos a =>
      let f := s.ldf + 1
      let am := s.ancOf a
      let cheaters := ((List.range s.nv).filter (fun v => bit (s.forksOf a) v)).map s.idOf
      let evs := sortNat (((members am s.size).filter (fun i => !bit s.confirmed i)).map (fun i => (s.ev i).n))
      match seals.lookup (s.epoch, f) with
      | some nv =>
        (Inst.fresh (s.epoch + 1) nv, out ++ [⟨s.epoch, f, (s.ev a).n, cheaters, evs, true⟩])
      | none =>
        decideLoop seals fuel { s with ldf := f, confirmed := s.confirmed ||| am }
          (out ++ [⟨s.epoch, f, (s.ev a).n, cheaters, evs, false⟩])

inductive ProcRes
  | skip
  | noParent
  | wrongFrame
  | ok (blocks : List Inst.Block)

/-- Process: accept iff the claimed frame is allowed, then decide what can be decided -/
def process (seals : Seals) (s : Inst) (e : Ev) : Inst × ProcRes :=
  if e.epoch != s.epoch then (s, .skip) else
  match s.insert e with
  | none => (s, .noParent)
  | some s1 =>
    if !s1.allowed s.size then (s, .wrongFrame) else
    let (s2, blocks) := decideLoop seals (s1.size + 2) s1 []
    (s2, .ok blocks)

/-- Build: the highest allowed frame; the instance is left untouched -/
def build (s : Inst) (e : Ev) : Option Nat :=
  match s.insert e with
  | none => none
  | some s1 => some (s1.maxFrame s.size)

end Spec.Lachesis
