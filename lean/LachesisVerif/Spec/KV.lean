import LachesisVerif.Spec.Bytes
/-!
# Spec.KV — the ordered byte-string map every `kvdb.Store` is meant to be

A store is an association list `Bytes ↦ Bytes`, strictly ascending by key (`bytes.Compare`).
An empty value is a value (`some []`), different from an absent key (`none`).
`iterSpec m prefix start` is the contract of `kvdb.Iteratee.NewIterator(prefix, start)`:
the pairs whose key has the prefix and is `≥ prefix ++ start`, in ascending key order.
Batches are operation lists applied in order; a snapshot is a copy of the map.
-/
namespace Spec
open Bytes

abbrev KV := List (Bytes × Bytes)

namespace KV

/-- strictly ascending by key -/
def Sorted (m : KV) : Prop := m.Pairwise (fun a b => lexLt a.1 b.1 = true)

def get (m : KV) (k : Bytes) : Option Bytes := (m.find? (fun p => p.1 == k)).map (·.2)

def has (m : KV) (k : Bytes) : Bool := (get m k).isSome

def insert : KV → Bytes → Bytes → KV
  | [], k, v => [(k, v)]
  | (k', v') :: rest, k, v =>
    if k == k' then (k, v) :: rest
    else if lexLt k k' then (k, v) :: (k', v') :: rest
    else (k', v') :: insert rest k v

def erase (m : KV) (k : Bytes) : KV := m.filter (fun p => p.1 != k)

end KV

/-- iteration contract of every store: ascending, prefix-filtered, from `prefix ++ start` -/
def iterSpec (m : KV) (pfx start : Bytes) : KV :=
  m.filter (fun p => isPrefix pfx p.1 && lexLe (pfx ++ start) p.1)

/-- a write operation (element of a batch) -/
inductive Op where
  | put (k v : Bytes)
  | del (k : Bytes)
deriving Repr, DecidableEq

def applyOp (m : KV) : Op → KV
  | .put k v => m.insert k v
  | .del k => m.erase k

/-- `Batch.Write`: the operations in the order they were added -/
def applyBatch (m : KV) (b : List Op) : KV := b.foldl applyOp m

/-- `GetSnapshot`: a copy -/
def snapshot (m : KV) : KV := m

end Spec
