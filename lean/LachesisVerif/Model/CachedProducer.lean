import LachesisVerif.Gen.Cachedproducer
/-! Model of kvdb/cachedproducer: `Wrap` / `WrapAll` and the shared `openDB` with its
`opened / refCounter / notDropped` maps (total functions of the name; names are naturals).

A store handed out by `OpenDB` is identified by its *generation* `g` (the number of the underlying
`OpenDB` call that created it): the `StoreWithFn` wrapper, its captured `realClose`/`realDrop` and
the underlying store all belong to `g`. `CloseFn`/`DropFn` capture only the *name* for the
bookkeeping, so `close n g` / `drop n g` update the maps of `n` and call the underlying method of
generation `g` — also when `g` is a stale handle of an earlier generation (modelled as the code
behaves). The result of the underlying `OpenDB` (success/failure) is an input of `open`. -/
namespace Model.CachedProducer

inductive Kind
  /-- cachedproducer.Wrap -/
  | wrap
  /-- cachedproducer.WrapAll -/
  | wrapAll
deriving DecidableEq, Repr

structure NameSt where
  /-- c.opened[name]: generation of the cached store -/
  opened : Option Nat := none
  /-- c.refCounter[name] (0 = absent) -/
  ref : Nat := 0
  /-- c.notDropped[name] (false = absent) -/
  notDropped : Bool := false
deriving DecidableEq, Repr

/-- calls received by the wrapped producer and its stores -/
inductive Ev
  | realOpen (name gen : Nat)
  | realOpenFail (name : Nat)
  | realClose (name gen : Nat)
  | realDrop (name gen : Nat)
deriving DecidableEq, Repr

structure State where
  kind : Kind
  names : Nat → NameSt
  /-- number of successful underlying OpenDB calls so far -/
  nextGen : Nat

/-- both constructors allocate the three maps empty -/
def new (k : Kind) : State := ⟨k, fun _ => {}, 0⟩

def setName (st : State) (n : Nat) (s : NameSt) : State :=
  { st with names := fun m => if m = n then s else st.names m }

structure Out where
  /-- an error was returned (OpenDB: the underlying error; Close: "called Close more times than OpenDB") -/
  err : Bool := false
  /-- OpenDB: generation of the returned store -/
  gen : Option Nat := none
  evs : List Ev := []
deriving Repr

/-- openDB(p, c, name); `fail` = the underlying OpenDB returns an error -/
def openDB (st : State) (n : Nat) (fail : Bool) : State × Out :=
  let s := { st.names n with notDropped := true }
  if Gen.Cachedproducer.reuseOpened s.opened.isSome then
    (setName st n { s with ref := s.ref + 1 }, { gen := s.opened })
  else if fail then
    (setName st n s, { err := true, evs := [.realOpenFail n] })
  else
    let g := st.nextGen
    ({ setName st n { s with opened := some g, ref := s.ref + 1 } with nextGen := g + 1 }, { gen := some g, evs := [.realOpen n g] })

/-- StoreWithFn.Close of a handle of name `n`, generation `g` -/
def close (st : State) (n g : Nat) : State × Out :=
  let s := st.names n
  if Gen.Cachedproducer.closeTooOften s.ref then (st, { err := true })
  else if Gen.Cachedproducer.closeLast s.ref then
    (setName st n { s with ref := 0, opened := none },
     { evs := if Gen.Cachedproducer.doRealClose true then [.realClose n g] else [] })
  else
    (setName st n { s with ref := s.ref - 1 }, { evs := if Gen.Cachedproducer.doRealClose false then [.realClose n g] else [] })

/-- StoreWithFn.Drop -/
def drop (st : State) (n g : Nat) : State × Out :=
  let s := st.names n
  (setName st n { s with notDropped := false },
   { evs := if Gen.Cachedproducer.doRealDrop s.notDropped then [.realDrop n g] else [] })

inductive Op
  | open (n : Nat) (fail : Bool)
  | close (n g : Nat)
  | drop (n g : Nat)
deriving DecidableEq, Repr

def step (st : State) : Op → State × Out
  | .open n f => openDB st n f
  | .close n g => close st n g
  | .drop n g => drop st n g

def run (st : State) : List Op → State × List (Op × Out)
  | [] => (st, [])
  | op :: ops =>
    let r := step st op
    let rest := run r.1 ops
    (rest.1, (op, r.2) :: rest.2)

end Model.CachedProducer
