/-!
# Lock-atomic objects: an interleaving semantics of mutex-protected operations (C28)

An object has a guarded state `State`, a sequential specification `step : State → Op → State × Ret`
and one reader/writer mutex. Every operation of every thread runs as

    invoke ; acquire the mutex (shared if `shared op`, else exclusive) ; body ; release ; return

The body is *not* assumed atomic: it reads the guarded state when the section begins (`acq`: the
thread remembers the state it `seen`) and publishes its writes when the section ends (`rel`:
memory := `(step seen op).1`, result := `(step seen op).2`). Sections that overlap therefore
interfere exactly as unsynchronised code does (lost updates, stale reads: see the negative witness
in `Props/C28.lean`), and it is the lock discipline that has to exclude this:

* `acq` in exclusive mode is enabled only while no thread is inside a section,
* `acq` in shared mode is enabled only while every thread inside a section is a shared one,

(`mx = true`; with `mx = false` the guards are dropped — a method that "lost its lock").

A *history* is a list of events. `run` replays it from the initial configuration and fails
(`none`) on histories that are not well formed per thread (invoke → acquire → release → return,
the returned value being the computed one) or that violate mutual exclusion. Ghost bookkeeping:
`clk` = number of events so far (= position in the history, `run_clk`), the id of an operation is
the position of its `inv` event, `log` lists the sections in the order of their `rel` events with
the position of that event, `rets` lists the `ret` events with their positions.
Core Lean only.
-/
namespace Model.LockAtomic

structure Spec (State Op Ret : Type) where
  step : State → Op → State × Ret
  /-- the operation takes the lock in shared mode (RLock) -/
  shared : Op → Bool

inductive Ev (Op Ret : Type) where
  | inv (t : Nat) (op : Op)
  | acq (t : Nat)
  | rel (t : Nat)
  | ret (t : Nat) (r : Ret)
deriving Repr

/-- status of one thread -/
inductive TSt (State Op Ret : Type) where
  | idle
  | called (id : Nat) (op : Op)
  | inCS (id : Nat) (op : Op) (seen : State)
  | done (id : Nat) (r : Ret)

/-- one critical section, as logged at its `rel` event -/
structure Entry (Op Ret : Type) where
  id : Nat
  op : Op
  r : Ret
  time : Nat

/-- one `ret` event -/
structure Returned (Ret : Type) where
  id : Nat
  r : Ret
  time : Nat

structure Cfg (State Op Ret : Type) where
  mem : State
  th : Nat → TSt State Op Ret
  log : List (Entry Op Ret)
  rets : List (Returned Ret)
  clk : Nat

variable {State Op Ret : Type}

def init (s0 : State) : Cfg State Op Ret := ⟨s0, fun _ => .idle, [], [], 0⟩

def upd (f : Nat → TSt State Op Ret) (t : Nat) (v : TSt State Op Ret) : Nat → TSt State Op Ret :=
  fun j => if j = t then v else f j

theorem upd_same (f : Nat → TSt State Op Ret) (t v) : upd f t v t = v := by simp [upd]

theorem upd_other (f : Nat → TSt State Op Ret) (t v j) (h : j ≠ t) : upd f t v j = f j := by simp [upd, h]

/-- no thread (of the `n` threads) is inside a section -/
def holdsNone (n : Nat) (th : Nat → TSt State Op Ret) : Bool :=
  (List.range n).all fun j => match th j with
    | .inCS _ _ _ => false
    | _ => true

/-- every thread inside a section holds the lock in shared mode -/
def holdsOnlyShared (S : Spec State Op Ret) (n : Nat) (th : Nat → TSt State Op Ret) : Bool :=
  (List.range n).all fun j => match th j with
    | .inCS _ op _ => S.shared op
    | _ => true

/-- the lock may be granted to `op` -/
def mayAcquire (S : Spec State Op Ret) (n : Nat) (th : Nat → TSt State Op Ret) (op : Op) : Bool :=
  if S.shared op then holdsOnlyShared S n th else holdsNone n th

/-- one event; `none` = the history is not well formed / violates the lock discipline -/
def next [DecidableEq Ret] (S : Spec State Op Ret) (mx : Bool) (n : Nat) (c : Cfg State Op Ret) :
    Ev Op Ret → Option (Cfg State Op Ret)
  | .inv t op =>
    match c.th t with
    | .idle => if t < n then some { c with th := upd c.th t (.called c.clk op), clk := c.clk + 1 } else none
    | _ => none
  | .acq t =>
    match c.th t with
    | .called id op =>
      if !mx || mayAcquire S n c.th op then
        some { c with th := upd c.th t (.inCS id op c.mem), clk := c.clk + 1 }
      else none
    | _ => none
  | .rel t =>
    match c.th t with
    | .inCS id op seen =>
      some { c with mem := (S.step seen op).1, th := upd c.th t (.done id (S.step seen op).2),
                    log := c.log ++ [⟨id, op, (S.step seen op).2, c.clk⟩], clk := c.clk + 1 }
    | _ => none
  | .ret t r =>
    match c.th t with
    | .done id r' =>
      if r = r' then some { c with th := upd c.th t .idle, rets := ⟨id, r, c.clk⟩ :: c.rets, clk := c.clk + 1 }
      else none
    | _ => none

def run [DecidableEq Ret] (S : Spec State Op Ret) (mx : Bool) (n : Nat) :
    Cfg State Op Ret → List (Ev Op Ret) → Option (Cfg State Op Ret)
  | c, [] => some c
  | c, e :: es => match next S mx n c e with
    | some c' => run S mx n c' es
    | none => none

/-- the sequential specification run over a list of operations -/
def seqRun (step : State → Op → State × Ret) : State → List Op → State × List Ret
  | s, [] => (s, [])
  | s, op :: ops => ((seqRun step (step s op).1 ops).1, (step s op).2 :: (seqRun step (step s op).1 ops).2)

theorem seqRun_snoc (step : State → Op → State × Ret) (s : State) (ops : List Op) (op : Op) :
    seqRun step s (ops ++ [op]) =
      ((step (seqRun step s ops).1 op).1, (seqRun step s ops).2 ++ [(step (seqRun step s ops).1 op).2]) := by
  induction ops generalizing s with
  | nil => simp [seqRun]
  | cons o os ih => simp [seqRun, ih]

end Model.LockAtomic
