import LachesisVerif.Model.VecPersist
/-!
Model of the two ROW caches of the vector index: `vi.cache.HighestBeforeSeq` and
`vi.cache.LowestAfterSeq` (vecfc/index.go, vecfc/store_vectors.go; LRU `utils/simplewlru`), each in
front of one table ("S" resp. "s") of the flushable store `vi.vecDb`. Both caches are handled by
literally the same code, so ONE generic model over the row type `α` covers both.

* `Base α` — what the cache sits in front of: the parent DB's table (`store`), the unflushed pairs
  of this table (`ov`, the part of `Flushable.modified` under this table's prefix; a finite map kept
  as an association list with unique keys), and `other` = the number of unflushed pairs of the OTHER
  tables of the same flushable (tables "b", "B" and the other row table). `NotFlushedPairs()` counts
  all of them: `ov.length + other`.
* `RC α` — `Base α` plus `cache : List (Nat × α)` (event id ↦ row, a finite map).

The decision of `Engine.DropNotFlushed` is the regenerated kernel `Gen.VecPersist.dropClears`. The
PRESENCE of the cache calls of the Go code (the `Purge()`s and the `Add`s) is gathered in one record
`Calls`; `goCalls` is what the Go sources do (all present). The negative witnesses of
`Proofs/VecRowCache.lean` switch single calls off.

Eviction: `simplewlru.Cache.Add` ends with `normalize()`, which removes the oldest entries while
weight or size exceed the limits — possibly the new entry itself. The model applies an arbitrary
function `ev` after every insertion (the theorems only assume that it invents no entries) and has an
extra call `evict keep` dropping any set of keys at any time; recency (`MoveToFront` in `Get`/`Add`)
only influences WHICH entries go, so it is not represented.

Not represented: that rows are Go pointers (the cached object is shared with the callers — see the
module doc of Props/VecRowCache.lean), weights, locking (the index is used under the caller's lock).
-/
namespace Model.VecRowCache
open Model.VecPersist (Tab)

variable {α : Type}

/-- `Put` on a finite map kept as an association list: the key's previous pair is replaced
    (`simplewlru.Cache.Add` on an existing key overwrites the value; `Flushable.put` likewise) -/
def put (l : List (Nat × α)) (k : Nat) (x : α) : List (Nat × α) :=
  (k, x) :: l.filter (fun p => p.1 != k)

/-- `Flushable.Get`: the unflushed pairs first, then the parent DB; `none` = Go's nil -/
def look (ov : List (Nat × α)) (st : Tab α) (a : Nat) : Option α :=
  match ov.lookup a with
  | some x => some x
  | none => st.get a

/-- the store under the cache -/
structure Base (α : Type) where
  /-- this table in the parent DB -/
  store : Tab α
  /-- this table's pairs in `Flushable.modified` -/
  ov : List (Nat × α)
  /-- number of pairs of the other tables in `Flushable.modified` -/
  other : Nat

namespace Base

/-- `vi.vecDb.NotFlushedPairs()` -/
def notFlushedPairs (b : Base α) : Nat := b.ov.length + b.other

/-- the uncached read: `vi.getBytes(vi.table.X, id)` -/
def read (b : Base α) (id : Nat) : Option α := look b.ov b.store id

/-- `vi.setBytes(vi.table.X, id, row)` -/
def set (b : Base α) (id : Nat) (r : α) : Base α := { b with ov := put b.ov id r }

/-- `n` new pairs written to the other tables of the flushable (SetEventBranchID, the other row
    table, setBranchesInfo) -/
def otherPut (b : Base α) (n : Nat) : Base α := { b with other := b.other + n }

/-- `vi.vecDb.Flush()`: every unflushed pair goes into the parent DB -/
def flush (b : Base α) : Base α := { store := ⟨fun a => look b.ov b.store a⟩, ov := [], other := 0 }

/-- `Engine.DropNotFlushed`: `if vi.vecDb.NotFlushedPairs() != 0 { vi.vecDb.DropNotFlushed(); … }` -/
def drop (b : Base α) : Base α :=
  if Gen.VecPersist.dropClears b.notFlushedPairs then { b with ov := [], other := 0 } else b

/-- `Engine.Reset(validators, db, getEvent)`: `vi.vecDb = flushable.WrapWithDrop(db, …)` — a new
    flushable (nothing unflushed) over the DB handed in (a new epoch's empty DB, or the persisted
    one on a restart) -/
def reset (_b : Base α) (db : Tab α) : Base α := { store := db, ov := [], other := 0 }

end Base

/-- which cache calls the code makes -/
structure Calls where
  /-- vecfc/index.go onDropNotFlushed: `vi.cache.HighestBeforeSeq.Purge()` / `vi.cache.LowestAfterSeq.Purge()` -/
  purgeOnDrop : Bool
  /-- vecfc/index.go Index.Reset: `vi.onDropNotFlushed()` -/
  purgeOnReset : Bool
  /-- vecfc/store_vectors.go SetHighestBefore / SetLowestAfter: `vi.cache.X.Add(id, seq, …)` -/
  addOnSet : Bool
  /-- vecfc/store_vectors.go GetHighestBefore / GetLowestAfter: `vi.cache.X.Add(id, &b, …)` after a miss -/
  addOnMiss : Bool
  deriving DecidableEq

/-- the Go sources: all four present -/
def goCalls : Calls := ⟨true, true, true, true⟩

abbrev Evict (α : Type) := List (Nat × α) → List (Nat × α)

/-- index table + its row cache -/
structure RC (α : Type) where
  base : Base α
  cache : List (Nat × α)

/-- `NewIndex` + `Reset` over `db`: `initCaches` makes empty caches -/
def RC.fresh (db : Tab α) : RC α := ⟨⟨db, [], 0⟩, []⟩

namespace RC

/-- `GetHighestBefore(id)` / `GetLowestAfter(id)`:
    `if bVal, okGet := vi.cache.X.Get(id); okGet { return bVal }`; `b := getBytes(…)`;
    `if b == nil { return nil }` (nothing cached); `vi.cache.X.Add(id, &b, …)`; `return &b` -/
def get (k : Calls) (ev : Evict α) (s : RC α) (id : Nat) : RC α × Option α :=
  match s.cache.lookup id with
  | some r => (s, some r)
  | none =>
    match s.base.read id with
    | some r => (if k.addOnMiss then { s with cache := ev (put s.cache id r) } else s, some r)
    | none => (s, none)

/-- `SetHighestBefore(id, seq)` / `SetLowestAfter(id, seq)`: `setBytes` then `vi.cache.X.Add` -/
def set (k : Calls) (ev : Evict α) (s : RC α) (id : Nat) (r : α) : RC α :=
  { base := s.base.set id r,
    cache := if k.addOnSet then ev (put s.cache id r) else s.cache }

def otherPut (s : RC α) (n : Nat) : RC α := { s with base := s.base.otherPut n }

/-- `Engine.Flush`: the caches are not touched -/
def flush (s : RC α) : RC α := { s with base := s.base.flush }

/-- `Engine.DropNotFlushed`: inside the SAME `if vi.vecDb.NotFlushedPairs() != 0` as the clearing of
    the overlay, `vi.callback.OnDropNotFlushed()` = `vecfc.Index.onDropNotFlushed` purges both caches -/
def dropNotFlushed (k : Calls) (s : RC α) : RC α :=
  { base := s.base.drop,
    cache := if Gen.VecPersist.dropClears s.base.notFlushedPairs && k.purgeOnDrop then [] else s.cache }

/-- `vecfc.Index.Reset`: `vi.Engine.Reset(…)` (new flushable; its inner `DropNotFlushed` sees
    `NotFlushedPairs() == 0` and calls nothing), then `vi.onDropNotFlushed()` unconditionally -/
def reset (k : Calls) (s : RC α) (db : Tab α) : RC α :=
  { base := s.base.reset db, cache := if k.purgeOnReset then [] else s.cache }

/-- the LRU drops the entries whose key is not kept (any time, any set) -/
def evict (s : RC α) (keep : Nat → Bool) : RC α := { s with cache := s.cache.filter (fun p => keep p.1) }

end RC

/-- the calls reaching one row table and its cache -/
inductive Op (α : Type) where
  | get (id : Nat)
  | set (id : Nat) (r : α)
  | otherPut (n : Nat)
  | flush
  | drop
  | reset (db : Tab α)
  | evict (keep : Nat → Bool)

def RC.step (k : Calls) (ev : Evict α) (s : RC α) : Op α → RC α
  | .get id => (s.get k ev id).1
  | .set id r => s.set k ev id r
  | .otherPut n => s.otherPut n
  | .flush => s.flush
  | .drop => s.dropNotFlushed k
  | .reset db => s.reset k db
  | .evict keep => s.evict keep

def RC.exec (k : Calls) (ev : Evict α) (s : RC α) (ops : List (Op α)) : RC α := ops.foldl (RC.step k ev) s

/-- the same calls on the store WITHOUT any cache (the specification) -/
def Base.step (b : Base α) : Op α → Base α
  | .get _ => b
  | .set id r => b.set id r
  | .otherPut n => b.otherPut n
  | .flush => b.flush
  | .drop => b.drop
  | .reset db => b.reset db
  | .evict _ => b

def Base.exec (b : Base α) (ops : List (Op α)) : Base α := ops.foldl Base.step b

/-- what one call returns to the caller, through the cache (only `get` returns something) -/
def RC.out (k : Calls) (ev : Evict α) (s : RC α) : Op α → List (Option α)
  | .get id => [(s.get k ev id).2]
  | _ => []

/-- what one call returns without cache -/
def Base.out (b : Base α) : Op α → List (Option α)
  | .get id => [b.read id]
  | _ => []

/-- the answers of all `get` calls of a history, through the cache -/
def RC.answers (k : Calls) (ev : Evict α) : RC α → List (Op α) → List (Option α)
  | _, [] => []
  | s, op :: ops => s.out k ev op ++ RC.answers k ev (s.step k ev op) ops

/-- the answers of all `get` calls of a history, without cache -/
def Base.answers : Base α → List (Op α) → List (Option α)
  | _, [] => []
  | b, op :: ops => b.out op ++ Base.answers (b.step op) ops

end Model.VecRowCache
