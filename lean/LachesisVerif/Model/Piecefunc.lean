import LachesisVerif.Gen.Piecefunc
/-! Model of utils/piecefunc: `NewFunc` validation and `Func.Get` with uint64 arithmetic. -/
namespace Model.Piecefunc
open Gen.Piecefunc

structure Dot where
  x : Nat
  y : Nat
deriving Repr, Inhabited, DecidableEq

def two64 : Nat := 18446744073709551616

/-- uint64 subtraction -/
def sub64 (a b : Nat) : Nat := (a + two64 - b % two64) % two64

/-- the checking loop of NewFunc; `some msg` = panic -/
def checkLoop : Nat → Nat → List Dot → Option String
  | _, _, [] => none
  | i, prevX, d :: ds =>
    if nonMonotonic i d.x prevX then some "non monotonic X"
    else if tooLargeY d.y then some "too large Y"
    else if tooLargeX d.x then some "too large X"
    else checkLoop (i + 1) d.x ds

/-- NewFunc: `none` = accepted -/
def newFunc (dots : List Dot) : Option String :=
  if tooFew dots.length then some "too few dots" else checkLoop 0 0 dots

def X (dots : List Dot) (i : Nat) : Nat := (dots.getD i default).x
def Y (dots : List Dot) (i : Nat) : Nat := (dots.getD i default).y

/-- the `for i, piece := range f.dots` search: fuel `k`, current index `i` -/
def search (dots : List Dot) (x : Nat) : Nat → Nat → Nat
  | 0, _ => dots.length - 2
  | k + 1, i => if pieceFound i dots.length (X dots i) x then i - 1 else search dots x k (i + 1)

def findP0 (dots : List Dot) (x : Nat) : Nat := search dots x dots.length 0

/-- linear interpolation on the piece (x0,y0)-(x1,y1) as written in `Get` -/
def interp (x0 y0 x1 y1 x : Nat) : Nat :=
  let ratio := div (sub64 x x0) (sub64 x1 x0)
  result (mul y0 (sub64 decimalUnit ratio)) (mul y1 ratio)

/-- Func.Get (only meaningful for lists accepted by `newFunc`) -/
def get (dots : List Dot) (x : Nat) : Nat :=
  if beforeFirst x (X dots 0) then Y dots 0
  else if afterLast x (X dots (dots.length - 1)) then Y dots (dots.length - 1)
  else
    let p0 := findP0 dots x
    interp (X dots p0) (Y dots p0) (X dots (p0 + 1)) (Y dots (p0 + 1)) x

end Model.Piecefunc
