import LachesisVerif.Gen.Check
/-! Model of eventcheck: basiccheck → epochcheck → parentscheck in the order of
    `eventcheck.Checkers.Validate`. Conditions are the regenerated kernels of `Gen.Check`. -/
namespace Model.Check

structure Parent where
  id : Nat
  creator : Nat
  seq : Nat
  lamport : Nat
deriving Repr, DecidableEq

structure Ev where
  epoch : Nat
  seq : Nat
  frame : Nat
  lamport : Nat
  creator : Nat
deriving Repr

inductive Err
  | huge | notInited | noParents | doubleParents | notRelevant | auth | wrongLamport | wrongSelfParent | wrongSeq
deriving Repr, DecidableEq

def Err.name : Err → String
  | .huge => "huge" | .notInited => "notinited" | .noParents => "noparents" | .doubleParents => "doubleparents"
  | .notRelevant => "notrelevant" | .auth => "auth" | .wrongLamport => "wronglamport"
  | .wrongSelfParent => "wrongselfparent" | .wrongSeq => "wrongseq"

/-- number of distinct elements: `len(e.Parents().Set())` -/
def nDistinct : List Nat → Nat
  | [] => 0
  | x :: xs => if xs.contains x then nDistinct xs else nDistinct xs + 1

/-- basiccheck.Checker.Validate -/
def basic (e : Ev) (ps : List Parent) : Option Err :=
  if Gen.Check.hugeValue e.seq e.epoch e.frame e.lamport then some .huge
  else if Gen.Check.notInited e.seq e.epoch e.frame e.lamport then some .notInited
  else if Gen.Check.noParents e.seq ps.length then some .noParents
  else if Gen.Check.doubleParents (nDistinct (ps.map (·.id))) ps.length then some .doubleParents
  else none

/-- epochcheck.Checker.Validate; `isVal` = `validators.Exists` -/
def epochCheck (curEpoch : Nat) (isVal : Nat → Bool) (e : Ev) : Option Err :=
  if Gen.Check.notRelevant e.epoch curEpoch then some .notRelevant
  else if Gen.Check.notAuth (isVal e.creator) then some .auth
  else none

/-- BaseEvent.SelfParent() == nil -/
def noSelfParent (e : Ev) (ps : List Parent) : Bool := Gen.Check.noSelfParent e.seq ps.length

/-- BaseEvent.IsSelfParent(h) -/
def isSelfParent (e : Ev) (ps : List Parent) (h : Nat) : Bool :=
  if noSelfParent e ps then false else
  match ps with
  | [] => false
  | p :: _ => p.id == h

def maxLamport (ps : List Parent) : Nat := ps.foldl (fun m p => if m > p.lamport then m else p.lamport) 0

/-- parentscheck.Checker.Validate (the caller passes the events of `e.Parents()` in order) -/
def parentsCheck (e : Ev) (ps : List Parent) : Option Err :=
  if Gen.Check.wrongLamport e.lamport (maxLamport ps) then some .wrongLamport
  else if ps.any (fun p => Gen.Check.wrongSelfParentAt p.creator e.creator (isSelfParent e ps p.id)) then some .wrongSelfParent
  else if Gen.Check.wrongSeqFirst e.seq (noSelfParent e ps) then some .wrongSeq
  else if !noSelfParent e ps then
    match ps with
    | [] => none
    | sp :: _ =>
      if !isSelfParent e ps sp.id then some .wrongSelfParent
      else if Gen.Check.wrongSeqNext e.seq sp.seq then some .wrongSeq
      else none
  else none

/-- eventcheck.Checkers.Validate -/
def validate (curEpoch : Nat) (isVal : Nat → Bool) (e : Ev) (ps : List Parent) : Option Err :=
  match basic e ps with
  | some x => some x
  | none =>
    match epochCheck curEpoch isVal e with
    | some x => some x
    | none => parentsCheck e ps

end Model.Check
