import LachesisVerif.Model.Orderer
import LachesisVerif.Model.Vec
/-!
Combined model "Orderer over the vector index" = abft.IndexedLachesis:

    func (p *IndexedLachesis) Process(e) (err error) {
        defer func() { if err == nil { p.DagIndexer.Flush() } else { p.DagIndexer.DropNotFlushed() } }()
        err = p.DagIndexer.Add(e); if err != nil { return err }
        return p.Lachesis.Process(e) }
    func (p *IndexedLachesis) Build(e) error {
        defer p.DagIndexer.DropNotFlushed()
        err := p.DagIndexer.Add(e); if err != nil { return err }
        return p.Lachesis.Build(e) }

State = (`Orderer.OState`, `Vec.VState`, the accepted events of the epoch in indexing order: the event
`evs[k]` has position `k` in the index). The Orderer's forkless-cause oracle is the index of THIS
instance, asked at the positions of this instance's own indexing order; weights and quorum are those
of the epoch's validators; the creator's validator index is `GetIdx(creator)`. A successful `Process`
keeps the new index (Flush); a rejected one and every `Build` keep the OLD index (DropNotFlushed):
the transaction is modelled by returning the previous state. The cheater list of a block is the loop
of `applyAtropos` over the index at the moment of the decision. On a seal the index is reset for the
new validators. Nothing in `Model.Orderer` / `Model.Vec` is changed.
-/
namespace Model.Indexed
open Model.Pos Model.Election Model.Orderer Model.Vec

/-- an event as submitted: protocol number, creator (validator id), seq, parents (protocol numbers,
    self-parent first), frame of the self-parent, claimed frame -/
structure IEvent where
  id : Nat
  creator : Nat
  seq : Nat
  parents : List Nat
  spf : Nat
  claimed : Nat
deriving Repr

/-- the application side: byte order of event ids and the end-of-block seal decision -/
structure App where
  idKey : Nat → Nat
  sealAt : Nat → Nat → Option Vals

structure IState where
  o : OState
  v : VState
  evs : List Nat

/-- position of event `a` in this instance's indexing order (`evs.length` if it was never indexed) -/
def pos (evs : List Nat) (a : Nat) : Nat := evs.idxOf a

/-- the Orderer's environment over an index state: `observe` = `vecfc.Index.ForklessCause` -/
def envOf (app : App) (vals : Vals) (v : VState) (evs : List Nat) : Env :=
  { observe := fun a b => v.fc vals.weightByIdx vals.quorum (pos evs a) (pos evs b)
    idKey := app.idKey, sealAt := app.sealAt }

def initial (epoch : Nat) (vals : Vals) : IState :=
  ⟨Orderer.initial epoch vals, VState.init vals.len, []⟩

/-- DagIndexer.Add: the event gets the next position -/
def addEvent (s : IState) (e : IEvent) : VState × List Nat :=
  (s.v.add ⟨s.o.vals.idxOf e.creator, e.seq, e.parents.map (pos s.evs)⟩, s.evs ++ [e.id])

/-- the cheater loop of `applyAtropos`: validator indices in canonical order with `IsForkDetected`
    in the merged HighestBefore of the Atropos (at position `a`) -/
def cheaters (v : VState) (a : Nat) : List Nat :=
  (List.range v.nVals).filter (fun c => (v.merged a c).isNone)

structure Block where
  d : Decided
  cheaters : List Nat
deriving Repr, DecidableEq

inductive IRes
  | wrongFrame
  | failed (e : ElErr)
  | ok (blocks : List Block)
deriving Repr, DecidableEq

/-- IndexedLachesis.Process -/
def processIndexed (app : App) (s : IState) (e : IEvent) : IState × IRes :=
  let (v1, evs1) := addEvent s e
  match process (envOf app s.o.vals v1 evs1) s.o e.id e.creator e.spf e.claimed with
  | (o', .ok ds) =>
    let blocks := ds.map (fun d => (⟨d, cheaters v1 (pos evs1 d.atropos)⟩ : Block))
    if ds.any (·.sealed) then (⟨o', VState.init o'.vals.len, []⟩, .ok blocks)
    else (⟨o', v1, evs1⟩, .ok blocks)
  | (_, .wrongFrame) => (s, .wrongFrame)
  | (_, .failed x) => (s, .failed x)

/-- IndexedLachesis.Build (frame only): the index addition is always rolled back -/
def buildIndexed (app : App) (s : IState) (e : IEvent) : IState × Nat :=
  let (v1, evs1) := addEvent s e
  (s, build (envOf app s.o.vals v1 evs1) s.o e.id e.spf)

/-- restart: `Orderer.Bootstrap` over the PERSISTED index state (nothing is re-indexed) -/
def restartIndexed (app : App) (s : IState) : Except ElErr (IState × List Decided × Bool) :=
  match bootstrap (envOf app s.o.vals s.v s.evs) s.o with
  | .error x => .error x
  | .ok (o', ds, sealed) =>
    .ok (if sealed then ⟨o', VState.init o'.vals.len, []⟩ else ⟨o', s.v, s.evs⟩, ds, sealed)

/-- a log of calls -/
inductive Op
  | process (e : IEvent)
  | build (e : IEvent)

/-- what a call answers -/
inductive Ans
  | processed (r : IRes)
  | built (frame : Nat)

def step (app : App) (s : IState) : Op → IState × Ans
  | .process e => ((processIndexed app s e).1, .processed (processIndexed app s e).2)
  | .build e => ((buildIndexed app s e).1, .built (buildIndexed app s e).2)

def runOps (app : App) : List Op → IState → IState × List Ans
  | [], s => (s, [])
  | op :: rest, s => ((runOps app rest (step app s op).1).1, (step app s op).2 :: (runOps app rest (step app s op).1).2)

end Model.Indexed
