import LachesisVerif.Model.Election
/-!
Model of abft/store_roots.go: the roots table of the epoch DB (key = frame ++ validator ++ event id,
modelled as the `Root` record itself — injectivity of the fixed-width key layout is C32) and the
`FrameRoots` LRU cache. The cache is modelled with an *arbitrary* eviction policy: after every
`Add` it may keep any subset of its entries (`ev`), which covers every size/weight configuration
of simplewlru including 0 and 1 (where an entry is evicted at once).
-/
namespace Model.RootsStore
open Model.Election

structure RStore where
  table : List Root := []
  cache : List (Nat × List Root) := []
deriving Repr

abbrev Evict := List (Nat × List Root) → List (Nat × List Root)

/-- simplewlru.Add followed by normalize -/
def cacheAdd (ev : Evict) (c : List (Nat × List Root)) (f : Nat) (l : List Root) : List (Nat × List Root) :=
  ev ((f, l) :: c.filter (fun x => x.1 != f))

/-- Store.addRoot for one frame -/
def addRoot (ev : Evict) (s : RStore) (r : Root) : RStore :=
  let t := if s.table.contains r then s.table else s.table ++ [r]
  match s.cache.lookup r.frame with
  | some rr => { table := t, cache := cacheAdd ev s.cache r.frame (rr ++ [r]) }
  | none => { s with table := t }

/-- Store.GetFrameRoots -/
def getFrameRoots (ev : Evict) (s : RStore) (f : Nat) : RStore × List Root :=
  match s.cache.lookup f with
  | some rr => (s, rr)
  | none =>
    let rr := s.table.filter (fun r => r.frame == f)
    ({ s with cache := cacheAdd ev s.cache f rr }, rr)

/-- openEpochDB: purge the cache, fresh epoch DB -/
def newEpoch (_ : RStore) : RStore := {}

inductive Op
  | add (r : Root)
  | get (f : Nat)
  | epoch

def step (ev : Evict) (s : RStore) : Op → RStore
  | .add r => addRoot ev s r
  | .get f => (getFrameRoots ev s f).1
  | .epoch => newEpoch s

/-- the roots registered in the current epoch according to the history -/
def registered : List Op → List Root
  | [] => []
  | .add r :: rest => r :: registered rest
  | .get _ :: rest => registered rest
  | .epoch :: _ => []

end Model.RootsStore
