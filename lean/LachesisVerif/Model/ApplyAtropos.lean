import LachesisVerif.Model.Confirm
import LachesisVerif.Gen.Lachesis
/-!
Model of `Lachesis.applyAtropos` / `confirmEvents` (abft/lachesis.go) WITH the optional application
callbacks: `BeginBlock` may be nil (nothing is delivered, nothing is marked), `ApplyEvent` may be
nil (events are still marked confirmed), `EndBlock` may be nil (no seal). The confirmed-on table is
the store's `GetEventConfirmedOn` (event ↦ frame of the confirming block, 0 = not confirmed). The
four conditions are the regenerated kernels `Gen.Lachesis`.
`Model/Confirm.lean` (used by C02's theorems) is the same walk with the table abstracted to a set
and a callback that is always present; `Props/C02.lean` (section `Callbacks`) relates the two.
-/
namespace Model.ApplyAtropos

/-- the confirmed-on table -/
structure Tab where
  on : List (Nat × Nat) := []

def Tab.get (t : Tab) (e : Nat) : Nat := (t.on.lookup e).getD 0
def Tab.set (t : Tab) (e f : Nat) : Tab := ⟨(e, f) :: t.on⟩

/-- `confirmEvents`' DFS with an optional `onEventConfirmed` (`cb` = it is given) -/
def dfsCb (parents : Nat → List Nat) (frame : Nat) (cb : Bool) :
    Nat → List Nat → Tab → List Nat → Option (Tab × List Nat)
  | _, [], t, out => some (t, out)
  | 0, _ :: _, _, _ => none
  | fuel + 1, w :: st, t, out =>
    if Gen.Lachesis.alreadyConfirmed (t.get w) then dfsCb parents frame cb fuel st t out
    else dfsCb parents frame cb fuel ((parents w).reverse ++ st) (t.set w frame)
           (if Gen.Lachesis.callbackPresent cb then out ++ [w] else out)

/-- what the application passed: is `BeginBlock` set, and which callbacks did it return -/
structure Callbacks where
  beginBlock : Bool
  applyEvent : Bool
  endBlock : Bool

/-- `applyAtropos`: (table, events handed to ApplyEvent, result of EndBlock);
    `sealResult` is what the application's EndBlock would return -/
def applyAtropos {V : Type} (parents : Nat → List Nat) (fuel : Nat) (cbs : Callbacks) (frame atropos : Nat)
    (t : Tab) (sealResult : Option V) : Option (Tab × List Nat × Option V) :=
  if Gen.Lachesis.noBeginBlock (!cbs.beginBlock) then some (t, [], none)
  else match dfsCb parents frame cbs.applyEvent fuel [atropos] t [] with
    | none => none
    | some (t', out) => some (t', out, if Gen.Lachesis.hasEndBlock cbs.endBlock then sealResult else none)

end Model.ApplyAtropos
