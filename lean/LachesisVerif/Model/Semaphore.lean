import LachesisVerif.Gen.Semaphore
/-! Model of utils/datasemaphore.DataSemaphore on a logical clock.

`dag.Metric` = (Num : uint32, Size : uint64); all arithmetic and every comparison of
`tryAcquire`, `Release` and the `Acquire` loop is regenerated from the source (`Gen.Semaphore`).
A blocked `Acquire` is a *waiter* (id, amount, deadline). `cond.Broadcast` = every waiter re-runs
one iteration of its loop (`retry`), in an explicit wake order (the scheduler's choice is an input
of `release`). The deadline timer of the repaired `Acquire` broadcasts when the clock reaches the
deadline (`tick`). `time.Now().After(deadline)` is modelled as `deadline ≤ now` (the real clock
always advances between taking the deadline and testing it; the timer fires after the deadline). -/
namespace Model.Semaphore

structure Metric where
  num : Nat
  size : Nat
deriving DecidableEq, Repr

def Metric.zero : Metric := ⟨0, 0⟩

structure Waiter where
  id : Nat
  amt : Metric
  deadline : Nat
deriving DecidableEq, Repr

inductive Ev
  /-- an `Acquire`/`TryAcquire` call of request `id` returned `res` -/
  | ret (id : Nat) (res : Bool)
  /-- the warning callback ran with (processing, releasing) -/
  | warn (held releasing : Metric)
deriving DecidableEq, Repr

structure State where
  held : Metric
  cap : Metric
  now : Nat
  /-- blocked Acquire calls in arrival order -/
  waiters : List Waiter
deriving Repr

def new (cap : Metric) : State := ⟨Metric.zero, cap, 0, []⟩

/-- tryAcquire: the new `processing` if granted -/
def tryAcquire (held cap m : Metric) : Option Metric :=
  let n := Gen.Semaphore.addNum held.num m.num
  let s := Gen.Semaphore.addSize held.size m.size
  if Gen.Semaphore.overflowCond n m.num s m.size then none
  else if Gen.Semaphore.exceedsCond n cap.num s cap.size then none
  else some ⟨n, s⟩

/-- one iteration of the `Acquire` loop for a request with the given deadline:
`some true/false` = the call returns, `none` = it goes (back) to `cond.Wait` -/
def attempt (st : State) (m : Metric) (deadline : Nat) : State × Option Bool :=
  let r := tryAcquire st.held st.cap m
  let st' : State := match r with
    | some h => { st with held := h }
    | none => st
  if Gen.Semaphore.acquireLoop r.isSome then
    if Gen.Semaphore.acquireGiveUp m.num st.cap.num m.size st.cap.size (decide (deadline ≤ st.now))
    then (st', some false) else (st', none)
  else (st', some true)

/-- Acquire(amount, timeout) called at the current instant by request `id` -/
def acquire (st : State) (id : Nat) (m : Metric) (timeout : Nat) : State × List Ev :=
  match attempt st m (st.now + timeout) with
  | (st', some r) => (st', [.ret id r])
  | (st', none) => ({ st' with waiters := st'.waiters ++ [⟨id, m, st.now + timeout⟩] }, [])

/-- TryAcquire -/
def tryAcq (st : State) (id : Nat) (m : Metric) : State × List Ev :=
  match tryAcquire st.held st.cap m with
  | some h => ({ st with held := h }, [.ret id true])
  | none => (st, [.ret id false])

/-- a woken waiter runs one loop iteration; it either returns (and leaves the waiting set) or
goes back to sleep. `ws` = the woken waiters in wake order; returns the state, those that stay
and the return events. -/
def wake (st : State) : List Waiter → State × List Waiter × List Ev
  | [] => (st, [], [])
  | w :: ws =>
    match attempt st w.amt w.deadline with
    | (st', some r) => let x := wake st' ws; (x.1, x.2.1, .ret w.id r :: x.2.2)
    | (st', none) => let x := wake st' ws; (x.1, w :: x.2.1, x.2.2)

/-- the waiters named in `ord` (in that order) first, then the others in arrival order -/
def wakeOrder (ws : List Waiter) : List Nat → List Waiter
  | [] => ws
  | i :: ord =>
    match ws.find? (fun w => w.id == i) with
    | some w => w :: wakeOrder (ws.erase w) ord
    | none => wakeOrder ws ord

/-- cond.Broadcast with the given wake order; the waiters that stay are kept in wake order -/
def broadcast (st : State) (ord : List Nat) : State × List Ev :=
  let x := wake st (wakeOrder st.waiters ord)
  ({ x.1 with waiters := x.2.1 }, x.2.2)

/-- the bookkeeping half of Release -/
def releaseCore (st : State) (m : Metric) : State × List Ev :=
  if Gen.Semaphore.releaseOver st.held.num m.num st.held.size m.size then
    ({ st with held := Metric.zero }, [.warn st.held m])
  else
    ({ st with held := ⟨Gen.Semaphore.releaseSubNum st.held.num m.num, Gen.Semaphore.releaseSubSize st.held.size m.size⟩ }, [])

def release (st : State) (m : Metric) (ord : List Nat) : State × List Ev :=
  let a := releaseCore st m
  let b := broadcast a.1 ord
  (b.1, a.2 ++ b.2)

def terminate (st : State) : State × List Ev :=
  broadcast { st with cap := Metric.zero } []

/-- the clock advances by `t`; if a deadline has been reached its timer broadcasts -/
def tick (st : State) (t : Nat) : State × List Ev :=
  let st' := { st with now := st.now + t }
  if st'.waiters.any (fun w => decide (w.deadline ≤ st'.now)) then broadcast st' [] else (st', [])

inductive Op
  | acquire (id : Nat) (m : Metric) (timeout : Nat)
  | tryAcq (id : Nat) (m : Metric)
  | release (m : Metric) (ord : List Nat)
  | tick (t : Nat)
  | terminate
deriving Repr

def step (st : State) : Op → State × List Ev
  | .acquire id m t => acquire st id m t
  | .tryAcq id m => tryAcq st id m
  | .release m ord => release st m ord
  | .tick t => tick st t
  | .terminate => terminate st

def run (st : State) : List Op → State × List (List Ev)
  | [] => (st, [])
  | op :: ops =>
    let r := step st op
    let rest := run r.1 ops
    (rest.1, r.2 :: rest.2)

end Model.Semaphore
