import LachesisVerif.Gen.SyncedPool
/-! Model of the multi-database flush protocol: durable operations, restart check
    (`flushable.CheckDBsSynced`), and the two producers that drive it —
    `flushable.SyncedPool` (lazy flushables, queued drops, `flush`) and `flaggedproducer.Producer`.

    The durable state is a map name ↦ DB (absent = the DB does not exist); a DB is its flush-id mark
    plus its user data (the flush-id key is not a user key: assumption of C25). A crash keeps a
    prefix of the durable-operation list. Go map iteration orders are explicit oracle lists.
    Prefix bytes, mark layout and every `CheckDBsSynced` condition come from `Gen.SyncedPool`. -/

namespace Model.SyncedPool
open Gen.SyncedPool

abbrev Name := String
abbrev Bytes := List Nat
/-- a batch of user-key writes in order: `(k, some v)` = put, `(k, none)` = delete -/
abbrev Batch := List (Bytes × Option Bytes)
abbrev Data := Bytes → Option Bytes

structure DB where
  mark : Option Bytes
  data : Data

/-- durable state (a structure, so that the compiled driver evaluates each update once) -/
structure DState where
  get : Name → Option DB

def emptyData : Data := fun _ => none

/-- the durable operations, in the order the backend receives them -/
inductive DOp where
  | create (n : Name)
  | putMark (n : Name) (m : Bytes)
  | write (n : Name) (b : Batch)
  | drop (n : Name)
  deriving DecidableEq, Repr

def applyBatch (d : Data) : Batch → Data
  | [] => d
  | (k, v) :: rest => applyBatch (fun k' => if k' = k then v else d k') rest

def upd (D : DState) (n : Name) (x : Option DB) : DState := ⟨fun n' => if n' = n then x else D.get n'⟩

def DOp.apply (D : DState) : DOp → DState
  | .create n => match D.get n with
    | none => upd D n (some ⟨none, emptyData⟩)
    | some _ => D
  | .putMark n m => match D.get n with
    | none => D
    | some db => upd D n (some { db with mark := some m })
  | .write n b => match D.get n with
    | none => D
    | some db => upd D n (some { db with data := applyBatch db.data b })
  | .drop n => upd D n none

def noDBs : DState := ⟨fun _ => none⟩

/-- durable state after a list of durable operations (from no databases at all) -/
def replay (j : List DOp) : DState := j.foldl DOp.apply noDBs

def dataOf (D : DState) (n : Name) : Data :=
  match D.get n with
  | some db => db.data
  | none => emptyData

def markOf (D : DState) (n : Name) : Option Bytes := (D.get n).bind (·.mark)

/-! ## marks -/

/-- `MarkFlushID(db, key, CleanPrefix, id)` -/
def cleanMark (id : Bytes) : Bytes := markValue [cleanPrefix] id
/-- `MarkFlushID(db, key, DirtyPrefix, id)` (the pool; the flagged producer writes `flaggedDirtyMark`) -/
def dirtyMark (id : Bytes) : Bytes := markValue [dirtyPrefix] id

/-- `bytes.HasPrefix(mark, []byte{DirtyPrefix})` -/
def isDirty (m : Bytes) : Bool := m.head? == some dirtyPrefix

/-! ## restart: `CheckDBsSynced` -/

/-- the `for name, db := range dbs` loop over the marks in map order; `none` = an error is returned;
    otherwise `(flushID, nonInit)` -/
def checkLoop : List (Option Bytes) → Option Bytes → Bool → Option (Option Bytes × Bool)
  | [], id, ni => some (id, ni)
  | mark :: rest, id, ni =>
    if markMissing mark.isNone then checkLoop rest id true
    else
      let m := mark.getD []
      if markDirty (isDirty m) then none
      else
        let id' := if adoptMark id.isNone then some m else id
        if notSynced (id' == some m) then none else checkLoop rest id' ni

/-- `CheckDBsSynced(dbs, key, nil)`: `none` = error (dirty / not synced / non-initialized),
    `some id` = the returned flush id (`none` = nil) -/
def checkDBsSynced (marks : List (Option Bytes)) : Option (Option Bytes) :=
  match checkLoop marks none false with
  | none => none
  | some (id, ni) => if nonInitialized id.isSome ni then none else some id

/-- restart over the surviving DBs: fresh producer, `Initialize(Names(), nil)`;
    `order` = the existing DB names in the map order `CheckDBsSynced` visits them -/
def restart (D : DState) (order : List Name) : Option (Option Bytes) :=
  checkDBsSynced (order.map (markOf D))

/-! ## the property predicate -/

/-- every existing DB carries the clean mark of flush `fid` -/
def AllClean (D : DState) (fid : Bytes) : Prop :=
  ∀ n db, D.get n = some db → db.mark = some (cleanMark fid)

/-- `P_C25` for the surviving operations `j` and the answer `res` of the restart:
    an error (dirty / unsynchronised / non-initialized) is reported, or nil is returned and no DB holds
    user data (nothing was ever flushed), or the returned id is the clean mark of a flush `fid` that
    completed inside `j` — its last clean mark made every DB clean — and every DB holds exactly the
    user data it had at that moment (absent then ⇒ absent or empty now, and vice versa). -/
def P_C25 (j : List DOp) (res : Option (Option Bytes)) : Prop :=
  match res with
  | none => True
  | some none => ∀ n, dataOf (replay j) n = emptyData
  | some (some m) => ∃ fid j0 n0, m = cleanMark fid ∧
      (j0 ++ [DOp.putMark n0 (cleanMark fid)]) <+: j ∧
      AllClean (replay (j0 ++ [DOp.putMark n0 (cleanMark fid)])) fid ∧
      ∀ n, dataOf (replay j) n = dataOf (replay (j0 ++ [DOp.putMark n0 (cleanMark fid)])) n

/-! ## `flushable.SyncedPool` -/

structure Wrapper where
  /-- the `modified` tree of the flushable: ascending keys, one entry per key -/
  pending : Batch
  /-- the underlying DB has been produced (`InitUnderlyingDb`) -/
  inited : Bool

structure Pool where
  wrappers : Name → Option Wrapper
  queued : List Name

def Pool.init : Pool := ⟨fun _ => none, []⟩

def setW (w : Name → Option Wrapper) (n : Name) (x : Option Wrapper) : Name → Option Wrapper :=
  fun n' => if n' = n then x else w n'

def setPending : Batch → Bytes → Option Bytes → Batch
  | [], k, v => [(k, v)]
  | (k', v') :: rest, k, v =>
    if k = k' then (k, v) :: rest
    else if k < k' then (k, v) :: (k', v') :: rest
    else (k', v') :: setPending rest k v

inductive PoolOp where
  | open (n : Name)
  /-- `Put` (`some v`) / `Delete` (`none`) through the store handle of `n` -/
  | put (n : Name) (k : Bytes) (v : Option Bytes)
  /-- `store.Drop()`: queued until the next flush -/
  | dropQ (n : Name)
  /-- `Flush(id)`; oracles = Go map orders of `popQueuedDrops` and of the three `range p.wrappers` -/
  | flush (id : Bytes) (o0 o1 o2 o3 : List Name)

/-- "close DBs to be dropped": remove the wrappers, remember the produced DBs -/
def closePhase : List Name → (Name → Option Wrapper) → List Name → (Name → Option Wrapper) × List Name
  | [], w, acc => (w, acc)
  | n :: rest, w, acc =>
    match w n with
    | none => closePhase rest w acc
    | some x => closePhase rest (setW w n none) (if x.inited then acc ++ [n] else acc)

/-- "write dirty flags" -/
def dirtyPhase (id : Bytes) : List Name → (Name → Option Wrapper) → (Name → Option Wrapper) × List DOp
  | [], w => (w, [])
  | n :: rest, w =>
    match w n with
    | none => dirtyPhase id rest w
    | some x =>
      let ops := (if x.inited then [] else [DOp.create n]) ++ [DOp.putMark n (dirtyMark id)]
      let (w', more) := dirtyPhase id rest (setW w n (some { x with inited := true }))
      (w', ops ++ more)

/-- "flush data": one batch per wrapper (`Flushable.flush`; data below `IdealBatchSize`) -/
def dataPhase : List Name → (Name → Option Wrapper) → (Name → Option Wrapper) × List DOp
  | [], w => (w, [])
  | n :: rest, w =>
    match w n with
    | none => dataPhase rest w
    | some x =>
      let (w', more) := dataPhase rest (setW w n (some { x with pending := [] }))
      (w', DOp.write n x.pending :: more)

/-- "write clean flags" -/
def cleanPhase (id : Bytes) : List Name → (Name → Option Wrapper) → List DOp
  | [], _ => []
  | n :: rest, w =>
    match w n with
    | none => cleanPhase id rest w
    | some _ => DOp.putMark n (cleanMark id) :: cleanPhase id rest w

/-- the repaired `SyncedPool.flush` (6f78193 + 3bb25a4): dirty marks — first into the produced DBs
    that are about to be dropped (in `queuedDropsList` order), then into every remaining wrapper's DB —
    THEN the drops, the data, the clean marks -/
def Pool.flush (p : Pool) (id : Bytes) (o0 o1 o2 o3 : List Name) : Pool × List DOp :=
  let (w0, toDrop) := closePhase (o0.filter (p.queued.contains ·)) p.wrappers []
  let opsM := toDrop.map (fun n => DOp.putMark n (dirtyMark id))
  let (w1, opsA) := dirtyPhase id o1 w0
  let opsB := toDrop.map DOp.drop
  let (w2, opsC) := dataPhase o2 w1
  let opsD := cleanPhase id o3 w2
  (⟨w2, []⟩, opsM ++ opsA ++ opsB ++ opsC ++ opsD)

/-- the intermediate repair (6f78193 only): dirty marks into the remaining wrappers' DBs, then the
    drops — no mark at all when no wrapper remains -/
def Pool.flushNoDropMarks (p : Pool) (id : Bytes) (o0 o1 o2 o3 : List Name) : Pool × List DOp :=
  let (w0, toDrop) := closePhase (o0.filter (p.queued.contains ·)) p.wrappers []
  let (w1, opsA) := dirtyPhase id o1 w0
  let opsB := toDrop.map DOp.drop
  let (w2, opsC) := dataPhase o2 w1
  let opsD := cleanPhase id o3 w2
  (⟨w2, []⟩, opsA ++ opsB ++ opsC ++ opsD)

/-- the pre-fix `SyncedPool.flush` (D7): drops first -/
def Pool.flushPreFix (p : Pool) (id : Bytes) (o0 o1 o2 o3 : List Name) : Pool × List DOp :=
  let (w0, toDrop) := closePhase (o0.filter (p.queued.contains ·)) p.wrappers []
  let opsB := toDrop.map DOp.drop
  let (w1, opsA) := dirtyPhase id o1 w0
  let (w2, opsC) := dataPhase o2 w1
  let opsD := cleanPhase id o3 w2
  (⟨w2, []⟩, opsB ++ opsA ++ opsC ++ opsD)

def getW (p : Pool) (n : Name) : Wrapper := (p.wrappers n).getD ⟨[], false⟩

def Pool.step (p : Pool) : PoolOp → Pool × List DOp
  | .open n => ({ p with wrappers := setW p.wrappers n (some (getW p n)) }, [])
  | .put n k v =>
    let x := getW p n
    ({ p with wrappers := setW p.wrappers n (some { x with pending := setPending x.pending k v }) }, [])
  | .dropQ n => ({ p with queued := if p.queued.contains n then p.queued else p.queued ++ [n] }, [])
  | .flush id o0 o1 o2 o3 => p.flush id o0 o1 o2 o3

/-- journal of a history -/
def Pool.run : Pool → List PoolOp → List DOp
  | _, [] => []
  | p, op :: rest => let (p', ops) := p.step op; ops ++ Pool.run p' rest

/-! ## `flaggedproducer.Producer` -/

structure Flagged where
  /-- opened DBs with their `Dirty` flag -/
  dbs : Name → Option Bool

def Flagged.init : Flagged := ⟨fun _ => none⟩

def setF (d : Name → Option Bool) (n : Name) (x : Option Bool) : Name → Option Bool :=
  fun n' => if n' = n then x else d n'

inductive FlagOp where
  | open (n : Name)
  /-- `Put`, `Delete` or a batch `Write` on `n`: one durable write after `modified()` -/
  | write (n : Name) (b : Batch)
  /-- `store.Drop()`; `o` = map order in which the remaining DBs are marked dirty (repaired) -/
  | drop (n : Name) (o : List Name)
  | flush (id : Bytes) (o : List Name)

/-- `modified()` on every remaining DB -/
def markOthers : List Name → (Name → Option Bool) → (Name → Option Bool) × List DOp
  | [], d => (d, [])
  | m :: rest, d =>
    match d m with
    | none => markOthers rest d
    | some flag =>
      if flaggedNeedsMark (if flag then 1 else 0) then
        let (d', more) := markOthers rest (setF d m (some true))
        (d', DOp.putMark m flaggedDirtyMark :: more)
      else markOthers rest d

def flagFlush (id : Bytes) : List Name → (Name → Option Bool) → (Name → Option Bool) × List DOp
  | [], d => (d, [])
  | m :: rest, d =>
    match d m with
    | none => flagFlush id rest d
    | some flag =>
      -- `MarkFlushID` goes through `flaggedStore.Put`, i.e. through `modified()` first
      let pre := if flaggedNeedsMark (if flag then 1 else 0) then [DOp.putMark m flaggedDirtyMark] else []
      let (d', more) := flagFlush id rest (setF d m (some false))
      (d', pre ++ DOp.putMark m (cleanMark id) :: more)

def Flagged.step (f : Flagged) : FlagOp → Flagged × List DOp
  | .open n => match f.dbs n with
    | some _ => (f, [])
    | none => (⟨setF f.dbs n (some false)⟩, [DOp.create n])
  | .write n b => match f.dbs n with
    | none => (f, [])
    | some flag =>
      (⟨setF f.dbs n (some true)⟩,
        (if flaggedNeedsMark (if flag then 1 else 0) then [DOp.putMark n flaggedDirtyMark] else []) ++ [DOp.write n b])
  | .drop n o => match f.dbs n with
    | none => (f, [])
    | some _ =>
      let (d', ops) := markOthers o (setF f.dbs n none)
      (⟨d'⟩, ops ++ [DOp.drop n])
  | .flush id o => let (d', ops) := flagFlush id o f.dbs; (⟨d'⟩, ops)

/-- the pre-fix `DropFn` (D7): the DB is dropped without marking the others -/
def Flagged.stepPreFix (f : Flagged) : FlagOp → Flagged × List DOp
  | .drop n _ => match f.dbs n with
    | none => (f, [])
    | some _ => (⟨setF f.dbs n none⟩, [DOp.drop n])
  | op => f.step op

def Flagged.run : Flagged → List FlagOp → List DOp
  | _, [] => []
  | f, op :: rest => let (f', ops) := f.step op; ops ++ Flagged.run f' rest

end Model.SyncedPool
