import LachesisVerif.Gen.Leecher
/-!
Models of `gossip/basestream/basestreamleecher`.

* `Peer.*`  — `basepeerleecher.BasePeerLeecher`: its loop, one step per dequeued event
  (`chunk id`, `tick`, external `terminate`). The callbacks `Done`, `IsProcessed`, `Suspend` are
  oracles carried by the operation (`Done` is asked first, then `IsProcessed` for every chunk in
  processing order, then `Suspend`, as in `routine`).
* `Base.*`  — `BaseLeecher`: `Routine`, `RegisterPeer`, `UnregisterPeer`, `Terminate`. The
  session callbacks of the application are an explicit variable `running` (the sessions the
  application has started and not terminated; `StartSession` adds one with a candidate chosen by
  the oracle `pick`, `TerminateSession` ends them). `SelectSessionPeerCandidates` offers the
  listed candidates that are registered at that moment (the application's contract).
  `unregisterOld` is `UnregisterPeer` before the repair of DESIGN §7-D5.

All comparisons come from `Gen.Leecher` (regenerated from the source).
-/
namespace Model.Leecher

namespace Peer

structure St where
  parallel : Nat
  requested : Nat := 0
  processed : Nat := 0
  processing : List Nat := []
  /-- `d.done` (the loop has been told to stop) -/
  stopped : Bool := false
deriving Repr, DecidableEq

/-- callback answers during one step -/
structure Oracle where
  done : Bool
  /-- ids for which `IsProcessed` answers true -/
  processed : List Nat
  suspend : Bool
deriving Repr, DecidableEq

inductive Op where
  | chunk (id : Nat) (o : Oracle)
  | tick (o : Oracle)
  | terminate
deriving Repr, DecidableEq

/-- `sweepProcessedChunks` -/
def sweep (o : Oracle) (st : St) : St :=
  { st with processing := st.processing.filter (fun id => !o.processed.contains id),
            processed := st.processed + (st.processing.filter (fun id => o.processed.contains id)).length }

/-- `tryToSync`; the result is the `maxChunks` argument of `RequestChunks`, if it is called -/
def tryToSync (o : Oracle) (st : St) : St × Option Nat :=
  if o.suspend then (st, none)
  else if Gen.Leecher.windowOpen st.requested st.processed st.parallel then
    let n := Gen.Leecher.requestsToSend st.requested st.processed st.parallel
    ({ st with requested := Gen.Leecher.requestedAfter st.requested n }, some n)
  else (st, none)

def routine (o : Oracle) (st : St) : St × Option Nat :=
  if o.done then ({ st with stopped := true }, none)
  else tryToSync o (sweep o st)

def step (st : St) : Op → St × Option Nat
  | .terminate => ({ st with stopped := true }, none)
  | .tick o => if st.stopped then (st, none) else routine o st
  | .chunk id o =>
    if st.stopped then (st, none)
    else if Gen.Leecher.acceptChunk st.processing.length st.parallel then
      routine o { st with processing := st.processing ++ [id] }
    else (st, none)

/-- all `RequestChunks` calls of a run (with the state after each operation) -/
def run (st : St) : List Op → St × List (Option Nat)
  | [] => (st, [])
  | op :: ops =>
    let y := step st op
    let z := run y.1 ops
    (z.1, y.2 :: z.2)

end Peer

namespace Base

structure St where
  peers : List Nat := []
  terminated : Bool := false
  /-- sessions started by `StartSession` and not ended by `TerminateSession` (peer of each) -/
  running : List Nat := []
deriving Repr, DecidableEq

inductive Ev where
  | start (peer : Nat)
  | term
deriving Repr, DecidableEq

/-- answers of the application during one call -/
structure Oracle where
  shouldTerminate : Bool := false
  /-- peers the application would like; only the registered ones are offered -/
  cands : List Nat := []
  pick : Nat := 0
deriving Repr, DecidableEq

def ongoing (st : St) : Bool := !st.running.isEmpty
/-- `OngoingSessionPeer` (0 = "") -/
def sessionPeer (st : St) : Nat := st.running.headD 0

def terminateSession (st : St) : St × List Ev := ({ st with running := [] }, [.term])

/-- `Routine` -/
def routine (o : Oracle) (st : St) : St × List Ev :=
  if Gen.Leecher.routineTerminated st.terminated then (st, [])
  else
    let a := if Gen.Leecher.routineShouldStop (ongoing st) o.shouldTerminate then terminateSession st else (st, [])
    if Gen.Leecher.routineIdle (ongoing a.1) then
      let cands := o.cands.filter (fun p => a.1.peers.contains p)
      if Gen.Leecher.routineHasCandidates cands.length then
        let p := cands.getD (o.pick % cands.length) 0
        ({ a.1 with running := a.1.running ++ [p] }, a.2 ++ [.start p])
      else a
    else a

def register (st : St) (p : Nat) : St :=
  if Gen.Leecher.registerRefused st.terminated then st
  else if st.peers.contains p then st else { st with peers := st.peers ++ [p] }

/-- `UnregisterPeer` (repaired order: the peer is removed first) -/
def unregister (o : Oracle) (st : St) (p : Nat) : St × List Ev :=
  let st1 := { st with peers := st.peers.filter (· != p) }
  if Gen.Leecher.unregisterHitsSession (sessionPeer st1) p then
    let a := terminateSession st1
    let b := routine o a.1
    (b.1, a.2 ++ b.2)
  else (st1, [])

/-- `UnregisterPeer` before the repair: `Routine` ran while the peer was still registered -/
def unregisterOld (o : Oracle) (st : St) (p : Nat) : St × List Ev :=
  let r := if Gen.Leecher.unregisterHitsSession (sessionPeer st) p then
      let a := terminateSession st
      let b := routine o a.1
      (b.1, a.2 ++ b.2)
    else (st, [])
  ({ r.1 with peers := r.1.peers.filter (· != p) }, r.2)

/-- `Terminate`; `none` = the second call panics (close of closed channel) -/
def terminate (st : St) : Option (St × List Ev) :=
  if st.terminated then none
  else some ({ st with terminated := true, running := [] }, [.term])

inductive Op where
  | routine (o : Oracle)
  | register (p : Nat)
  | unregister (p : Nat) (o : Oracle)
  | terminate
deriving Repr, DecidableEq

/-- a panicking `Terminate` leaves the state as it is (`Terminated` was already true) -/
def step (st : St) : Op → St × List Ev
  | .routine o => routine o st
  | .register p => (register st p, [])
  | .unregister p o => unregister o st p
  | .terminate => (terminate st).getD (st, [])

def run (st : St) : List Op → St × List Ev
  | [] => (st, [])
  | op :: ops =>
    let y := step st op
    let z := run y.1 ops
    (z.1, y.2 ++ z.2)

end Base
end Model.Leecher
