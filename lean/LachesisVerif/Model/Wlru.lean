import LachesisVerif.Gen.Wlru
/-! Model of utils/simplewlru.Cache (and of utils/wlru.Cache, which wraps every call in a lock and
adds ContainsOrAdd / PeekOrAdd).

The eviction list is kept **oldest first** (head = `evictList.Back()`), so `Keys()` is the list of
keys as it stands and `normalize` is a structural recursion that drops heads. Keys, values and
weights are naturals; `c.weight` is a separate counter exactly as in the code (it equals the sum
of the entry weights by an invariant that is proved, not assumed). `uint` sums are assumed not to
wrap (DESIGN §2.6). The iteration order of the Go map in `Purge` is an explicit input. -/
namespace Model.Wlru

structure Entry where
  key : Nat
  val : Nat
  weight : Nat
deriving DecidableEq, Repr

structure Cache where
  /-- oldest first -/
  items : List Entry
  weight : Nat
  maxWeight : Nat
  maxSize : Nat
deriving Repr

/-- result of one call: `ok` flag, returned numbers, and the eviction callback log in call order -/
structure Out where
  ok : Bool := true
  vals : List Nat := []
  cb : List Entry := []
deriving Repr

def sumW : List Entry → Nat
  | [] => 0
  | e :: l => e.weight + sumW l

def new (maxWeight maxSize : Nat) : Cache := ⟨[], 0, maxWeight, maxSize⟩

def lookup (l : List Entry) (k : Nat) : Option Entry := l.find? (fun e => e.key == k)

def erase (l : List Entry) (k : Nat) : List Entry := l.filter (fun e => e.key != k)

def keys (c : Cache) : List Nat := c.items.map (·.key)

/-- the loop of `normalize`: while the regenerated condition holds, `removeOldest` (drop the head,
take its weight off, report it). Returns (remaining, weight, evicted in callback order).
On the empty list the Go loop would spin forever if the condition still held; that needs
`weight > maxWeight` with no entries, which the invariant `weight = sumW items` excludes. -/
def evictLoop (mw ms : Nat) : List Entry → Nat → List Entry × Nat × List Entry
  | [], w => ([], w, [])
  | e :: rest, w =>
    if Gen.Wlru.normalizeCond w mw (rest.length + 1) ms then
      let r := evictLoop mw ms rest (Gen.Wlru.removeSub w e.weight)
      (r.1, r.2.1, e :: r.2.2)
    else (e :: rest, w, [])

/-- `normalize` on a cache whose list/weight were just updated -/
def normalize (c : Cache) : Cache × List Entry :=
  let r := evictLoop c.maxWeight c.maxSize c.items c.weight
  ({ c with items := r.1, weight := r.2.1 }, r.2.2)

/-- the list and weight counter after the insert/update half of `Add` (before `normalize`) -/
def inserted (c : Cache) (k v w : Nat) : Cache :=
  match lookup c.items k with
  | some old => { c with items := erase c.items k ++ [⟨k, v, w⟩], weight := Gen.Wlru.readdSub c.weight old.weight + w }
  | none => { c with items := c.items ++ [⟨k, v, w⟩], weight := c.weight + w }

/-- Add: returns the number of evictions -/
def add (c : Cache) (k v w : Nat) : Cache × Out :=
  let r := normalize (inserted c k v w)
  (r.1, { vals := [r.2.length], cb := r.2 })

/-- Get: a hit moves the entry to the newest position -/
def get (c : Cache) (k : Nat) : Cache × Out :=
  match lookup c.items k with
  | some e => ({ c with items := erase c.items k ++ [e] }, { ok := true, vals := [e.val] })
  | none => (c, { ok := false })

def peek (c : Cache) (k : Nat) : Cache × Out :=
  match lookup c.items k with
  | some e => (c, { ok := true, vals := [e.val] })
  | none => (c, { ok := false })

def contains (c : Cache) (k : Nat) : Cache × Out := (c, { ok := (lookup c.items k).isSome })

/-- wlru.ContainsOrAdd: (found, evicted) -/
def containsOrAdd (c : Cache) (k v w : Nat) : Cache × Out :=
  if (lookup c.items k).isSome then (c, { ok := true, vals := [0] })
  else let r := add c k v w; (r.1, { r.2 with ok := false })

/-- wlru.PeekOrAdd: (previous, found, evicted) -/
def peekOrAdd (c : Cache) (k v w : Nat) : Cache × Out :=
  match lookup c.items k with
  | some e => (c, { ok := true, vals := [e.val, 0] })
  | none => let r := add c k v w; (r.1, { ok := false, vals := 0 :: r.2.vals, cb := r.2.cb })

/-- removeElement on the entry of key k -/
def remove (c : Cache) (k : Nat) : Cache × Out :=
  match lookup c.items k with
  | some e => ({ c with items := erase c.items k, weight := Gen.Wlru.removeSub c.weight e.weight }, { ok := true, cb := [e] })
  | none => (c, { ok := false })

def removeOldest (c : Cache) : Cache × Out :=
  match c.items with
  | e :: rest => ({ c with items := rest, weight := Gen.Wlru.removeSub c.weight e.weight }, { ok := true, vals := [e.key, e.val], cb := [e] })
  | [] => (c, { ok := false })

def getOldest (c : Cache) : Cache × Out :=
  match c.items with
  | e :: _ => (c, { ok := true, vals := [e.key, e.val] })
  | [] => (c, { ok := false })

def resize (c : Cache) (mw ms : Nat) : Cache × Out :=
  let r := normalize { c with maxWeight := mw, maxSize := ms }
  (r.1, { vals := [r.2.length], cb := r.2 })

/-- callback order of Purge: the keys in the order the Go map happened to yield them (`ord`),
then whatever `ord` left out (so that the function is total for any `ord`) -/
def purgeOrder (l : List Entry) : List Nat → List Entry
  | [] => l
  | k :: ord =>
    match lookup l k with
    | some e => e :: purgeOrder (erase l k) ord
    | none => purgeOrder l ord

def purge (c : Cache) (ord : List Nat) : Cache × Out :=
  ({ c with items := [], weight := c.weight - sumW c.items }, { cb := purgeOrder c.items ord })

inductive Op
  | add (k v w : Nat)
  | get (k : Nat)
  | peek (k : Nat)
  | contains (k : Nat)
  | containsOrAdd (k v w : Nat)
  | peekOrAdd (k v w : Nat)
  | remove (k : Nat)
  | removeOldest
  | getOldest
  | keys
  | len
  | total
  | resize (mw ms : Nat)
  | purge (ord : List Nat)
deriving Repr

def step (c : Cache) : Op → Cache × Out
  | .add k v w => add c k v w
  | .get k => get c k
  | .peek k => peek c k
  | .contains k => contains c k
  | .containsOrAdd k v w => containsOrAdd c k v w
  | .peekOrAdd k v w => peekOrAdd c k v w
  | .remove k => remove c k
  | .removeOldest => removeOldest c
  | .getOldest => getOldest c
  | .keys => (c, { vals := keys c })
  | .len => (c, { vals := [c.items.length] })
  | .total => (c, { vals := [c.weight, c.items.length] })
  | .resize mw ms => resize c mw ms
  | .purge ord => purge c ord

/-- the trace (op, output) of a run, and the final cache -/
def run (c : Cache) : List Op → Cache × List (Op × Out)
  | [] => (c, [])
  | op :: ops =>
    let r := step c op
    let rest := run r.1 ops
    (rest.1, (op, r.2) :: rest.2)

end Model.Wlru
