import LachesisVerif.Model.EventsBuffer
/-!
Model of `gossip/dagprocessor.Processor` (C15): the events semaphore (a counter pair with capacity),
`process()` with the far-future rule, the ordering buffer of C14, and the single `orderedInserter`
worker that handles the accepted batches in `Enqueue` order.

Scheduling freedom that remains is an explicit input: the order in which the asynchronous
`CheckParentless` results of a batch arrive (`deliver` operations, i.e. the contents of the batch's
`checkedC` channel) and the position of `Stop`. The inserter is modelled eagerly: whatever it can
consume it consumes at once (the real worker may lag, but it is one goroutine, so the sequence of
its actions is the same).
-/
namespace Model.Processor
open Model.EventsBuffer

/-- the error of a failed `CheckParentless` (any non-nil error) -/
def errParentless : Nat := 6

/-! ### DataSemaphore as used by the processor -/

structure Sem where
  num : Nat
  size : Nat
  capNum : Nat
  capSize : Nat
deriving Repr

/-- tryAcquire (Acquire at a quiescent moment: nobody else releases while it waits) -/
def Sem.tryAcquire (s : Sem) (n sz : Nat) : Sem × Bool :=
  let nn := Gen.Buffer.semAddNum s.num n
  let ns := Gen.Buffer.semAddSize s.size sz
  if Gen.Buffer.semOverflow nn n ns sz then (s, false)
  else if Gen.Buffer.semOverCap nn s.capNum ns s.capSize then (s, false)
  else ({ s with num := nn, size := ns }, true)

/-- Release of one event: `Metric{1, size}`; the flag says the warning callback fired -/
def Sem.release (s : Sem) (sz : Nat) : Sem × Bool :=
  if Gen.Buffer.semUnderflow s.num 1 s.size sz then ({ s with num := 0, size := 0 }, true)
  else ({ s with num := Gen.Buffer.semSubNum s.num 1, size := Gen.Buffer.semSubSize s.size sz }, false)

/-- Terminate -/
def Sem.terminate (s : Sem) : Sem := { s with capNum := 0, capSize := 0 }

/-! ### the callbacks seen by the application -/

inductive PCb where
  | highest                                   -- HighestLamport()
  | push (tag : Nat)                          -- the event reached `pushEvent` (first Exists call)
  | check (tag : Nat) (ok : Bool)             -- CheckParents
  | process (tag : Nat) (ok : Bool)
  | released (tag : Nat) (err : Nat)
  | warn                                      -- semaphore warning callback
  | announce (b : Nat) (ids : List Nat)       -- notifyAnnounces
  | done (b : Nat) (sem : Nat × Nat) (buf : Nat × Nat)
deriving Repr, DecidableEq

structure Item where
  tag : Nat
  ev : Ev
  lamport : Nat
deriving Repr

structure Cfg where
  bufNum : Nat
  bufSize : Nat
deriving Repr

structure PSt where
  sem : Sem
  buf : St
  highest : Nat
  lams : List (Nat × Nat)      -- tag ↦ Lamport time of the copies pushed into the buffer
  trace : List PCb             -- newest first
  -- ghost counters (not observable): events / bytes acquired by accepted batches, and released so far
  acqNum : Nat := 0
  acqSize : Nat := 0
  relNum : Nat := 0
  relSize : Nat := 0
  warned : Bool := false       -- the semaphore's warning callback has fired (a `.warn` entry was logged)
  handled : List Nat := []     -- tags of the events `process()` was called for, newest first

/-- the `Released` wrapper installed by `New`: release the semaphore, then tell the application -/
def relTag (st : PSt) (tag size err : Nat) : PSt :=
  let r := st.sem.release size
  { st with sem := r.1, trace := .released tag err :: ((if r.2 then [PCb.warn] else []) ++ st.trace),
            relNum := st.relNum + 1, relSize := st.relSize + size, warned := st.warned || r.2 }

/-- replay the buffer's callback invocations (oldest first) on the processor level -/
def absorb (recs : Nat → Rec) : List Cb → PSt → PSt
  | [], st => st
  | .check c ok :: t, st => absorb recs t { st with trace := .check (recs c).tag ok :: st.trace }
  | .process c ok :: t, st =>
    let l := (st.lams.lookup (recs c).tag).getD 0
    absorb recs t { st with trace := .process (recs c).tag ok :: st.trace,
                            highest := if ok then max st.highest l else st.highest }
  | .released c err :: t, st => absorb recs t (relTag st (recs c).tag (recs c).ev.size err)
  | .connect _ :: t, st => absorb recs t st

/-- entries of `new` that `old` did not have yet, oldest first -/
def added (old new : St) : List Cb := (new.trace.take (new.trace.length - old.trace.length)).reverse

/-- ghost: note that `process()` is called for this event -/
def mark (st : PSt) (it : Item) : PSt := { st with handled := it.tag :: st.handled }

/-- `process(peer, event, resErr)`; returns the parents to request -/
def handle (cfg : Cfg) (O : Oracle) (st0 : PSt) (it : Item) (err : Nat) : PSt × List Nat :=
  let st := mark st0 it
  if err != 0 then (relTag st it.tag it.ev.size err, [])
  else
    let h := st.highest
    let st1 := { st with trace := .highest :: st.trace }
    let md := Gen.Buffer.maxLamportDiff cfg.bufNum
    if Gen.Buffer.farFuture it.lamport h md then (relTag st1 it.tag it.ev.size errSpilled, [])
    else
      let dup := st1.buf.inc.any (fun p => p.1 == it.ev.id)
      let st2 := if dup then st1 else { st1 with trace := .push it.tag :: st1.trace }
      let r := pushEvent true O cfg.bufNum cfg.bufSize st2.buf it.ev it.tag
      let st3 := absorb r.1.recs (added st2.buf r.1) { st2 with buf := r.1, lams := (it.tag, it.lamport) :: st2.lams }
      (st3, if Gen.Buffer.reRequest it.lamport h md r.2 then it.ev.parents else [])

/-! ### one batch in the inserter task (generic in the handler, so that the reassembly can be
    reasoned about on its own) -/

structure Batch where
  id : Nat
  ordered : Bool
  items : List Item
  results : List (Option Nat)   -- orderedResults: the error code per position; none = nil
  processed : Nat
  toRequest : List Nat
  queue : List (Nat × Nat)      -- checkedC: delivered (position, error), not yet consumed
deriving Repr

def Batch.new (id : Nat) (ordered : Bool) (items : List Item) : Batch :=
  ⟨id, ordered, items, List.replicate items.length none, 0, [], []⟩

section
variable {σ : Type} (hd : σ → Item → Nat → σ × List Nat)

/-- `for i := processed; processed < len(orderedResults) && orderedResults[i] != nil; i++ {…}` -/
def orderedInner : Nat → Batch → σ → Batch × σ
  | 0, b, s => (b, s)
  | fuel + 1, b, s =>
    if Gen.Buffer.orderedLoop b.processed b.results.length (b.results.getD b.processed none).isSome then
      match b.items[b.processed]?, b.results.getD b.processed none with
      | some it, some err =>
        let r := hd s it err
        orderedInner fuel { b with results := b.results.set b.processed none, processed := b.processed + 1,
                                   toRequest := b.toRequest ++ r.2 } r.1
      | _, _ => (b, s)
    else (b, s)

/-- one `case res := <-checkedC` of the inserter loop -/
def consume (b : Batch) (s : σ) (pos err : Nat) : Batch × σ :=
  if !Gen.Buffer.batchLoop b.processed b.items.length then (b, s)
  else if b.ordered then
    orderedInner hd (b.items.length + 1) { b with results := b.results.set pos (some err) } s
  else
    match b.items[pos]? with
    | some it =>
      let r := hd s it err
      ({ b with processed := b.processed + 1, toRequest := b.toRequest ++ r.2 }, r.1)
    | none => (b, s)

/-- consume everything that was delivered -/
def drain (b : Batch) (s : σ) : List (Nat × Nat) → Batch × σ
  | [] => ({ b with queue := [] }, s)
  | (pos, err) :: rest =>
    let r := consume hd b s pos err
    drain r.1 r.2 rest
end

/-- the batch's loop has ended (`processed < eventsLen` is false) -/
def Batch.finished (b : Batch) : Bool := !Gen.Buffer.batchLoop b.processed b.items.length

/-- end of the inserter task: `notifyAnnounces(toRequest)` if non-empty, then the deferred `done()` -/
def finish (b : Batch) (st : PSt) : PSt :=
  let st1 := if b.toRequest.isEmpty then st else { st with trace := .announce b.id b.toRequest :: st.trace }
  { st1 with trace := .done b.id (st1.sem.num, st1.sem.size) st1.buf.total :: st1.trace }

/-- the single inserter worker: handle the pending batches in order as far as results are there -/
def pump (cfg : Cfg) (O : Oracle) : List Batch → PSt → List Batch × PSt
  | [], st => ([], st)
  | b :: rest, st =>
    let r := drain (handle cfg O) b st b.queue
    if r.1.finished then pump cfg O rest (finish r.1 r.2) else (r.1 :: rest, r.2)

structure Proc where
  cfg : Cfg
  st : PSt
  pending : List Batch      -- accepted, not finished, in Enqueue order
  stopped : Bool

def Proc.init (cfg : Cfg) (capNum capSize highest : Nat) (conn : List Nat) : Proc :=
  ⟨cfg, { sem := ⟨0, 0, capNum, capSize⟩, buf := St.init conn, highest := highest, lams := [], trace := [] }, [], false⟩

def totalSize (items : List Item) : Nat := (items.map (·.ev.size)).sum

/-- Enqueue: acquire the semaphore for the whole batch, queue the tasks -/
def enqueue (O : Oracle) (p : Proc) (id : Nat) (ordered : Bool) (items : List Item) : Proc × Bool :=
  let r := p.st.sem.tryAcquire (items.length % 4294967296) (totalSize items)
  if !r.2 then (p, false)
  else
    let q := pump p.cfg O (p.pending ++ [Batch.new id ordered items])
      { p.st with sem := r.1, acqNum := p.st.acqNum + items.length, acqSize := p.st.acqSize + totalSize items }
    ({ p with st := q.2, pending := q.1 }, true)

/-- a `CheckParentless` result arrives -/
def deliver (O : Oracle) (p : Proc) (id pos err : Nat) : Proc :=
  let pend := p.pending.map (fun b => if b.id = id then { b with queue := b.queue ++ [(pos, err)] } else b)
  let q := pump p.cfg O pend p.st
  { p with st := q.2, pending := q.1 }

/-- Stop: quit (pending tasks are abandoned), Terminate, Clear -/
def stop (p : Proc) : Proc :=
  let buf' := clear p.st.buf
  let st := absorb buf'.recs (added p.st.buf buf') { p.st with buf := buf', sem := p.st.sem.terminate }
  { p with st := st, pending := [], stopped := true }

/-- operations of the processor as seen from outside: `Enqueue`, the arrival of a check result, `Stop` -/
inductive POp where
  | enq (id : Nat) (ordered : Bool) (items : List Item)
  | deliver (id pos err : Nat)
  | stop
deriving Repr

def pstep (O : Oracle) (p : Proc) : POp → Proc
  | .enq id ordered items => (enqueue O p id ordered items).1
  | .deliver id pos err => deliver O p id pos err
  | .stop => stop p

def prun (O : Oracle) (p : Proc) (ops : List POp) : Proc := ops.foldl (pstep O) p

end Model.Processor
