import LachesisVerif.Gen.Vec
/-!
Implementation-level model of the vector index: `vecengine.Engine.fillGlobalBranchID`,
`fillEventVectors` (HighestBefore merge, the two fork-detection loops, the LowestAfter DFS),
`GetMergedHighestBefore`, `vecfc.HighestBeforeSeq.CollectFrom` / `GatherFrom`,
`vecfc.Index.forklessCause`. Events are positions in the indexing order, validators are indices in
canonical order. Go's grow-on-write / read-zero-beyond-size vectors are total functions `Nat → α`
(DESIGN §3). Conditions are the regenerated kernels `Gen.Vec`.
-/
namespace Model.Vec

structure Event where
  creator : Nat          -- validator index
  seq : Nat
  parents : List Nat     -- positions; self-parent first when seq > 1
deriving Repr, Inhabited

structure BSeq where
  seq : Nat
  minSeq : Nat
deriving DecidableEq, Repr, Inhabited

/-- vecfc.forkDetectedSeq = {Seq: 0, MinSeq: MaxInt32} -/
def forkMarker : BSeq := ⟨0, 2147483647⟩
def BSeq.zero : BSeq := ⟨0, 0⟩
def BSeq.isFork (b : BSeq) : Bool := b == forkMarker
def BSeq.isEmpty (b : BSeq) : Bool := Gen.Vec.isEmpty b.seq b.isFork

/-- A HighestBefore vector: Go's grow-on-write / read-zero-beyond-size slice as a total function.
    (Wrapped in a structure so that compiled code evaluates entries when a vector is built, not at
    every look-up.) -/
structure HBV where
  get : Nat → BSeq
def HBV.zero : HBV := ⟨fun _ => BSeq.zero⟩
def HBV.set (v : HBV) (i : Nat) (x : BSeq) : HBV := ⟨fun j => if j = i then x else v.get j⟩
/-- A LowestAfter vector -/
structure LAV where
  get : Nat → Nat
def LAV.zero : LAV := ⟨fun _ => 0⟩
def LAV.set (v : LAV) (i : Nat) (x : Nat) : LAV := ⟨fun j => if j = i then x else v.get j⟩

/-- the LowestAfter table: event → vector (a structure for the same operational reason as `HBV`) -/
structure LAT where
  get : Nat → LAV
/-- the HighestBefore table: event → vector -/
structure HBT where
  get : Nat → HBV
/-- replace one row (arguments are evaluated by the caller: rows are computed once) -/
@[noinline] def LAT.setRow (t : LAT) (n : Nat) (row : LAV) : LAT := ⟨fun a => if a = n then row else t.get a⟩
@[noinline] def HBT.setRow (t : HBT) (n : Nat) (row : HBV) : HBT := ⟨fun a => if a = n then row else t.get a⟩

structure VState where
  nVals : Nat
  nBr : Nat
  lastSeq : Nat → Nat       -- BranchIDLastSeq
  creatorOf : Nat → Nat     -- BranchIDCreatorIdxs
  branchOf : Nat → Nat      -- event → branch
  hb : HBT                  -- event → HighestBefore
  la : LAT                  -- event → LowestAfter
  parents : Nat → List Nat  -- event → parents (the getEvent callback)
  size : Nat                -- number of indexed events

def VState.init (n : Nat) : VState :=
  { nVals := n, nBr := n, lastSeq := fun _ => 0, creatorOf := fun b => b, branchOf := fun _ => 0,
    hb := ⟨fun _ => HBV.zero⟩, la := ⟨fun _ => LAV.zero⟩, parents := fun _ => [], size := 0 }

namespace VState

/-- BranchIDByCreators[c] -/
def branchesOf (s : VState) (c : Nat) : List Nat := (List.range s.nBr).filter (fun b => s.creatorOf b == c)

def atLeastOneFork (s : VState) : Bool := Gen.Vec.atLeastOneFork s.nBr s.nVals

/-- fillGlobalBranchID: returns the new tables and the branch of the event -/
def assignBranch (s : VState) (e : Event) : VState × Nat :=
  let newBranch : VState × Nat :=
    ({ s with nBr := s.nBr + 1,
              lastSeq := fun b => if b = s.nBr then e.seq else s.lastSeq b,
              creatorOf := fun b => if b = s.nBr then e.creator else s.creatorOf b }, s.nBr)
  if e.seq ≤ 1 || e.parents.isEmpty then
    if Gen.Vec.firstOnBranch (s.lastSeq e.creator) then
      ({ s with lastSeq := fun b => if b = e.creator then e.seq else s.lastSeq b }, e.creator)
    else newBranch
  else
    let sp := s.branchOf (e.parents.headD 0)
    if Gen.Vec.extendsBranch (s.lastSeq sp) e.seq then
      ({ s with lastSeq := fun b => if b = sp then e.seq else s.lastSeq b }, sp)
    else newBranch

/-- one branch of CollectFrom -/
def mergeOne (m h : BSeq) : BSeq :=
  if Gen.Vec.collectSkip h.seq h.isFork then m else
  if m.isFork then m else
  if h.isFork then forkMarker else
  let m1 : BSeq := if Gen.Vec.collectMinCond m.seq m.minSeq h.minSeq then { m with minSeq := h.minSeq } else m
  if Gen.Vec.collectSeqCond m1.seq h.seq then { m1 with seq := h.seq } else m1

/-- HighestBeforeSeq.CollectFrom -/
def collectFrom (mine his : HBV) (num : Nat) : HBV :=
  (List.range num).foldl (fun mine br => mine.set br (mergeOne (mine.get br) (his.get br))) mine

def setForkDetected (s : VState) (v : HBV) (c : Nat) : HBV :=
  (s.branchesOf c).foldl (fun v b => v.set b forkMarker) v

def overlap (v : HBV) (a b : Nat) : Bool :=
  a != b && !(v.get a).isEmpty && !(v.get b).isEmpty &&
  Gen.Vec.overlap (v.get a).minSeq (v.get a).seq (v.get b).minSeq (v.get b).seq

/-- the two fork-detection loops of fillEventVectors -/
def detectForks (s : VState) (v : HBV) : HBV :=
  if !s.atLeastOneFork then v else
  let v1 := (List.range s.nVals).foldl (fun v c =>
    let brs := s.branchesOf c
    if Gen.Vec.singleBranch brs.length then v else
    if brs.any (fun b => (v.get b).isFork) then s.setForkDetected v c else v) v
  (List.range s.nVals).foldl (fun v c =>
    if (v.get c).isFork then v else
    let brs := s.branchesOf c
    if brs.any (fun a => brs.any (fun b => overlap v a b)) then s.setForkDetected v c else v) v1

/-- the DFS of fillEventVectors updating LowestAfter of the ancestors (explicit stack, fuel) -/
def visitLA (parents : Nat → List Nat) (me seq : Nat) : Nat → List Nat → LAT → LAT
  | 0, _, la => la
  | _, [], la => la
  | fuel + 1, w :: stack, la =>
    if Gen.Vec.visitSkip ((la.get w).get me) then visitLA parents me seq fuel stack la
    else visitLA parents me seq fuel ((parents w).reverse ++ stack)
           (la.setRow w ((la.get w).set me seq))

/-- fillEventVectors; the new event gets position `s.size` -/
def add (s : VState) (e : Event) : VState :=
  let n := s.size
  let (s1, me) := s.assignBranch e
  let v0 : HBV := HBV.zero.set me ⟨e.seq, e.seq⟩
  let v1 := e.parents.foldl (fun v p => collectFrom v (s1.hb.get p) s1.nBr) v0
  let v2 := s1.detectForks v1
  let la1 := visitLA s1.parents me e.seq ((s1.size + 1) * (s1.size + 2)) e.parents.reverse s1.la
  { s1 with hb := s1.hb.setRow n v2,
            la := la1.setRow n (LAV.zero.set me e.seq),
            branchOf := fun a => if a = n then me else s1.branchOf a,
            parents := fun a => if a = n then e.parents else s1.parents a,
            size := n + 1 }

/-- HighestBeforeSeq.GatherFrom over the branches of one creator -/
def gather (v : HBV) : List Nat → BSeq → BSeq
  | [], hi => hi
  | b :: rest, hi =>
    if (v.get b).isFork then v.get b
    else if Gen.Vec.gatherCond (v.get b).seq hi.seq then gather v rest (v.get b) else gather v rest hi

/-- GetMergedHighestBefore for validator index `c`; none = fork -/
def merged (s : VState) (a c : Nat) : Option Nat :=
  let r := if s.atLeastOneFork then gather (s.hb.get a) (s.branchesOf c) BSeq.zero else (s.hb.get a).get c
  if r.isFork then none else some r.seq

/-- vecfc.Index.forklessCause: the creators (indices) counted "yes" -/
def fcYes (s : VState) (a b : Nat) : List Nat :=
  ((List.range s.nBr).filter (fun br => Gen.Vec.fcBranchCond ((s.la.get b).get br) ((s.hb.get a).get br).seq ((s.hb.get a).get br).isFork)).map s.creatorOf

def fc (s : VState) (weight : Nat → Nat) (quorum : Nat) (a b : Nat) : Bool :=
  if s.atLeastOneFork && ((s.hb.get a).get (s.branchOf b)).isFork then false else
  decide (((s.fcYes a b).eraseDups.map weight).foldl (· + ·) 0 ≥ quorum)

end VState
end Model.Vec
