import LachesisVerif.Model.Pos
import LachesisVerif.Gen.Election
import LachesisVerif.Gen.Orderer
/-!
Implementation-level model of abft/election (`ProcessRoot`, `chooseAtropos`) and of the Orderer's
frame / election driving loops (`calcFrameIdx`, `checkAndSaveEvent`, `handleElection`,
`bootstrapElection`, `processKnownRoots`, `onFrameDecided`), statement by statement. Comparisons
and frame arithmetic are the regenerated kernels `Gen.Election` / `Gen.Orderer`.
The forkless-cause relation and the application's seal decision are parameters.
-/
namespace Model.Election
open Model.Pos

structure Root where
  id : Nat          -- event (protocol number)
  frame : Nat       -- slot frame
  validator : Nat   -- slot validator id
deriving Repr, DecidableEq, Inhabited

structure VoteValue where
  decided : Bool := false
  yes : Bool := false
  observedRoot : Nat := 0
deriving Repr, DecidableEq, Inhabited

structure Election where
  frameToDecide : Nat
  vals : Vals
  decidedRoots : List (Nat × VoteValue) := []          -- validator id ↦ vote
  votes : List ((Root × Nat) × VoteValue) := []        -- (fromRoot, forValidator) ↦ vote
deriving Repr

inductive ElErr
  | twoForkRootsHash | twoForkRootsCount | missingVote | notEnoughVotes | allNo
deriving Repr, DecidableEq

def ElErr.name : ElErr → String
  | .twoForkRootsHash => "two-fork-roots-hash" | .twoForkRootsCount => "two-fork-roots"
  | .missingVote => "missing-vote" | .notEnoughVotes => "not-enough-votes" | .allNo => "all-no"

def reset (vals : Vals) (frameToDecide : Nat) : Election := { frameToDecide := frameToDecide, vals := vals }

/-- chooseAtropos: first validator in canonical order that is decided yes, all earlier decided no -/
def chooseAtroposFrom (el : Election) : List (Nat × Nat) → Except ElErr (Option (Nat × Nat))
  | [] => .error .allNo
  | (vid, _) :: rest =>
    match el.decidedRoots.lookup vid with
    | none => .ok none
    | some vote => if vote.yes then .ok (some (el.frameToDecide, vote.observedRoot)) else chooseAtroposFrom el rest

def chooseAtropos (el : Election) : Except ElErr (Option (Nat × Nat)) := chooseAtroposFrom el el.vals.sorted

/-- the three weight counters of one subject -/
structure Tally where
  yes : Counter
  no : Counter
  all : Counter
  subject : Option Nat := none

/-- the inner loop over the observed roots of the previous frame -/
def tally (el : Election) (subject : Nat) : List Root → Tally → Except ElErr Tally
  | [], t => .ok t
  | r :: rest, t =>
    match el.votes.lookup (r, subject) with
    | none => .error .missingVote
    | some vote =>
      if vote.yes && (match t.subject with | some h => h != vote.observedRoot | none => false) then .error .twoForkRootsHash
      else
        let t1 : Tally := if vote.yes then { t with subject := some vote.observedRoot, yes := (count el.vals t.yes r.validator).1 }
                          else { t with no := (count el.vals t.no r.validator).1 }
        let (allC, fresh) := count el.vals t1.all r.validator
        if !fresh then .error .twoForkRootsCount
        else tally el subject rest { t1 with all := allC }

/-- votes of `newRoot` for every not yet decided subject -/
def voteLoop (el : Election) (newRoot : Root) (round : Nat) (observedMap : List (Nat × Root)) (observed : List Root) :
    List Nat → Election → Except ElErr Election
  | [], e => .ok e
  | subject :: rest, e =>
    if Gen.Election.firstRound round then
      let vote : VoteValue := match observedMap.lookup subject with
        | some r => { decided := false, yes := true, observedRoot := r.id }
        | none => { decided := false, yes := false }
      voteLoop el newRoot round observedMap observed rest { e with votes := ((newRoot, subject), vote) :: e.votes }
    else
      match tally el subject observed { yes := el.vals.newCounter, no := el.vals.newCounter, all := el.vals.newCounter } with
      | .error x => .error x
      | .ok t =>
        if Gen.Election.notEnoughVotes (hasQuorum el.vals t.all) then .error .notEnoughVotes else
        let yes := Gen.Election.voteYes t.yes.sum t.no.sum
        let vote : VoteValue :=
          { yes := yes,
            observedRoot := if yes then (match t.subject with | some h => h | none => 0) else 0,
            decided := Gen.Election.voteDecided (hasQuorum el.vals t.yes) (hasQuorum el.vals t.no) }
        let e1 := if vote.decided then { e with decidedRoots := (subject, vote) :: e.decidedRoots } else e
        voteLoop el newRoot round observedMap observed rest { e1 with votes := ((newRoot, subject), vote) :: e1.votes }

/-- Election.ProcessRoot; `observe a b` = ForklessCause, `frameRoots f` = GetFrameRoots -/
def processRoot (observe : Nat → Nat → Bool) (frameRoots : Nat → List Root) (el : Election) (newRoot : Root) :
    Except ElErr (Election × Option (Nat × Nat)) :=
  match chooseAtropos el with
  | .error x => .error x
  | .ok (some res) => .ok (el, some res)
  | .ok none =>
    if Gen.Election.skipOldRoot newRoot.frame el.frameToDecide then .ok (el, none) else
    let round := Gen.Election.round newRoot.frame el.frameToDecide
    if Gen.Election.roundZero round then .ok (el, none) else
    let notDecided := (el.vals.sorted.map (·.1)).filter (fun v => (el.decidedRoots.lookup v).isNone)
    let seen := (frameRoots (Gen.Election.prevFrame newRoot.frame)).filter (fun r => observe newRoot.id r.id)
    -- observedRootsMap: later entries overwrite earlier ones
    let seenMap := seen.foldl (fun m r => (r.validator, r) :: m.filter (fun x => x.1 != r.validator)) []
    -- votes are read from `el` (the election before this root), written to the accumulator
    match voteLoop el newRoot round seenMap seen notDecided el with
    | .error x => .error x
    | .ok el' =>
      match chooseAtropos el' with
      | .error x => .error x
      | .ok res => .ok (el', res)

/-! ### Orderer: frames -/

/-- the loop of calcFrameIdx: `for f = spf; f < max && quorumOn f; f++` with fuel -/
def frameLoop (quorumOn : Nat → Bool) (maxFrameToCheck : Nat) : Nat → Nat → Nat
  | 0, f => f
  | fuel + 1, f => if Gen.Orderer.frameLoopCond f maxFrameToCheck (quorumOn f) then frameLoop quorumOn maxFrameToCheck fuel (f + 1) else f

/-- Orderer.calcFrameIdx (second result) -/
def calcFrameIdx (quorumOn : Nat → Bool) (selfParentFrame claimed : Nat) (checkOnly : Bool) : Nat :=
  let cap := Gen.Orderer.maxFrameToCheck selfParentFrame
  let maxFrameToCheck := if Gen.Orderer.useClaimedBound claimed cap selfParentFrame checkOnly then Gen.Orderer.checkOnlyMaxFrame claimed else cap
  let f := frameLoop quorumOn maxFrameToCheck (maxFrameToCheck - selfParentFrame) selfParentFrame
  if Gen.Orderer.frameIsZero f then Gen.Orderer.frameIfZero else f

/-- checkAndSaveEvent: accepted? -/
def frameAccepted (quorumOn : Nat → Bool) (selfParentFrame claimed : Nat) : Bool :=
  !Gen.Orderer.wrongFrame claimed (calcFrameIdx quorumOn selfParentFrame claimed true)

/-- frames for which an accepted event is registered as a root (Store.AddRoot) -/
def rootFrames (selfParentFrame frame : Nat) : List Nat :=
  if Gen.Orderer.isRoot selfParentFrame frame then
    (List.range (frame + 1)).filter (fun f => decide (Gen.Orderer.addRootFirstFrame selfParentFrame ≤ f) && Gen.Orderer.addRootLoopCond f frame)
  else []

end Model.Election
