import LachesisVerif.Spec.KV
import LachesisVerif.Gen.Kv
/-!
# Model of kvdb/flushable (C22)

`Flushable` = an underlying store plus a red-black tree `modified` of unflushed writes, where a
`nil` value is a tombstone. The gods tree is modelled as an association list sorted by key
(`Ceiling` = first node with key `≥`, `Left` = head, in-order successor = tail): trusted base.

The merged iterator (`flushableIterator.init/Next`) is transliterated: tree cursor (the
remaining nodes, current first; `[]` = `treeOk = false`), parent cursor (the remaining items
of the underlying store's own iterator; `[]` = `parentOk = false`), `prevKey`, tombstone
handling and the prefix cut-off. Every comparison condition is a kernel regenerated from the
source (`Gen.Kv.*`), `bytes.Compare` being `Bytes.cmp`.
-/
namespace Model.Flushable
open Bytes Spec

/-- `bytes.Compare` -/
def cmp (a b : Bytes) : Int := if lexLt a b then -1 else if lexLt b a then 1 else 0

/-- the tree `modified`: sorted by key, `none` = deleted -/
abbrev Overlay := List (Bytes × Option Bytes)

namespace Overlay
def Sorted (ov : Overlay) : Prop := ov.Pairwise (fun a b => lexLt a.1 b.1 = true)

/-- `tree.Get` -/
def lookup (ov : Overlay) (k : Bytes) : Option (Option Bytes) := (ov.find? (fun p => p.1 == k)).map (·.2)

/-- `tree.Put` -/
def put : Overlay → Bytes → Option Bytes → Overlay
  | [], k, v => [(k, v)]
  | (k', v') :: rest, k, v =>
    if k == k' then (k, v) :: rest
    else if lexLt k k' then (k, v) :: (k', v') :: rest
    else (k', v') :: put rest k v
end Overlay

/-- one tree node written into the underlying store (the body of the loop of `flush`) -/
def applyNode (m : KV) (p : Bytes × Option Bytes) : KV :=
  match p.2 with
  | some v => m.insert p.1 v
  | none => m.erase p.1

/-- the underlying store overlaid with the unflushed writes -/
def overlayApply (under : KV) (ov : Overlay) : KV := ov.foldl applyNode under

structure St where
  under : KV
  overlay : Overlay := []
  sizeEst : Nat := 0
deriving Repr

def view (st : St) : KV := overlayApply st.under st.overlay

/-- `Get` over any parent reader: cache first, then the parent (`none` = nil result) -/
def getOver (parentGet : Bytes → Option Bytes) (ov : Overlay) (k : Bytes) : Option Bytes :=
  match ov.lookup k with
  | some entry => entry
  | none => parentGet k

/-- `Has` over any parent reader -/
def hasOver (parentHas : Bytes → Bool) (ov : Overlay) (k : Bytes) : Bool :=
  match ov.lookup k with
  | some entry => entry.isSome
  | none => parentHas k

def get (st : St) (k : Bytes) : Option Bytes := getOver st.under.get st.overlay k

def has (st : St) (k : Bytes) : Bool := hasOver st.under.has st.overlay k

def put (st : St) (k v : Bytes) : St :=
  { st with overlay := st.overlay.put k (some v), sizeEst := st.sizeEst + k.length + v.length + 128 }

def delete (st : St) (k : Bytes) : St :=
  { st with overlay := st.overlay.put k none, sizeEst := st.sizeEst + k.length + 128 }

/-- `cacheBatch.Write`: in order, not atomic -/
def write (st : St) (b : List Op) : St :=
  b.foldl (fun s op => match op with | .put k v => put s k v | .del k => delete s k) st

/-- `cacheBatch.Replay`: the recorded writes, in order, as calls on the writer -/
def replay (b : List Op) : List Op := b

/-- `Flush`: every tree node, in key order, goes into a batch on the underlying store (written in
    chunks of `IdealBatchSize`, sequentially the same), then the tree is cleared -/
def nodeOp (p : Bytes × Option Bytes) : Op :=
  match p.2 with
  | some v => .put p.1 v
  | none => .del p.1

def flushOps (ov : Overlay) : List Op := ov.map nodeOp

def flush (st : St) : St := { under := applyBatch st.under (flushOps st.overlay), overlay := [], sizeEst := 0 }

def dropNotFlushed (st : St) : St := { st with overlay := [], sizeEst := 0 }

def notFlushedPairs (st : St) : Nat := st.overlay.length

/-- `GetSnapshot`: a snapshot of the parent and a copy of the tree -/
def getSnapshot (st : St) : St := { under := snapshot st.under, overlay := st.overlay, sizeEst := 0 }

/-! ### LazyFlushable -/

/-- `LazyFlushable`: the underlying store is `devnull` (always empty) until the first `Flush` (or
    `InitUnderlyingDb`) asks the producer for the real one; `real` = content of that store -/
structure Lazy where
  real : KV
  inited : Bool := false
  overlay : Overlay := []

/-- the flushable store a lazy one currently is -/
def Lazy.st (l : Lazy) : St := { under := if l.inited then l.real else [], overlay := l.overlay }

/-- `LazyFlushable.Flush`: `initUnderlyingDb`, then `flush` into the real store -/
def Lazy.flush (l : Lazy) : Lazy :=
  { real := (Model.Flushable.flush ({ under := l.real, overlay := l.overlay } : St)).under, inited := true, overlay := [] }

/-! ### the merged iterator -/

/-- `isSuitable(key, prevKey)` → `(ok, continue)`; `prev = none` is the nil `prevKey` -/
def suitable (pfx : Option Bytes) (key : Bytes) (prev : Option Bytes) : Bool × Bool :=
  if Gen.Kv.notPrefixed pfx.isSome (match pfx with | some p => isPrefix p key | none => true) then
    (Gen.Kv.notPrefixedOk, Gen.Kv.notPrefixedCont)
  else
    (Gen.Kv.afterPrev (match prev with | some pk => cmp key pk | none => 0) prev.isNone, Gen.Kv.prefixedCont)

/-- the inner `for it.treeOk && (!it.parentOk || treeKey <= parentKey)` loop of `Next`.
    `ph` = key under the parent cursor (`none` = `parentOk` false). Returns the new tree cursor,
    the new `prevKey` and the pair to return (`none` = the loop ended without `return true`). -/
def treeLoop (pfx : Option Bytes) (ph : Option Bytes) :
    Overlay → Option Bytes → Overlay × Option Bytes × Option (Bytes × Bytes)
  | [], prev => ([], prev, none)
  | (tk, tv) :: trest, prev =>
    if !Gen.Kv.treeLoop (match ph with | some pk => cmp tk pk | none => 0) true ph.isSome then
      ((tk, tv) :: trest, prev, none)
    else
      match tv with
      | some v =>
        let r := suitable pfx tk prev
        let prev' := if r.1 then some tk else prev
        if r.1 then ((if r.2 then trest else []), prev', some (tk, v))
        else if r.2 then treeLoop pfx ph trest prev'
        else ([], prev', none)
      | none =>
        -- deleted key: the next key must be greater, even if it comes from the parent
        treeLoop pfx ph trest (some tk)

/-- `Next` once the parent cursor is exhausted (only the tree is left) -/
def nextNoParent (pfx : Option Bytes) (tree : Overlay) (prev : Option Bytes) :
    Overlay × KV × Option Bytes × Option (Bytes × Bytes) :=
  if !Gen.Kv.outerLoop (!tree.isEmpty) false then (tree, [], prev, none) else
  let r := treeLoop pfx none tree prev
  (r.1, [], r.2.1, r.2.2)

/-- `flushableIterator.Next`: the outer `for it.treeOk || it.parentOk` loop; every iteration that
    does not return consumes the item under the parent cursor (recursion on the parent cursor).
    Returns the new cursors, `prevKey` and the current pair (`none` = `Next` returned false). -/
def next (pfx : Option Bytes) : KV → Overlay → Option Bytes → Overlay × KV × Option Bytes × Option (Bytes × Bytes)
  | [], tree, prev => nextNoParent pfx tree prev
  | (pk, pv) :: prest, tree, prev =>
    if !Gen.Kv.outerLoop (!tree.isEmpty) true then (tree, (pk, pv) :: prest, prev, none) else
    let r := treeLoop pfx (some pk) tree prev
    match r.2.2 with
    | some kv => (r.1, (pk, pv) :: prest, r.2.1, some kv)
    | none =>
      let s := suitable pfx pk r.2.1
      let prev2 := if s.1 then some pk else r.2.1
      if s.1 then (r.1, (if s.2 then prest else []), prev2, some (pk, pv))
      else if s.2 then next pfx prest r.1 prev2
      else nextNoParent pfx r.1 prev2

/-- call `Next` until it returns false, collecting `(Key(), Value())` -/
def drain (pfx : Option Bytes) : Nat → Overlay → KV → Option Bytes → KV
  | 0, _, _, _ => []
  | fuel + 1, tree, parent, prev =>
    match next pfx parent tree prev with
    | (_, _, _, none) => []
    | (tree', parent', prev', some kv) => kv :: drain pfx fuel tree' parent' prev'

/-- `NewIterator` + `init`: tree cursor = `Ceiling(prefix ++ start)` (leftmost node when that is
    empty); `parentItems` = what the underlying store's own iterator for `(prefix, start)` yields -/
def initTree (ov : Overlay) (s : Bytes) : Overlay :=
  if Gen.Kv.initFromStart s.length then ov.filter (fun x => lexLe s x.1) else ov

/-- a fresh iterator drained to the end, over an arbitrary parent iterator -/
def iterateOver (parentItems : KV) (ov : Overlay) (pfx : Option Bytes) (start : Bytes) : KV :=
  let tree := initTree ov (pfx.getD [] ++ start)
  drain pfx (tree.length + parentItems.length + 1) tree parentItems none

/-- a fresh iterator of the flushable store drained to the end; the underlying store's iterator
    obeys the `iterSpec` contract -/
def iterate (st : St) (pfx : Option Bytes) (start : Bytes) : KV :=
  iterateOver (iterSpec st.under (pfx.getD []) start) st.overlay pfx start

end Model.Flushable
