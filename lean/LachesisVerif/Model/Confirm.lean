/-!
Model of `Lachesis.confirmEvents` / `Orderer.dfsSubgraph` (abft/lachesis.go, abft/traversal.go):
an explicit-stack DFS from the Atropos that skips events already confirmed, marks every visited
event confirmed and hands it to the application. Events are numbers, `parents` is the DAG.
The Go loop has no bound; the model takes fuel and returns `none` when it runs out.
-/
namespace Model.Confirm

/-- `(confirmed, delivered)` after the DFS; `stack` = pending events (top first) -/
def dfs (parents : Nat → List Nat) : Nat → List Nat → List Nat → List Nat → Option (List Nat × List Nat)
  | _, [], c, out => some (c, out)
  | 0, _ :: _, _, _ => none
  | fuel + 1, w :: st, c, out =>
    if c.contains w then dfs parents fuel st c out            -- filter returned false: `continue`
    else dfs parents fuel ((parents w).reverse ++ st) (w :: c) (out ++ [w])   -- confirm, apply, push parents

/-- confirmEvents(frame, atropos): the DFS starts with the Atropos itself -/
def confirmEvents (parents : Nat → List Nat) (fuel : Nat) (confirmed : List Nat) (atropos : Nat) :
    Option (List Nat × List Nat) :=
  dfs parents fuel [atropos] confirmed []

end Model.Confirm
