import LachesisVerif.Model.Vec
import LachesisVerif.Gen.VecPersist
/-!
Persistence of the vector index: `vecengine.Engine.{Reset, Add, Flush, DropNotFlushed}`,
`InitBranchesInfo` / `getBranchesInfo` / `setBranchesInfo` / `newInitialBranchesInfo`
(vecengine/index.go, branches_info.go, store_branches_info.go) and the row accessors of
vecfc/store_vectors.go. The four decisions (`Flush` writes the record, `DropNotFlushed` clears the
overlay, `InitBranchesInfo` reloads, the initial table is used) are the regenerated kernels
`Gen.VecPersist.{flushWritesBI, dropClears, initNeeded, useInitial}`.

The index keeps everything in ONE flushable key-value store `vi.vecDb = flushable.WrapWithDrop(db)`:
tables "b" (event → branch id), "S" (event → HighestBefore), "s" (event → LowestAfter), "B" (one
record, key "c": the RLP of `BranchesInfo`). Reads go through the unflushed overlay
(`Flushable.modified`) and then to the parent DB; writes go to the overlay; `Flush` moves the overlay
into the parent; `DropNotFlushed` clears it. `vi.bi` is an in-memory copy of the BranchesInfo record
which `fillGlobalBranchID` mutates in place; it reaches table "B" only inside `Engine.Flush`.

Events are positions (as in `Model.Vec`): the event added next gets position `size`. A dropped
event's position is re-used (Go keys rows by event hash; the rows of a dropped event disappear with
the overlay, so nothing of it is left under either naming). `par` (event → parents) is the
`getEvent` callback — the application's event store, not part of vecDb; it is modelled as a fourth
table under the same overlay discipline (the application remembers exactly the events whose
`Process` reached `Flush`).
-/
namespace Model.VecPersist
open Model.Vec

/-- one key-value table event → row; `none` = key absent (Go: `Get` returns nil) -/
structure Tab (α : Type) where
  get : Nat → Option α

namespace Tab
def empty {α : Type} : Tab α := ⟨fun _ => none⟩
/-- `Put` -/
@[noinline] def set {α : Type} (t : Tab α) (n : Nat) (x : α) : Tab α :=
  ⟨fun a => if a = n then some x else t.get a⟩
/-- `Flushable.Get`: the overlay first, then the parent -/
def look {α : Type} (ov st : Tab α) (a : Nat) : Option α :=
  match ov.get a with
  | some x => some x
  | none => st.get a
/-- `Flushable.flush`: every overlay pair is put into the parent -/
@[noinline] def merge {α : Type} (ov st : Tab α) : Tab α := ⟨fun a => look ov st a⟩
/-- read with Go's "absent ↦ zero value" convention of `Model.Vec` -/
def read {α : Type} (ov st : Tab α) (d : α) (a : Nat) : α := (look ov st a).getD d
end Tab

/-- the event-keyed tables of one layer (parent DB, or overlay) -/
structure Rows where
  br : Tab Nat           -- table "b": EventBranch
  hb : Tab HBV           -- table "S": HighestBeforeSeq
  la : Tab LAV           -- table "s": LowestAfterSeq
  par : Tab (List Nat)   -- getEvent callback (application's event store)

def Rows.empty : Rows := ⟨Tab.empty, Tab.empty, Tab.empty, Tab.empty⟩
def Rows.merge (ov st : Rows) : Rows :=
  ⟨Tab.merge ov.br st.br, Tab.merge ov.hb st.hb, Tab.merge ov.la st.la, Tab.merge ov.par st.par⟩

/-- the BranchesInfo record; `BranchIDByCreators` is determined by `creatorOf` (branch ids are
    appended in increasing order), as in `Model.Vec.VState.branchesOf` -/
structure BI where
  nBr : Nat                -- len(BranchIDCreatorIdxs) = len(BranchIDLastSeq)
  lastSeq : Nat → Nat      -- BranchIDLastSeq
  creatorOf : Nat → Nat    -- BranchIDCreatorIdxs

/-- newInitialBranchesInfo -/
def BI.initial (nVals : Nat) : BI := ⟨nVals, fun _ => 0, fun b => b⟩

structure PState where
  nVals : Nat
  /-- parent DB (persisted) -/
  store : Rows
  /-- table "B" key "c" in the parent DB -/
  storeBI : Option BI
  /-- number of events whose rows are in the parent DB -/
  fsize : Nat
  /-- `Flushable.modified` (lost on restart) -/
  ov : Rows
  /-- abstraction of `vi.vecDb.NotFlushedPairs()`: true = at least one pair (`dropNotFlushed` feeds
      the kernel `Gen.VecPersist.dropClears` with 1 / 0) -/
  dirty : Bool
  /-- `vi.bi` (nil = none) -/
  bi : Option BI
  /-- next position -/
  size : Nat

/-- a new index over an empty DB, after `Reset` -/
def PState.fresh (nVals : Nat) : PState :=
  { nVals := nVals, store := Rows.empty, storeBI := none, fsize := 0,
    ov := Rows.empty, dirty := false, bi := none, size := 0 }

namespace PState

/-- `getBranchesInfo`, then `newInitialBranchesInfo` if the record is absent (the two inner steps of
    `InitBranchesInfo`). The record is read through the flushable; the overlay holds it only inside
    `Engine.Flush`, which flushes immediately, so the parent's record is what is read. -/
def loadBI (s : PState) : BI :=
  -- `vi.bi = vi.getBranchesInfo(); if vi.bi == nil { vi.bi = newInitialBranchesInfo(vi.validators) }`
  if Gen.VecPersist.useInitial s.storeBI.isNone then BI.initial s.nVals
  else s.storeBI.getD (BI.initial s.nVals)

/-- `InitBranchesInfo`: `if vi.bi == nil { … }` (called by Add, GetMergedHighestBefore, ForklessCause) -/
def initBI (s : PState) : PState :=
  if Gen.VecPersist.initNeeded s.bi.isNone then { s with bi := some s.loadBI } else s

/-- the BranchesInfo every reader works with (readers call `InitBranchesInfo` first) -/
def curBI (s : PState) : BI :=
  if Gen.VecPersist.initNeeded s.bi.isNone then s.loadBI else s.bi.getD s.loadBI

/-- the working view: what the index answers from — rows read through overlay then parent,
    absent ↦ zero (the convention of `Model.Vec`), plus the current BranchesInfo -/
def view (s : PState) : VState :=
  { nVals := s.nVals, nBr := s.curBI.nBr, lastSeq := s.curBI.lastSeq, creatorOf := s.curBI.creatorOf,
    branchOf := fun a => Tab.read s.ov.br s.store.br 0 a,
    hb := ⟨fun a => Tab.read s.ov.hb s.store.hb HBV.zero a⟩,
    la := ⟨fun a => Tab.read s.ov.la s.store.la LAV.zero a⟩,
    parents := fun a => Tab.read s.ov.par s.store.par [] a,
    size := s.size }

/-- what a fresh process sees in the parent DB alone (no overlay, `vi.bi` nil) -/
def storeView (s : PState) : VState :=
  { nVals := s.nVals, nBr := s.loadBI.nBr, lastSeq := s.loadBI.lastSeq, creatorOf := s.loadBI.creatorOf,
    branchOf := fun a => Tab.read Tab.empty s.store.br 0 a,
    hb := ⟨fun a => Tab.read Tab.empty s.store.hb HBV.zero a⟩,
    la := ⟨fun a => Tab.read Tab.empty s.store.la LAV.zero a⟩,
    parents := fun a => Tab.read Tab.empty s.store.par [] a,
    size := s.fsize }

/-- the DFS of `fillEventVectors` over the layered LowestAfter table: `GetLowestAfter` reads overlay
    then parent, `SetLowestAfter` writes the overlay (read-your-writes matters: a row visited twice
    is skipped the second time because of the value written the first time) -/
def visitLA (parents : Nat → List Nat) (me seq : Nat) (st : Tab LAV) : Nat → List Nat → Tab LAV → Tab LAV
  | 0, _, ov => ov
  | _, [], ov => ov
  | fuel + 1, w :: stack, ov =>
    if Gen.Vec.visitSkip ((Tab.read ov st LAV.zero w).get me) then visitLA parents me seq st fuel stack ov
    else visitLA parents me seq st fuel ((parents w).reverse ++ stack)
           (ov.set w ((Tab.read ov st LAV.zero w).set me seq))

/-- `Engine.Add` = `InitBranchesInfo` + `fillEventVectors`: all reads through the flushable (the
    view), `fillGlobalBranchID` mutates `vi.bi` in memory, the rows of the new event and the visited
    LowestAfter rows are put into the overlay -/
def add (s : PState) (e : Event) : PState :=
  let v := s.view
  let n := s.size
  let r := v.assignBranch e
  let s1 := r.1
  let me := r.2
  let v0 : HBV := HBV.zero.set me ⟨e.seq, e.seq⟩
  let v1 := e.parents.foldl (fun v p => VState.collectFrom v (s1.hb.get p) s1.nBr) v0
  let v2 := s1.detectForks v1
  let la1 := visitLA v.parents me e.seq s.store.la ((s.size + 1) * (s.size + 2)) e.parents.reverse s.ov.la
  { s with
    ov := ⟨s.ov.br.set n me, s.ov.hb.set n v2, la1.set n (LAV.zero.set me e.seq), s.ov.par.set n e.parents⟩,
    dirty := true,
    bi := some ⟨s1.nBr, s1.lastSeq, s1.creatorOf⟩,
    size := n + 1 }

/-- `Engine.Flush`: `if vi.bi != nil { vi.setBranchesInfo(vi.bi) }`, then `vi.vecDb.Flush()` -/
def flush (s : PState) : PState :=
  { s with
    storeBI := (if Gen.VecPersist.flushWritesBI s.bi.isSome then s.bi else s.storeBI),
    store := Rows.merge s.ov s.store,
    fsize := s.size,
    ov := Rows.empty,
    dirty := false }

/-- `Engine.DropNotFlushed`: `vi.bi = nil` unconditionally; the overlay is cleared
    `if vi.vecDb.NotFlushedPairs() != 0` (and then the row caches are purged). The caller forgets
    the dropped events: the next position is the first unpersisted one. -/
def dropNotFlushed (s : PState) : PState :=
  { s with
    bi := none,
    ov := if Gen.VecPersist.dropClears (if s.dirty then 1 else 0) then Rows.empty else s.ov,
    dirty := false,
    size := s.fsize }

/-- `Engine.Reset` on a restart over the persisted parent DB: a NEW flushable wrapper (the old
    overlay is gone with the process), then `DropNotFlushed` (`vi.bi = nil`) -/
def reset (s : PState) : PState :=
  { s with ov := Rows.empty, dirty := false, bi := none, size := s.fsize }

/-- restart: `Reset` followed by the first `InitBranchesInfo` -/
def reload (s : PState) : PState := s.reset.initBI

end PState

/-- the calls a client can make -/
inductive Op where
  | add (e : Event)
  | flush
  | drop
  | query      -- any reader: `InitBranchesInfo` is its only effect on the state
  | restart

def PState.step (s : PState) : Op → PState
  | .add e => s.add e
  | .flush => s.flush
  | .drop => s.dropNotFlushed
  | .query => s.initBI
  | .restart => s.reload

def PState.exec (s : PState) (ops : List Op) : PState := ops.foldl PState.step s

end Model.VecPersist
