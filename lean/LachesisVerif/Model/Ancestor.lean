import LachesisVerif.Gen.Emitter
/-! Model of emitter/ancestor: `ChooseParents` with logged strategy calls, `MetricStrategy.Choose`
    (C19) and the `QuorumIndexer` with `wmedian.Of` (C20). Every loop condition, the fork value,
    the median stop test, the running sums and the dirty tests are regenerated kernels
    (`Gen.Emitter`). Event ids and validator indices are natural numbers. -/
namespace Model.Ancestor

/-- `for i := start; cond(i); i++ { s = body(i, s) }`, with fuel -/
def forLoop {σ : Type} (cond : Nat → Bool) (body : Nat → σ → σ) : Nat → Nat → σ → σ
  | 0, _, s => s
  | fuel + 1, i, s => if cond i then forLoop cond body fuel (i + 1) (body i s) else s

/-! ### C19: ChooseParents -/

/-- one strategy call as it happened: the option slice the strategy was given (the order in which
    Go enumerated the option set) and the index it returned -/
structure Call where
  seen : List Nat
  best : Nat

/-- `options.Set()` minus the existing parents, as a duplicate-free list -/
def optionSet (existing options : List Nat) : List Nat :=
  options.eraseDups.filter (fun o => !existing.contains o)

/-- the loop of ChooseParents from iteration `i` on; `n` = len(strategies), `calls` = the calls of
    strategies i, i+1, …; `rest` = optionsSet. Returns the parents and the number of calls made. -/
def chooseFrom (n : Nat) : Nat → List Call → List Nat → List Nat → List Nat × Nat
  | i, [], parents, _ => (parents, i)
  | i, c :: cs, parents, rest =>
    if Gen.Emitter.chooseLoop i n rest.length then
      let p := c.seen.getD c.best 0
      chooseFrom n (i + 1) cs (parents ++ [p]) (rest.filter (fun o => o != p))
    else (parents, i)

def chooseTrace (existing options : List Nat) (calls : List Call) : List Nat × Nat :=
  chooseFrom calls.length 0 calls existing (optionSet existing options)

/-- ChooseParents(existing, options, strategies) where strategy `i` behaved as `calls[i]` -/
def chooseParents (existing options : List Nat) (calls : List Call) : List Nat :=
  (chooseTrace existing options calls).1

def isPermOf (a b : List Nat) : Bool := a.length == b.length && a.all (fun x => a.count x == b.count x)

/-- the contract of the environment along the run: every call that is actually made saw a
    permutation of the current option set and returned an index inside it -/
def callsOk (n : Nat) : Nat → List Call → List Nat → Bool
  | _, [], _ => true
  | i, c :: cs, rest =>
    if Gen.Emitter.chooseLoop i n rest.length then
      isPermOf c.seen rest && decide (c.best < c.seen.length) &&
        callsOk n (i + 1) cs (rest.filter (fun o => o != c.seen.getD c.best 0))
    else true

/-- the loop of MetricStrategy.Choose over the metrics of the options, in option order -/
def metricChooseFrom : List Nat → Nat → Nat → Nat → Nat
  | [], _, maxI, _ => maxI
  | w :: ws, i, maxI, maxW =>
    if Gen.Emitter.chooseUpdate maxW w then metricChooseFrom ws (i + 1) i w
    else metricChooseFrom ws (i + 1) maxI maxW

/-- MetricStrategy.Choose: the returned index -/
def metricChoose (metrics : List Nat) : Nat := metricChooseFrom metrics 0 0 0

/-! ### C20: QuorumIndexer -/

/-- dagidx.Seq -/
structure Seq where
  seq : Nat := 0
  fork : Bool := false

def seqOf (s : Seq) : Nat := if Gen.Emitter.seqIsFork s.fork then Gen.Emitter.forkSeq else s.seq

/-- wmedian.Of on (value, weight) pairs; `none` = panic("invalid median") -/
def wmedianFrom : List (Nat × Nat) → Nat → Nat → Option Nat
  | [], _, _ => none
  | (s, w) :: rest, cur, stop =>
    if Gen.Emitter.medianStop (Gen.Emitter.medianAdd cur w) stop then some s
    else wmedianFrom rest (Gen.Emitter.medianAdd cur w) stop

def insertDesc (x : Nat × Nat) : List (Nat × Nat) → List (Nat × Nat)
  | [] => [x]
  | y :: ys => if Gen.Emitter.sortBefore x.1 y.1 then x :: y :: ys else y :: insertDesc x ys

/-- one admissible result of `sort.Slice(pairs, a.seq > b.seq)` -/
def sortDesc (l : List (Nat × Nat)) : List (Nat × Nat) := l.foldr insertDesc []

def set1 (f : Nat → Nat) (i x : Nat) : Nat → Nat := fun j => if j = i then x else f j
def set2 (f : Nat → Nat → Nat) (i j x : Nat) : Nat → Nat → Nat :=
  fun a b => if a = i ∧ b = j then x else f a b

structure QI where
  n : Nat                    -- validators.Len()
  weights : Nat → Nat        -- GetWeightByIdx
  quorum : Nat               -- validators.Quorum()
  matrix : Nat → Nat → Nat   -- globalMatrix.Row(validatorIdx)[creatorIdx]
  selfSeqs : Nat → Nat
  medians : Nat → Nat
  dirty : Bool

def newQI (n : Nat) (weights : Nat → Nat) (quorum : Nat) : QI :=
  { n := n, weights := weights, quorum := quorum, matrix := fun _ _ => 0, selfSeqs := fun _ => 0,
    medians := fun _ => 0, dirty := true }

/-- the (seq, weight) pairs of matrix row `v`, by creator index -/
def rowPairs (q : QI) (v : Nat) : List (Nat × Nat) :=
  (List.range q.n).map (fun i => (q.matrix v i, q.weights i))

def processBody (hb : Nat → Seq) (creatorIdx : Nat) (self : Bool) (v : Nat) (q : QI) : QI :=
  let seq := seqOf (hb v)
  { q with matrix := set2 q.matrix v creatorIdx seq,
           selfSeqs := if Gen.Emitter.processSelf self then set1 q.selfSeqs v seq else q.selfSeqs }

/-- QuorumIndexer.ProcessEvent; `hb` = GetMergedHighestBefore(event.ID()), `creatorIdx` =
    validators.GetIdx(event.Creator()) -/
def processEvent (q : QI) (hb : Nat → Seq) (creatorIdx : Nat) (self : Bool) : QI :=
  let q' := forLoop (fun v => Gen.Emitter.processLoop v q.n) (processBody hb creatorIdx self) q.n 0 q
  { q' with dirty := true }

/-- one iteration of recacheState; `sorter` = what sort.Slice did with the pairs -/
def recacheBody (sorter : List (Nat × Nat) → List (Nat × Nat)) (v : Nat) (st : Option QI) : Option QI :=
  match st with
  | none => none
  | some q =>
    match wmedianFrom (sorter (rowPairs q v)) 0 q.quorum with
    | none => none
    | some m => some { q with medians := set1 q.medians v m }

/-- QuorumIndexer.recacheState (`none` = panic) -/
def recache (sorter : List (Nat × Nat) → List (Nat × Nat)) (q : QI) : Option QI :=
  match forLoop (fun v => Gen.Emitter.recacheLoop v q.n) (recacheBody sorter) q.n 0 (some q) with
  | none => none
  | some q' => some { q' with dirty := false }

/-- GetGlobalMedianSeqs: new state and the returned slice -/
def getMedians (sorter : List (Nat × Nat) → List (Nat × Nat)) (q : QI) : Option (QI × List Nat) :=
  match (if Gen.Emitter.mediansDirty q.dirty then recache sorter q else some q) with
  | none => none
  | some q' => some (q', (List.range q'.n).map q'.medians)

/-- GetMetricOf(id); `hb` = GetMergedHighestBefore(id), `diff` = diffMetricFn -/
def getMetric (sorter : List (Nat × Nat) → List (Nat × Nat)) (diff : Nat → Nat → Nat → Nat → Nat)
    (q : QI) (hb : Nat → Seq) : Option (QI × Nat) :=
  match (if Gen.Emitter.metricDirty q.dirty then recache sorter q else some q) with
  | none => none
  | some q' =>
    some (q', forLoop (fun v => Gen.Emitter.metricLoop v q'.n)
      (fun v m => Gen.Emitter.metricAdd m (diff (q'.medians v) (q'.selfSeqs v) (seqOf (hb v)) v)) q'.n 0 0)

/-- SearchStrategy().Choose(nil, options) with the options' vectors: recache if dirty, then the
    metric strategy over GetMetricOf (the per-recache metric cache is transparent: between two
    ProcessEvent calls GetMetricOf is a function of the id) -/
def qchoose (sorter : List (Nat × Nat) → List (Nat × Nat)) (diff : Nat → Nat → Nat → Nat → Nat)
    (q : QI) (hbs : List (Nat → Seq)) : Option (QI × Nat) :=
  match (if Gen.Emitter.strategyDirty q.dirty then recache sorter q else some q) with
  | none => none
  | some q' =>
    let ms := hbs.map (fun hb => match getMetric sorter diff q' hb with | some (_, m) => m | none => 0)
    some (q', metricChoose ms)

/-- the operations of a quorum indexer's life, for history theorems -/
inductive Op where
  | process (hb : Nat → Seq) (creatorIdx : Nat) (self : Bool)
  | medians
  | metric (hb : Nat → Seq)

def stepOp (sorter : List (Nat × Nat) → List (Nat × Nat)) (diff : Nat → Nat → Nat → Nat → Nat)
    (q : QI) : Op → Option QI
  | .process hb c self => some (processEvent q hb c self)
  | .medians => (getMedians sorter q).map (·.1)
  | .metric hb => (getMetric sorter diff q hb).map (·.1)

/-- run a history; `none` = the real code would have panicked -/
def run (sorter : List (Nat × Nat) → List (Nat × Nat)) (diff : Nat → Nat → Nat → Nat → Nat) :
    QI → List Op → Option QI
  | q, [] => some q
  | q, op :: ops =>
    match stepOp sorter diff q op with
    | none => none
    | some q' => run sorter diff q' ops

end Model.Ancestor
