import LachesisVerif.Gen.Multidb
/-! Model of `kvdb/multidb` (producer.go, verify.go, records.go) and of the fragment of
    `utils/fmtfilter` + `fmt.Sscanf/Sprintf` the routing tables use (`%d`, `%s`, literal text).

    Strings are byte lists (`List Nat`, ASCII). Go maps are association lists; `NewProducer` receives
    the routing table as a list in *some* order (the Go map order) and sorts it (repaired code, D8).
    Everything the code decides by a small Boolean combination comes from `Gen.Multidb`. -/

namespace Model.Multidb

abbrev Str := List Nat

def PERCENT : Nat := 37
def SLASH : Nat := 47

/-! ## fmtfilter: templates -/

inductive Tok where
  | lit (c : Nat)
  | d
  | s
  deriving DecidableEq, Repr

def Tok.isVerb : Tok → Bool
  | .lit _ => false
  | _ => true

/-- `parseScanfOps` + the tokenisation `fmt` itself performs, for templates whose only `%` forms are
    `%d` and `%s`. `none` = `CompileFilter` fails (`%` + other letter, dangling `%`) or the template
    is outside the modelled fragment (widths, `%%`; never generated). -/
def parseTemplate : Str → Option (List Tok)
  | [] => some []
  | c :: rest =>
    if c = PERCENT then
      match rest with
      | 100 :: rest' => (parseTemplate rest').map (Tok.d :: ·)
      | 115 :: rest' => (parseTemplate rest').map (Tok.s :: ·)
      | _ => none
    else (parseTemplate rest).map (Tok.lit c :: ·)

def verbsOf (ts : List Tok) : List Tok := ts.filter Tok.isVerb

inductive Val where
  | int (v : Int)
  | str (s : Str)
  deriving DecidableEq, Repr

def isDigit (c : Nat) : Bool := 48 ≤ c && c ≤ 57

def isSpace (c : Nat) : Bool := c = 32 || c = 9 || c = 10 || c = 13

def digitsVal (ds : List Nat) : Nat := ds.foldl (fun acc c => acc * 10 + (c - 48)) 0

/-- `fmt.Sscanf(input, template, …)` on the fragment (no white space anywhere): literal bytes must
    match; `%d` = optional sign, non-empty run of decimal digits, value must fit int64; `%s` = the
    non-empty run of non-space bytes. Trailing input is ignored (as `Sscanf` does). -/
def scanf : List Tok → Str → Option (List Val)
  | [], _ => some []
  | Tok.lit c :: ts, inp =>
    match inp with
    | x :: xs => if x = c then scanf ts xs else none
    | [] => none
  | Tok.d :: ts, inp =>
    let (neg, inp1) := match inp with
      | 43 :: r => (false, r)
      | 45 :: r => (true, r)
      | _ => (false, inp)
    let ds := inp1.takeWhile isDigit
    let rest := inp1.dropWhile isDigit
    if ds.isEmpty then none else
    let n := digitsVal ds
    if (neg && n > 9223372036854775808) || (!neg && n > 9223372036854775807) then none else
    let v : Int := if neg then -(Int.ofNat n) else Int.ofNat n
    (scanf ts rest).map (Val.int v :: ·)
  | Tok.s :: ts, inp =>
    let w := inp.takeWhile (fun c => !isSpace c)
    let rest := inp.dropWhile (fun c => !isSpace c)
    if w.isEmpty then none else (scanf ts rest).map (Val.str w :: ·)

def natDigits (n : Nat) : Str := (Nat.toDigits 10 n).map Char.toNat

def intStr (v : Int) : Str :=
  if v < 0 then 45 :: natDigits v.natAbs else natDigits v.natAbs

def ofAscii (s : String) : Str := s.toList.map Char.toNat

/-- `%!(EXTRA type=value, …)` suffix `Sprintf` appends for unused operands -/
def extraSuffix (vs : List Val) : Str :=
  if vs.isEmpty then [] else
  let items := vs.map (fun v => match v with
    | .int i => ofAscii "int64=" ++ intStr i
    | .str s => ofAscii "string=" ++ s)
  ofAscii "%!(EXTRA " ++ (items.intersperse (ofAscii ", ")).flatten ++ ofAscii ")"

/-- `fmt.Sprintf(template, vals…)`; the verbs of the template are a prefix of the scanned ones
    (checked by `CompileFilter`), so operand kinds always fit. -/
def sprintf : List Tok → List Val → Str
  | [], vs => extraSuffix vs
  | Tok.lit c :: ts, vs => c :: sprintf ts vs
  | Tok.d :: ts, Val.int v :: vs => intStr v ++ sprintf ts vs
  | Tok.s :: ts, Val.str s :: vs => s ++ sprintf ts vs
  | _ :: ts, _ :: vs => ofAscii "%!" ++ sprintf ts vs   -- unreachable (kinds fit)
  | _ :: ts, [] => ofAscii "%!(MISSING)" ++ sprintf ts []  -- unreachable (prefix)

/-- `fmtfilter.CompileFilter(scanfTemplate, printfTemplate)`: `none` = compile error,
    otherwise the matcher `req ↦ name` (`none` = does not match). -/
def compileFilter (scanT printT : Str) : Option (Str → Option Str) :=
  match parseTemplate scanT, parseTemplate printT with
  | some st, some pt =>
    let ops := verbsOf st
    let pops := verbsOf pt
    if !(pops.isPrefixOf ops) then none
    else if ops.isEmpty then
      some (fun req => if req = scanT then some printT else none)
    else if ops.length ≤ 2 then
      some (fun req => (scanf st req).map (sprintf pt))
    else none
  | _, _ => none

/-! ## routing table, `NewProducer`, `RouteOf` -/

structure Route where
  type : Str
  name : Str
  table : Str
  noDrop : Bool
  deriving DecidableEq, Repr

/-- one entry of the `routingTable` map (keys distinct) -/
structure Entry where
  req : Str
  route : Route
  deriving DecidableEq, Repr

/-- `scanfRoute` -/
structure Pat where
  matcher : Str → Option Str
  type : Str
  table : Str
  noDrop : Bool

structure Router where
  exact : List Entry
  pats : List Pat

def strLe (a b : Str) : Bool := decide (a ≤ b)

def entryLe (a b : Entry) : Bool := strLe a.req b.req

def insertEntry (e : Entry) : List Entry → List Entry
  | [] => [e]
  | x :: xs => if entryLe e x then e :: x :: xs else x :: insertEntry e xs

/-- `sort.Strings(reqs)` of the repaired `NewProducer` (byte-wise order; keys are distinct, so the
    sorted order is unique — any sorting algorithm gives this list, see `C26.sortEntries_perm`) -/
def sortEntries (t : List Entry) : List Entry := t.foldr insertEntry []

def isExact (e : Entry) : Bool :=
  Gen.Multidb.exactRoute (e.req.contains PERCENT) (e.route.name.contains PERCENT)

/-- the loop body of `NewProducer` over the entries in the given order -/
def addEntries : List Entry → Router → Option Router
  | [], r => some r
  | e :: es, r =>
    if isExact e then addEntries es { r with exact := r.exact ++ [e] }
    else match compileFilter e.req e.route.name with
      | none => none
      | some fn => addEntries es { r with pats := r.pats ++ [⟨fn, e.route.type, e.route.table, e.route.noDrop⟩] }

def hasDefault (t : List Entry) : Bool := t.any (fun e => e.req = [])

/-- `NewProducer` given the map's entries in the order `order` the loop visits them. -/
def newProducerIn (order : List Entry) : Option Router :=
  if !hasDefault order then none else addEntries order ⟨[], []⟩

/-- the repaired `NewProducer`: `mapOrder` is the routing table in Go's map iteration order -/
def newProducer (mapOrder : List Entry) : Option Router := newProducerIn (sortEntries mapOrder)

/-- the pre-fix `NewProducer` (D8): patterns are compiled in map iteration order -/
def newProducerPreFix (mapOrder : List Entry) : Option Router := newProducerIn mapOrder

def lookupExact (es : List Entry) (req : Str) : Option Route :=
  (es.find? (fun e => e.req = req)).map (·.route)

/-- the inner `for i := 0; !ok && i < len(p.routingFmt); i++` loop: first matching pattern -/
def firstPat (ps : List Pat) (req : Str) : Option Route :=
  match ps with
  | [] => none
  | p :: rest =>
    if Gen.Multidb.tryNextPattern 0 (rest.length + 1) false then
      match p.matcher req with
      | some name => some ⟨p.type, name, p.table, p.noDrop⟩
      | none => firstPat rest req
    else none

def matchReq (r : Router) (req : Str) : Option Route :=
  match lookupExact r.exact req with
  | some d => some d
  | none => firstPat r.pats req

/-- `strings.LastIndexByte(req, '/')`: `some (req[:pos], req[pos+1:])` -/
def splitLast : Str → Option (Str × Str)
  | [] => none
  | c :: rest =>
    match splitLast rest with
    | some (a, b) => some (c :: a, b)
    | none => if c = SLASH then some ([], rest) else none

/-- the outer `for` of `RouteOf`; `none` = fuel exhausted (the Go loop would spin forever) -/
def routeLoop : Nat → Router → Str → Str → Str → Option Route
  | 0, _, _, _, _ => none
  | fuel + 1, r, req, rpName, rpTable =>
    match matchReq r req with
    | some d => some ⟨d.type, d.name ++ rpName, d.table ++ rpTable, d.noDrop⟩
    | none =>
      match splitLast req with
      | none => routeLoop fuel r [] req rpTable
      | some (pre, suf) => routeLoop fuel r pre rpName (rpTable ++ suf)

def routeOf (r : Router) (req : Str) : Option Route := routeLoop (req.length + 2) r req [] []

/-! ## table records, `handleRoute`, `OpenDB`, `Verify` -/

/-- `DBLocator` -/
structure Loc where
  type : Str
  name : Str
  deriving DecidableEq, Repr

/-- `TableRecord` -/
structure Rec where
  req : Str
  table : Str
  deriving DecidableEq, Repr

/-- `tablesConflicting(a, b)` -/
def conflicting (a b : Str) : Bool := Gen.Multidb.tablesConflicting (b.isPrefixOf a) (a.isPrefixOf b)

inductive HErr where
  | reassign
  | conflict
  deriving DecidableEq, Repr

/-- the `for _, old := range records` loop of `handleRoute`:
    `ok false` = record found, `ok true` = not found (append), or the error -/
def scanRecords : List Rec → Str → Str → Except HErr Bool
  | [], _, _ => .ok true
  | old :: rest, req, table =>
    if Gen.Multidb.recordFound (old.req = req) (old.table = table) then .ok false
    else if Gen.Multidb.recordReassigned (old.req = req) (old.table ≠ table) then .error .reassign
    else if Gen.Multidb.recordConflicts (conflicting old.table table) then .error .conflict
    else scanRecords rest req table

/-- `handleRoute`: the new record list of the DB, or the error -/
def handleRoute (records : List Rec) (req table : Str) : Except HErr (List Rec) :=
  match scanRecords records req table with
  | .ok true => .ok (records ++ [⟨req, table⟩])
  | .ok false => .ok records
  | .error e => .error e

/-- durable state: the records list stored in each existing DB (association list, keys distinct) -/
abbrev DBs := List (Loc × List Rec)

def getRecs (s : DBs) (l : Loc) : List Rec :=
  match s with
  | [] => []
  | (l', rs) :: rest => if l' = l then rs else getRecs rest l

def setRecs (s : DBs) (l : Loc) (rs : List Rec) : DBs :=
  match s with
  | [] => [(l, rs)]
  | (l', rs') :: rest => if l' = l then (l, rs) :: rest else (l', rs') :: setRecs rest l rs

inductive OpenRes where
  | ok (loc : Loc) (table : Str) (noDrop : Bool)
  | noRoute            -- `RouteOf` does not terminate (excluded by `NewProducer`)
  | missingProducer
  | reassign
  | conflict
  deriving DecidableEq, Repr

/-- `Producer.OpenDB(req)`; `types` = keys of the producers map. The underlying `OpenDB(route.Name)`
    creates the DB (with no records) even if `handleRoute` then refuses the request. -/
def openDB (types : List Str) (r : Router) (s : DBs) (req : Str) : DBs × OpenRes :=
  match routeOf r req with
  | none => (s, .noRoute)
  | some route =>
    if !types.contains route.type then (s, .missingProducer) else
    let loc : Loc := ⟨route.type, route.name⟩
    let old := getRecs s loc
    match handleRoute old req route.table with
    | .ok recs => (setRecs s loc recs, .ok loc route.table route.noDrop)
    | .error .reassign => (setRecs s loc old, .reassign)
    | .error .conflict => (setRecs s loc old, .conflict)

/-- one record still routes to where it is stored (`verifyRecords` inner body, negated) -/
def recordStays (r : Router) (l : Loc) (rc : Rec) : Bool :=
  match routeOf r rc.req with
  | none => false
  | some nr =>
    !(Gen.Multidb.verifyTypeDiffers (l.type ≠ nr.type)) &&
    !(Gen.Multidb.verifyNameDiffers (l.name ≠ nr.name)) &&
    !(Gen.Multidb.verifyTableDiffers (rc.table ≠ nr.table))

/-- `Producer.Verify()`: `true` = no error. Go visits the DBs in map order and returns the first
    error; only the existence of an error is modelled. -/
def verify (r : Router) (s : DBs) : Bool :=
  s.all (fun p => p.2.all (recordStays r p.1))

/-- key under which `table.New(db, table)` stores `k` -/
def physKey (table k : Str) : Str := table ++ k

end Model.Multidb
