import LachesisVerif.Gen.Fetcher
/-!
Model of `gossip/itemsfetcher`: the fetcher loop as a timed state machine, one step per event the
loop dequeues:

* `notify peer annTime ids`  — one announcement batch (`processNotification`); oracles: the
  answer of `OnlyInterested` (`accepted`) and of `Suspend`;
* `received ids`             — `forgetHash` for each id;
* `timerFire`                — the timer case of `loop`; oracles: the answer of `OnlyInterested`
  on all announced ids (`interested`) and the `rand.Intn` choices (`pick`).

Every step carries the time stamp `now` (`time.Now()` at the event). `announces` is the weighted
LRU (`utils/wlru`: most recently used first, eviction from the back, the eviction callback
deletes the `fetching` entry); `fetching` is an association list; `timer` is `some deadline`
while the fetch timer is armed. Times and durations are naturals (one unit = 1 µs in the
correspondence stream); `GatherSlack ≤ ArriveTimeout` is assumed. `rescheduleFetch` scans at most
`HashLimit/32 + 1` entries of `fetching` in map order; the model takes the minimum over all
entries (exact when `|fetching| ≤ HashLimit/32 + 1`; any scanned subset gives a deadline between
the model's and `now + ArriveTimeout`, which is all the theorems and the judge use).

`notifyOld` / `notifyPrev` use the two earlier arming rules (negative witnesses only).
-/
namespace Model.Fetcher

structure Ann where
  peer : Nat
  time : Nat
deriving DecidableEq, Repr

structure Cfg where
  forget : Nat
  arrive : Nat
  gather : Nat
  hashLimit : Nat
deriving Repr

/-- one `announces` entry: id, announcements (oldest first), LRU weight -/
structure Entry where
  id : Nat
  anns : List Ann
  weight : Nat
deriving DecidableEq, Repr

structure St where
  announces : List Entry := []          -- most recently used first
  fetching : List (Nat × (Nat × Nat)) := []   -- id ↦ (peer asked, fetchingTime)
  timer : Option Nat := none
deriving DecidableEq, Repr

/-- a call of an `ItemsRequesterFn`: peers that may have been asked, ids.
    (`notify` asks the announcing peer; the timer asks a random announcer of each id) -/
structure Request where
  peer : Nat
  ids : List Nat
deriving DecidableEq, Repr

/-! ### the weighted LRU with its eviction callback -/

def fdel (f : List (Nat × (Nat × Nat))) (id : Nat) : List (Nat × (Nat × Nat)) := f.filter (fun p => p.1 != id)
def fget (f : List (Nat × (Nat × Nat))) (id : Nat) : Option (Nat × Nat) := (f.find? (fun p => p.1 == id)).map (·.2)
def fput (f : List (Nat × (Nat × Nat))) (id : Nat) (v : Nat × Nat) : List (Nat × (Nat × Nat)) := (id, v) :: fdel f id

def findEntry (a : List Entry) (id : Nat) : Option Entry := a.find? (fun e => e.id == id)
def dropEntry (a : List Entry) (id : Nat) : List Entry := a.filter (fun e => e.id != id)

/-- `announces.Get`: value + move to front -/
def touch (a : List Entry) (id : Nat) : List Entry :=
  match findEntry a id with
  | some e => e :: dropEntry a id
  | none => a

def totalWeight (a : List Entry) : Nat := (a.map (·.weight)).sum

/-- `normalize`: evict from the back while over weight or over size; evicted ids leave `fetching` -/
def normalize (limit : Nat) : Nat → St → St
  | 0, st => st
  | fuel + 1, st =>
    if totalWeight st.announces > limit || st.announces.length > limit then
      match st.announces.getLast? with
      | some e => normalize limit fuel { st with announces := st.announces.dropLast, fetching := fdel st.fetching e.id }
      | none => st
    else st

/-- `announces.Add(id, anns, weight)` -/
def addEntry (limit : Nat) (st : St) (e : Entry) : St :=
  let a := e :: dropEntry st.announces e.id
  normalize limit (a.length + 1) { st with announces := a }

/-- `forgetHash` -/
def forget (st : St) (id : Nat) : St :=
  match findEntry st.announces id with
  | some _ => { st with announces := dropEntry st.announces id, fetching := fdel st.fetching id }
  | none => st

/-! ### the timer -/

def earliest (now : Nat) (f : List (Nat × (Nat × Nat))) : Nat := f.foldl (fun m p => min m p.2.2) now

/-- `rescheduleFetch` -/
def reschedule (cfg : Cfg) (now : Nat) (st : St) : St :=
  if Gen.Fetcher.nothingAnnounced st.announces.length then st
  else
    let a := cfg.arrive - (now - earliest now st.fetching)
    let b := cfg.arrive / 8
    { st with timer := some (now + (if Gen.Fetcher.maxDurationFirst a b then a else b)) }

/-! ### processNotification -/

/-- the loop over the accepted ids: (state, toFetch) -/
def announceAll (cfg : Cfg) (peer annTime now : Nat) (suspended : Bool) : List Nat → St → List Nat → St × List Nat
  | [], st, acc => (st, acc)
  | id :: rest, st, acc =>
    let old := ((findEntry st.announces id).map (·.anns)).getD []
    let st1 := { st with announces := touch st.announces id }
    let anns := old ++ [⟨peer, annTime⟩]
    -- the code appends the announcement twice; the weight is the length after the first append
    let st2 := addEntry cfg.hashLimit st1 ⟨id, anns ++ [⟨peer, annTime⟩], anns.length⟩
    if Gen.Fetcher.fetchNow suspended && Gen.Fetcher.notYetFetching (fget st2.fetching id).isSome then
      announceAll cfg peer annTime now suspended rest { st2 with fetching := fput st2.fetching id (peer, now) } (acc ++ [id])
    else announceAll cfg peer annTime now suspended rest st2 acc

def notify (cfg : Cfg) (now peer annTime : Nat) (accepted : List Nat) (suspended : Bool) (st : St) : St × List Request :=
  let noAnn := Gen.Fetcher.noAnnounces st.announces.length
  if Gen.Fetcher.nothingInteresting accepted.length then (st, [])
  else
    let r := announceAll cfg peer annTime now suspended accepted st []
    let reqs := if Gen.Fetcher.sendRequest r.2.length then [⟨peer, r.2⟩] else []
    if Gen.Fetcher.armTimer r.1.announces.length noAnn then (reschedule cfg now r.1, reqs)
    else (r.1, reqs)

/-- `processNotification` with an arbitrary arming rule `arm nFetching nAnnounces first noAnnounces`
    (for the negative witnesses about the two earlier rules only) -/
def notifyWith (arm : Nat → Nat → Bool → Bool → Bool) (cfg : Cfg) (now peer annTime : Nat) (accepted : List Nat)
    (suspended : Bool) (st : St) : St × List Request :=
  let first := decide (st.fetching.length = 0)
  let noAnn := decide (st.announces.length = 0)
  if Gen.Fetcher.nothingInteresting accepted.length then (st, [])
  else
    let r := announceAll cfg peer annTime now suspended accepted st []
    let reqs := if Gen.Fetcher.sendRequest r.2.length then [⟨peer, r.2⟩] else []
    if arm r.1.fetching.length r.1.announces.length first noAnn then (reschedule cfg now r.1, reqs) else (r.1, reqs)

/-- the original rule (before the repair of DESIGN §7-D3): `first && len(fetching) != 0` -/
def armOld (nFetching _nAnnounces : Nat) (first _noAnn : Bool) : Bool := first && decide (nFetching ≠ 0)
/-- the rule after the D3 repair, before the re-arm repair:
    `(first && len(fetching) != 0) || (noAnnounces && announces.Len() != 0)` -/
def armPrev (nFetching nAnnounces : Nat) (first noAnn : Bool) : Bool :=
  (first && decide (nFetching ≠ 0)) || (noAnn && decide (nAnnounces ≠ 0))

def notifyOld := notifyWith armOld
def notifyPrev := notifyWith armPrev

/-! ### the timer case -/

/-- `time.Since(f.fetching[id].fetchingTime) > ArriveTimeout - GatherSlack`; an id that is not being fetched has the
    zero fetching time, for which `time.Since` is huge -/
def needsFetch (cfg : Cfg) (now : Nat) (f : List (Nat × (Nat × Nat))) (id : Nat) : Bool :=
  match fget f id with
  | none => true
  | some v => Gen.Fetcher.refetch (now - v.2) cfg.arrive cfg.gather

/-- the loop over the not-arrived ids: (state, (id, peer) pairs to request) -/
def refetchAll (cfg : Cfg) (now : Nat) (pick : Nat → Nat) : List Nat → St → List (Nat × Nat) → St × List (Nat × Nat)
  | [], st, acc => (st, acc)
  | id :: rest, st, acc =>
    match findEntry st.announces id with
    | none => refetchAll cfg now pick rest st acc
    | some e =>
      let st1 := { st with announces := touch st.announces id }
      match e.anns with
      | [] => refetchAll cfg now pick rest st1 acc
      | oldest :: _ =>
        if Gen.Fetcher.tooOld (now - oldest.time) cfg.forget then refetchAll cfg now pick rest (forget st1 id) acc
        else if needsFetch cfg now st1.fetching id then
          let a := e.anns.getD (pick id % e.anns.length) oldest
          refetchAll cfg now pick rest { st1 with fetching := fput st1.fetching id (a.peer, now) } (acc ++ [(id, a.peer)])
        else refetchAll cfg now pick rest st1 acc

/-- group the (id, peer) pairs by peer (the order of the peers is Go's map order: unspecified) -/
def groupByPeer (l : List (Nat × Nat)) : List Request :=
  let peers := l.foldl (fun acc p => if acc.contains p.2 then acc else acc ++ [p.2]) []
  peers.map (fun pr => ⟨pr, (l.filter (fun p => p.2 == pr)).map (·.1)⟩)

def timerFire (cfg : Cfg) (now : Nat) (interested : List Nat) (pick : Nat → Nat) (st : St) : St × List Request :=
  let all := (st.announces.map (·.id)).reverse      -- `Keys()`: oldest first
  let notArrived := interested
  let r := refetchAll cfg now pick notArrived { st with timer := none } []
  let st2 := all.foldl (fun s id => if notArrived.contains id then s else forget s id) r.1
  (reschedule cfg now st2, groupByPeer r.2)

def received (ids : List Nat) (st : St) : St := ids.foldl forget st

inductive Op where
  | notify (now peer annTime : Nat) (accepted : List Nat) (suspended : Bool)
  | received (now : Nat) (ids : List Nat)
  | timerFire (now : Nat) (interested : List Nat) (pick : Nat → Nat)

def Op.now : Op → Nat
  | .notify t .. => t
  | .received t _ => t
  | .timerFire t .. => t

def step (cfg : Cfg) (st : St) : Op → St × List Request
  | .notify now peer annTime accepted susp => notify cfg now peer annTime accepted susp st
  | .received _ ids => (received ids st, [])
  | .timerFire now interested pick => timerFire cfg now interested pick st

end Model.Fetcher
