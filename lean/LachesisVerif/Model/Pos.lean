import LachesisVerif.Gen.Pos
/-! Model of inter/pos: validator sets (canonical order, total, quorum) and the weight counter. -/
namespace Model.Pos

/-- (id, weight) pairs; the builder map as an association list without duplicate ids -/
abbrev Pairs := List (Nat × Nat)

/-- ValidatorsBuilder.Set -/
def set (b : Pairs) (id w : Nat) : Pairs :=
  if w = 0 then b.filter (fun p => p.1 != id) else b.filter (fun p => p.1 != id) ++ [(id, w)]

/-- validators.Less on (id, weight) pairs: weight descending, then id ascending -/
def less (a b : Nat × Nat) : Bool :=
  if Gen.Pos.lessCond a.2 b.2 then Gen.Pos.lessThen a.2 b.2 else Gen.Pos.lessElse a.1 b.1

def insertSorted (x : Nat × Nat) : Pairs → Pairs
  | [] => [x]
  | y :: ys => if less x y then x :: y :: ys else y :: insertSorted x ys

/-- sortedArray: a sorted permutation (the order is strict on distinct ids, so it is *the* one) -/
def sortPairs (b : Pairs) : Pairs := b.foldr insertSorted []

/-- the running sum of calcCaches in uint32; `none` = "validators weight overflow" panic -/
def sumChecked : Pairs → Nat → Option Nat
  | [], t => some t
  | p :: ps, t =>
    let t' := (t + p.2) % 4294967296
    if Gen.Pos.sumWrapped t' t then none else sumChecked ps t'

def total (sorted : Pairs) : Option Nat :=
  match sumChecked sorted 0 with
  | none => none
  | some t => if Gen.Pos.overLimit t then none else some t

structure Vals where
  sorted : Pairs
  total : Nat
deriving Repr

def build (b : Pairs) : Option Vals :=
  let s := sortPairs b
  (total s).map (fun t => { sorted := s, total := t })

def Vals.quorum (v : Vals) : Nat := Gen.Pos.quorum v.total
def Vals.len (v : Vals) : Nat := v.sorted.length
/-- GetIdx: a missing id reads as index 0, exactly as Go's missing-key map read -/
def Vals.idxOf (v : Vals) (id : Nat) : Nat := (v.sorted.findIdx? (fun p => p.1 == id)).getD 0
def Vals.weightByIdx (v : Vals) (i : Nat) : Nat := (v.sorted.getD i (0, 0)).2

structure Counter where
  already : List Bool
  sum : Nat
deriving Repr

def Vals.newCounter (v : Vals) : Counter := { already := List.replicate v.len false, sum := 0 }

/-- WeightCounter.CountByIdx (index must be < len, as in Go where it would panic otherwise) -/
def countByIdx (v : Vals) (c : Counter) (i : Nat) : Counter × Bool :=
  if c.already.getD i false then (c, false)
  else ({ already := c.already.set i true, sum := Gen.Pos.counterAdd c.sum (v.weightByIdx i) }, true)

def count (v : Vals) (c : Counter) (id : Nat) : Counter × Bool := countByIdx v c (v.idxOf id)

def hasQuorum (v : Vals) (c : Counter) : Bool := Gen.Pos.hasQuorum c.sum v.quorum

end Model.Pos
