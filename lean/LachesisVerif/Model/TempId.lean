/-! Model of `uniqueID.sample` (abft/indexed_lachesis.go): the temporary id `IndexedLachesis.Build` gives the
    k-th built event of an instance is the counter k right-aligned in 24 bytes (`big.Int.FillBytes`).
    `MutableBaseEvent.SetID` keeps all 24 bytes behind epoch and lamport time. -/
namespace Model.TempId

/-- `big.Int.FillBytes` into a buffer of `len` bytes, least significant byte first (the Go buffer is
    this list reversed); the Go call panics when the value does not fit, i.e. for `n ≥ 256^len` -/
def bytesLE : Nat → Nat → List Nat
  | 0, _ => []
  | len + 1, n => n % 256 :: bytesLE len (n / 256)

def ofBytesLE : List Nat → Nat
  | [] => 0
  | b :: bs => b + 256 * ofBytesLE bs

/-- the temporary id of the `k`-th `Build` of an instance: `uniqueID.sample` increments the counter
    and right-aligns it in 24 bytes (big endian) -/
def sample (k : Nat) : List Nat := (bytesLE 24 k).reverse

theorem ofBytesLE_bytesLE (len n : Nat) : ofBytesLE (bytesLE len n) = n % 256 ^ len := by
  induction len generalizing n with
  | zero => simp [bytesLE, ofBytesLE, Nat.mod_one]
  | succ len ih =>
    simp only [bytesLE, ofBytesLE, ih]
    rw [Nat.pow_succ, Nat.mul_comm (256 ^ len) 256, Nat.mod_mul]

theorem bytesLE_length (len n : Nat) : (bytesLE len n).length = len := by
  induction len generalizing n with
  | zero => rfl
  | succ len ih => simp [bytesLE, ih]

theorem bytesLE_lt (len n : Nat) : ∀ b ∈ bytesLE len n, b < 256 := by
  induction len generalizing n with
  | zero => simp [bytesLE]
  | succ len ih =>
    intro b hb
    simp only [bytesLE, List.mem_cons] at hb
    rcases hb with rfl | hb
    · exact Nat.mod_lt _ (by decide)
    · exact ih _ b hb

/-- different counters below 2^192 never yield the same temporary id -/
theorem sample_injective (j k : Nat) (hj : j < 256 ^ 24) (hk : k < 256 ^ 24) (h : sample j = sample k) : j = k := by
  have h' : bytesLE 24 j = bytesLE 24 k := by have := congrArg List.reverse h; simpa [sample] using this
  have := congrArg ofBytesLE h'
  rwa [ofBytesLE_bytesLE, ofBytesLE_bytesLE, Nat.mod_eq_of_lt hj, Nat.mod_eq_of_lt hk] at this

/-- ids are 24 bytes -/
theorem sample_wf (k : Nat) : (sample k).length = 24 ∧ ∀ b ∈ sample k, b < 256 := by
  refine ⟨by simp [sample, bytesLE_length], fun b hb => ?_⟩
  exact bytesLE_lt 24 k b (by simpa [sample] using hb)

/-- the 8-bit counter of the seeded change C07-t (and the left-aligned bytes of the repaired defect)
    repeat: the negative witness -/
theorem low_byte_repeats : (bytesLE 1 1) = (bytesLE 1 257) ∧ sample 1 ≠ sample 257 := by decide

end Model.TempId
