import LachesisVerif.Spec.Bytes
/-! Model of common/bigendian, common/littleendian, inter/idx `Bytes`/`BytesTo…`, and the event
    id layout of inter/dag (`SetID`/`Build`) and hash.Event (`Epoch`/`Lamport`). -/
namespace Model.Enc

/-- big-endian encoding of `n` on `k` bytes (binary.BigEndian.PutUintXX for k = 2, 4, 8) -/
def beBytes : Nat → Nat → Bytes
  | 0, _ => []
  | k + 1, n => (n / 256 ^ k % 256) :: beBytes k n

/-- binary.BigEndian.UintXX -/
def beVal (bs : Bytes) : Nat := bs.foldl (fun a b => a * 256 + b) 0

/-- little-endian encoding on `k` bytes -/
def leBytes : Nat → Nat → Bytes
  | 0, _ => []
  | k + 1, n => (n % 256) :: leBytes k (n / 256)

def leVal : Bytes → Nat
  | [] => 0
  | b :: bs => b + 256 * leVal bs

/-- `copy(t[:], tail)` into a zeroed [24]byte -/
def tail24 (t : Bytes) : Bytes := (t ++ List.replicate 24 0).take 24

/-- MutableBaseEvent.SetID / Build: epoch(4, BE) ++ lamport(4, BE) ++ 24 bytes -/
def eventID (epoch lamport : Nat) (tail : Bytes) : Bytes :=
  beBytes 4 epoch ++ beBytes 4 lamport ++ tail24 tail

/-- hash.Event.Epoch: bytes [0:4] -/
def idEpoch (id : Bytes) : Nat := beVal (id.take 4)
/-- hash.Event.Lamport: bytes [4:8] -/
def idLamport (id : Bytes) : Nat := beVal ((id.drop 4).take 4)

end Model.Enc
