import LachesisVerif.Gen.Doublesign
/-! Model of emitter/doublesign. `time.Time` is an instant in nanoseconds on an unbounded line
    (`Int`, 0 = the zero Time); `Time.Sub` is the saturating difference (contract of the stdlib);
    `time.Duration` is int64. -/
namespace Model.Doublesign

def minDur : Int := -9223372036854775808
def maxDur : Int := 9223372036854775807

/-- time.Time.Sub: saturating -/
def sub (a b : Int) : Int :=
  if a - b < minDur then minDur else if a - b > maxDur then maxDur else a - b

structure Status where
  peersNum : Int
  now : Int
  startup : Int
  lastConnected : Int
  p2pSynced : Int
  becameValidator : Int
  extCreated : Int
  extDetected : Int
deriving Repr

def Status.since (s : Status) (t : Int) : Int := sub s.now t

inductive Err
  | noConnections | p2pSyncOngoing | selfEventsOngoing | justBecameValidator | justConnected | justP2PSynced
deriving Repr, DecidableEq

def Err.name : Err → String
  | .noConnections => "noconn" | .p2pSyncOngoing => "p2psync" | .selfEventsOngoing => "selfevents"
  | .justBecameValidator => "becamevalidator" | .justConnected => "justconnected" | .justP2PSynced => "justsynced"

/-- remaining(threshold, since) -/
def remaining (threshold since : Int) : Int :=
  let wait := Gen.Doublesign.remainingWait threshold since
  if Gen.Doublesign.remainingOverflow threshold since wait then Gen.Doublesign.remainingSaturated else wait

/-- maxWaitError.apply -/
def apply (m : Int × Option Err) (wait : Int) (e : Err) : Int × Option Err :=
  if Gen.Doublesign.applyCond m.1 wait then (wait, some e) else m

/-- SyncedToEmit -/
def syncedToEmit (s : Status) (thr : Int) : Int × Option Err :=
  if Gen.Doublesign.noPeers s.peersNum then (0, some .noConnections)
  else if s.p2pSynced = 0 then (0, some .p2pSyncOngoing)
  else
    let m : Int × Option Err := (0, none)
    let m := if Gen.Doublesign.recentDetected (s.since s.extDetected) thr then apply m (remaining thr (s.since s.extDetected)) .selfEventsOngoing else m
    let m := if Gen.Doublesign.recentCreated (s.since s.extCreated) thr then apply m (remaining thr (s.since s.extCreated)) .selfEventsOngoing else m
    let m := if Gen.Doublesign.recentValidator (s.since s.becameValidator) thr then apply m (remaining thr (s.since s.becameValidator)) .justBecameValidator else m
    let m := if Gen.Doublesign.recentConnected (s.since s.lastConnected) thr then apply m (remaining thr (s.since s.lastConnected)) .justConnected else m
    let m := if Gen.Doublesign.recentSynced (s.since s.p2pSynced) thr then apply m (remaining thr (s.since s.p2pSynced)) .justP2PSynced else m
    m

/-- DetectParallelInstance -/
def detectParallel (s : Status) (thr : Int) : Bool :=
  if s.extCreated < s.startup then false else Gen.Doublesign.parallelRecent (s.since s.extCreated) thr

end Model.Doublesign
