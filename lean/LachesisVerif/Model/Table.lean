import LachesisVerif.Spec.KV
import LachesisVerif.Gen.Kv
/-!
# Model of kvdb/table (C24) and of the prefix-range glue of kvdb/leveldb, kvdb/pebble (C23)

A table is stateless: every operation is a key translation (`prefixed` on the way down,
`noPrefix` on the way up) around the same operation of the underlying store.
-/
namespace Model.Table
open Bytes Spec

/-- `prefixed(key, prefix)`; the separator is the empty byte string -/
def prefixed (key pfx : Bytes) : Bytes := pfx ++ key

/-- `noPrefix(key, prefix)` -/
def noPrefix (key pfx : Bytes) : Bytes :=
  if Gen.Kv.noPrefixShort key.length pfx.length 0 then key else key.drop (pfx.length + 0)

/-- the part of the underlying store a table with prefix `p` stands for -/
def tableView (p : Bytes) (m : KV) : KV :=
  (m.filter (fun kv => isPrefix p kv.1)).map (fun kv => (kv.1.drop p.length, kv.2))

def get (p : Bytes) (m : KV) (k : Bytes) : Option Bytes := m.get (prefixed k p)
def has (p : Bytes) (m : KV) (k : Bytes) : Bool := m.has (prefixed k p)
def put (p : Bytes) (m : KV) (k v : Bytes) : KV := m.insert (prefixed k p) v
def delete (p : Bytes) (m : KV) (k : Bytes) : KV := m.erase (prefixed k p)

/-- the table batch forwards every operation, key prefixed, to a batch of the underlying store -/
def prefixOp (p : Bytes) : Op → Op
  | .put k v => .put (prefixed k p) v
  | .del k => .del (prefixed k p)

/-- the `replayer`: what the writer sees when the underlying batch is replayed -/
def unprefixOp (p : Bytes) : Op → Op
  | .put k v => .put (noPrefix k p) v
  | .del k => .del (noPrefix k p)

def write (p : Bytes) (m : KV) (b : List Op) : KV := applyBatch m (b.map (prefixOp p))

/-- `batch.Replay(w)`: the inner batch holds the prefixed operations and replays them through
    the `replayer` -/
def replay (p : Bytes) (b : List Op) : List Op := (b.map (prefixOp p)).map (unprefixOp p)

/-- `NewIterator(itPrefix, start)` drained: the underlying iterator for
    `(prefixed(itPrefix, prefix), start)` with `noPrefix` applied to every key.
    A nil `itPrefix` reads as the empty one (`prefixed` never returns nil). -/
def iterOver (inner : Bytes → Bytes → KV) (p : Bytes) (ip : Option Bytes) (start : Bytes) : KV :=
  (inner (prefixed (ip.getD []) p) start).map (fun kv => (noPrefix kv.1 p, kv.2))

def iterate (p : Bytes) (m : KV) (ip : Option Bytes) (start : Bytes) : KV :=
  iterOver (iterSpec m) p ip start

/-- carry part of `incPrefix`: big-endian increment; `none` = overflow (all bytes 0xff, or empty) -/
def incCarry : Bytes → Option Bytes
  | [] => none
  | b :: bs =>
    match incCarry bs with
    | some bs' => some (b :: bs')
    | none => if b < 255 then some ((b + 1) :: bs.map (fun _ => 0)) else none

/-- `incPrefix` (big.Int `SetBytes`, `+1`, length test, left padding): `none` = nil -/
def incPrefix (p : Bytes) : Option Bytes :=
  if Gen.Kv.incPrefixEmpty p.length then none else incCarry p

/-- `Table.Compact(start, limit)`: the range handed to the underlying store (`none` = nil).
    A nil start becomes the (non-nil) prefix itself. -/
def compactRange (p : Bytes) (start limit : Option Bytes) : Option Bytes × Option Bytes :=
  (some (prefixed (start.getD []) p),
   match limit with
   | some l => some (prefixed l p)
   | none => incPrefix p)

/-! ### prefix ranges of the engines -/

/-- the `Limit` of goleveldb `util.BytesPrefix` = `UpperBound` of pebble `bytesPrefix`: the
    prefix up to its last byte below 0xff, that byte incremented; `none` = nil (no bound) -/
def prefixLimit : Bytes → Option Bytes
  | [] => none
  | c :: cs =>
    match prefixLimit cs with
    | some l => some (c :: l)
    | none => if Gen.Kv.limitByteBelowMax c then some [Gen.Kv.limitByte c] else none

/-- leveldb `bytesPrefixRange(prefix, start)` = `(Start, Limit)` (a nil prefix reads as empty) -/
def ldbRange (pfx : Option Bytes) (start : Bytes) : Bytes × Option Bytes :=
  (pfx.getD [] ++ start, prefixLimit (pfx.getD []))

/-- pebble `bytesPrefixRange(prefix, start)`: `none` = nil options (iterate everything),
    otherwise `(LowerBound, UpperBound)`; `startNil` tells a nil start from an empty one -/
def pblRange (pfx : Option Bytes) (start : Bytes) (startNil : Bool) : Option (Bytes × Option Bytes) :=
  if Gen.Kv.rangeAll pfx.isNone startNil then none
  else if Gen.Kv.rangeHasPrefix pfx.isSome then some (pfx.getD [] ++ start, prefixLimit (pfx.getD []))
  else some ([] ++ start, none)

/-- the items an ordered engine yields for a range `[lo, hi)` -/
def rangeItems (m : KV) (lo : Bytes) (hi : Option Bytes) : KV :=
  m.filter (fun kv => lexLe lo kv.1 && (match hi with | some h => lexLt kv.1 h | none => true))

/-! ### replay of a goleveldb batch into a flushable batch (kvdb/leveldb `replayer`) -/

/-- a call on a `kvdb.Writer`; the value of a `Put` may be the nil slice (`none`) -/
inductive WCall where
  | put (k : Bytes) (v : Option Bytes)
  | del (k : Bytes)
deriving DecidableEq, Repr

/-- contract of goleveldb's `Batch.Replay` (observed, not proved): the records in insertion order,
    an empty value handed over as nil -/
def ldbEngineReplay (b : List Op) : List WCall :=
  b.map (fun op => match op with
    | .put k v => WCall.put k (if v.isEmpty then none else some v)
    | .del k => WCall.del k)

/-- kvdb/leveldb `replayer.Put` / `replayer.Delete`: forwards to the writer, a nil value as an
    empty slice (the test is regenerated from the source) -/
def ldbReplayer : WCall → WCall
  | .put k v => .put k (if Gen.Kv.ldbReplayNilValue v.isNone then some [] else v)
  | .del k => .del k

/-- what a flushable `cacheBatch` records for a call (`kv{k, nil}` = deletion) -/
def cacheBatchOp : WCall → Op
  | .put k (some v) => .put k v
  | .put k none => .del k
  | .del k => .del k

/-- pebble's iterator wrapper: `First` instead of the first `Next`. `items` = what the engine
    iterator ranges over, `pos` = engine position (`none` = not positioned yet). -/
structure PebbleIt where
  items : KV
  pos : Option Nat := none
  isStarted : Bool := false

def PebbleIt.next (it : PebbleIt) : PebbleIt × Option (Bytes × Bytes) :=
  let pos' := if Gen.Kv.pebbleStarted it.isStarted then (match it.pos with | some i => i + 1 | none => 0) else 0
  ({ it with pos := some pos', isStarted := true }, it.items[pos']?)

def PebbleIt.drain : Nat → PebbleIt → KV
  | 0, _ => []
  | fuel + 1, it =>
    match it.next with
    | (_, none) => []
    | (it', some kv) => kv :: PebbleIt.drain fuel it'

end Model.Table
