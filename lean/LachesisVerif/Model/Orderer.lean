import LachesisVerif.Model.Election
/-!
Implementation-level model of abft.Orderer: `Process` = `checkAndSaveEvent` + `handleElection`,
`bootstrapElection`, `processKnownRoots`, `onFrameDecided`, `sealEpoch`, `Reset`, `Bootstrap`.
Parameters (oracles): `observe` = the DAG index's ForklessCause on event numbers, `sealAt` = the
application's end-of-block decision, `idKey` = byte order of event ids (roots are read from the
table in key order frame ++ validator ++ id).
-/
namespace Model.Orderer
open Model.Pos Model.Election

structure OState where
  epoch : Nat
  vals : Vals
  ldf : Nat                 -- LastDecidedFrame (persisted)
  el : Election             -- volatile
  roots : List Root := []   -- roots table of the current epoch (persisted, epoch DB)
deriving Repr

/-- what one decided frame looked like -/
structure Decided where
  epoch : Nat
  frame : Nat
  atropos : Nat
  sealed : Bool
deriving Repr, DecidableEq

structure Env where
  observe : Nat → Nat → Bool
  idKey : Nat → Nat
  sealAt : Nat → Nat → Option Vals     -- (epoch, frame) ↦ new validators

def insertRoot (env : Env) (r : Root) : List Root → List Root
  | [] => [r]
  | x :: xs =>
    let lt := decide (r.frame < x.frame) || (r.frame == x.frame && (decide (r.validator < x.validator) ||
              (r.validator == x.validator && decide (env.idKey r.id < env.idKey x.id))))
    if lt then r :: x :: xs else if r == x then x :: xs else x :: insertRoot env r xs

/-- Store.GetFrameRoots (table order) -/
def frameRoots (s : OState) (f : Nat) : List Root := s.roots.filter (fun r => r.frame == f)

/-- Orderer.forklessCausedByQuorumOn -/
def quorumOn (env : Env) (s : OState) (e : Nat) (f : Nat) : Bool :=
  let c := (frameRoots s f).foldl (fun c r => if env.observe e r.id then (count s.vals c r.validator).1 else c) s.vals.newCounter
  hasQuorum s.vals c

def initial (epoch : Nat) (vals : Vals) : OState :=
  { epoch := epoch, vals := vals, ldf := Gen.Orderer.sealedLastDecided, el := reset vals Gen.Orderer.sealedFrameToDecide }

/-- Orderer.onFrameDecided (+ sealEpoch): returns the new state and whether the epoch was sealed -/
def onFrameDecided (env : Env) (s : OState) (frame atropos : Nat) : OState × Decided :=
  match env.sealAt s.epoch frame with
  | some nv =>
    ({ epoch := Gen.Orderer.sealedEpoch s.epoch, vals := nv, ldf := Gen.Orderer.sealedLastDecided,
       el := reset nv Gen.Orderer.sealedFrameToDecide, roots := [] }, ⟨s.epoch, frame, atropos, true⟩)
  | none =>
    ({ s with ldf := Gen.Orderer.nextLastDecided frame, el := reset s.vals (Gen.Orderer.nextFrameToDecide frame) },
     ⟨s.epoch, frame, atropos, false⟩)

/-- one pass of processKnownRoots over the roots of the frames ldf+1, ldf+2, … -/
def knownRootsFrame (env : Env) (s : OState) : List Root → Election → Except ElErr (Election × Option (Nat × Nat))
  | [], el => .ok (el, none)
  | r :: rest, el =>
    match processRoot env.observe (frameRoots s) el r with
    | .error x => .error x
    | .ok (el', some res) => .ok (el', some res)
    | .ok (el', none) => knownRootsFrame env s rest el'

def processKnownRoots (env : Env) (s : OState) : Nat → Nat → Election → Except ElErr (Election × Option (Nat × Nat))
  | 0, _, el => .ok (el, none)
  | fuel + 1, f, el =>
    let fr := frameRoots s f
    match knownRootsFrame env s fr el with
    | .error x => .error x
    | .ok (el', some res) => .ok (el', some res)
    | .ok (el', none) =>
      if Gen.Orderer.knownRootsStop fr.length then .ok (el', none) else processKnownRoots env s fuel (f + 1) el'

/-- Orderer.bootstrapElection: (state, decided frames, sealed?) -/
def bootstrapElection (env : Env) : Nat → OState → List Decided → Except ElErr (OState × List Decided × Bool)
  | 0, s, out => .ok (s, out, false)
  | fuel + 1, s, out =>
    match processKnownRoots env s (s.roots.length + 2) (Gen.Orderer.knownRootsFirstFrame s.ldf) s.el with
    | .error x => .error x
    | .ok (el', none) => .ok ({ s with el := el' }, out, false)
    | .ok (el', some (frame, atropos)) =>
      let (s1, d) := onFrameDecided env { s with el := el' } frame atropos
      if d.sealed then .ok (s1, out ++ [d], true) else bootstrapElection env fuel s1 (out ++ [d])

/-- Orderer.handleElection over the frames `f = selfParentFrame+1 … root.Frame()` -/
def handleElection (env : Env) (id creator frame : Nat) : Nat → Nat → OState → List Decided → Except ElErr (OState × List Decided)
  | 0, _, s, out => .ok (s, out)
  | fuel + 1, f, s, out =>
    if !Gen.Orderer.electionLoopCond f frame then .ok (s, out) else
    match processRoot env.observe (frameRoots s) s.el ⟨id, f, creator⟩ with
    | .error x => .error x
    | .ok (el', none) => handleElection env id creator frame fuel (f + 1) { s with el := el' } out
    | .ok (el', some (df, atropos)) =>
      let (s1, d) := onFrameDecided env { s with el := el' } df atropos
      if d.sealed then .ok (s1, out ++ [d]) else
      match bootstrapElection env (s1.roots.length + 2) s1 (out ++ [d]) with
      | .error x => .error x
      | .ok (s2, out2, sealed) => if sealed then .ok (s2, out2) else handleElection env id creator frame fuel (f + 1) s2 out2

inductive Res
  | wrongFrame
  | failed (e : ElErr)
  | ok (decided : List Decided)
deriving Repr

/-- Orderer.Process for an event with number `id`, whose vectors are already in the index -/
def process (env : Env) (s : OState) (id creator selfParentFrame claimed : Nat) : OState × Res :=
  if !frameAccepted (quorumOn env s id) selfParentFrame claimed then (s, .wrongFrame) else
  let s1 := (rootFrames selfParentFrame claimed).foldl (fun s f => { s with roots := insertRoot env ⟨id, f, creator⟩ s.roots }) s
  match handleElection env id creator claimed (claimed + 1) (Gen.Orderer.electionFirstFrame selfParentFrame) s1 [] with
  | .error x => (s, .failed x)
  | .ok (s2, out) => (s2, .ok out)

/-- Orderer.Build (frame only) -/
def build (env : Env) (s : OState) (id selfParentFrame : Nat) : Nat :=
  calcFrameIdx (quorumOn env s id) selfParentFrame 0 false

/-- Orderer.Bootstrap after a restart: election recreated at ldf+1 and known roots re-voted -/
def bootstrap (env : Env) (s : OState) : Except ElErr (OState × List Decided × Bool) :=
  bootstrapElection env (s.roots.length + 2) { s with el := reset s.vals (Gen.Orderer.bootstrapFrameToDecide s.ldf) } []

end Model.Orderer
