import LachesisVerif.Model.Pos
import LachesisVerif.Model.Enc
import LachesisVerif.Gen.PosBig
/-! Model of the canonical form of inter/pos validator sets (C12): builder semantics with the
    regenerated zero test, the observable caches (`SortedIDs`, `SortedWeights`, `Idxs`), the RLP
    fragment used by `EncodeRLP`/`DecodeRLP` (a list of `[uint32, uint32]` lists, go-ethereum rlp)
    and `ValidatorsBigBuilder`. Extends `Model.Pos` (C11), which owns `set`, `less`, `sortPairs`,
    `build`. -/
namespace Model.PosCanon
open Model.Pos Model.Enc

/-- ValidatorsBuilder.Set, the zero test being the regenerated kernel -/
def setK (b : Pairs) (id w : Nat) : Pairs :=
  if Gen.PosBig.setDeletes w then b.filter (fun p => p.1 != id)
  else b.filter (fun p => p.1 != id) ++ [(id, w)]

/-- a sequence of `Set(id, weight)` calls on a fresh builder, in call order -/
def applySets (ops : List (Nat × Nat)) : Pairs := ops.foldl (fun b p => setK b p.1 p.2) []

/-- Validators.Get / the builder map read: 0 for a missing id -/
def getW (b : Pairs) (id : Nat) : Nat :=
  match b.find? (fun p => p.1 == id) with
  | some p => p.2
  | none => 0

/-- the map the calls denote: the last weight set for `id` (0 = never set or deleted) -/
def finalW (ops : List (Nat × Nat)) (id : Nat) : Nat :=
  ops.foldl (fun w p => if p.1 = id then p.2 else w) 0

/-- SortedIDs -/
def ids (v : Vals) : List Nat := v.sorted.map (·.1)
/-- SortedWeights -/
def weights (v : Vals) : List Nat := v.sorted.map (·.2)

def enumFrom : Nat → List Nat → List (Nat × Nat)
  | _, [] => []
  | i, x :: xs => (x, i) :: enumFrom (i + 1) xs

/-- Idxs: the map id ↦ index, listed in canonical order -/
def idxs (v : Vals) : List (Nat × Nat) := enumFrom 0 (ids v)

/-! ### RLP (go-ethereum `rlp`, the fragment `[[id, weight], …]` with uint32 fields) -/

/-- number of bytes of the minimal big-endian form of a value in [1, 2^64) -/
def byteLen (n : Nat) : Nat :=
  if n < 256 then 1 else if n < 65536 then 2 else if n < 16777216 then 3
  else if n < 4294967296 then 4 else if n < 1099511627776 then 5
  else if n < 281474976710656 then 6 else if n < 72057594037927936 then 7 else 8

/-- rlp of an unsigned integer: 0 ↦ 0x80, 1..127 ↦ the byte, else 0x80+len ++ minimal big-endian -/
def encUint (n : Nat) : Bytes :=
  if n = 0 then [128] else if n < 128 then [n] else (128 + byteLen n) :: beBytes (byteLen n) n

/-- rlp list header for a payload of `len` bytes -/
def encListHeader (len : Nat) : Bytes :=
  if len < 56 then [192 + len] else (247 + byteLen len) :: beBytes (byteLen len) len

def encPair (p : Nat × Nat) : Bytes :=
  let pl := encUint p.1 ++ encUint p.2
  encListHeader pl.length ++ pl

def encItems (ps : List (Nat × Nat)) : Bytes := ps.flatMap encPair

/-- rlp.Encode of `validators` (the slice of {ID, Weight} structs) -/
def encPairs (ps : List (Nat × Nat)) : Bytes :=
  encListHeader (encItems ps).length ++ encItems ps

/-- Stream.uint(32): canonical integers only (no leading zero, no single byte < 128 in long form,
    at most 4 bytes); returns the value and the remaining bytes -/
def decUint : Bytes → Option (Nat × Bytes)
  | [] => none
  | b :: r =>
    if b < 128 then (if b = 0 then none else some (b, r))
    else if b < 184 then
      let k := b - 128
      if k > 4 then none
      else if r.length < k then none
      else
        let v := beVal (r.take k)
        if k > 0 && (r.headD 0 == 0 || decide (v < 128)) then none else some (v, r.drop k)
    else none

/-- Stream.List(): header of a list, canonical sizes only; returns payload length and the rest -/
def decListHeader : Bytes → Option (Nat × Bytes)
  | [] => none
  | b :: r =>
    if b < 192 then none
    else if b < 248 then some (b - 192, r)
    else
      let ll := b - 247
      if r.length < ll then none
      else
        let size := beVal (r.take ll)
        if r.headD 0 == 0 || decide (size < 56) then none else some (size, r.drop ll)

/-- the struct {ID, Weight}: exactly two integers fill the payload -/
def decPair (pl : Bytes) : Option (Nat × Nat) :=
  match decUint pl with
  | none => none
  | some (a, r) =>
    match decUint r with
    | none => none
    | some (b, r') => if r'.isEmpty then some (a, b) else none

def decItems : Nat → Bytes → Option (List (Nat × Nat))
  | _, [] => some []
  | 0, _ :: _ => none
  | fuel + 1, b :: bs =>
    match decListHeader (b :: bs) with
    | none => none
    | some (len, r) =>
      if r.length < len then none
      else
        match decPair (r.take len), decItems fuel (r.drop len) with
        | some p, some ps => some (p :: ps)
        | _, _ => none

/-- rlp.DecodeBytes into `[]validator`: one list value filling the whole input -/
def decPairs (bs : Bytes) : Option (List (Nat × Nat)) :=
  match decListHeader bs with
  | none => none
  | some (len, r) => if r.length != len then none else decItems r.length r

/-- result of DecodeRLP: decode error, or the set built from the decoded pairs (which may panic) -/
inductive Decoded where
  | err
  | overflow
  | ok (v : Vals)

def decodeVals (bs : Bytes) : Decoded :=
  match decPairs bs with
  | none => .err
  | some arr =>
    match build (applySets arr) with
    | none => .overflow
    | some v => .ok v

def encodeVals (v : Vals) : Bytes := encPairs v.sorted

/-! ### ValidatorsBigBuilder -/

/-- (id, stake) with distinct ids: the big builder map -/
abbrev Stakes := List (Nat × Nat)

/-- ValidatorsBigBuilder.Set (`none` = nil pointer) -/
def bigSet (b : Stakes) (id : Nat) (stake : Option Nat) : Stakes :=
  if Gen.PosBig.bigSetDeletes stake.isNone (stake.getD 0 == 0) then b.filter (fun p => p.1 != id)
  else b.filter (fun p => p.1 != id) ++ [(id, stake.getD 0)]

def applyBigSets (ops : List (Nat × Option Nat)) : Stakes := ops.foldl (fun b p => bigSet b p.1 p.2) []

/-- ValidatorsBigBuilder.TotalWeight -/
def bigTotal (b : Stakes) : Nat := (b.map (·.2)).sum

/-- big.Int.BitLen -/
def bitLen (n : Nat) : Nat := if n = 0 then 0 else n.log2 + 1

/-- the common shift chosen by Build (test and both values regenerated) -/
def bigShift (total : Nat) : Nat :=
  if Gen.PosBig.overBits (bitLen total) then Gen.PosBig.shiftValue (bitLen total) else Gen.PosBig.shiftInit

/-- `Weight(new(big.Int).Rsh(w, shift).Uint64())`: low 64 bits, then truncated to uint32 -/
def scale (shift w : Nat) : Nat := (w >>> shift) % 18446744073709551616 % 4294967296

/-- the ValidatorsBuilder filled by Build when the big map is iterated in the order `order` -/
def bigBuilder (order : Stakes) (shift : Nat) : Pairs :=
  applySets (order.map (fun p => (p.1, scale shift p.2)))

/-- ValidatorsBigBuilder.Build (map iterated in list order) -/
def bigBuild (b : Stakes) : Option Vals := build (bigBuilder b (bigShift (bigTotal b)))

end Model.PosCanon
