import LachesisVerif.Gen.Seeder
/-!
Model of `gossip/basestream/basestreamseeder`: the reader loop of `BaseSeeder`, one step per
dequeued operation (`request`, `unregister`).

* Locators are natural numbers, `Compare` the usual order, `Inc = +1` (DESIGN §2.6).
* The application data base is a list of items in strictly ascending key order; the
  `ForEachItem` contract is "ascending from the first key ≥ start, `onKey` before and
  `onAppended` after each appended item" (`scan`).
* Go maps are association lists (`lget`/`lput`/`ldel`).
* Every comparison the code makes is taken from `Gen.Seeder` (regenerated from the source).
* `stepRequestOld` is the reader loop as it was before the repair of DESIGN §7-D4; it is only
  used by the negative witnesses in `Props/C17.lean`.
-/
namespace Model.Seeder

structure Item where
  key : Nat
  size : Nat
deriving DecidableEq, Repr

structure Resp where
  sid : Nat
  done : Bool
  payload : List Item
deriving DecidableEq, Repr

/-- `sessionState` (the sender fields are not modelled) -/
structure Sess where
  orig : Nat
  next : Nat
  stop : Nat
  done : Bool
deriving DecidableEq, Repr

structure Req where
  peer : Nat
  sid : Nat
  start : Nat
  stop : Nat
  maxNum : Nat
  maxSize : Nat
  maxChunks : Nat
deriving DecidableEq, Repr

structure Cfg where
  maxNum : Nat
  maxSize : Nat
  maxChunks : Nat
  maxPending : Nat
deriving Repr

/-! ### association lists -/

def lget {κ α} [DecidableEq κ] (m : List (κ × α)) (k : κ) : Option α :=
  match m with
  | [] => none
  | (k', v) :: rest => if k' = k then some v else lget rest k

def ldel {κ α} [DecidableEq κ] (m : List (κ × α)) (k : κ) : List (κ × α) :=
  m.filter (fun p => !decide (p.1 = k))

def lput {κ α} [DecidableEq κ] (m : List (κ × α)) (k : κ) (v : α) : List (κ × α) :=
  (k, v) :: ldel m k

/-! ### payloads -/

def totalSize (p : List Item) : Nat := (p.map (·.size)).sum

/-- `Payload.TotalMemSize` of the harness payload type -/
def memSize (p : List Item) : Nat := totalSize p + 8 * p.length

/-- `Locator.Compare` -/
def cmp (a b : Nat) : Int := if a < b then -1 else if a = b then 0 else 1

/-- `ForEachItem` driven by the two callbacks of the chunk loop, over the items with key ≥ start
    (`n`, `sz` = count and size of the payload so far, `last` = `lastKey`).
    Result: (appended items, lastKey, allConsumed). -/
def scan (stop maxNum maxSize : Nat) : List Item → Nat → Nat → Nat → List Item × Nat × Bool
  | [], _, _, last => ([], last, true)
  | it :: rest, n, sz, last =>
    if Gen.Seeder.stopReached (cmp it.key stop) then ([], last, true)
    else if Gen.Seeder.limitReached (Gen.Seeder.numReached (n + 1) maxNum) (Gen.Seeder.sizeReached (sz + it.size) maxSize)
    then ([it], it.key, false)
    else
      let r := scan stop maxNum maxSize rest (n + 1) (sz + it.size) it.key
      (it :: r.1, r.2.1, r.2.2)

/-- the items `ForEachItem` walks over when started at `start` -/
def itemsFrom (db : List Item) (start : Nat) : List Item := db.filter (fun it => decide (start ≤ it.key))

/-- one iteration of the chunk loop -/
def chunk (db : List Item) (r : Req) (s : Sess) : Sess × Resp :=
  let res := scan s.stop r.maxNum r.maxSize (itemsFrom db s.next) 0 0 s.next
  ({ s with next := res.2.1 + 1, done := res.2.2 }, { sid := r.sid, done := res.2.2, payload := res.1 })

/-- the chunk loop `for i := 0; i < MaxChunks && !session.done; i++` (fuel = MaxChunks suffices) -/
def chunksFrom (db : List Item) (r : Req) : Nat → Nat → Sess → Sess × List Resp
  | 0, _, s => (s, [])
  | fuel + 1, i, s =>
    if Gen.Seeder.chunkLoop i r.maxChunks s.done then
      let c := chunk db r s
      let rest := chunksFrom db r fuel (i + 1) c.1
      (rest.1, c.2 :: rest.2)
    else (s, [])

def chunks (db : List Item) (r : Req) (s : Sess) : Sess × List Resp := chunksFrom db r r.maxChunks 0 s

/-! ### the reader loop -/

structure St where
  /-- `peerSessions` : peer → session ids, oldest first -/
  peerSessions : List (Nat × List Nat) := []
  /-- `sessions` : (session id, peer) → state -/
  sessions : List ((Nat × Nat) × Sess) := []
deriving Repr

inductive Out where
  | responses (rs : List Resp)
  | mismatch
  | tooManyChunks
  | none
deriving DecidableEq, Repr

def idsOf (st : St) (peer : Nat) : List Nat := (lget st.peerSessions peer).getD []

/-- `NotifyRequestReceived`: refuse or clamp -/
def sanitize (cfg : Cfg) (r : Req) : Option Req :=
  if Gen.Seeder.tooManyChunks r.maxChunks cfg.maxChunks then none
  else
    let r := if Gen.Seeder.clampNum r.maxNum cfg.maxNum then { r with maxNum := cfg.maxNum } else r
    let r := if Gen.Seeder.clampSize r.maxSize cfg.maxSize then { r with maxSize := cfg.maxSize } else r
    some r

/-- session lookup / creation (`if !ok { … }`), repaired placement: pruning happens here only -/
def openSession (st : St) (r : Req) : St × Sess :=
  match lget st.sessions (r.sid, r.peer) with
  | some s => (st, s)
  | none =>
    let ids := idsOf st r.peer
    let pruned := Gen.Seeder.pruneCond ids.length
    let ids' := if pruned then ids.tail else ids
    let sessions' := if pruned then ldel st.sessions (ids.headD 0, r.peer) else st.sessions
    let s : Sess := { orig := r.start, next := r.start, stop := r.stop, done := false }
    ({ peerSessions := lput st.peerSessions r.peer (ids' ++ [r.sid]),
       sessions := lput sessions' (r.sid, r.peer) s }, s)

/-- `case op := <-s.notifyReceivedRequest` (after sanitizing) -/
def stepRequest (db : List Item) (st : St) (r : Req) : St × Out :=
  let o := openSession st r
  if Gen.Seeder.selectorMismatch (cmp o.2.orig r.start) then (o.1, .mismatch)
  else
    let c := chunks db r o.2
    ({ o.1 with sessions := lput o.1.sessions (r.sid, r.peer) c.1 }, .responses c.2)

/-- `case peerID := <-s.notifyUnregisteredPeer` -/
def stepUnregister (st : St) (peer : Nat) : St :=
  { peerSessions := ldel st.peerSessions peer,
    sessions := (idsOf st peer).foldl (fun m sid => ldel m (sid, peer)) st.sessions }

inductive Op where
  | request (r : Req)
  | unregister (peer : Nat)
deriving DecidableEq, Repr

def step (cfg : Cfg) (db : List Item) (st : St) : Op → St × Out
  | .request r =>
    match sanitize cfg r with
    | none => (st, .tooManyChunks)
    | some r' => stepRequest db st r'
  | .unregister p => (stepUnregister st p, .none)

def run (cfg : Cfg) (db : List Item) (st : St) (ops : List Op) : St :=
  ops.foldl (fun st op => (step cfg db st op).1) st

/-! ### pending response memory (`waitPendingResponsesBelowLimit`)

While the senders are blocked, every produced response stays pending. The reader produces a
response (calls `ForEachItem`), then waits until `pending < limit`, then adds the response's
memory size. `gated limit p rs` = (number of responses produced, pending afterwards, stalled?)
when the responses `rs` of one request are produced with blocked senders. -/

def gatedFrom (limit : Nat) : Nat → List Resp → Nat × Nat × Bool
  | p, [] => (0, p, false)
  | p, r :: rs =>
    if Gen.Seeder.pendingFull p limit then (1, p, true)
    else
      let x := gatedFrom limit (p + memSize r.payload) rs
      (x.1 + 1, x.2.1, x.2.2)

/-- the wait at the head of the request case comes first -/
def gated (limit p : Nat) (rs : List Resp) : Nat × Nat × Bool :=
  if Gen.Seeder.pendingFull p limit then (0, p, true) else gatedFrom limit p rs

/-! ### the reader loop before the repair (DESIGN §7-D4), for the negative witnesses only -/

def stepRequestOld (db : List Item) (st : St) (r : Req) : St × Out :=
  -- prune oldest session: on every request; the shortened list is stored only on creation
  let ids := idsOf st r.peer
  let pruned := Gen.Seeder.pruneCond ids.length
  let ids' := if pruned then ids.tail else ids
  let sessions' := if pruned then ldel st.sessions (ids.headD 0, r.peer) else st.sessions
  let o : St × Sess :=
    match lget sessions' (r.sid, r.peer) with
    | some s => ({ st with sessions := sessions' }, s)
    | none =>
      -- the id is registered, the session itself is stored only by the chunk loop
      ({ peerSessions := lput st.peerSessions r.peer (ids' ++ [r.sid]), sessions := sessions' },
       { orig := r.start, next := r.start, stop := r.stop, done := false })
  if Gen.Seeder.selectorMismatch (cmp o.2.orig r.start) then (o.1, .mismatch)
  else
    let c := chunks db r o.2
    if c.2.isEmpty then (o.1, .responses [])
    else ({ o.1 with sessions := lput o.1.sessions (r.sid, r.peer) c.1 }, .responses c.2)

end Model.Seeder
