import LachesisVerif.Gen.Buffer
/-!
Model of `gossip/dagordering.EventsBuffer` (C14).

* A *pushed copy* is one `PushEvent` call: the buffer wraps the event in its own record
  (`event{event, peer, err, released}`); records are numbered by push (`St.n`), and `St.recs` is the
  heap of these records (the Go code shares them by pointer between `incompletes` and the stale
  snapshot `incompleteEventsList`, so the `released`/`err` fields are global mutable state).
* `incompletes` is the weighted LRU as the list of `(event id, copy)` from oldest to newest
  (`wlru.Keys` order); the weight of an entry is the size of the copy's event.
* The application callbacks are oracles: `Check`/`Process` results by (copy tag, number of earlier
  calls for that copy); `Exists`/`Get` = "processed successfully, or connected from outside".
* The trace of callback invocations is kept newest first.
* `guard = true` is the code after the `fix:` commit (skip released entries of the stale snapshot);
  `guard = false` is the pre-fix code (kept for the negative witness of DESIGN §7-D2).
-/
namespace Model.EventsBuffer

structure Ev where
  id : Nat
  parents : List Nat
  size : Nat
deriving Repr, DecidableEq

/-- error passed to `Released` (0 = nil) -/
def errDup : Nat := 1        -- eventcheck.ErrDuplicateEvent
def errConnected : Nat := 2  -- eventcheck.ErrAlreadyConnectedEvent
def errSpilled : Nat := 3    -- eventcheck.ErrSpilledEvent
def errCheck : Nat := 4      -- the error returned by Callback.Check
def errProcess : Nat := 5    -- the error returned by Callback.Process

structure Rec where
  ev : Ev
  tag : Nat          -- external label of the copy (used by oracles and printing only)
  err : Nat
  released : Bool
deriving Repr

/-- callback invocations (`c` = copy number) and connections made from outside the buffer -/
inductive Cb where
  | check (c : Nat) (ok : Bool)
  | process (c : Nat) (ok : Bool)
  | released (c : Nat) (err : Nat)
  | connect (id : Nat)
deriving Repr, DecidableEq

structure Oracle where
  check : Nat → Nat → Bool     -- tag, number of earlier Check calls of that copy ↦ passes
  process : Nat → Nat → Bool

def Oracle.allOk : Oracle := ⟨fun _ _ => true, fun _ _ => true⟩

structure St where
  n : Nat                       -- number of copies pushed so far
  recs : Nat → Rec
  inc : List (Nat × Nat)        -- incompletes: (event id, copy), oldest first
  conn : List Nat               -- ids for which Exists/Get answer positively
  trace : List Cb               -- newest first
  oof : Bool                    -- the recursion fuel ran out (proved impossible)

def noRec : Rec := ⟨⟨0, [], 0⟩, 0, 0, false⟩

def St.init (conn : List Nat) : St := ⟨0, fun _ => noRec, [], conn, [], false⟩

def setRec (recs : Nat → Rec) (c : Nat) (r : Rec) : Nat → Rec := fun j => if j = c then r else recs j

def nCheck (c : Nat) : List Cb → Nat
  | [] => 0
  | .check c' _ :: t => (if c' = c then 1 else 0) + nCheck c t
  | _ :: t => nCheck c t

def nProc (c : Nat) : List Cb → Nat
  | [] => 0
  | .process c' _ :: t => (if c' = c then 1 else 0) + nProc c t
  | _ :: t => nProc c t

def nRel (c : Nat) : List Cb → Nat
  | [] => 0
  | .released c' _ :: t => (if c' = c then 1 else 0) + nRel c t
  | _ :: t => nRel c t

/-- Callback.Exists / Callback.Get ≠ nil -/
def St.isConn (st : St) (id : Nat) : Bool := st.conn.contains id

/-- completeEventParents ≠ nil -/
def St.complete (st : St) (e : Ev) : Bool := e.parents.all (fun p => st.conn.contains p)

/-- wlru.Remove by key -/
def incRemove (inc : List (Nat × Nat)) (id : Nat) : List (Nat × Nat) := inc.filter (fun p => p.1 != id)

/-- wlru.Add: an existing key is moved to the newest position -/
def incAdd (inc : List (Nat × Nat)) (id c : Nat) : List (Nat × Nat) := incRemove inc id ++ [(id, c)]

def weightOf (recs : Nat → Rec) (inc : List (Nat × Nat)) : Nat := (inc.map (fun p => (recs p.2).ev.size)).sum

def St.weight (st : St) : Nat := weightOf st.recs st.inc

/-- dropEvent -/
def drop (st : St) (c err : Nat) : St :=
  if (st.recs c).err = 0 then { st with recs := setRec st.recs c { st.recs c with err := err } } else st

/-- releaseEvent -/
def release (st : St) (c : Nat) : St :=
  let r := st.recs c
  { st with
    trace := if r.released then st.trace else .released c r.err :: st.trace
    recs := setRec st.recs c { r with released := true } }

/-- processCompleteEvent -/
def processComplete (O : Oracle) (st : St) (c : Nat) : St × Bool :=
  let r := st.recs c
  let okC := O.check r.tag (nCheck c st.trace)
  let st1 := { st with trace := .check c okC :: st.trace }
  if !okC then (drop st1 c errCheck, false)
  else
    let okP := O.process r.tag (nProc c st1.trace)
    let st2 := { st1 with trace := .process c okP :: st1.trace }
    if !okP then ({ st2 with recs := setRec st2.recs c { st2.recs c with err := errProcess } }, false)
    else ({ st2 with conn := r.ev.id :: st2.conn }, true)

/-- the loop over the (stale) snapshot in `pushEvent`; `step` is the recursive `pushEvent(child, list, true)` -/
def loopChildren (guard : Bool) (step : St → Nat → St) (eid : Nat) : List Nat → St → St
  | [], st => st
  | ch :: rest, st =>
    let st' :=
      if guard && (st.recs ch).released then st
      else if (st.recs ch).ev.parents.contains eid then step st ch
      else st
    loopChildren guard step eid rest st'

/-- `pushEvent(e, incompleteEventsList, recheck)`; `snap = none` is the nil list of the outer call -/
def pushEv (guard : Bool) (O : Oracle) : Nat → St → Nat → Option (List Nat) → Bool → St × Bool
  | 0, st, _, _, _ => ({ st with oof := true }, false)
  | fuel + 1, st, c, snap, recheck =>
    let e := (st.recs c).ev
    if st.isConn e.id then
      let st1 := { st with inc := incRemove st.inc e.id }
      let st2 := if recheck then st1 else drop st1 c errConnected
      (release st2 c, false)
    else if !st.complete e then
      (if recheck then st else { st with inc := incAdd st.inc e.id c }, false)
    else
      let (st1, ok) := processComplete O st c
      let st2 := release st1 c
      let st3 :=
        if ok then
          let list := snap.getD (st2.inc.map (·.2))
          loopChildren guard (fun s ch => (pushEv guard O fuel s ch (some list) true).1) e.id list st2
        else st2
      ({ st3 with inc := incRemove st3.inc e.id }, ok)

/-- spillIncompletes; the list argument is the current `incompletes` (`st.inc`) -/
def spill (limNum limSize : Nat) : List (Nat × Nat) → St → St
  | [], st => { st with inc := [] }
  | (id, c) :: rest, st =>
    if Gen.Buffer.spillCond ((id, c) :: rest).length limNum (weightOf st.recs ((id, c) :: rest)) limSize then
      spill limNum limSize rest (release (drop { st with inc := rest } c errSpilled) c)
    else { st with inc := (id, c) :: rest }

/-- PushEvent -/
def pushEvent (guard : Bool) (O : Oracle) (limNum limSize : Nat) (st : St) (e : Ev) (tag : Nat) : St × Bool :=
  let c := st.n
  let st0 := { st with n := c + 1, recs := setRec st.recs c ⟨e, tag, 0, false⟩ }
  if st.inc.any (fun p => p.1 == e.id) then (release (drop st0 c errDup) c, false)
  else
    let r := pushEv guard O (st.inc.length + 1) st0 c none false
    (spill limNum limSize r.1.inc r.1, r.2)

/-- Clear -/
def clear (st : St) : St := spill 0 0 st.inc st

/-- the application connects an event without the buffer (own events, other sources) -/
def connect (st : St) (id : Nat) : St := { st with conn := id :: st.conn, trace := .connect id :: st.trace }

/-- Total() -/
def St.total (st : St) : Nat × Nat := (st.inc.length, st.weight)

inductive Op where
  | push (e : Ev)
  | connect (id : Nat)
  | clear
deriving Repr

/-- one operation of the buffer (tags of pushes = copy numbers) -/
def step (guard : Bool) (O : Oracle) (limNum limSize : Nat) (st : St) : Op → St
  | .push e => (pushEvent guard O limNum limSize st e st.n).1
  | .connect id => connect st id
  | .clear => clear st

def run (guard : Bool) (O : Oracle) (limNum limSize : Nat) (st : St) (ops : List Op) : St :=
  ops.foldl (step guard O limNum limSize) st

/-! ### the property predicate `P_C14` on callback traces (newest first) -/

/-- ids connected after the trace: initially connected, connected from outside, processed successfully -/
def connOf (evOf : Nat → Ev) (init : List Nat) : List Cb → List Nat
  | [] => init
  | .process c true :: t => (evOf c).id :: connOf evOf init t
  | .connect id :: t => id :: connOf evOf init t
  | _ :: t => connOf evOf init t

/-- (a) at every `Process` all parents are connected -/
def parentsOk (evOf : Nat → Ev) (init : List Nat) : List Cb → Bool
  | [] => true
  | .process c _ :: t =>
    (evOf c).parents.all (fun p => (connOf evOf init t).contains p) && parentsOk evOf init t
  | _ :: t => parentsOk evOf init t

/-- (b) per copy at most one `Process`, and none after its `Released` -/
def procOk : List Cb → Bool
  | [] => true
  | .process c _ :: t => nProc c t == 0 && nRel c t == 0 && procOk t
  | _ :: t => procOk t

/-- (c, first half) no copy is released twice -/
def relOk : List Cb → Bool
  | [] => true
  | .released c _ :: t => nRel c t == 0 && relOk t
  | _ :: t => relOk t

/-- (c, second half) every copy `< n` has been released -/
def allReleased (n : Nat) (t : List Cb) : Bool := (List.range n).all (fun c => nRel c t == 1)

/-- (d) within the limits -/
def withinLimits (limNum limSize : Nat) (tot : Nat × Nat) : Bool := decide (tot.1 ≤ limNum) && decide (tot.2 ≤ limSize)

end Model.EventsBuffer
