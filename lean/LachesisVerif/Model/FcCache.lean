/-!
Model of the result cache in front of `vecfc.Index.forklessCause` (`vi.cache.ForklessCause`, an LRU
keyed by the pair of event ids) together with the index transaction of `IndexedLachesis`
(`Add` … `Flush` on success, `DropNotFlushed` after `Build` and after a failed `Process`).

`σ` is the state of the index, `f s k` the uncached answer for key `k` (a pair of event ids) when
both events are indexed in `s` (`none` otherwise). The cache survives roll-backs: it is NOT purged
by `DropNotFlushed`. Eviction is arbitrary (`ev` may keep any subset).
-/
namespace Model.FcCache

structure Cached (σ κ : Type) where
  st : σ
  cache : List (κ × Bool)

abbrev Evict (κ : Type) := List (κ × Bool) → List (κ × Bool)

variable {σ κ : Type} [DecidableEq κ]

/-- ForklessCause(a, b): cache hit, or compute and remember -/
def query (f : σ → κ → Option Bool) (ev : Evict κ) (c : Cached σ κ) (k : κ) : Cached σ κ × Option Bool :=
  match c.cache.lookup k with
  | some v => (c, some v)
  | none =>
    match f c.st k with
    | some v => ({ c with cache := ev ((k, v) :: c.cache) }, some v)
    | none => (c, none)

/-- any change of the index state: adding an event (Add), committing (Flush), rolling back (DropNotFlushed) -/
def move (c : Cached σ κ) (s' : σ) : Cached σ κ := { c with st := s' }

inductive Op (σ κ : Type)
  | query (k : κ)
  | move (s' : σ)

def step (f : σ → κ → Option Bool) (ev : Evict κ) (c : Cached σ κ) : Op σ κ → Cached σ κ
  | .query k => (query f ev c k).1
  | .move s' => move c s'

end Model.FcCache
