import Driver.Common
import LachesisVerif.Model.EventsBuffer
import LachesisVerif.Model.Processor
open Drv

/-! Drivers of the `buffer` family. Both streams run in `judge` mode: the op line is answered with
    `ok` (the model's line is remembered), the implementation's line (`> …`) is answered with `ok` iff
    it equals the model's line AND the property predicate holds on the implementation's own trace. -/

namespace Drv.Buf
open Model.EventsBuffer

structure S where
  limNum : Nat := 0
  limSize : Nat := 0
  hasBuf : Bool := false
  norel : Bool := false                -- the buffer was created without a Released callback
  defs : List (Nat × Ev) := []
  failC : List (Nat × Nat) := []
  failP : List (Nat × Nat) := []
  st : St := St.init []
  -- for the predicate on the implementation's trace
  init : List Nat := []
  copies : List (Nat × Ev) := []       -- tag ↦ event of the pushed copy
  impl : List Cb := []                 -- newest first
  expected : String := ""
  lastOp : String := ""

def parseLim (s : String) (max : Nat) : Nat := if s == "inf" then max else nat! s

def evOfDefs (defs : List (Nat × Ev)) (id : Nat) : Ev := (defs.lookup id).getD ⟨id, [], 10⟩

def parseEv (ws : List String) : Nat × Ev × Nat :=
  let id := nat! (ws.getD 1 "0")
  let size := ((kv ws "s").map nat!).getD 10
  let lam := ((kv ws "l").map nat!).getD 1
  let ps := ((kv ws "p").map (fun s => (splitList s).map nat!)).getD []
  (id, ⟨id, ps, size⟩, lam)

def oracle (s : S) : Oracle :=
  ⟨fun tag k => !(s.failC.contains (tag, k)), fun tag k => !(s.failP.contains (tag, k))⟩

def fmtCb (recs : Nat → Rec) : Cb → String
  | .check c ok => s!"C{(recs c).tag}:{b2s ok}"
  | .process c ok => s!"P{(recs c).tag}:{b2s ok}"
  | .released c e => s!"R{(recs c).tag}:{e}"
  | .connect _ => ""

/-- the entries added since `old` (traces are newest first), oldest first, printed -/
def fmtNew (norel : Bool) (old new : St) : String :=
  let added := (new.trace.take (new.trace.length - old.trace.length)).reverse
  let toks := (added.map (fmtCb new.recs)).filter (fun s => !s.isEmpty && !(norel && s.startsWith "R"))
  if toks.isEmpty then "-" else " ".intercalate toks

def model (s : S) (ws : List String) : S × String :=
  match ws with
  | ["lim", a, b] =>
    ({ s with limNum := parseLim a 4294967295, limSize := parseLim b 18446744073709551615, hasBuf := true }, "ok")
  | ["lim", a, b, "norel"] =>
    -- no Released callback: the (logical) releases of the model are not observable
    ({ s with limNum := parseLim a 4294967295, limSize := parseLim b 18446744073709551615, hasBuf := true,
              norel := true }, "ok")
  | ["conn", l] =>
    let ids := (splitList l).map nat!
    ({ s with st := { s.st with conn := ids.reverse ++ s.st.conn }, init := ids.reverse ++ s.init }, "ok")
  | "ev" :: _ =>
    let (id, e, _) := parseEv ws
    ({ s with defs := (id, e) :: s.defs }, "ok")
  | ["failc", t, k] => ({ s with failC := (nat! t, nat! k) :: s.failC }, "ok")
  | ["failp", t, k] => ({ s with failP := (nat! t, nat! k) :: s.failP }, "ok")
  | ["connect", id] =>
    ({ s with st := connect s.st (nat! id), impl := .connect (nat! id) :: s.impl }, "ok")
  | ["push", id] =>
    if !s.hasBuf then (s, "nobuf") else
    let e := evOfDefs s.defs (nat! id)
    let tag := s.st.n
    let (st', ok) := pushEvent true (oracle s) s.limNum s.limSize s.st e tag
    let (n, w) := st'.total
    ({ s with st := st', copies := (tag, e) :: s.copies }, s!"{fmtNew s.norel s.st st'} ret={b2s ok} tot={n}/{w}")
  | ["clear"] =>
    if !s.hasBuf then (s, "nobuf") else
    let st' := clear s.st
    let (n, w) := st'.total
    ({ s with st := st' }, s!"{fmtNew s.norel s.st st'} tot={n}/{w}")
  | _ => (s, "bad-op")

def parseTok (tok : String) : Option Cb :=
  let body := (tok.drop 1).toString
  match body.splitOn ":" with
  | [a, b] =>
    match a.toNat?, b.toNat? with
    | some c, some v =>
      if tok.startsWith "C" then some (.check c (v == 1))
      else if tok.startsWith "P" then some (.process c (v == 1))
      else if tok.startsWith "R" then some (.released c v)
      else none
    | _, _ => none
  | _ => none

def parseTot (ws : List String) : Option (Nat × Nat) :=
  match (kv ws "tot").map (fun s => s.splitOn "/") with
  | some [a, b] => match a.toNat?, b.toNat? with
    | some x, some y => some (x, y)
    | _, _ => none
  | _ => none

/-- `P_C14` on the implementation's trace so far (`impl`, newest first) -/
def predicate (s : S) (tot : Option (Nat × Nat)) (afterClear : Bool) : Option String :=
  let evOf := fun tag => (s.copies.lookup tag).getD ⟨0, [], 0⟩
  if !parentsOk evOf s.init s.impl then some "P_C14(a):process-before-parents-connected"
  else if !procOk s.impl then some "P_C14(b):process-twice-or-after-released"
  else if !relOk s.impl then some "P_C14(c):released-twice"
  else if afterClear && !s.norel && !allReleased s.copies.length s.impl then some "P_C14(c):copy-not-released-after-clear"
  else if s.norel && s.impl.any (fun e => match e with | .released .. => true | _ => false) then
    some "unexpected-output:released-without-callback"
  else match tot with
    | none => none
    | some t =>
      if afterClear then (if t == (0, 0) then none else some "P_C14(d):not-empty-after-clear")
      else if withinLimits s.limNum s.limSize t then none else some "P_C14(d):over-limit-after-push"

def judge (s : S) (iws : List String) : S × String :=
  let line := " ".intercalate iws
  let isPush := s.lastOp == "push"
  let isClear := s.lastOp == "clear"
  if !(isPush || isClear) || !s.hasBuf then
    (s, if line == s.expected then "ok" else s!"FAIL model={s.expected}")
  else
    let toks := iws.filter (fun w => !(w.startsWith "ret=" || w.startsWith "tot=" || w == "-"))
    let parsed := toks.map parseTok
    if parsed.any (·.isNone) then (s, s!"FAIL unexpected-output model={s.expected}") else
    let s' := { s with impl := (parsed.filterMap id).reverse ++ s.impl }
    match predicate s' (parseTot iws) isClear with
    | some why => (s', s!"FAIL {why} model={s.expected}")
    | none => (s', if line == s.expected then "ok" else s!"FAIL model={s.expected}")

def step (s : S) (ws : List String) : S × String :=
  match ws with
  | ">" :: rest => judge s rest
  | _ =>
    let (s', out) := model s ws
    ({ s' with expected := out, lastOp := ws.headD "" }, "ok")

def stream : StreamDef := { σ := S, init := {}, step := step }
end Drv.Buf

namespace Drv.Proc
open Model.EventsBuffer Model.Processor

structure S where
  proc : Option Proc := none
  capNum : Nat := 0
  capSize : Nat := 0
  conn : List Nat := []
  defs : List (Nat × Ev × Nat) := []        -- id ↦ (event, lamport)
  failC : List (Nat × Nat) := []
  failP : List (Nat × Nat) := []
  nextTag : Nat := 0
  accepted : List (Nat × Nat) := []         -- batch id ↦ size
  delivered : List (Nat × Nat) := []
  printed : Nat := 0
  -- for the predicate on the implementation's trace
  batchTags : List (Nat × Bool × List Nat) := []   -- accepted batches: id ↦ (ordered, tags)
  impl : List String := []                  -- tokens, oldest first
  expected : String := ""
  lastOp : String := ""

def oracle (s : S) : Oracle :=
  ⟨fun tag k => !(s.failC.contains (tag, k)), fun tag k => !(s.failP.contains (tag, k))⟩

def itemOf (s : S) (id tag : Nat) : Item :=
  match s.defs.lookup id with
  | some (e, l) => ⟨tag, e, l⟩
  | none => ⟨tag, ⟨id, [], 10⟩, 1⟩

def fmt : PCb → String
  | .highest => "H"
  | .push t => s!"U{t}"
  | .check t ok => s!"C{t}:{b2s ok}"
  | .process t ok => s!"P{t}:{b2s ok}"
  | .released t e => s!"R{t}:{e}"
  | .warn => "W"
  | .announce b ids => s!"N{b}:{if ids.isEmpty then "-" else joinNat ids ","}"
  | .done b sem buf => s!"D{b}:{sem.1}/{sem.2}:{buf.1}/{buf.2}"

def isDone : PCb → Bool
  | .done .. => true
  | _ => false

/-- index just after the last `done` entry (0 if there is none) -/
def cutAfterLastDone (l : List PCb) : Nat :=
  (l.zipIdx.foldl (fun acc p => if isDone p.1 then p.2 + 1 else acc) 0)

def join (l : List PCb) : String := if l.isEmpty then "-" else " ".intercalate (l.map fmt)

def model (s : S) (ws : List String) : S × String :=
  match ws with
  | "cfg" :: _ =>
    let g := fun k => (kv ws k).getD "0"
    let cfg : Cfg := ⟨Buf.parseLim (g "num") 4294967295, Buf.parseLim (g "size") 18446744073709551615⟩
    let p := Proc.init cfg (nat! (g "semnum")) (nat! (g "semsize")) (nat! (g "highest")) s.conn
    ({ s with proc := some p, capNum := nat! (g "semnum"), capSize := nat! (g "semsize") }, "ok")
  | ["conn", l] =>
    let ids := (splitList l).map nat!
    match s.proc with
    | none => ({ s with conn := ids ++ s.conn }, "ok")
    | some p => ({ s with proc := some { p with st := { p.st with buf := { p.st.buf with conn := ids ++ p.st.buf.conn } } } }, "ok")
  | "ev" :: _ =>
    let (id, e, l) := Buf.parseEv ws
    ({ s with defs := (id, e, l) :: s.defs }, "ok")
  | ["failc", t, k] => ({ s with failC := (nat! t, nat! k) :: s.failC }, "ok")
  | ["failp", t, k] => ({ s with failP := (nat! t, nat! k) :: s.failP }, "ok")
  | ["enq", b, o, e] =>
    match s.proc with
    | none => (s, "noproc")
    | some p =>
      let ids := (splitList (e.drop 2).toString).map nat!
      let items := ids.zipIdx.map (fun x => itemOf s x.1 (s.nextTag + x.2))
      let s := { s with nextTag := s.nextTag + ids.length }
      let (p', ok) := enqueue (oracle s) p (nat! b) (o == "o=1") items
      if ok then
        ({ s with proc := some p', accepted := (nat! b, ids.length) :: s.accepted,
                  batchTags := (nat! b, o == "o=1", items.map (·.tag)) :: s.batchTags }, "ok")
      else (s, "busy")
  | ["chk", b, pos, err] =>
    match s.proc with
    | none => (s, "noproc")
    | some p =>
      match s.accepted.lookup (nat! b) with
      | none => (s, "nobatch")
      | some n =>
        if nat! pos ≥ n || s.delivered.contains (nat! b, nat! pos) || p.stopped then (s, "nobatch")
        else
          ({ s with proc := some (deliver (oracle s) p (nat! b) (nat! pos) (nat! err)),
                    delivered := (nat! b, nat! pos) :: s.delivered }, "ok")
  | ["stopmid", b, pos, err] =>
    -- the result arrives, and Stop is called while the inserter is in the middle of handling it
    match s.proc with
    | none => (s, "noproc")
    | some p =>
      match s.accepted.lookup (nat! b) with
      | none => (s, "nobatch")
      | some n =>
        if nat! pos ≥ n || s.delivered.contains (nat! b, nat! pos) || p.stopped then (s, "nobatch")
        else
          let p' := stop (deliver (oracle s) p (nat! b) (nat! pos) (nat! err))
          let out := p'.st.trace.reverse.drop s.printed
          let (bn, bw) := p'.st.buf.total
          ({ s with proc := some p', printed := p'.st.trace.length, delivered := (nat! b, nat! pos) :: s.delivered },
           s!"{join out} sem={p'.st.sem.num}/{p'.st.sem.size} buf={bn}/{bw}")
  | ["sync"] =>
    match s.proc with
    | none => (s, "noproc")
    | some p =>
      let pendingOut := p.st.trace.reverse.drop s.printed
      let k := cutAfterLastDone pendingOut
      ({ s with printed := s.printed + k }, join (pendingOut.take k))
  | ["stop"] =>
    match s.proc with
    | none => (s, "noproc")
    | some p =>
      if p.stopped then (s, "stopped") else
      let p' := stop p
      let out := p'.st.trace.reverse.drop s.printed
      let (bn, bw) := p'.st.buf.total
      ({ s with proc := some p', printed := p'.st.trace.length },
       s!"{join out} sem={p'.st.sem.num}/{p'.st.sem.size} buf={bn}/{bw}")
  | _ => (s, "bad-op")

/-! #### `P_C15` on the implementation's trace -/

def tagOfTok (tok : String) : Option Nat :=
  if tok.startsWith "U" || tok.startsWith "R" || tok.startsWith "C" || tok.startsWith "P" then
    (((tok.drop 1).toString.splitOn ":").headD "").toNat?
  else none

def countRel (toks : List String) (tag : Nat) : Nat :=
  (toks.filter (fun t => t.startsWith "R" && tagOfTok t == some tag)).length

def firstSeen (toks : List String) : List Nat :=
  toks.foldl (fun acc t => match tagOfTok t with
    | some g => if acc.contains g then acc else acc ++ [g]
    | none => acc) []

def increasing : List Nat → Bool
  | a :: b :: t => decide (a < b) && increasing (b :: t)
  | _ => true

def parsePair (s : String) : Option (Nat × Nat) :=
  match s.splitOn "/" with
  | [a, b] => match a.toNat?, b.toNat? with
    | some x, some y => some (x, y)
    | _, _ => none
  | _ => none

/-- checks one `D<b>:<semN>/<semS>:<bufN>/<bufS>` token given the tokens before it -/
def checkDone (s : S) (before : List String) (tok : String) : Option String :=
  match (tok.drop 1).toString.splitOn ":" with
  | [b, sem, _] =>
    match b.toNat?, parsePair sem with
    | some bid, some (n, sz) =>
      let _ := (bid, before)
      if n > s.capNum || sz > s.capSize then some "P_C15:semaphore-over-capacity" else none
    | _, _ => some "unexpected-output"
  | _ => some "unexpected-output"

def predicate (s : S) (newToks : List String) (isStop : Bool) (sem : Option (Nat × Nat)) : Option String :=
  let all := s.impl ++ newToks
  let seen := firstSeen all
  if seen.any (fun g => countRel all g > 1) then some "P_C15:released-twice"
  else if s.batchTags.any (fun x => x.2.1 && !increasing (seen.filter (fun g => x.2.2.contains g))) then
    some "P_C15:ordered-batch-out-of-order"
  else
    -- every D token of this line
    let rec go (before : List String) : List String → Option String
      | [] => none
      | t :: rest =>
        if t.startsWith "D" then
          match checkDone s before t with
          | some why => some why
          | none => go (before ++ [t]) rest
        else go (before ++ [t]) rest
    match go s.impl newToks with
    | some why => some why
    | none =>
      if isStop then
        let relCount := (all.filter (·.startsWith "R")).length
        let acquired := (s.batchTags.map (fun x => x.2.2.length)).sum
        let finishedIds := (all.filter (·.startsWith "D")).filterMap
          (fun t => (((t.drop 1).toString.splitOn ":").headD "").toNat?)
        let finTags := (s.batchTags.filter (fun x => finishedIds.contains x.1)).flatMap (·.2.2)
        match sem with
        | some (n, _) =>
          if n + relCount != acquired then some "P_C15:semaphore-not-balanced-after-stop"
          else if finTags.any (fun g => countRel all g != 1) then some "P_C15:finished-batch-event-not-released-once"
          else none
        | none => some "unexpected-output"
      else none

def judge (s : S) (iws : List String) : S × String :=
  let line := " ".intercalate iws
  if !(s.lastOp == "sync" || s.lastOp == "stop" || s.lastOp == "stopmid") || s.proc.isNone
      || iws == ["nobatch"] || iws == ["stopped"] then
    (s, if line == s.expected then "ok" else s!"FAIL model={s.expected}")
  else
    let toks := iws.filter (fun w => !(w.startsWith "sem=" || w.startsWith "buf=" || w == "-"))
    if toks.any (fun t => t.startsWith "!" || t == "timeout" || t == "panic") then
      (s, s!"FAIL unexpected-output model={s.expected}") else
    let sem := (kv iws "sem").bind parsePair
    match predicate s toks (s.lastOp == "stop" || s.lastOp == "stopmid") sem with
    | some why => ({ s with impl := s.impl ++ toks }, s!"FAIL {why} model={s.expected}")
    | none => ({ s with impl := s.impl ++ toks }, if line == s.expected then "ok" else s!"FAIL model={s.expected}")

def step (s : S) (ws : List String) : S × String :=
  match ws with
  | ">" :: rest => judge s rest
  | _ =>
    let (s', out) := model s ws
    ({ s' with expected := out, lastOp := ws.headD "" }, "ok")

def stream : StreamDef := { σ := S, init := {}, step := step }
end Drv.Proc
