import Driver.Common
import Driver.Cache
/-! Driver of the `cache` family (C27, C29, C30). -/

def main (args : List String) : IO UInt32 :=
  Drv.mainWith [
    ("wlru", Drv.Wlru.stream),
    ("sem", Drv.Sem.stream),
    ("semtimed", Drv.SemTimed.stream),
    ("cprod", Drv.CProd.stream)
  ] args
