import Driver.Common
import LachesisVerif.Model.Check
import LachesisVerif.Model.Doublesign
open Drv

namespace Drv.EvCheck
open Model.Check

def parseParent (s : String) : Parent :=
  match s.splitOn ":" with
  | [i, c, q, l] => ⟨nat! i, nat! c, nat! q, nat! l⟩
  | _ => ⟨0, 0, 0, 0⟩

def step (_ : Unit) (ws : List String) : Unit × String :=
  let cur := nat! ((kv ws "cur").getD "0")
  let vals := (splitList ((kv ws "vals").getD "-")).map nat!
  let e : Ev := match ((kv ws "e").getD "").splitOn ":" with
    | [ep, sq, fr, lm, cr] => ⟨nat! ep, nat! sq, nat! fr, nat! lm, nat! cr⟩
    | _ => ⟨0, 0, 0, 0, 0⟩
  let ps := (splitList ((kv ws "ps").getD "-")).map parseParent
  ((), match validate cur (fun c => vals.contains c) e ps with
       | none => "ok"
       | some err => err.name)

def stream : StreamDef := { σ := Unit, init := (), step := step }
end Drv.EvCheck

namespace Drv.Dsign
open Model.Doublesign

def geti (ws : List String) (k : String) : Int := int! ((kv ws k).getD "0")

def step (_ : Unit) (ws : List String) : Unit × String :=
  let s : Status := { peersNum := geti ws "peers", now := geti ws "now", startup := geti ws "startup",
                      lastConnected := geti ws "conn", p2pSynced := geti ws "synced", becameValidator := geti ws "val",
                      extCreated := geti ws "created", extDetected := geti ws "detected" }
  let thr := geti ws "thr"
  ((), match ws.head? with
  | some "sync" =>
    let (wait, err) := syncedToEmit s thr
    s!"wait={wait} err={match err with | none => "nil" | some e => e.name}"
  | some "par" => b2s (detectParallel s thr)
  | _ => "bad-op")

def stream : StreamDef := { σ := Unit, init := (), step := step }
end Drv.Dsign
