import Driver.Common
import LachesisVerif.Model.Wlru
import LachesisVerif.Model.Semaphore
import LachesisVerif.Model.Flushable
import Std.Data.HashSet
/-!
Driver of stream `conc` (C28, judge mode): checks that the history recorded by the harness is
linearizable with respect to the sequential models (`Model.Wlru`, `Model.Semaphore.tryAcquire /
releaseCore`, `Model.Flushable`, and a small specification of the ordering buffer's observable
state written here).

Search (Wing–Gong / Lowe): the state of the search is (how many operations of each thread are
already linearised, model state). An operation may be linearised next iff it is the first pending
one of its thread and no pending operation returned before it was invoked (`inv < min ret`); its
recorded result must be the model's (or `*`: not judged). Failed search states are memoised, so the
search is bounded by (#progress vectors × #model states) and, in practice, linear in the history.
By locality of linearizability a history over several objects (the pool and each of its stores) is
judged per object.
-/
namespace Drv.Conc

structure Rec where
  op : List String
  inv : Nat
  ret : Nat
  res : String
deriving Repr

/-- a sequential model over op words with canonical result strings -/
structure Mod (σ : Type) where
  apply : σ → List String → σ × String
  key : σ → String

def minRet (ts : List (List Rec)) : Nat :=
  ts.foldl (fun m t => match t with
    | r :: _ => min m r.ret
    | [] => m) 1000000000000

def progressKey (ts : List (List Rec)) : String := ",".intercalate (ts.map (fun t => toString t.length))

def resMatches (model impl : String) : Bool := impl == "*" || model == "*" || model == impl

/-- depth-first search over linearisations; returns (found, memo of failed states) -/
def dfs {σ : Type} (M : Mod σ) : Nat → List (List Rec) → σ → Std.HashSet String → Bool × Std.HashSet String
  | 0, _, _, seen => (false, seen)
  | fuel + 1, ts, st, seen =>
    if ts.all List.isEmpty then (true, seen) else
    let k := progressKey ts ++ "|" ++ M.key st
    if seen.contains k then (false, seen) else
    let mr := minRet ts
    Id.run do
      let mut seen := seen.insert k
      for i in [0:ts.length] do
        match ts.getD i [] with
        | r :: rest =>
          if r.inv < mr then
            let (st', out) := M.apply st r.op
            if resMatches out r.res then
              let (ok, seen') := dfs M fuel (ts.set i rest) st' seen
              seen := seen'
              if ok then return (true, seen)
        | [] => pure ()
      return (false, seen)

def linearizable {σ : Type} (M : Mod σ) (init : σ) (ts : List (List Rec)) : Bool :=
  let n := (ts.map List.length).sum
  (dfs M (n + 1) ts init {}).1

/-! ## sequential models -/

open Model in
def wlruMod : Mod Wlru.Cache where
  key c := toString (c.items.map fun e => (e.key, e.val, e.weight)) ++ s!"/{c.weight}/{c.maxWeight}/{c.maxSize}"
  apply c ws :=
    let fmt (o : Wlru.Out) : String := s!"{b2s o.ok}/{if o.vals.isEmpty then "-" else joinNat o.vals ","}"
    let run (op : Wlru.Op) : Wlru.Cache × String := let r := Wlru.step c op; (r.1, fmt r.2)
    match ws with
    | ["add", k, v, w] => run (.add (nat! k) (nat! v) (nat! w))
    | ["get", k] => run (.get (nat! k))
    | ["peek", k] => run (.peek (nat! k))
    | ["contains", k] => run (.contains (nat! k))
    | ["coa", k, v, w] => run (.containsOrAdd (nat! k) (nat! v) (nat! w))
    | ["poa", k, v, w] => run (.peekOrAdd (nat! k) (nat! v) (nat! w))
    | ["remove", k] => run (.remove (nat! k))
    | ["rmoldest"] => run .removeOldest
    | ["getoldest"] => run .getOldest
    | ["keys"] => run .keys
    | ["len"] => run .len
    | ["weight"] => (c, s!"1/{c.weight}")
    | ["total"] => run .total
    | ["resize", mw, ms] => run (.resize (nat! mw) (nat! ms))
    | ["purge"] => run (.purge [])
    | _ => (c, "bad-op")

open Model.Semaphore in
/-- (held, capacity); `Acquire` is judged as the `tryAcquire` attempt of its last critical section -/
def semMod : Mod (Metric × Metric) where
  key s := s!"{s.1.num}:{s.1.size}/{s.2.num}:{s.2.size}"
  apply s ws :=
    let tryA (n z : String) : (Metric × Metric) × String :=
      match tryAcquire s.1 s.2 ⟨nat! n, nat! z⟩ with
      | some h => ((h, s.2), "1")
      | none => (s, "0")
    match ws with
    | ["try", n, z] => tryA n z
    | ["acq", n, z, _] => tryA n z
    | ["rel", n, z] =>
      let r := releaseCore { held := s.1, cap := s.2, now := 0, waiters := [] } ⟨nat! n, nat! z⟩
      ((r.1.held, s.2), "-")
    | ["term"] => ((s.1, Metric.zero), "-")
    | ["proc"] => (s, s!"{s.1.num}:{s.1.size}")
    | ["avail"] =>
      (s, s!"{(s.2.num + 4294967296 - s.1.num) % 4294967296}:{(s.2.size + 18446744073709551616 - s.1.size) % 18446744073709551616}")
    | _ => (s, "bad-op")

def fmtVal : Option Bytes → String
  | some v => hexOf v
  | none => "nil"

open Model in
/-- one flushable store; `under` reads the underlying store (the pool's GetUnderlying) -/
def flushMod : Mod Flushable.St where
  key st := toString st.under ++ "/" ++ toString st.overlay ++ s!"/{st.sizeEst}"
  apply st ws :=
    let batch (l : List String) : List Spec.Op :=
      let rec go : Nat → List String → List Spec.Op
        | 0, _ => []
        | f + 1, k :: v :: rest => (if v == "x" then Spec.Op.del [nat! k] else Spec.Op.put [nat! k] (unhex v)) :: go f rest
        | _ + 1, _ => []
      go l.length l
    match ws with
    | ["put", k, v] => (Flushable.put st [nat! k] (unhex v), "ok")
    | ["del", k] => (Flushable.delete st [nat! k], "ok")
    | ["get", k] => (st, fmtVal (Flushable.get st [nat! k]))
    | ["snapget", k] => (st, fmtVal (Flushable.get st [nat! k]))
    | ["under", k] => (st, fmtVal (st.under.get [nat! k]))
    | ["has", k] => (st, b2s (Flushable.has st [nat! k]))
    | ["flush"] => (Flushable.flush st, "ok")
    | ["drop"] => (Flushable.dropNotFlushed st, "-")
    | ["pairs"] => (st, toString (Flushable.notFlushedPairs st))
    | ["sizeest"] => (st, toString st.sizeEst)
    | "batch" :: rest => (Flushable.write st (batch rest), "ok")
    | ["iter"] => (st, "*")
    | ["stat"] => (st, "*")
    | ["compact"] => (st, "*")
    | _ => (st, "bad-op")

/-- the pool's own state as far as its operations show it: the registered names never change here -/
def poolMod : Mod Unit where
  key _ := ""
  apply _ ws :=
    match ws with
    | ["open", _] => ((), "ok")
    | ["names"] => ((), "a,b")
    | ["flush", _] => ((), "ok")
    | ["psize"] => ((), "*")
    | ["stat", _] => ((), "*")
    | _ => ((), "bad-op")

/-! ### the ordering buffer: observable state = (connected events, buffered events oldest first).
Sequential specification of `PushEvent` with callbacks that always succeed: a duplicate of a buffered
event and an already connected event are refused; a complete event is processed, and so is, to a
fixpoint, every buffered event whose parents are all connected; an incomplete one is buffered as the
newest entry and the oldest entries are spilled while a limit is exceeded. -/

structure BufCfg where
  evs : List (Nat × Nat × List Nat) := []   -- id, size, parents
  limNum : Nat := 0
  limSize : Nat := 0

structure BufSt where
  conn : List Nat := []   -- ascending
  inc : List Nat := []    -- oldest first
  trail : List (Nat × Nat) := []
  trailRet : Nat := 0

def BufCfg.parents (c : BufCfg) (e : Nat) : List Nat := ((c.evs.find? (·.1 == e)).map (·.2.2)).getD []

def BufCfg.size (c : BufCfg) (e : Nat) : Nat := ((c.evs.find? (·.1 == e)).map (·.2.1)).getD 0

def insertSorted (x : Nat) : List Nat → List Nat
  | [] => [x]
  | y :: ys => if x < y then x :: y :: ys else if x == y then y :: ys else y :: insertSorted x ys

def bufClosure (c : BufCfg) : Nat → BufSt → BufSt
  | 0, st => st
  | f + 1, st =>
    match st.inc.find? (fun e => (c.parents e).all st.conn.contains) with
    | some e => bufClosure c f { conn := insertSorted e st.conn, inc := st.inc.filter (· != e) }
    | none => st

def bufWeight (c : BufCfg) (inc : List Nat) : Nat := (inc.map c.size).sum

def bufSpill (c : BufCfg) (limNum limSize : Nat) : List Nat → List Nat
  | [] => []
  | e :: rest =>
    if (rest.length + 1) % 4294967296 > limNum || bufWeight c (e :: rest) > limSize then bufSpill c limNum limSize rest
    else e :: rest

/-- (count, bytes) of the cache while the entries of `l` are removed oldest first until `stop` entries are left -/
def bufSuffixStates (c : BufCfg) : Nat → List Nat → List (Nat × Nat)
  | stop, l =>
    if l.length ≤ stop then [(l.length, bufWeight c l)]
    else match l with
      | [] => [(0, 0)]
      | e :: rest => (rest.length + 1, bufWeight c (e :: rest)) :: bufSuffixStates c stop rest
termination_by _ l => l.length

/-- (count, bytes) after removing any subset of `r` from a cache holding (n, w): the removals of a
cascade happen one entry at a time in an order the specification does not fix -/
def bufSubsetStates (c : BufCfg) (n w : Nat) : List Nat → List (Nat × Nat)
  | [] => [(n, w)]
  | e :: rest =>
    let l := bufSubsetStates c n w rest
    (l ++ l.map fun (p : Nat × Nat) => (p.1 - 1, p.2 - c.size e)).eraseDups

def fmtTotal (p : Nat × Nat) : String := s!"{p.1},{p.2}"

/-- Ops may carry stamps (non-strict judging of concurrent `Total`): `push e <ret>`, `clear <ret>`,
`total <inv> <observed>`. `trail` = the fine-grained cache states (single-entry adds / removals)
the last mutating operation went through, `trailRet` = its return stamp: a `total` invoked before
that operation returned may have observed any of them. -/
def bufMod (c : BufCfg) : Mod BufSt where
  key st := toString st.conn ++ "/" ++ toString st.inc ++ s!"/{st.trailRet}/" ++ toString st.trail
  apply st ws :=
    let push (e ret : Nat) : BufSt × String :=
      if st.inc.contains e || st.conn.contains e then (st, "0")
      else if (c.parents e).all st.conn.contains then
        let st' := bufClosure c (st.inc.length + 1) { st with conn := insertSorted e st.conn }
        let removed := st.inc.filter fun x => !st'.inc.contains x
        ({ st' with trailRet := ret, trail := bufSubsetStates c st.inc.length (bufWeight c st.inc) removed }, "1")
      else
        let added := st.inc ++ [e]
        let inc' := bufSpill c c.limNum c.limSize added
        ({ st with inc := inc', trailRet := ret,
                   trail := (st.inc.length, bufWeight c st.inc) :: bufSuffixStates c inc'.length added }, "0")
    let clear (ret : Nat) : BufSt × String :=
      ({ st with inc := [], trailRet := ret, trail := bufSuffixStates c 0 st.inc }, "-")
    let cur := fmtTotal (st.inc.length, bufWeight c st.inc)
    match ws with
    | ["push", e] => push (nat! e) 0
    | ["push", e, ret] => push (nat! e) (nat! ret)
    | ["clear"] => clear 0
    | ["clear", ret] => clear (nat! ret)
    | ["isbuf", e] => (st, b2s (st.inc.contains (nat! e)))
    | ["total"] => (st, cur)
    | ["total", inv, obs] =>
      if obs == cur then (st, obs)
      else if nat! inv < st.trailRet && st.trail.any (fun p => fmtTotal p == obs) then (st, obs)
      else (st, cur)
    | _ => (st, "bad-op")

/-! ## the stream -/

structure St where
  comp : String := ""
  params : List String := []
  evs : List (Nat × Nat × List Nat) := []
  /-- (thread label, op words), newest first -/
  ops : List (String × List String) := []

def parseEntry (s : String) : Option (String × Nat × Nat × Nat × String) :=
  match s.splitOn ":" with
  | lbl :: inv :: ret :: r :: rest =>
    match lbl.splitOn "." with
    | [t, i] => some (t, nat! i, nat! inv, nat! ret, ":".intercalate (r :: rest))
    | _ => none
  | _ => none

/-- the history grouped by thread (program order), or what is wrong with it -/
def threadsOf (ops : List (String × List String)) (entries : List (String × Nat × Nat × Nat × String)) :
    Except String (List (String × List Rec)) := do
  if entries.length != ops.length then throw s!"history has {entries.length} entries for {ops.length} ops"
  let labels := ops.foldl (fun acc o => if acc.contains o.1 then acc else acc ++ [o.1]) ([] : List String)
  labels.mapM fun t => do
    let mine := (ops.filter (·.1 == t)).map (·.2)
    let recs ← (List.range mine.length).mapM fun i =>
      match entries.find? (fun e => e.1 == t && e.2.1 == i) with
      | some e =>
        if e.2.2.1 < e.2.2.2.1 then pure { op := mine.getD i [], inv := e.2.2.1, ret := e.2.2.2.1, res := e.2.2.2.2 : Rec }
        else throw s!"bad stamps for {t}.{i}"
      | none => throw s!"no entry for {t}.{i}"
    pure (t, recs)

def param (ps : List String) (key : String) (d : Nat) : Nat := ((kv ps key).map nat!).getD d

def project (ts : List (String × List Rec)) (f : Rec → Option Rec) : List (List Rec) :=
  ts.map fun t => t.2.filterMap f

def judge (st : St) (entries : List (String × Nat × Nat × Nat × String)) : String :=
  match threadsOf st.ops.reverse entries with
  | .error e => s!"FAIL malformed-history {e}"
  | .ok ts =>
    let all := ts.map (·.2)
    let n := (all.map List.length).sum
    let verdict (obj : String) (ok : Bool) : Option String :=
      if ok then none else some s!"FAIL not-linearizable comp={st.comp} obj={obj} ops={n}"
    let r : Option String :=
      match st.comp with
      | "flushable" => verdict "store" (linearizable flushMod { under := [] } all)
      | "wlru" => verdict "cache" (linearizable wlruMod (Model.Wlru.new (param st.params "mw" 10) (param st.params "ms" 4)) all)
      | "sem" => verdict "semaphore"
          (linearizable semMod (Model.Semaphore.Metric.zero, ⟨param st.params "num" 5, param st.params "size" 100⟩) all)
      | "pool" =>
        let store (s : String) : List (List Rec) := project ts fun r =>
          match r.op with
          | [o, s', k] => if s' == s && (o == "get" || o == "has" || o == "del" || o == "under") then some { r with op := [o, k] } else none
          | ["put", s', k, v] => if s' == s then some { r with op := ["put", k, v] } else none
          | ["flush", _] => some { r with op := ["flush"] }
          | _ => none
        let pool : List (List Rec) := project ts fun r =>
          match r.op with
          | "open" :: _ => some r
          | "names" :: _ => some r
          | "flush" :: _ => some r
          | "psize" :: _ => some r
          | "stat" :: _ => some { r with res := "*" }
          | _ => none
        (verdict "pool" (linearizable poolMod () pool)).orElse fun _ =>
        (verdict "store-a" (linearizable flushMod { under := [] } (store "a"))).orElse fun _ =>
        verdict "store-b" (linearizable flushMod { under := [] } (store "b"))
      | "buf" =>
        let strict := param st.params "strict" 0 == 1
        let cfg : BufCfg := { evs := st.evs, limNum := param st.params "num" 3, limSize := param st.params "size" 1000 }
        -- IsBuffered / Total do not take buf.mu: they can see the cache between the single-entry steps of a
        -- PushEvent / Clear (known finding under strict=1). Non-strict: a concurrent `total` must equal the
        -- (count, bytes) of SOME fine-grained cache state between its invoke and return (a mixed pair is
        -- rejected); a concurrent `isbuf` is not judged. pre / post ops are always judged exactly.
        let relaxed := ts.map fun t =>
          if strict || t.1 == "p" || t.1 == "f" then t.2
          else t.2.map fun r =>
            match r.op with
            | ["isbuf", _] => { r with res := "*" }
            | ["total"] => { r with op := ["total", toString r.inv, r.res] }
            | ["push", e] => { r with op := ["push", e, toString r.ret] }
            | ["clear"] => { r with op := ["clear", toString r.ret] }
            | _ => r
        verdict "buffer" (linearizable (bufMod cfg) {} relaxed)
      | c => some s!"FAIL unknown-component {c}"
    r.getD "ok"

def step (st : St) (ws : List String) : St × String :=
  match ws with
  | "init" :: comp :: ps => ({ comp := comp, params := ps }, "ok")
  | "ev" :: id :: rest =>
    let size := ((kv rest "s").map nat!).getD 10
    let ps := ((kv rest "p").map fun s => (splitList s).map nat!).getD []
    ({ st with evs := st.evs ++ [(nat! id, size, ps)] }, "ok")
  | "pre" :: op => ({ st with ops := ("p", op) :: st.ops }, "ok")
  | "post" :: op => ({ st with ops := ("f", op) :: st.ops }, "ok")
  | "t" :: t :: "y" :: op => ({ st with ops := (t, op) :: st.ops }, "ok")
  | "t" :: t :: op => ({ st with ops := (t, op) :: st.ops }, "ok")
  | "run" :: _ => (st, "ok")
  | [">", "ok"] => (st, "ok")
  | [">", "q"] => (st, "ok")
  | [">", "h", "timeout"] => (st, "FAIL timeout: an operation never returned (deadlock or endless loop)")
  | [">", "h", "skipped-after-timeout"] => (st, "ok")
  | ">" :: "h" :: entries =>
    match entries.mapM parseEntry with
    | some es => ({ st with ops := [] }, judge st es)
    | none => (st, s!"FAIL malformed-history {" ".intercalate (entries.take 3)}")
  | ">" :: rest => (st, s!"FAIL unexpected-output {" ".intercalate (rest.take 6)}")
  | _ => (st, "bad-op")

def stream : StreamDef := { σ := St, init := {}, step := step }

end Drv.Conc
