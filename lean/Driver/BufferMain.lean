import Driver.Common
import Driver.Buffer
/-! Driver of the `buffer` family: streams `buf` (C14) and `proc` (C15). -/

def main (args : List String) : IO UInt32 :=
  Drv.mainWith [
    ("buf", Drv.Buf.stream),
    ("proc", Drv.Proc.stream)
  ] args
