import Driver.Common
import LachesisVerif.Spec.Lachesis
open Drv

namespace Drv.Cons
open Spec.Lachesis

structure St where
  genesis : List (Nat × Nat) := []
  seals : Seals := []
  events : List (Nat × Ev) := []
  insts : List (Nat × Inst) := []

def parsePairs (ws : List String) : List (Nat × Nat) :=
  ws.filterMap (fun p => match p.splitOn ":" with
    | [i, w] => some (nat! i, nat! w)
    | _ => none)

def getInst (st : St) (k : Nat) : Inst := (st.insts.lookup k).getD {}
def setInst (st : St) (k : Nat) (i : Inst) : St :=
  { st with insts := (k, i) :: st.insts.filter (fun x => x.1 != k) }

def stateStr (i : Inst) : String := s!"E={i.epoch} LDF={i.ldf}"

def fmtBlock (b : Inst.Block) : String :=
  let sl := if b.sealed then ":seal" else ""
  s!"{b.epoch}.{b.frame}:a={b.atropos}:ch=[{joinNat b.cheaters ","}]:ev=[{joinNat b.events ","}]:n={b.events.length}{sl}"

def fmtBlocks (bs : List Inst.Block) : String :=
  if bs.isEmpty then "-" else " ".intercalate (bs.map fmtBlock)

def mkEv (n epoch : Nat) (ws : List String) (frame : Nat) : Ev :=
  { n := n, epoch := epoch, creator := nat! ((kv ws "c").getD "0"), seq := nat! ((kv ws "s").getD "0"),
    lamport := nat! ((kv ws "l").getD "0"), frame := frame,
    parents := (splitList ((kv ws "p").getD "-")).map nat! }

def insertSortedStr (x : String) : List String → List String
  | [] => [x]
  | y :: ys => if x ≤ y then x :: y :: ys else y :: insertSortedStr x ys

def sortStr (l : List String) : List String := l.foldr insertSortedStr []

/-- is event `n` an accepted event of the instance's current epoch? -/
def posIn (i : Inst) (n : Nat) : Option Nat := i.posOf n

def needsInst (op : String) : Bool :=
  ["restart", "reset", "build", "process", "fc", "hb", "roots", "state"].contains op

def knownParents (st : St) (e : Ev) : Bool := e.parents.all (fun p => (st.events.lookup p).isSome)

def step (st : St) (ws : List String) : St × String :=
  if needsInst (ws.headD "") && (match ws with | _ :: k :: _ => (st.insts.lookup (nat! k)).isNone | _ => true) then (st, "noinst") else
  if ws.headD "" == "inst" && st.genesis.isEmpty then (st, "novals") else
  match ws with
  | "vals" :: ps => ({ st with genesis := parsePairs ps }, "ok")
  | "seal" :: e :: f :: ps => ({ st with seals := ((nat! e, nat! f), parsePairs ps) :: st.seals }, "ok")
  | ["inst", k, _] =>
    let i := Inst.fresh 1 st.genesis
    (setInst st (nat! k) i, stateStr i)
  | ["restart", k] => (st, stateStr (getInst st (nat! k)) ++ " -")
  | "reset" :: k :: e :: ps =>
    let i := Inst.fresh (nat! e) (parsePairs ps)
    (setInst st (nat! k) i, stateStr i)
  | "ev" :: n :: rest =>
    let e := mkEv (nat! n) (nat! ((kv rest "e").getD "0")) rest (nat! ((kv rest "f").getD "0"))
    if !knownParents st e then (st, "err unknown-parent") else
    ({ st with events := (e.n, e) :: st.events }, "ok")
  | "build" :: k :: n :: rest =>
    let i := getInst st (nat! k)
    let e := mkEv (nat! n) i.epoch rest 0
    if !knownParents st e then (st, "err unknown-parent") else
    match build i e with
    | none => (st, "err noparent")
    | some f =>
      let st' := if (kv rest "keep") == some "0" then st else { st with events := (e.n, { e with frame := f }) :: st.events }
      (st', s!"frame={f}")
  | ["process", k, n] =>
    let i := getInst st (nat! k)
    match st.events.lookup (nat! n) with
    | none => (st, "unknown-event")
    | some e =>
      let (i', r) := process st.seals i e
      match r with
      | .skip => (st, "skip " ++ stateStr i)
      | .noParent => (st, "err noparent " ++ stateStr i)
      | .wrongFrame => (st, "err wrongframe " ++ stateStr i)
      | .ok bs => (setInst st (nat! k) i', s!"ok {stateStr i'} {fmtBlocks bs}")
  | ["fc", k, a, b] =>
    let i := getInst st (nat! k)
    match posIn i (nat! a), posIn i (nat! b) with
    | some pa, some pb => (st, b2s (i.fcSpec pa pb))
    | _, _ => (st, "na")
  | ["hb", k, a] =>
    let i := getInst st (nat! k)
    match posIn i (nat! a) with
    | some pa =>
      (st, ",".intercalate ((List.range i.nv).map (fun v => match i.hbSpec pa v with | none => "F" | some q => toString q)))
    | none => (st, "na")
  | ["roots", k, f] =>
    let i := getInst st (nat! k)
    let l := (i.rootsAt (nat! f)).map (fun r => s!"{(i.ev r).creator}:{(i.ev r).n}")
    (st, if l.isEmpty then "-" else " ".intercalate (sortStr l))
  | ["state", k] =>
    let i := getInst st (nat! k)
    (st, s!"{stateStr i} vals={",".intercalate (i.vals.map (fun p => s!"{p.1}:{p.2}"))}")
  | _ => (st, "bad-op")

def stream : StreamDef := { σ := St, init := {}, step := step }
end Drv.Cons
