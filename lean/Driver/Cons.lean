import Driver.Common
import LachesisVerif.Spec.Lachesis
import LachesisVerif.Model.Orderer
import LachesisVerif.Model.Vec
import LachesisVerif.Model.RootsStore
open Drv

namespace Drv.Cons
open Spec.Lachesis

structure St where
  genesis : List (Nat × Nat) := []
  seals : Seals := []
  events : List (Nat × Ev) := []
  insts : List (Nat × Inst) := []
  omodels : List (Nat × Model.Orderer.OState) := []   -- implementation-level model, run in lock-step
  vmodels : List (Nat × Model.Vec.VState) := []       -- implementation-level vector index, in lock-step
  rmodels : List (Nat × Model.RootsStore.RStore) := [] -- roots table + cache model (C33), in lock-step
  allBlocks : List (Nat × List Inst.Block) := []       -- every block an instance emitted so far
  noApply : List (Nat × Nat) := []                      -- instance ↦ m: no ApplyEvent for frames divisible by m

def parsePairs (ws : List String) : List (Nat × Nat) :=
  ws.filterMap (fun p => match p.splitOn ":" with
    | [i, w] => some (nat! i, nat! w)
    | _ => none)

def getInst (st : St) (k : Nat) : Inst := (st.insts.lookup k).getD {}
def setInst (st : St) (k : Nat) (i : Inst) : St :=
  { st with insts := (k, i) :: st.insts.filter (fun x => x.1 != k) }

def mkVals (pairs : List (Nat × Nat)) : Model.Pos.Vals :=
  (Model.Pos.build (pairs.foldl (fun b p => Model.Pos.set b p.1 p.2) [])).getD ⟨[], 0⟩

def getO (st : St) (k : Nat) : Model.Orderer.OState :=
  (st.omodels.lookup k).getD (Model.Orderer.initial 1 (mkVals st.genesis))
def setO (st : St) (k : Nat) (o : Model.Orderer.OState) : St :=
  { st with omodels := (k, o) :: st.omodels.filter (fun x => x.1 != k) }

/-- the oracles of the Orderer model: forkless cause from the graph `g`, id byte order, seals -/
def envOf (st : St) (g : Inst) : Model.Orderer.Env :=
  { observe := fun a b => match g.posOf a, g.posOf b with
      | some pa, some pb => g.fcSpec pa pb
      | _, _ => false,
    idKey := fun n => (match st.events.lookup n with | some e => e.lamport | none => 0) * 18446744073709551616 + n,
    sealAt := fun e f => (st.seals.lookup (e, f)).map mkVals }

/-- eviction policy used when running the roots-store model: keep only the newest cache entry -/
def evictAllButNewest : Model.RootsStore.Evict := fun c => c.take 1

def getR (st : St) (k : Nat) : Model.RootsStore.RStore := (st.rmodels.lookup k).getD {}
def setR (st : St) (k : Nat) (r : Model.RootsStore.RStore) : St :=
  { st with rmodels := (k, r) :: st.rmodels.filter (fun x => x.1 != k) }

def getV (st : St) (k : Nat) : Model.Vec.VState :=
  (st.vmodels.lookup k).getD (Model.Vec.VState.init (mkVals st.genesis).len)
def setV (st : St) (k : Nat) (v : Model.Vec.VState) : St :=
  { st with vmodels := (k, v) :: st.vmodels.filter (fun x => x.1 != k) }

/-- the event as the vector index sees it: creator index and parent positions in graph `g` -/
def vecEvent (g : Inst) (e : Ev) : Model.Vec.Event :=
  { creator := (g.idxOf e.creator).getD 0, seq := e.seq, parents := e.parents.filterMap g.posOf }

def sameDecisions (bs : List Inst.Block) (ds : List Model.Orderer.Decided) : Bool :=
  bs.map (fun b => (b.epoch, b.frame, b.atropos, b.sealed)) == ds.map (fun d => (d.epoch, d.frame, d.atropos, d.sealed))

def stateStr (i : Inst) : String := s!"E={i.epoch} LDF={i.ldf}"

/-- `m > 0`: the application passed no ApplyEvent callback for blocks whose frame is a multiple of `m` -/
def fmtBlock (m : Nat) (b : Inst.Block) : String :=
  let sl := if b.sealed then ":seal" else ""
  let evs := if m > 0 && b.frame % m == 0 then "skip" else s!"[{joinNat b.events ","}]:n={b.events.length}"
  s!"{b.epoch}.{b.frame}:a={b.atropos}:ch=[{joinNat b.cheaters ","}]:ev={evs}{sl}"

def fmtBlocks (m : Nat) (bs : List Inst.Block) : String :=
  if bs.isEmpty then "-" else " ".intercalate (bs.map (fmtBlock m))

def mkEv (n epoch : Nat) (ws : List String) (frame : Nat) : Ev :=
  { n := n, epoch := epoch, creator := nat! ((kv ws "c").getD "0"), seq := nat! ((kv ws "s").getD "0"),
    lamport := nat! ((kv ws "l").getD "0"), frame := frame,
    parents := (splitList ((kv ws "p").getD "-")).map nat! }

def insertSortedStr (x : String) : List String → List String
  | [] => [x]
  | y :: ys => if x ≤ y then x :: y :: ys else y :: insertSortedStr x ys

def sortStr (l : List String) : List String := l.foldr insertSortedStr []

/-- is event `n` an accepted event of the instance's current epoch? -/
def posIn (i : Inst) (n : Nat) : Option Nat := i.posOf n

def needsInst (op : String) : Bool :=
  ["restart", "reset", "build", "rebuild", "process", "fc", "hb", "roots", "state", "allblocks", "noapply"].contains op

def knownParents (st : St) (e : Ev) : Bool := e.parents.all (fun p => (st.events.lookup p).isSome)

def step (st : St) (ws : List String) : St × String :=
  if needsInst (ws.headD "") && (match ws with | _ :: k :: _ => (st.insts.lookup (nat! k)).isNone | _ => true) then (st, "noinst") else
  if ws.headD "" == "inst" && st.genesis.isEmpty then (st, "novals") else
  match ws with
  | "vals" :: ps =>
    -- pos.ValidatorsBuilder.Build panics when the total weight exceeds 2^31-1
    if (Model.Pos.build ((parsePairs ps).foldl (fun b p => Model.Pos.set b p.1 p.2) [])).isNone then
      ({ st with genesis := [] }, "panic validators weight overflow")
    else ({ st with genesis := parsePairs ps }, "ok")
  | "seal" :: e :: f :: ps =>
    -- the application builds the next epoch's set with pos.ValidatorsBuilder: Build panics above 2^31-1
    if (Model.Pos.build ((parsePairs ps).foldl (fun b p => Model.Pos.set b p.1 p.2) [])).isNone then
      (st, "panic validators weight overflow")
    else ({ st with seals := ((nat! e, nat! f), parsePairs ps) :: st.seals }, "ok")
  | ["inst", k, _] =>
    let i := Inst.fresh 1 st.genesis
    (setV (setO (setInst st (nat! k) i) (nat! k) (Model.Orderer.initial 1 (mkVals st.genesis))) (nat! k)
       (Model.Vec.VState.init i.nv), stateStr i)
  | ["restart", k] | ["restart", k, _] =>
    let i := getInst st (nat! k)
    let o := getO st (nat! k)
    match Model.Orderer.bootstrap (envOf st i) o with
    | .ok (o', [], false) =>
      let note := if o'.ldf == i.ldf && o'.epoch == i.epoch then "" else " MODEL-DIFFERS-FROM-REFERENCE"
      (setO st (nat! k) o', stateStr i ++ " -" ++ note)
    | .ok (_, ds, _) => (st, stateStr i ++ s!" - MODEL-DECIDES-ON-RESTART({ds.length})")
    | .error x => (st, stateStr i ++ " - MODEL-ERROR " ++ x.name)
  | "reset" :: k :: e :: ps =>
    let i := Inst.fresh (nat! e) (parsePairs ps)
    (setR (setV (setO (setInst st (nat! k) i) (nat! k) (Model.Orderer.initial (nat! e) (mkVals (parsePairs ps)))) (nat! k)
       (Model.Vec.VState.init i.nv)) (nat! k) {}, stateStr i)
  | "ev" :: n :: rest =>
    let e := mkEv (nat! n) (nat! ((kv rest "e").getD "0")) rest (nat! ((kv rest "f").getD "0"))
    if !knownParents st e then (st, "err unknown-parent") else
    ({ st with events := (e.n, e) :: st.events }, "ok")
  | "rebuild" :: k :: n :: rest =>
    let i := getInst st (nat! k)
    let e := mkEv (nat! n) i.epoch rest 0
    if !knownParents st e then (st, "err unknown-parent") else
    match build i e with
    | none => (st, "err noparent")
    | some f => (st, s!"frame={f}")
  | "build" :: k :: n :: rest =>
    let i := getInst st (nat! k)
    let e := mkEv (nat! n) i.epoch rest 0
    if !knownParents st e then (st, "err unknown-parent") else
    match build i e with
    | none => (st, "err noparent")
    | some f =>
      let mf := match i.insert e with
        | some g => Model.Orderer.build (envOf st g) (getO st (nat! k)) e.n (g.selfParentFrame e)
        | none => 0
      if mf != f then (st, s!"frame={f} MODEL-DIFFERS-FROM-REFERENCE({mf})") else
      let st' := if (kv rest "keep") == some "0" then st else { st with events := (e.n, { e with frame := f }) :: st.events }
      (st', s!"frame={f}")
  | ["process", k, n] =>
    let i := getInst st (nat! k)
    match st.events.lookup (nat! n) with
    | none => (st, "unknown-event")
    | some e =>
      let (i', r) := process st.seals i e
      -- the implementation-level model on the same op
      let o := getO st (nat! k)
      let (o', mr) := match i.insert e with
        | some g => Model.Orderer.process (envOf st g) o e.n e.creator (g.selfParentFrame e) e.frame
        | none => (o, .wrongFrame)
      match r with
      | .skip => (st, "skip " ++ stateStr i)
      | .noParent => (st, "err noparent " ++ stateStr i)
      | .wrongFrame =>
        let note := match mr with | .wrongFrame => "" | _ => " MODEL-DIFFERS-FROM-REFERENCE"
        (st, "err wrongframe " ++ stateStr i ++ note)
      | .ok bs =>
        let note := match mr with
          | .ok ds => if sameDecisions bs ds && o'.ldf == i'.ldf && o'.epoch == i'.epoch then "" else " MODEL-DIFFERS-FROM-REFERENCE"
          | .wrongFrame => " MODEL-REJECTS"
          | .failed x => " MODEL-ERROR " ++ x.name
        -- vector index model: add the event, or start afresh when the epoch was sealed
        -- (the function-valued model is only run on small DAGs: its look-ups are chains of closures)
        let v0 := getV st (nat! k)
        let v' := if i'.epoch != i.epoch then Model.Vec.VState.init i'.nv
                  else if v0.size == i.size && i.size < 400 then v0.add (vecEvent i e) else v0
        -- roots store model: register the event for its root frames, or start a new epoch
        let r' := if i'.epoch != i.epoch then Model.RootsStore.newEpoch (getR st (nat! k))
                  else match i.insert e with
                    | some g => (Model.Election.rootFrames (g.selfParentFrame e) e.frame).foldl
                        (fun r f => Model.RootsStore.addRoot evictAllButNewest r ⟨e.n, f, e.creator⟩) (getR st (nat! k))
                    | none => getR st (nat! k)
        let st1 := setR (setV (setO (setInst st (nat! k) i') (nat! k) o') (nat! k) v') (nat! k) r'
        let prevB := (st.allBlocks.lookup (nat! k)).getD []
        ({ st1 with allBlocks := (nat! k, prevB ++ bs) :: st.allBlocks.filter (fun x => x.1 != nat! k) },
         s!"ok {stateStr i'} {fmtBlocks ((st.noApply.lookup (nat! k)).getD 0) bs}{note}")
  | ["fc", k, a, b] =>
    let i := getInst st (nat! k)
    match posIn i (nat! a), posIn i (nat! b) with
    | some pa, some pb =>
      let v := getV st (nat! k)
      let same := v.size != i.size || v.fc i.weightIdx i.quorum pa pb == i.fcSpec pa pb
      (st, b2s (i.fcSpec pa pb) ++ (if same then "" else " VECTOR-MODEL-DIFFERS"))
    | _, _ => (st, "na")
  | ["hb", k, a] =>
    let i := getInst st (nat! k)
    match posIn i (nat! a) with
    | some pa =>
      let v := getV st (nat! k)
      let same := v.size != i.size || (List.range i.nv).all (fun c => v.merged pa c == i.hbSpec pa c)
      (st, ",".intercalate ((List.range i.nv).map (fun v => match i.hbSpec pa v with | none => "F" | some q => toString q))
           ++ (if same then "" else " VECTOR-MODEL-DIFFERS"))
    | none => (st, "na")
  | ["roots", k, f] =>
    let i := getInst st (nat! k)
    let l := (i.rootsAt (nat! f)).map (fun r => s!"{(i.ev r).creator}:{(i.ev r).n}")
    let (r', rr) := Model.RootsStore.getFrameRoots evictAllButNewest (getR st (nat! k)) (nat! f)
    let ml := rr.map (fun x => s!"{x.validator}:{x.id}")
    let note := if sortStr ml == sortStr l then "" else " ROOTS-MODEL-DIFFERS"
    (setR st (nat! k) r', (if l.isEmpty then "-" else " ".intercalate (sortStr l)) ++ note)
  | ["noapply", k, m] => ({ st with noApply := (nat! k, nat! m) :: st.noApply.filter (fun x => x.1 != nat! k) }, "ok")
  | ["allblocks", k] =>
    let bs := (st.allBlocks.lookup (nat! k)).getD []
    (st, if bs.isEmpty then "-" else
      " ".intercalate (bs.map (fun b => s!"{b.epoch}.{b.frame}:a={b.atropos}:ch=[{joinNat b.cheaters ","}]")))
  | ["state", k] =>
    let i := getInst st (nat! k)
    (st, s!"{stateStr i} vals={",".intercalate (i.vals.map (fun p => s!"{p.1}:{p.2}"))}")
  | _ => (st, "bad-op")

def stream : StreamDef := { σ := St, init := {}, step := step }
end Drv.Cons

namespace Drv.Vec
open Spec.Lachesis Drv.Cons

structure St where
  vals : List (Nat × Nat) := []
  events : List (Nat × Ev) := []
  insts : List (Nat × Inst) := []
  vmodels : List (Nat × Model.Vec.VState) := []

def step (st : St) (ws : List String) : St × String :=
  match ws with
  | "vals" :: ps => ({ st with vals := parsePairs ps }, "ok")
  | ["idx", k, _] =>
    if st.vals.isEmpty then (st, "novals") else
    let i := Inst.fresh 1 st.vals
    ({ st with insts := (nat! k, i) :: st.insts.filter (fun x => x.1 != nat! k),
               vmodels := (nat! k, Model.Vec.VState.init i.nv) :: st.vmodels.filter (fun x => x.1 != nat! k) }, "ok")
  | "ev" :: n :: rest =>
    let e := mkEv (nat! n) 1 rest 0
    if !e.parents.all (fun p => (st.events.lookup p).isSome) then (st, "err unknown-parent") else
    ({ st with events := (e.n, e) :: st.events }, "ok")
  | op :: k :: rest =>
    match st.insts.lookup (nat! k) with
    | none => (st, "noinst")
    | some i =>
      let v := (st.vmodels.lookup (nat! k)).getD (Model.Vec.VState.init i.nv)
      match op, rest with
      | "revals", ps =>
        let i' := Inst.fresh 1 (parsePairs ps)
        ({ st with insts := (nat! k, i') :: st.insts.filter (fun x => x.1 != nat! k),
                   vmodels := (nat! k, Model.Vec.VState.init i'.nv) :: st.vmodels.filter (fun x => x.1 != nat! k) }, "ok")
      | "add", [n] =>
        match st.events.lookup (nat! n) with
        | none => (st, "unknown-event")
        | some e =>
          if (i.posOf e.n).isSome then (st, "dup") else
          match i.insert e with
          | none => (st, "err noparent")
          | some i' =>
            let v' := v.add (vecEvent i e)
            ({ st with insts := (nat! k, i') :: st.insts.filter (fun x => x.1 != nat! k),
                       vmodels := (nat! k, v') :: st.vmodels.filter (fun x => x.1 != nat! k) }, "ok")
      | "fc", [a, b] =>
        match i.posOf (nat! a), i.posOf (nat! b) with
        | some pa, some pb =>
          let same := v.fc i.weightIdx i.quorum pa pb == i.fcSpec pa pb
          (st, b2s (i.fcSpec pa pb) ++ (if same then "" else " VECTOR-MODEL-DIFFERS"))
        | _, _ => (st, "na")
      | "hb", [a] =>
        match i.posOf (nat! a) with
        | some pa =>
          let same := (List.range i.nv).all (fun c => v.merged pa c == i.hbSpec pa c)
          (st, ",".intercalate ((List.range i.nv).map (fun c => match i.hbSpec pa c with | none => "F" | some q => toString q))
               ++ (if same then "" else " VECTOR-MODEL-DIFFERS"))
        | none => (st, "na")
      | _, _ => (st, "bad-op")
  | _ => (st, "bad-op")

def stream : StreamDef := { σ := St, init := {}, step := step }
end Drv.Vec
