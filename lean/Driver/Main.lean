import Driver.Common
import Driver.Arith
import Driver.Check

def streamTable : List (String × Drv.StreamDef) := [
  ("quorum", Drv.Quorum.stream),
  ("enc", Drv.Enc.stream),
  ("evcheck", Drv.EvCheck.stream),
  ("dsign", Drv.Dsign.stream),
  ("piecefunc", Drv.Piecefunc.stream)
]

def main (args : List String) : IO UInt32 := do
  match args with
  | [name] =>
    match streamTable.lookup name with
    | some sd => Drv.runStream sd; return 0
    | none => IO.eprintln s!"unknown stream {name}"; return 2
  | _ => IO.eprintln "usage: lvdriver <stream> < ops"; return 2
