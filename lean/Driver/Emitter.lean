import Driver.Common
import LachesisVerif.Model.Ancestor
import LachesisVerif.Model.Pos
open Drv

/-! Driver of the `emitter` family: streams `parents` (C19, judge) and `qindex` (C20, diff). -/

namespace Drv.Parents
open Model.Ancestor

def natList (s : String) : List Nat := (splitList s).map (fun x => nat! x)

def arg (ws : List String) (k : String) : String := (kv ws k).getD "-"

def parseCall (s : String) : Call :=
  match s.splitOn "@" with
  | [seen, i] => { seen := if seen == "-" then [] else (seen.splitOn ".").map (fun x => nat! x), best := nat! i }
  | _ => { seen := [], best := 0 }

def metricOf (table : List (Nat × Nat)) (id : Nat) : Nat := (table.lookup id).getD 0

/-- what a deterministic strategy of the harness must have returned on the options it saw -/
def expectedBest (table : List (Nat × Nat)) (st : String) (seen : List Nat) : Option Nat :=
  if st == "first" then some 0
  else if st == "last" then some (seen.length - 1)
  else if st == "metric" then some (metricChoose (seen.map (metricOf table)))
  else if st.startsWith "fix:" then some (nat! (st.drop 4).toString % seen.length)
  else none

def judge (op : List String) (impl : List String) : String :=
  match impl with
  | "panic" :: _ => "FAIL the real code panicked"
  | _ =>
    let ex := natList (arg op "ex")
    let opts := natList (arg op "opts")
    let sts := splitList (arg op "st")
    let table := (splitList (arg op "m")).map (fun p =>
      match p.splitOn ":" with
      | [i, v] => (nat! i, nat! v)
      | _ => (0, 0))
    let res := natList (arg impl "res")
    let logged := (let c := arg impl "calls"; if c == "-" then [] else (c.splitOn ";").map parseCall)
    let n := sts.length
    if logged.length > n then "FAIL more strategy calls than strategies" else
    let calls := logged ++ List.replicate (n - logged.length) { seen := [], best := 0 }
    let (parents, used) := chooseTrace ex opts calls
    if used != logged.length then s!"FAIL {logged.length} strategy calls made, the loop condition prescribes {used}" else
    if !callsOk n 0 calls (optionSet ex opts) then "FAIL a strategy was offered something else than the remaining options, or answered out of range" else
    let badIdx := (sts.zip logged).any (fun (st, c) =>
      match expectedBest table st c.seen with
      | some b => b != c.best
      | none => false)
    if badIdx then "FAIL a strategy returned another index than its definition prescribes" else
    if parents != res then s!"FAIL result differs from the model: {joinNat parents ","}" else "ok"

def step (st : Option (List String)) (ws : List String) : Option (List String) × String :=
  match ws with
  | "choose" :: _ => (some ws, "ok")
  | ">" :: impl =>
    match st with
    | some op => (none, judge op impl)
    | none => (none, "FAIL output without operation")
  | _ => (none, "bad-op")

def stream : StreamDef := { σ := Option (List String), init := none, step := step }
end Drv.Parents

namespace Drv.Qindex
open Model.Ancestor

structure Ev where
  creator : Nat
  hb : List Seq

structure St where
  vals : Option Model.Pos.Vals := none
  qi : Option QI := none
  diff : Nat → Nat → Nat → Nat → Nat := fun _ _ _ _ => 0
  events : List (Nat × Ev) := []

def u32 : Nat := 4294967296
def u64 : Nat := 18446744073709551616

def capFn (diff weight : Nat) : Nat := if diff > 2 then (2 * weight) % u32 else diff * weight % u64

/-- the harness's diff-metric functions (uint32 event numbers, uint64 metric) -/
def diffFn (name : String) (weights : Nat → Nat) : Nat → Nat → Nat → Nat → Nat :=
  if name == "cap" then fun median current update v =>
    if update ≤ median || update ≤ current then 0
    else if median < current then (capFn (update - median) (weights v) + u64 - capFn (current - median) (weights v)) % u64
    else capFn (update - median) (weights v)
  else if name == "sub" then fun median _ update _ => (update + u32 - median) % u32
  else if name == "mix" then fun median current update v => (median * 1000003 + current * 10007 + update * 101 + v) % u64
  else fun median _ update _ => (u64 - 1 + 2 * u64 * u32 - update - median * 4294967296) % u64

def parseSeq (s : String) : Seq :=
  if s.startsWith "f" then { seq := nat! (s.drop 1).toString, fork := true } else { seq := nat! s, fork := false }

def hbFn (l : List Seq) : Nat → Seq := fun i => l.getD i {}

def fmtRow (n : Nat) (f : Nat → Nat) : String :=
  if n == 0 then "-" else joinNat ((List.range n).map f) ","

def sorter := sortDesc

def panicMsg : String := "panic invalid median"

def step (st : St) (ws : List String) : St × String :=
  match ws with
  | "vals" :: d :: ps =>
    let b := ps.foldl (fun (b : Model.Pos.Pairs) p =>
      match p.splitOn ":" with
      | [i, w] => Model.Pos.set b (nat! i) (nat! w)
      | _ => b) []
    match Model.Pos.build b with
    | none => ({}, "panic validators weight overflow")
    | some v =>
      let weights := fun i => v.weightByIdx i
      ({ vals := some v, qi := some (newQI v.len weights v.quorum),
         diff := diffFn ((d.drop 5).toString) weights, events := [] },
       s!"n={v.len} q={v.quorum}")
  | _ =>
    match st.vals, st.qi with
    | some v, some q =>
      match ws with
      | ["ev", id, c, hb] =>
        let id := nat! id
        if (st.events.lookup id).isSome then (st, "dup") else
        let e : Ev := { creator := nat! (c.drop 2).toString, hb := (splitList (hb.drop 3).toString).map parseSeq }
        ({ st with events := (id, e) :: st.events }, "ok")
      | ["process", id, self] =>
        match st.events.lookup (nat! id) with
        | none => (st, "noevent")
        | some e =>
          let q' := processEvent q (hbFn e.hb) (v.idxOf e.creator) (self == "self=1")
          let rows := if q'.n == 0 then "-" else ";".intercalate ((List.range q'.n).map (fun r => fmtRow q'.n (q'.matrix r)))
          ({ st with qi := some q' }, s!"m={rows} self={fmtRow q'.n q'.selfSeqs}")
      | ["medians"] =>
        match getMedians sorter q with
        | none => (st, panicMsg)
        | some (q', ms) => ({ st with qi := some q' }, if ms.isEmpty then "-" else joinNat ms ",")
      | ["metric", id] =>
        match st.events.lookup (nat! id) with
        | none => (st, "noevent")
        | some e =>
          match getMetric sorter st.diff q (hbFn e.hb) with
          | none => (st, panicMsg)
          | some (q', m) => ({ st with qi := some q' }, toString m)
      | ["qchoose", ids] =>
        let evs := (splitList ids).map (fun s => st.events.lookup (nat! s))
        if evs.isEmpty || evs.any (·.isNone) then (st, "noevent") else
        let hbs := evs.filterMap (fun e => e.map (fun e => hbFn e.hb))
        match qchoose sorter st.diff q hbs with
        | none => (st, panicMsg)
        | some (q', i) => ({ st with qi := some q' }, toString i)
      | _ => (st, "bad-op")
    | _, _ => (st, "novals")

def stream : StreamDef := { σ := St, init := {}, step := step }
end Drv.Qindex
