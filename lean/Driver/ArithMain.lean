import Driver.Common
import Driver.Arith
import Driver.Check

def main (args : List String) : IO UInt32 :=
  Drv.mainWith [
    ("quorum", Drv.Quorum.stream),
    ("enc", Drv.Enc.stream),
    ("piecefunc", Drv.Piecefunc.stream),
    ("evcheck", Drv.EvCheck.stream),
    ("dsign", Drv.Dsign.stream)
  ] args
