import Driver.Common
import LachesisVerif.Model.PosCanon
open Drv

/-! Driver of the `pos` family: stream `canon` (C12). -/
namespace Drv.Canon
open Model.Pos Model.PosCanon

structure St where
  last : List Nat := []

def dash (l : List String) : String := if l.isEmpty then "-" else ",".intercalate l

def showVals (v : Vals) : St × String :=
  let enc := encodeVals v
  ({ last := enc },
   s!"ids={dash ((ids v).map toString)} w={dash ((weights v).map toString)} " ++
   s!"idx={dash ((idxs v).map (fun p => s!"{p.1}:{p.2}"))} total={v.total} rlp={hexOf enc}")

def parsePair (s : String) : Nat × Nat :=
  match s.splitOn ":" with
  | [i, w] => (nat! i % 4294967296, nat! w % 4294967296)
  | _ => (0, 0)

def parseBig (s : String) : Nat × Option Nat :=
  match s.splitOn ":" with
  | [i, w] => (nat! i % 4294967296, if w == "nil" then none else some (nat! w))
  | _ => (0, none)

def overflowMsg : String := "panic validators weight overflow"

def decodeStep (st : St) (bs : List Nat) : St × String :=
  match decodeVals bs with
  | .err => (st, "err")
  | .overflow => (st, overflowMsg)
  | .ok v => showVals v

def setAt (l : List Nat) (i x : Nat) : List Nat := l.set i x

def step (st : St) (ws : List String) : St × String :=
  match ws with
  | "build" :: ps =>
    match build (applySets (ps.map parsePair)) with
    | none => (st, overflowMsg)
    | some v => showVals v
  | "buildraw" :: ps | "array" :: ps =>
    -- a map filled directly / ArrayToValidators: only the non-zero final pairs count (zero = absent)
    match build (applySets (ps.map parsePair)) with
    | none => (st, overflowMsg)
    | some v => showVals v
  | "big" :: ps =>
    match bigBuild (applyBigSets (ps.map parseBig)) with
    | none => (st, overflowMsg)
    | some v => showVals v
  | ["decode", "last"] => decodeStep st st.last
  | ["decode", "set", p, b] =>
    if st.last.isEmpty then (st, "nolast") else decodeStep st (st.last.set (nat! p % st.last.length) (nat! b % 256))
  | ["decode", "trunc", n] =>
    if st.last.isEmpty then (st, "nolast") else decodeStep st (st.last.take (nat! n % st.last.length))
  | ["decode", "append", h] => decodeStep st (st.last ++ unhex h)
  | ["decode", "raw", h] => decodeStep st (unhex h)
  | _ => (st, "bad-op")

def stream : StreamDef := { σ := St, init := {}, step := step }
end Drv.Canon
