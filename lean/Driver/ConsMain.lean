import Driver.Common
/-! Driver of the `cons` family (stub: no stream yet). -/

def main (args : List String) : IO UInt32 :=
  Drv.mainWith [] args
