import Driver.Common
import Driver.Cons

def main (args : List String) : IO UInt32 :=
  Drv.mainWith [
    ("cons", Drv.Cons.stream),
    ("vec", Drv.Vec.stream)
  ] args
