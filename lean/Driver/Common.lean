/-! Line-protocol plumbing shared by all driver streams (core Lean only). -/

namespace Drv

/-- A correspondence stream on the model side: per-case state and a step function answering
    every op line with exactly one output line. -/
structure StreamDef where
  σ : Type
  init : σ
  step : σ → List String → σ × String

def words (line : String) : List String :=
  (line.splitOn " ").filter (fun s => !s.isEmpty)

def nat! (s : String) : Nat := s.toNat?.getD 0

def int! (s : String) : Int := s.toInt?.getD 0

def hexDigit (n : Nat) : Char :=
  if n < 10 then Char.ofNat (48 + n) else Char.ofNat (87 + n)

/-- bytes (each < 256) to lower-case hex; the empty string is "-" -/
def hexOf (b : List Nat) : String :=
  if b.isEmpty then "-" else
  String.ofList (b.flatMap (fun x => [hexDigit (x / 16 % 16), hexDigit (x % 16)]))

def hexVal (c : Char) : Nat :=
  if '0' ≤ c ∧ c ≤ '9' then c.toNat - 48
  else if 'a' ≤ c ∧ c ≤ 'f' then c.toNat - 87
  else if 'A' ≤ c ∧ c ≤ 'F' then c.toNat - 55 else 0

def unhexAux : List Char → List Nat
  | a :: b :: rest => (hexVal a * 16 + hexVal b) :: unhexAux rest
  | _ => []

def unhex (s : String) : List Nat := if s == "-" then [] else unhexAux s.toList

def b2s (b : Bool) : String := if b then "1" else "0"

def joinNat (l : List Nat) (sep : String) : String := sep.intercalate (l.map toString)

def splitList (s : String) : List String :=
  if s == "-" || s == "" then [] else s.splitOn ","

/-- "k=v" → v for the first word starting with "k=" -/
def kv (ws : List String) (key : String) : Option String :=
  (ws.find? (fun w => w.startsWith (key ++ "="))).map (fun w => (w.drop (key.length + 1)).toString)

partial def loop (sd : StreamDef) (h : IO.FS.Stream) (out : IO.FS.Stream) (st : sd.σ) : IO Unit := do
  let line ← h.getLine
  if line.isEmpty then return ()
  let line := (line.dropEndWhile (fun c => c == '\n' || c == '\r')).toString
  if line.startsWith "#" then
    out.putStrLn line
    loop sd h out sd.init
  else
    let (st', o) := sd.step st (words line)
    out.putStrLn o
    loop sd h out st'

def runStream (sd : StreamDef) : IO Unit := do
  let stdin ← IO.getStdin
  let stdout ← IO.getStdout
  loop sd stdin stdout sd.init
  stdout.flush

end Drv

/-- entry point shared by the family drivers: `lvdriver-<family> <stream> < ops` -/
def Drv.mainWith (table : List (String × Drv.StreamDef)) (args : List String) : IO UInt32 := do
  match args with
  | [name] =>
    match table.lookup name with
    | some sd => Drv.runStream sd; return 0
    | none => IO.eprintln s!"unknown stream {name}"; return 2
  | _ => IO.eprintln "usage: lvdriver-<family> <stream> < ops"; return 2
