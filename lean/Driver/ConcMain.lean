import Driver.Common
import Driver.Conc
/-! Driver of the `conc` family (C28): stream `conc` = linearizability judge. -/

def main (args : List String) : IO UInt32 :=
  Drv.mainWith [("conc", Drv.Conc.stream)] args
