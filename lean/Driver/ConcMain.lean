import Driver.Common
/-! Driver of the `conc` family (stub: no stream yet). -/

def main (args : List String) : IO UInt32 :=
  Drv.mainWith [] args
