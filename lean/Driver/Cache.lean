import Driver.Common
import LachesisVerif.Model.Wlru
import LachesisVerif.Model.Semaphore
import LachesisVerif.Model.CachedProducer
/-! Driver streams of the `cache` family: `wlru` (C29), `sem` and `semtimed` (C30), `cprod` (C27). -/
open Drv

namespace Drv.Wlru
open Model.Wlru

def fmtCb (l : List Entry) : String :=
  if l.isEmpty then "-" else ",".intercalate (l.map (fun e => s!"{e.key}:{e.val}"))

def fmtVals (l : List Nat) : String := if l.isEmpty then "-" else joinNat l ","

def fmt (o : Out) : String := s!"ok={b2s o.ok} v={fmtVals o.vals} cb={fmtCb o.cb}"

def insertKey (k : Nat) : List Nat → List Nat
  | [] => [k]
  | x :: xs => if k ≤ x then k :: x :: xs else x :: insertKey k xs

def parseOp (c : Cache) (ws : List String) : Option Op :=
  match ws with
  | ["add", k, v, w] => some (.add (nat! k) (nat! v) (nat! w))
  | ["get", k] => some (.get (nat! k))
  | ["peek", k] => some (.peek (nat! k))
  | ["contains", k] => some (.contains (nat! k))
  | ["coa", k, v, w] => some (.containsOrAdd (nat! k) (nat! v) (nat! w))
  | ["poa", k, v, w] => some (.peekOrAdd (nat! k) (nat! v) (nat! w))
  | ["remove", k] => some (.remove (nat! k))
  | ["rmoldest"] => some .removeOldest
  | ["oldest"] => some .getOldest
  | ["keys"] => some .keys
  | ["len"] => some .len
  | ["total"] => some .total
  | ["resize", mw, ms] => some (.resize (nat! mw) (nat! ms))
  -- the harness reports the Purge callbacks sorted by key: the oracle order is "ascending keys"
  | ["purge"] => some (.purge ((keys c).foldr insertKey []))
  | _ => none

def step (st : Option Cache) (ws : List String) : Option Cache × String :=
  match ws with
  | ["new", _, mw, ms] => (some (new (nat! mw) (nat! ms)), "ok")
  | _ =>
    match st with
    | none => (st, "nocache")
    | some c =>
      match parseOp c ws with
      | none => (st, "bad-op")
      | some op => let r := Model.Wlru.step c op; (some r.1, fmt r.2)

def stream : StreamDef := { σ := Option Cache, init := none, step := step }
end Drv.Wlru

namespace Drv.Sem
open Model.Semaphore

def fmtM (m : Metric) : String := s!"{m.num}:{m.size}"

def fmtEv : Ev → String
  | .ret _ r => s!"r={b2s r}"
  | .warn h m => s!"warn={fmtM h}/{fmtM m}"

def fmtEvs (l : List Ev) : String := if l.isEmpty then "-" else " ".intercalate (l.map fmtEv)

/-- Stream `sem`: single-threaded call sequences. `acq n s t`: Acquire with a timeout of t ms and
nobody else around = acquire, then the clock runs to the deadline. -/
def step (st : Option State) (ws : List String) : Option State × String :=
  match ws with
  | ["new", n, s] => (some (new ⟨nat! n, nat! s⟩), "ok")
  | _ =>
    match st with
    | none => (st, "nosem")
    | some st =>
      let fin := fun (r : State × List Ev) => (some r.1, s!"{fmtEvs r.2} held={fmtM r.1.held}")
      match ws with
      | ["try", n, s] => fin (tryAcq st 0 ⟨nat! n, nat! s⟩)
      | ["acq", n, s, t] =>
        let a := acquire st 0 ⟨nat! n, nat! s⟩ (nat! t)
        let b := tick a.1 (nat! t)
        fin (b.1, a.2 ++ b.2)
      | ["rel", n, s] => fin (release st ⟨nat! n, nat! s⟩ [])
      | ["term"] => fin (terminate st)
      | ["proc"] => fin (st, [])
      | _ => (some st, "bad-op")

def stream : StreamDef := { σ := Option State, init := none, step := step }
end Drv.Sem

namespace Drv.SemTimed
open Model.Semaphore Drv.Sem

/-- judge state: the model, the timeout (ms) of every request, the events the model expects for
the pending op, and whether the rest of the case is skipped (`noisy`) -/
structure J where
  st : Option State := none
  timeouts : List (Nat × Nat) := []
  pendingOp : List String := []
  skip : Bool := false

/-- "id:res[:elapsed]" items -/
def parseRets (s : String) : List (Nat × Bool × Nat) :=
  (splitList s).map (fun it =>
    match it.splitOn ":" with
    | [i, r] => (nat! i, r == "1", 0)
    | [i, r, e] => (nat! i, r == "1", nat! e)
    | _ => (0, false, 0))

def sortPairs (l : List (Nat × Bool)) : List (Nat × Bool) :=
  l.foldr (fun x acc =>
    let rec ins : List (Nat × Bool) → List (Nat × Bool)
      | [] => [x]
      | y :: ys => if x.1 ≤ y.1 then x :: y :: ys else y :: ins ys
    ins acc) []

def retsOf (evs : List Ev) : List (Nat × Bool) :=
  evs.filterMap (fun e => match e with | .ret i r => some (i, r) | _ => none)

def warned (evs : List Ev) : Bool := evs.any (fun e => match e with | .warn _ _ => true | _ => false)

def fmtPairs (l : List (Nat × Bool)) : String :=
  if l.isEmpty then "-" else ",".intercalate (l.map (fun p => s!"{p.1}:{b2s p.2}"))

/-- compare the returns the model prescribes with the observed ones (as sets), the held amount, and
the elapsed time of every `false` return that the model places at a deadline:
timeout ≤ elapsed ≤ 2·timeout + 200 ms -/
def judge (j : J) (exp : State × List Ev) (obs : List String) (timed : Bool) : J × String :=
  let rets := parseRets ((kv obs "ret").getD "-")
  let want := sortPairs (retsOf exp.2)
  let got := sortPairs (rets.map (fun r => (r.1, r.2.1)))
  let j' := { j with st := some exp.1, pendingOp := [] }
  if (kv obs "hung").getD "-" != "-" then (j', s!"FAIL request(s) {(kv obs "hung").getD "-"} still blocked past 2*timeout+200ms")
  else if want != got then (j', s!"FAIL returns: model {fmtPairs want} implementation {fmtPairs got}")
  else if (kv obs "held").getD "" != fmtM exp.1.held then (j', s!"FAIL held: model {fmtM exp.1.held} implementation {(kv obs "held").getD ""}")
  else if (kv obs "warn").getD "0" != b2s (warned exp.2) then (j', s!"FAIL warning callback: model {b2s (warned exp.2)}")
  else if timed then
    match rets.find? (fun r =>
      let t := (j.timeouts.lookup r.1).getD 0
      r.2.2 < t || r.2.2 > 2 * t + 200) with
    | some r => (j', s!"FAIL request {r.1} returned after {r.2.2} ms, timeout {(j.timeouts.lookup r.1).getD 0} ms")
    | none => (j', "ok")
  else (j', "ok")

/-- the order in which the implementation was seen to wake its waiters: the ids as reported -/
def obsOrder (obs : List String) : List Nat := (parseRets ((kv obs "ret").getD "-")).map (·.1)

def step (j : J) (ws : List String) : J × String :=
  match ws with
  | ["new", n, s] => ({ st := some (new ⟨nat! n, nat! s⟩) }, "ok")
  | ">" :: obs =>
    if j.skip then (j, "ok")
    else if obs.contains "noisy" then ({ j with skip := true }, "ok")
    else
      match j.st, j.pendingOp with
      | some st, ["acquire", id, n, s, t] =>
        let r := acquire st (nat! id) ⟨nat! n, nat! s⟩ (nat! t)
        let j := { j with timeouts := (nat! id, nat! t) :: j.timeouts }
        judge j r obs false
      | some st, ["try", id, n, s] => judge j (tryAcq st (nat! id) ⟨nat! n, nat! s⟩) obs false
      | some st, ["release", n, s] => judge j (release st ⟨nat! n, nat! s⟩ (obsOrder obs)) obs false
      | some st, ["terminate"] => judge j (terminate st) obs false
      | some st, ["tick", t] => judge j (tick st (nat! t)) obs true
      -- end of scenario: the harness lets every remaining waiter run into its deadline
      | some st, ["end"] => judge j (tick st 1000000) obs true
      | some _, [] => (j, "ok")
      | _, _ => (j, "FAIL bad-op")
  | op => ({ j with pendingOp := op }, "ok")

def stream : StreamDef := { σ := J, init := {}, step := step }
end Drv.SemTimed

namespace Drv.CProd
open Model.CachedProducer

structure St where
  st : Option State := none
  /-- handle index → (name, generation) -/
  handles : List (Nat × Nat) := []

def fmtEv : Ev → String
  | .realOpen n g => s!"open:{n}:{g}"
  | .realOpenFail n => s!"openfail:{n}"
  | .realClose n g => s!"close:{n}:{g}"
  | .realDrop n g => s!"drop:{n}:{g}"

def fmtEvs (l : List Ev) : String := if l.isEmpty then "-" else ",".intercalate (l.map fmtEv)

def step (s : St) (ws : List String) : St × String :=
  match ws with
  | ["new", k] => ({ st := some (new (if k == "wrap" then .wrap else .wrapAll)) }, "ok")
  | _ =>
    match s.st with
    | none => (s, "noproducer")
    | some st =>
      match ws with
      | "open" :: n :: rest =>
        let r := openDB st (nat! n) (rest == ["fail"])
        match r.2.gen with
        | some g =>
          let hs := s.handles ++ [(nat! n, g)]
          -- identity of the returned wrapper = first handle of the same (name, generation)
          let same := (hs.findIdx? (fun p => p == (nat! n, g))).getD 0
          ({ st := some r.1, handles := hs }, s!"h={hs.length - 1} same={same} gen={g} ev={fmtEvs r.2.evs}")
        | none => ({ s with st := some r.1 }, s!"err ev={fmtEvs r.2.evs}")
      | ["close", h] =>
        match s.handles[nat! h]? with
        | some (n, g) => let r := close st n g; ({ s with st := some r.1 }, s!"err={b2s r.2.err} ev={fmtEvs r.2.evs}")
        | none => (s, "bad-handle")
      | ["drop", h] =>
        match s.handles[nat! h]? with
        | some (n, g) => let r := drop st n g; ({ s with st := some r.1 }, s!"ev={fmtEvs r.2.evs}")
        | none => (s, "bad-handle")
      | _ => (s, "bad-op")

def stream : StreamDef := { σ := St, init := {}, step := step }
end Drv.CProd
