import Driver.Common
import Driver.Kv
/-! Driver of the `kv` family: streams kv (C23), kvflush (C22), kvtable (C24) share one protocol. -/

def main (args : List String) : IO UInt32 :=
  Drv.mainWith [
    ("kv", Drv.Kv.stream),
    ("kvflush", Drv.Kv.stream),
    ("kvtable", Drv.Kv.stream)
  ] args
