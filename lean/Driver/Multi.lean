import Driver.Common
import LachesisVerif.Model.Multidb
import LachesisVerif.Model.SyncedPool
open Drv

/-! Drivers of the `multi` family: stream `route` (C26, diff mode), stream `crash` (C25, judge mode). -/

namespace Drv.Route
open Model.Multidb

def toStr (s : Str) : String := String.ofList (s.map Char.ofNat)

def fmtRoute (r : Route) : String :=
  s!"{toStr r.type}|{toStr r.name}|{toStr r.table}|{b2s r.noDrop}"

def parseEntry (w : String) : Option Entry :=
  match w.splitOn "|" with
  | [req, typ, name, table, nd] => some ⟨ofAscii req, ⟨ofAscii typ, ofAscii name, ofAscii table, nd == "1"⟩⟩
  | _ => none

abbrev KV := List (Str × Str)

def kvPut (m : KV) (k v : Str) : KV :=
  match m with
  | [] => [(k, v)]
  | (k', v') :: rest =>
    if k = k' then (k, v) :: rest
    else if k < k' then (k, v) :: (k', v') :: rest
    else (k', v') :: kvPut rest k v

structure St where
  tables : List (String × List Entry) := []
  prods : List (String × Router) := []
  dbs : DBs := []
  kv : List (Loc × KV) := []

def types : List Str := [ofAscii "A", ofAscii "B"]

def fmtRecs (rs : List Rec) : String :=
  ",".intercalate (rs.map (fun r => toStr r.req ++ ":" ++ toStr r.table))

def getKV (kv : List (Loc × KV)) (l : Loc) : KV := (kv.lookup l).getD []

def setKV (kv : List (Loc × KV)) (l : Loc) (m : KV) : List (Loc × KV) :=
  (l, m) :: kv.filter (fun p => p.1 != l)

def fmtKV (m : KV) : String :=
  if m.isEmpty then "-" else ",".intercalate (m.map (fun p => hexOf p.1 ++ "=" ++ hexOf p.2))

def step (st : St) (ws : List String) : St × String :=
  match ws with
  | "table" :: id :: es =>
    let t := es.filterMap parseEntry
    ({ st with tables := (id, t) :: st.tables.filter (fun p => p.1 != id) }, s!"ok {t.length}")
  | ["new", p, t] =>
    let prods := st.prods.filter (fun q => q.1 != p)
    match newProducer ((st.tables.lookup t).getD []) with
    | some r => ({ st with prods := (p, r) :: prods }, "ok")
    | none => ({ st with prods := prods }, "err")
  | ["restart"] => ({ st with prods := [] }, "ok")
  | op :: p :: args =>
    match st.prods.lookup p with
    | none => (st, "noprod")
    | some r =>
      let req := ofAscii ((kv args "r").getD "")
      match op with
      | "route" =>
        (st, match routeOf r req with | some rt => fmtRoute rt | none => "loop")
      | "open" | "put" =>
        let (dbs, res) := openDB types r st.dbs req
        let st := { st with dbs := dbs }
        match res with
        | .ok loc table nd =>
          let st := if op == "put" then
              let k := unhex ((kv args "k").getD "-")
              let v := unhex ((kv args "v").getD "-")
              { st with kv := setKV st.kv loc (kvPut (getKV st.kv loc) (physKey table k) v) }
            else st
          (st, s!"ok {toStr loc.type}|{toStr loc.name}|{toStr table}|{b2s nd} recs={fmtRecs (getRecs st.dbs loc)}")
        | .noRoute => (st, "loop")
        | .missingProducer => (st, "err missing")
        | .reassign => (st, "err reassign")
        | .conflict => (st, "err conflict")
      | "read" =>
        -- OpenDB (with its record keeping), then everything the opened store sees: the keys of its table, prefix stripped
        let (dbs, res) := openDB types r st.dbs req
        let st := { st with dbs := dbs }
        match res with
        | .ok loc table _ =>
          let vis : KV := (getKV st.kv loc).filterMap (fun p =>
            if table.isPrefixOf p.1 then some (p.1.drop table.length, p.2) else none)
          (st, fmtKV vis)
        | .noRoute => (st, "loop")
        | .missingProducer => (st, "err missing")
        | .reassign => (st, "err reassign")
        | .conflict => (st, "err conflict")
      | "dump" =>
        match routeOf r req with
        | none => (st, "loop")
        | some rt =>
          let loc : Loc := ⟨rt.type, rt.name⟩
          if st.dbs.any (fun p => p.1 = loc) then (st, fmtKV (getKV st.kv loc)) else (st, "nodb")
      | "verify" => (st, if verify r st.dbs then "ok" else "err")
      | _ => (st, "bad-op")
  | _ => (st, "bad-op")

def stream : StreamDef := { σ := St, init := {}, step := step }
end Drv.Route

namespace Drv.Crash
open Model.SyncedPool

def parseItem (it : String) : Option (Bytes × Option Bytes) :=
  if it.startsWith "-" then some (unhex (it.drop 1).toString, none)
  else if it.startsWith "+" then
    match ((it.drop 1).toString).splitOn "=" with
    | [k, v] => some (unhex k, some (unhex v))
    | _ => none
  else none

def parseDOp (w : String) : Option DOp :=
  match w.splitOn ":" with
  | ["create", n] => some (.create n)
  | ["drop", n] => some (.drop n)
  | ["mark", n, m] => some (.putMark n (unhex m))
  | ["put", n, k, v] => some (.write n [(unhex k, some (unhex v))])
  | ["del", n, k] => some (.write n [(unhex k, none)])
  | ["batch", n, items] =>
    some (.write n ((items.splitOn ";").filterMap (fun it => if it.isEmpty then none else parseItem it)))
  | _ => none

def fmtDOp : DOp → String
  | .create n => s!"create:{n}"
  | .drop n => s!"drop:{n}"
  | .putMark n m => s!"mark:{n}:{hexOf m}"
  | .write n b => s!"write:{n}:" ++ ";".intercalate (b.map (fun p =>
      match p.2 with | some v => s!"+{hexOf p.1}={hexOf v}" | none => s!"-{hexOf p.1}"))

def fmtOps (l : List DOp) : String := if l.isEmpty then "-" else " ".intercalate (l.map fmtDOp)

structure St where
  mode : String := ""
  pool : Pool := Pool.init
  flg : Flagged := Flagged.init
  names : List Name := []
  keys : List Bytes := []
  j : List DOp := []
  flushEnds : List (Nat × Bytes) := []
  pending : List String := []
  /-- explicit batch objects: id ↦ (DB, operations so far) -/
  batches : List (String × Name × Batch) := []
  /-- first divergence between the model's and the implementation's durable ops (reported at `crashes`) -/
  mismatch : Option String := none

def addNew {α} [BEq α] (l : List α) (x : α) : List α := if l.contains x then l else l ++ [x]

/-- oracle completed with the names the implementation did not visit (so that the model visits them
    and the journals differ if it should have) -/
def complete (o names : List Name) : List Name := o ++ names.filter (fun n => !o.contains n)

def nodup (l : List Name) : Bool :=
  match l with
  | [] => true
  | x :: xs => !xs.contains x && nodup xs

def opName : DOp → Name
  | .create n | .drop n | .putMark n _ | .write n _ => n

/-- model step for the pending op line, oracles taken from the implementation's durable ops -/
def modelStep (st : St) (ws : List String) (impl : List DOp) : Option (St × List DOp) :=
  let batchOf : List String → Option Batch := fun ws =>
    match ws with
    | "put" :: _ :: args => some [(unhex ((kv args "k").getD "-"), some (unhex ((kv args "v").getD "-")))]
    | "del" :: _ :: args => some [(unhex ((kv args "k").getD "-"), none)]
    | ["batch", _, items] => some ((items.splitOn ";").filterMap parseItem)
    | _ => none
  let marksDirty := impl.filterMap (fun o => match o with | .putMark n m => if isDirty m then some n else none | _ => none)
  let marksClean := impl.filterMap (fun o => match o with | .putMark n m => if isDirty m then none else some n | _ => none)
  let drops := impl.filterMap (fun o => match o with | .drop n => some n | _ => none)
  let writes := impl.filterMap (fun o => match o with | .write n _ => some n | _ => none)
  let kOf := fun (args : List String) => unhex ((kv args "k").getD "-")
  let setBatch := fun (b : String) (x : Name × Batch) => { st with batches := (b, x) :: st.batches.filter (fun p => p.1 != b) }
  match ws with
  | ["bnew", n, b] =>
    -- the handle is obtained with `OpenDB(n)`; the batch itself is volatile
    if st.mode == "pool" then
      some ({ setBatch b (n, []) with pool := (st.pool.step (.open n)).1 }, [])
    else
      let (f', ops) := st.flg.step (.open n)
      some ({ setBatch b (n, []) with flg := f' }, ops)
  | "bput" :: b :: args =>
    (st.batches.lookup b).map (fun x => (setBatch b (x.1, x.2 ++ [(kOf args, some (unhex ((kv args "v").getD "-")))]), []))
  | "bdel" :: b :: args =>
    (st.batches.lookup b).map (fun x => (setBatch b (x.1, x.2 ++ [(kOf args, none)]), []))
  | ["bwrite", b] =>
    (st.batches.lookup b).map (fun x =>
      if st.mode == "pool" then
        -- `cacheBatch.Write`: the operations go into the flushable's cache one by one
        ({ st with pool := x.2.foldl (fun p kv => (p.step (.put x.1 kv.1 kv.2)).1) st.pool }, [])
      else
        let (f', ops) := st.flg.step (.write x.1 x.2)
        ({ st with flg := f' }, ops))
  | _ =>
  if st.mode == "pool" then
    let op : Option PoolOp := match ws with
      | ["open", n] => some (.open n)
      | "put" :: n :: args => some (.put n (unhex ((kv args "k").getD "-")) (some (unhex ((kv args "v").getD "-"))))
      | "del" :: n :: args => some (.put n (unhex ((kv args "k").getD "-")) none)
      | ["drop", n] => some (.dropQ n)
      | ["flush", id] =>
        if nodup marksDirty && nodup marksClean && nodup drops && nodup writes then
          some (.flush (unhex id) (complete drops st.names) (complete marksDirty st.names)
            (complete writes st.names) (complete marksClean st.names))
        else none
      | _ => none
    -- the harness obtains the handle with `OpenDB(name)` before every operation
    let pool0 := match ws with
      | ["drop", n] => (st.pool.step (.open n)).1
      | _ => st.pool
    op.map (fun op => let (p', ops) := pool0.step op; ({ st with pool := p' }, ops))
  else
    let op : Option FlagOp := match ws with
      | ["open", n] => some (.open n)
      | ["drop", n] => if nodup marksDirty then some (.drop n (complete marksDirty st.names)) else none
      | ["flush", id] => if nodup marksClean then some (.flush (unhex id) (complete marksClean st.names)) else none
      | n :: _ => (batchOf ws).map (fun b => .write ((ws.getD 1 n)) b)
      | _ => none
    let (flg0, pre) := match ws with
      | ["flush", _] => (st.flg, [])
      | _ :: n :: _ => st.flg.step (.open n)
      | _ => (st.flg, [])
    op.map (fun op => let (f', ops) := flg0.step op; ({ st with flg := f' }, pre ++ ops))

def fmtRes : Option (Option Bytes) → String
  | none => "err"
  | some none => "ok:nil"
  | some (some m) => "ok:" ++ hexOf m

def dataEq (names : List Name) (keys : List Bytes) (D D' : DState) : Bool :=
  names.all (fun n => keys.all (fun k => dataOf D n k == dataOf D' n k))

/-- executable `P_C25` on the finite universe of names and keys of the case, with the extra demand
    that the completion point is the end of a `Flush(fid)` call that returned -/
def checkP (st : St) (k : Nat) (res : String) : Bool :=
  let D := replay (st.j.take k)
  if res == "err" then true
  else if res == "ok:nil" then st.names.all (fun n => st.keys.all (fun key => dataOf D n key == none))
  else
    let m := unhex (res.drop 3).toString
    match m with
    | [] => false
    | p :: fid =>
      p == Gen.SyncedPool.cleanPrefix && m == cleanMark fid &&
      st.flushEnds.any (fun e =>
        e.2 == fid && e.1 ≤ k && e.1 > 0 &&
        (match st.j[e.1 - 1]? with
          | some (.putMark _ m') => m' == m
          | _ => false) &&
        (let D0 := replay (st.j.take e.1)
         st.names.all (fun n => match D0.get n with | some db => db.mark == some m | none => true) &&
         dataEq st.names st.keys D D0))

def judgeCrashes (st : St) (results : List String) : String :=
  let n := st.j.length
  if results.length != n + 1 then s!"FAIL expected {n + 1} restart results, got {results.length}" else
  let ks := List.range (n + 1)
  -- the property predicate on the implementation's own answers comes first
  let badP := ks.filterMap (fun k =>
    let impl := results.getD k "?"
    if !checkP st k impl then some s!"P_C25 violated after {k} durable ops: restart answered {impl}" else none)
  let badM := ks.filterMap (fun k =>
    let D := replay (st.j.take k)
    let existing := st.names.filter (fun nm => (D.get nm).isSome)
    let model := fmtRes (restart D existing)
    let impl := results.getD k "?"
    if model != impl then some s!"restart after {k} durable ops: model={model} impl={impl}" else none)
  let also := match st.mismatch with | some m => " [" ++ m ++ "]" | none => ""
  match badP, st.mismatch, badM with
  | b :: _, _, _ => "FAIL " ++ b ++ also
  | [], some m, _ => "FAIL " ++ m
  | [], none, b :: _ => "FAIL " ++ b
  | [], none, [] => "ok"

def step (st : St) (ws : List String) : St × String :=
  match ws with
  | ">" :: out =>
    let st' := { st with pending := [] }
    match st.pending, out with
    | ["mode", m], _ => ({ st' with mode := m }, "ok")
    | _, ["nomode"] => (st', "ok")
    | _, ["nobatch"] => (st', "ok")
    | ["crashes"], "r" :: results => (st', judgeCrashes st results)
    | op, "j" :: items =>
      let implOps := if items == ["-"] then some [] else
        items.foldr (fun w acc => match acc, parseDOp w with
          | some l, some o => some (o :: l)
          | _, _ => none) (some [])
      match implOps with
      | none => (st', "FAIL unparsable journal")
      | some impl =>
        let st1 := { st' with names := (impl.map opName ++ (if (op.headD "").startsWith "b" && op.headD "" != "batch" then (if op.headD "" == "bnew" then (op.drop 1).take 1 else []) else (op.drop 1).take 1)).foldl addNew st'.names,
                              keys := impl.foldl (fun ks o => match o with
                                | .write _ b => b.foldl (fun ks p => addNew ks p.1) ks
                                | _ => ks) st'.keys }
        match modelStep st1 op impl with
        | none => (st1, "FAIL op or oracle not accepted: " ++ " ".intercalate op)
        | some (st2, ops) =>
          -- a divergence is remembered and reported at `crashes`, after the property predicate has
          -- been evaluated on the implementation's own journal and answers
          let st2 := if ops != impl && st2.mismatch.isNone then
              { st2 with mismatch := some ("durable ops differ at '" ++ " ".intercalate op ++
                  s!"': model={fmtOps ops} impl={fmtOps impl}") }
            else st2
          let j' := st2.j ++ impl
          let ends := match op with
            | ["flush", id] => st2.flushEnds ++ [(j'.length, unhex id)]
            | _ => st2.flushEnds
          ({ st2 with j := j', flushEnds := ends }, "ok")
    | _, _ => (st', "FAIL unexpected implementation output: " ++ " ".intercalate out)
  | _ => ({ st with pending := ws }, "ok")

def stream : StreamDef := { σ := St, init := {}, step := step }
end Drv.Crash
