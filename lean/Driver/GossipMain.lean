import Driver.Common
import Driver.Gossip
/-! Driver of the `gossip` family. -/

def main (args : List String) : IO UInt32 :=
  Drv.mainWith [
    ("seed", Drv.Seed.stream),
    ("leech", Drv.Leech.stream),
    ("peerleech", Drv.PeerLeech.stream),
    ("fetch", Drv.Fetch.stream)
  ] args
