import Driver.Common
import Driver.Pos
/-! Driver of the `pos` family. -/

def main (args : List String) : IO UInt32 :=
  Drv.mainWith [
    ("canon", Drv.Canon.stream)
  ] args
