import Driver.Common
import LachesisVerif.Model.Seeder
import LachesisVerif.Model.Leecher
import LachesisVerif.Model.Fetcher
open Drv

/-! Streams of the `gossip` family. -/

namespace Drv.Seed
open Model.Seeder

structure S where
  cfg : Cfg := { maxNum := 0, maxSize := 0, maxChunks := 0, maxPending := 1 }
  db : List Item := []
  st : St := {}
  gate : Bool := false        -- true = senders blocked
  pending : Nat := 0
  stalled : Bool := false
  held : List ((Nat × Nat) × List Resp) := []
  queued : List Req := []
  nGated : Nat := 0
  inited : Bool := false

def fmtResp (r : Resp) : String :=
  s!"{b2s r.done}:" ++ (if r.payload.isEmpty then "-" else joinNat (r.payload.map (·.key)) ",")

def insertGroup (g : (Nat × Nat) × List Resp) : List ((Nat × Nat) × List Resp) → List ((Nat × Nat) × List Resp)
  | [] => [g]
  | h :: t =>
    if h.1 = g.1 then (h.1, h.2 ++ g.2) :: t
    else if g.1.1 < h.1.1 || (g.1.1 == h.1.1 && g.1.2 < h.1.2) then g :: h :: t
    else h :: insertGroup g t

/-- groups keyed by (peer, sid), sorted, each with its responses in order -/
def fmtGroups (gs : List ((Nat × Nat) × List Resp)) : String :=
  let sorted := gs.foldl (fun acc g => if g.2.isEmpty then acc else insertGroup g acc) []
  if sorted.isEmpty then "resp -"
  else "resp " ++ " ".intercalate (sorted.map (fun g => s!"{g.1.1}/{g.1.2}=" ++ ";".intercalate (g.2.map fmtResp)))

def parseItem (s : String) : Item :=
  match s.splitOn ":" with
  | [k, z] => ⟨nat! k, nat! z⟩
  | _ => ⟨0, 0⟩

def parseReq : List String → Option Req
  | [p, sid, a, b, n, z, c] => some ⟨nat! p, nat! sid, nat! a, nat! b, nat! n, nat! z, nat! c⟩
  | [p, sid, a, b, n, z, c, _] => some ⟨nat! p, nat! sid, nat! a, nat! b, nat! n, nat! z, nat! c⟩
  | _ => none

def step (s : S) (ws : List String) : S × String :=
  if !s.inited && ws.head? != some "cfg" then (s, "nocfg") else
  match ws with
  | "cfg" :: rest =>
    let g := fun k => nat! ((kv rest k).getD "0")
    if g "threads" = 0 || g "chunks" = 0 || g "pend" = 0 then ({}, "bad-cfg") else
    ({ inited := true, cfg := { maxNum := g "num", maxSize := g "size", maxChunks := g "chunks", maxPending := g "pend" } }, "ok")
  | ["db", l] =>
    let db := (splitList l).map parseItem
    ({ s with db := db }, s!"ok n={db.length}")
  | "req" :: args =>
    match parseReq args with
    | none => (s, "bad-op")
    | some r =>
      if !s.gate then
        match Model.Seeder.step s.cfg s.db s.st (.request r) with
        | (_, .tooManyChunks) => (s, "toomany")
        | (st', .mismatch) => ({ s with st := st' }, "mismatch")
        | (st', .responses rs) => ({ s with st := st' }, fmtGroups [((r.peer, r.sid), rs)])
        | (st', .none) => ({ s with st := st' }, "resp -")
      else if s.nGated ≥ 8 then (s, "gatelimit")
      else
        let s := { s with nGated := s.nGated + 1 }
        match sanitize s.cfg r with
        | none => (s, "toomany")
        | some r' =>
          if s.stalled || Gen.Seeder.pendingFull s.pending s.cfg.maxPending then
            ({ s with stalled := true, queued := s.queued ++ [r'] }, "produced=0")
          else
            match stepRequest s.db s.st r' with
            | (st', .responses rs) =>
              let g := gatedFrom s.cfg.maxPending s.pending rs
              ({ s with st := st', pending := g.2.1, stalled := g.2.2, held := s.held ++ [((r.peer, r.sid), rs)] },
               s!"produced={g.1}")
            | (st', _) => ({ s with st := st' }, "mismatch")
  | ["unreg", p] =>
    if s.gate then (s, "gated")
    else ({ s with st := (Model.Seeder.step s.cfg s.db s.st (.unregister (nat! p))).1 }, "ok")
  | ["gate", "close"] =>
    if s.gate then (s, "bad-gate") else ({ s with gate := true, pending := 0, stalled := false, nGated := 0 }, "ok")
  | ["gate", "open"] =>
    if !s.gate then (s, "bad-gate")
    else
      let (st', held, mism) := s.queued.foldl (fun (acc : St × List ((Nat × Nat) × List Resp) × Nat) r =>
        match stepRequest s.db acc.1 r with
        | (st', .responses rs) => (st', acc.2.1 ++ [((r.peer, r.sid), rs)], acc.2.2)
        | (st', _) => (st', acc.2.1, acc.2.2 + 1)) (s.st, s.held, 0)
      ({ s with st := st', gate := false, pending := 0, stalled := false, held := [], queued := [] },
       fmtGroups held ++ (if mism > 0 then s!" mismatch={mism}" else ""))
  | _ => (s, "bad-op")

def stream : StreamDef := { σ := S, init := {}, step := step }
end Drv.Seed

namespace Drv.Leech
open Model.Leecher.Base

def natList (s : String) : List Nat := (splitList s).map (fun x => nat! x)

def oracleOf (ws : List String) : Oracle :=
  { shouldTerminate := (kv ws "st").getD "0" == "1", cands := natList ((kv ws "c").getD "-"), pick := nat! ((kv ws "pick").getD "0") }

def fmtEv : Ev → String
  | .start p => s!"start:{p}"
  | .term => "term"

def listOr (l : List String) : String := if l.isEmpty then "-" else ",".intercalate l

def sortNat (l : List Nat) : List Nat :=
  l.foldr (fun x acc => (acc.takeWhile (· < x)) ++ [x] ++ acc.dropWhile (· < x)) []

def fmt (st : St) (evs : List Ev) : String :=
  s!"ev={listOr (evs.map fmtEv)} run={listOr (st.running.map toString)} peers={listOr ((sortNat st.peers).map toString)} term={b2s st.terminated}"

def step (st : St) (ws : List String) : St × String :=
  match ws with
  | "routine" :: rest => let y := Model.Leecher.Base.step st (.routine (oracleOf rest)); (y.1, fmt y.1 y.2)
  | ["reg", p] => let y := Model.Leecher.Base.step st (.register (nat! p)); (y.1, fmt y.1 y.2)
  | "unreg" :: p :: rest => let y := Model.Leecher.Base.step st (.unregister (nat! p) (oracleOf rest)); (y.1, fmt y.1 y.2)
  | ["terminate"] =>
    match terminate st with
    | none => (st, "panic close of closed channel")
    | some y => (y.1, fmt y.1 y.2)
  | _ => (st, "bad-op")

def stream : StreamDef := { σ := St, init := {}, step := step }
end Drv.Leech

namespace Drv.PeerLeech
open Model.Leecher.Peer

def oracleOf (ws : List String) : Oracle :=
  { done := (kv ws "done").getD "0" == "1", suspend := (kv ws "susp").getD "0" == "1",
    processed := Drv.Leech.natList ((kv ws "proc").getD "-") }

def fmt (st : St) (r : Option Nat) : String :=
  s!"req={(r.map toString).getD "-"} stopped={b2s st.stopped}"

def step (st : Option St) (ws : List String) : Option St × String :=
  match ws, st with
  | ["cfg", par], _ =>
    if nat! par = 0 then (none, "bad-cfg") else (some { parallel := nat! par }, "ok")
  | _, none => (none, "nocfg")
  | "chunk" :: id :: rest, some st => let y := Model.Leecher.Peer.step st (.chunk (nat! id) (oracleOf rest)); (some y.1, fmt y.1 y.2)
  | ["terminate"], some st => let y := Model.Leecher.Peer.step st .terminate; (some y.1, fmt y.1 y.2)
  | _, _ => (st, "bad-op")

def stream : StreamDef := { σ := Option St, init := none, step := step }
end Drv.PeerLeech

/-! ### stream `fetch` (judge mode): trace acceptance of one timed scenario of the real Fetcher

The op line is `scen fg=<ForgetTimeout> ar=<ArriveTimeout> ga=<GatherSlack> hl=<HashLimit> | script…`
(µs). The implementation line is the harness-side event log in the order the events were observed:

    N:t:peer:annTime:ids:accepted:susp   a notification batch was processed (stamped in its OnlyInterested call)
    F:t:all:interested                   the fetch timer fired (stamped in its OnlyInterested call; `all` = argument)
    Rc:t:ids / Rd:t:ids                  a received batch was submitted / is known to have been handled
    Q:t:peer:ids                         an ItemsRequesterFn was called
    E:t                                  end of the scenario

The judge replays `Model.Fetcher` on the N/F/R events (time stamps and oracle answers as observed) and checks
* every observed request is one the model issues (exact batch after N; after F any split of the ids the model
  refetches, each sent to a peer that announced it),
* every request the model issues is observed before the end of the log,
* the announced set seen by each timer fire equals the model's,
* whenever the model's timer is armed, a fire is observed no later than arming time + 2·ArriveTimeout + 300 ms.
A comparison of the model that falls within 1.5 ms of its threshold makes the scenario inconclusive (`ok borderline`).
-/
namespace Drv.Fetch
open Model.Fetcher

def eps : Nat := 1500
def slackOf (cfg : Cfg) : Nat := cfg.arrive + 300000

structure J where
  cfg : Cfg := ⟨0, 0, 0, 0⟩
  st : St := {}
  /-- latest moment by which the next fire must have been observed (arming time + arrive), if armed -/
  dueBy : Option Nat := none
  pendN : List Request := []
  pendF : List (Nat × List Nat) := []     -- id, allowed peers
  pendR : List (List Nat) := []           -- received batches submitted, not yet known to be handled
  verdict : Option String := none          -- some = decided early

def nats (s : String) : List Nat := (splitList s).map (fun x => nat! x)

def near (a b : Nat) : Bool := (a ≤ b + eps) && (b ≤ a + eps)

/-- is some comparison of this timer fire too close to call? -/
def borderline (cfg : Cfg) (st : St) (now : Nat) (interested : List Nat) : Bool :=
  interested.any (fun id =>
    match findEntry st.announces id with
    | none => false
    | some e =>
      (match e.anns.head? with
       | some o => near (now - o.time) cfg.forget
       | none => false) ||
      (match fget st.fetching id with
       | some v => near (now - v.2) (cfg.arrive - cfg.gather)
       | none => false))

def removeFirst (p : Request → Bool) : List Request → Option (List Request)
  | [] => none
  | r :: rest => if p r then some rest else (removeFirst p rest).map (r :: ·)

def takeF (peer : Nat) : List Nat → List (Nat × List Nat) → Option (List (Nat × List Nat))
  | [], pend => some pend
  | id :: ids, pend =>
    match pend.find? (fun x => x.1 == id && x.2.contains peer) with
    | none => none
    | some x => takeF peer ids (pend.erase x)

def fail (j : J) (msg : String) : J := { j with verdict := some ("FAIL " ++ msg) }

def afterStep (j : J) (now : Nat) (st' : St) : J :=
  -- a (re)armed timer must fire by now + arrive (+ slack, added at the check)
  let due := match st'.timer with
    | none => none
    | some _ => if st'.timer == j.st.timer then j.dueBy else some (now + j.cfg.arrive)
  { j with st := st', dueBy := due }

def checkDue (j : J) (now : Nat) (isFire : Bool) : J :=
  match j.dueBy with
  | some d =>
    if d + slackOf j.cfg < now then
      fail j (if isFire then s!"timer fired late: due by {d}, fired at {now}"
              else s!"timer did not fire: armed, due by {d}, nothing until {now}; announced {j.st.announces.map (·.id)}")
    else j
  | none => j

def event (j : J) (ev : String) : J :=
  if j.verdict.isSome then j else
  match ev.splitOn ":" with
  | ["N", t, peer, annT, _ids, acc, susp] =>
    let now := nat! t
    let j := checkDue j now false
    if j.verdict.isSome then j else
    let r := notify j.cfg now (nat! peer) (nat! annT) (nats acc) (susp == "1") j.st
    afterStep { j with pendN := j.pendN ++ r.2 } now r.1
  | ["F", t, all, intr] =>
    let now := nat! t
    let j := checkDue j now true
    if j.verdict.isSome then j else
    -- a received batch submitted earlier was handled before this fire iff its announced ids are gone
    let obs := nats all
    let j := j.pendR.foldl (fun (j : J) ids =>
      let rel := ids.filter (fun id => (findEntry j.st.announces id).isSome)
      if rel.all (fun id => !obs.contains id) then { j with st := received ids j.st, pendR := j.pendR.erase ids } else j) j
    let modelAll := (j.st.announces.map (·.id)).reverse
    if modelAll != nats all then fail j s!"announced items at the timer fire t={now}: observed {nats all}, model {modelAll}"
    else if borderline j.cfg j.st now (nats intr) then { j with verdict := some "ok borderline" }
    else
      let r := timerFire j.cfg now (nats intr) (fun _ => 0) j.st
      let want := r.2.flatMap (fun q => q.ids.map (fun id =>
        (id, ((findEntry j.st.announces id).map (fun e => e.anns.map (·.peer))).getD [])))
      -- the timer is re-armed by every fire that leaves announcements
      let j' := { j with pendF := j.pendF ++ want, st := r.1,
                         dueBy := if r.1.timer.isSome then some (now + j.cfg.arrive) else none }
      j'
  | ["Rc", _, ids] => { j with pendR := j.pendR ++ [nats ids] }
  | ["Rd", t, ids] =>
    let now := nat! t
    let j := checkDue j now false
    if j.verdict.isSome then j else
    if j.pendR.contains (nats ids) then afterStep { j with pendR := j.pendR.erase (nats ids) } now (received (nats ids) j.st)
    else j
  | ["Q", t, peer, ids] =>
    let q : Request := ⟨nat! peer, nats ids⟩
    match removeFirst (fun r => r == q) j.pendN with
    | some rest => { j with pendN := rest }
    | none =>
      match takeF q.peer q.ids j.pendF with
      | some rest => { j with pendF := rest }
      | none => fail j s!"request at t={nat! t} to peer {q.peer} for {q.ids} is not one the model allows (pending after notify: {j.pendN.map (fun r => (r.peer, r.ids))}, after timer: {j.pendF})"
  | ["E", t] =>
    let j := checkDue j (nat! t) false
    if j.verdict.isSome then j
    else if !j.pendN.isEmpty then fail j s!"request never observed: {j.pendN.map (fun r => (r.peer, r.ids))}"
    else if !j.pendF.isEmpty then fail j s!"timer request never observed for {j.pendF.map (·.1)}"
    else { j with verdict := some "ok" }
  | ["S", _, _] => j
  | ["X", _, _] => j
  | ["Y", _, _] => j
  | _ => fail j ("bad event " ++ ev)

/-! The property's own liveness clause, evaluated on the observed trace (independently of the model): an accepted
    announcement of an item, made at `ta`, must be followed by a request for the item no later than
    `max ta tu + 2·ArriveTimeout + 300 ms`, where `tu` is the first moment from `ta` on at which the application is
    not suspended — unless before that bound the item is reported received or not interesting, the announcement
    reaches the forget timeout, or the scenario ends. (Skipped for tiny hash limits, where announcements may be evicted.) -/

def evTime (ev : String) : Nat := nat! ((ev.splitOn ":").getD 1 "0")

def propertyBound (cfg : Cfg) (evs : List String) : Option String :=
  if cfg.hashLimit < 64 then none else
  let rec go : List String → Bool → Option String
    | [], _ => none
    | ev :: rest, susp =>
      match ev.splitOn ":" with
      | ["S", _, v] => go rest (v == "1")
      | ["N", t, _, annT, _, acc, _] =>
        let ta := nat! t
        let start : Option Nat :=
          if !susp then some ta
          else (rest.find? (fun e => e.startsWith "S:" && e.endsWith ":0")).map evTime
        let bad := (nats acc).find? (fun id =>
          match start with
          | none => false
          | some s =>
            let d := s + 2 * cfg.arrive + 300000
            let has := fun (e : String) (tag : String) (k : Nat) =>
              match e.splitOn ":" with
              | tg :: tt :: more => tg == tag && nat! tt ≤ d && (nats (more.getD k "-")).contains id
              | _ => false
            let requested := rest.any (fun e => has e "Q" 1)
            let cancelled := rest.any (fun e => has e "Rc" 0 || has e "X" 0 || (e.startsWith "E:" && evTime e ≤ d)) ||
              nat! annT + cfg.forget ≤ d
            !requested && !cancelled)
        match bad with
        | some id => some s!"FAIL property bound: item {id} announced at t={ta} (not suspended from t={start.getD 0}) was not requested within 2*ArriveTimeout+300ms"
        | none => go rest susp
      | _ => go rest susp
  go evs false

def step (j : J) (ws : List String) : J × String :=
  match ws with
  | "scen" :: rest =>
    let g := fun k => nat! ((kv rest k).getD "0")
    -- `time.NewTimer(0)`: armed from the start
    ({ cfg := ⟨g "fg", g "ar", g "ga", g "hl"⟩, st := { timer := some 0 } }, "ok")
  | [">", "noisy"] => (j, "ok noisy")
  | ">" :: "log" :: evs =>
    let j' := evs.foldl event j
    let v := j'.verdict.getD "FAIL log without end marker"
    (j', if v.startsWith "FAIL" then v else (propertyBound j.cfg evs).getD v)
  | ">" :: rest => (j, "FAIL implementation: " ++ " ".intercalate rest)
  | _ => (j, "bad-op")

def stream : StreamDef := { σ := J, init := {}, step := step }
end Drv.Fetch
