import Driver.Common
import LachesisVerif.Model.Seeder
open Drv

/-! Streams of the `gossip` family. -/

namespace Drv.Seed
open Model.Seeder

structure S where
  cfg : Cfg := { maxNum := 0, maxSize := 0, maxChunks := 0, maxPending := 1 }
  db : List Item := []
  st : St := {}
  gate : Bool := false        -- true = senders blocked
  pending : Nat := 0
  stalled : Bool := false
  held : List ((Nat × Nat) × List Resp) := []
  queued : List Req := []
  nGated : Nat := 0
  inited : Bool := false

def fmtResp (r : Resp) : String :=
  s!"{b2s r.done}:" ++ (if r.payload.isEmpty then "-" else joinNat (r.payload.map (·.key)) ",")

def insertGroup (g : (Nat × Nat) × List Resp) : List ((Nat × Nat) × List Resp) → List ((Nat × Nat) × List Resp)
  | [] => [g]
  | h :: t =>
    if h.1 = g.1 then (h.1, h.2 ++ g.2) :: t
    else if g.1.1 < h.1.1 || (g.1.1 == h.1.1 && g.1.2 < h.1.2) then g :: h :: t
    else h :: insertGroup g t

/-- groups keyed by (peer, sid), sorted, each with its responses in order -/
def fmtGroups (gs : List ((Nat × Nat) × List Resp)) : String :=
  let sorted := gs.foldl (fun acc g => if g.2.isEmpty then acc else insertGroup g acc) []
  if sorted.isEmpty then "resp -"
  else "resp " ++ " ".intercalate (sorted.map (fun g => s!"{g.1.1}/{g.1.2}=" ++ ";".intercalate (g.2.map fmtResp)))

def parseItem (s : String) : Item :=
  match s.splitOn ":" with
  | [k, z] => ⟨nat! k, nat! z⟩
  | _ => ⟨0, 0⟩

def parseReq : List String → Option Req
  | [p, sid, a, b, n, z, c] => some ⟨nat! p, nat! sid, nat! a, nat! b, nat! n, nat! z, nat! c⟩
  | [p, sid, a, b, n, z, c, _] => some ⟨nat! p, nat! sid, nat! a, nat! b, nat! n, nat! z, nat! c⟩
  | _ => none

def step (s : S) (ws : List String) : S × String :=
  if !s.inited && ws.head? != some "cfg" then (s, "nocfg") else
  match ws with
  | "cfg" :: rest =>
    let g := fun k => nat! ((kv rest k).getD "0")
    if g "threads" = 0 || g "chunks" = 0 || g "pend" = 0 then ({}, "bad-cfg") else
    ({ inited := true, cfg := { maxNum := g "num", maxSize := g "size", maxChunks := g "chunks", maxPending := g "pend" } }, "ok")
  | ["db", l] =>
    let db := (splitList l).map parseItem
    ({ s with db := db }, s!"ok n={db.length}")
  | "req" :: args =>
    match parseReq args with
    | none => (s, "bad-op")
    | some r =>
      if !s.gate then
        match Model.Seeder.step s.cfg s.db s.st (.request r) with
        | (_, .tooManyChunks) => (s, "toomany")
        | (st', .mismatch) => ({ s with st := st' }, "mismatch")
        | (st', .responses rs) => ({ s with st := st' }, fmtGroups [((r.peer, r.sid), rs)])
        | (st', .none) => ({ s with st := st' }, "resp -")
      else if s.nGated ≥ 8 then (s, "gatelimit")
      else
        let s := { s with nGated := s.nGated + 1 }
        match sanitize s.cfg r with
        | none => (s, "toomany")
        | some r' =>
          if s.stalled || Gen.Seeder.pendingFull s.pending s.cfg.maxPending then
            ({ s with stalled := true, queued := s.queued ++ [r'] }, "produced=0")
          else
            match stepRequest s.db s.st r' with
            | (st', .responses rs) =>
              let g := gatedFrom s.cfg.maxPending s.pending rs
              ({ s with st := st', pending := g.2.1, stalled := g.2.2, held := s.held ++ [((r.peer, r.sid), rs)] },
               s!"produced={g.1}")
            | (st', _) => ({ s with st := st' }, "mismatch")
  | ["unreg", p] =>
    if s.gate then (s, "gated")
    else ({ s with st := (Model.Seeder.step s.cfg s.db s.st (.unregister (nat! p))).1 }, "ok")
  | ["gate", "close"] =>
    if s.gate then (s, "bad-gate") else ({ s with gate := true, pending := 0, stalled := false, nGated := 0 }, "ok")
  | ["gate", "open"] =>
    if !s.gate then (s, "bad-gate")
    else
      let (st', held, mism) := s.queued.foldl (fun (acc : St × List ((Nat × Nat) × List Resp) × Nat) r =>
        match stepRequest s.db acc.1 r with
        | (st', .responses rs) => (st', acc.2.1 ++ [((r.peer, r.sid), rs)], acc.2.2)
        | (st', _) => (st', acc.2.1, acc.2.2 + 1)) (s.st, s.held, 0)
      ({ s with st := st', gate := false, pending := 0, stalled := false, held := [], queued := [] },
       fmtGroups held ++ (if mism > 0 then s!" mismatch={mism}" else ""))
  | _ => (s, "bad-op")

def stream : StreamDef := { σ := S, init := {}, step := step }
end Drv.Seed
