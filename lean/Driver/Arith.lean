import Driver.Common
import LachesisVerif.Model.Pos
import LachesisVerif.Model.Enc
import LachesisVerif.Model.Piecefunc
open Drv

namespace Drv.Quorum
open Model.Pos

structure St where
  vals : Option Vals := none
  cnt : Option Counter := none

def fmtCount (v : Vals) (c : Counter) (ok : Bool) : String :=
  s!"{b2s ok} sum={c.sum} hq={b2s (hasQuorum v c)}"

def step (st : St) (ws : List String) : St × String :=
  match ws with
  | "vals" :: ps =>
    let b := ps.foldl (fun (b : Pairs) p =>
      match p.splitOn ":" with
      | [i, w] => set b (nat! i) (nat! w)
      | _ => b) []
    match build b with
    | none => ({}, "panic validators weight overflow")
    | some v => ({ vals := some v, cnt := some v.newCounter }, s!"n={v.len} total={v.total} quorum={v.quorum}")
  | ["count", id] =>
    match st.vals, st.cnt with
    | some v, some c => let (c', ok) := count v c (nat! id); ({ st with cnt := some c' }, fmtCount v c' ok)
    | _, _ => (st, "novals")
  | ["countidx", i] =>
    match st.vals, st.cnt with
    | some v, some c => let (c', ok) := countByIdx v c (nat! i); ({ st with cnt := some c' }, fmtCount v c' ok)
    | _, _ => (st, "novals")
  | ["newcounter"] =>
    match st.vals with
    | some v => let c := v.newCounter; ({ st with cnt := some c }, s!"sum={c.sum} hq={b2s (hasQuorum v c)}")
    | none => (st, "novals")
  | _ => (st, "bad-op")

def stream : StreamDef := { σ := St, init := {}, step := step }
end Drv.Quorum

namespace Drv.Enc
open Model.Enc Bytes

def idxWidth (t : String) : Nat := if t == "block" then 8 else 4

def step (_ : Unit) (ws : List String) : Unit × String :=
  let be := fun (k : Nat) (n : String) =>
    let b := beBytes k (nat! n % 256 ^ k); s!"{hexOf b} {beVal b}"
  let le := fun (k : Nat) (n : String) =>
    let b := leBytes k (nat! n % 256 ^ k); s!"{hexOf b} {leVal b}"
  let cmp := fun (k : Nat) (a b : String) => cmpStr (beBytes k (nat! a % 256 ^ k)) (beBytes k (nat! b % 256 ^ k))
  let idOf := fun (e l t : String) => eventID (nat! e % 2 ^ 32) (nat! l % 2 ^ 32) (unhex t)
  ((), match ws with
  | ["be16", n] => be 2 n
  | ["be32", n] => be 4 n
  | ["be64", n] => be 8 n
  | ["le16", n] => le 2 n
  | ["le32", n] => le 4 n
  | ["le64", n] => le 8 n
  | ["cmp16", a, b] => cmp 2 a b
  | ["cmp32", a, b] => cmp 4 a b
  | ["cmp64", a, b] => cmp 8 a b
  | ["idx", t, n] => be (idxWidth t) n
  | ["idxcmp", t, a, b] => cmp (idxWidth t) a b
  | ["id", e, l, t] => let id := idOf e l t; s!"{hexOf id} {idEpoch id} {idLamport id}"
  | ["idbuild", e, l, t] => let id := idOf e l t; s!"{hexOf id} {idEpoch id} {idLamport id}"
  | ["idcmp", e1, l1, t1, e2, l2, t2] => cmpStr (idOf e1 l1 t1) (idOf e2 l2 t2)
  | _ => "bad-op")

def stream : StreamDef := { σ := Unit, init := (), step := step }
end Drv.Enc

namespace Drv.Piecefunc
open Model.Piecefunc

def parseDot (s : String) : Dot :=
  match s.splitOn ":" with
  | [a, b] => ⟨nat! a, nat! b⟩
  | _ => ⟨0, 0⟩

def step (st : Option (List Dot)) (ws : List String) : Option (List Dot) × String :=
  match ws with
  | ["dots", l] =>
    let dots := (splitList l).map parseDot
    match newFunc dots with
    | none => (some dots, "ok")
    | some msg => (none, "panic " ++ msg)
  | ["get", x] =>
    match st with
    | some dots => (st, toString (get dots (nat! x)))
    | none => (st, "nofunc")
  | _ => (st, "bad-op")

def stream : StreamDef := { σ := Option (List Dot), init := none, step := step }
end Drv.Piecefunc
