import Driver.Common
import LachesisVerif.Model.Pos
open Drv

namespace Drv.Quorum
open Model.Pos

structure St where
  vals : Option Vals := none
  cnt : Option Counter := none

def fmtCount (v : Vals) (c : Counter) (ok : Bool) : String :=
  s!"{b2s ok} sum={c.sum} hq={b2s (hasQuorum v c)}"

def step (st : St) (ws : List String) : St × String :=
  match ws with
  | "vals" :: ps =>
    let b := ps.foldl (fun (b : Pairs) p =>
      match p.splitOn ":" with
      | [i, w] => set b (nat! i) (nat! w)
      | _ => b) []
    match build b with
    | none => ({}, "panic validators weight overflow")
    | some v => ({ vals := some v, cnt := some v.newCounter }, s!"n={v.len} total={v.total} quorum={v.quorum}")
  | ["count", id] =>
    match st.vals, st.cnt with
    | some v, some c => let (c', ok) := count v c (nat! id); ({ st with cnt := some c' }, fmtCount v c' ok)
    | _, _ => (st, "novals")
  | ["countidx", i] =>
    match st.vals, st.cnt with
    | some v, some c => let (c', ok) := countByIdx v c (nat! i); ({ st with cnt := some c' }, fmtCount v c' ok)
    | _, _ => (st, "novals")
  | ["newcounter"] =>
    match st.vals with
    | some v => let c := v.newCounter; ({ st with cnt := some c }, s!"sum={c.sum} hq={b2s (hasQuorum v c)}")
    | none => (st, "novals")
  | _ => (st, "bad-op")

def stream : StreamDef := { σ := St, init := {}, step := step }
end Drv.Quorum
