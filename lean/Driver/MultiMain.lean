import Driver.Common
import Driver.Multi
/-! Driver of the `multi` family. -/

def main (args : List String) : IO UInt32 :=
  Drv.mainWith [
    ("route", Drv.Route.stream),
    ("crash", Drv.Crash.stream)
  ] args
