import Driver.Common
import Driver.Emitter
/-! Driver of the `emitter` family. -/

def main (args : List String) : IO UInt32 :=
  Drv.mainWith [
    ("parents", Drv.Parents.stream),
    ("qindex", Drv.Qindex.stream)
  ] args
