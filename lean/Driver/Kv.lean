import Driver.Common
import LachesisVerif.Spec.KV
import LachesisVerif.Model.Flushable
import LachesisVerif.Model.Table
/-! Driver of the `kv` family: a tree of named stores over one `Spec.KV` base. Tables answer
through `Model.Table`, flushables through `Model.Flushable` (overlay + the merged iterator over
the inner store's own iterator), synced wrappers are transparent. -/
open Drv

namespace Drv.Kv
open Spec Model

inductive Node where
  | base (m : KV)
  | table (inner : String) (p : Bytes)
  | flush (inner : String) (ov : Flushable.Overlay) (size : Nat) (isLazy inited : Bool)
  | synced (inner : String)

abbrev Nodes := List (String × Node)

structure St where
  nodes : Nodes := []
  snaps : List (String × (Nodes × String)) := []

def setNode (ns : Nodes) (name : String) (n : Node) : Nodes :=
  ns.map (fun x => if x.1 == name then (name, n) else x)

def optB (s : String) : Option Bytes := if s == "nil" then none else some (unhex s)
def optHex (b : Option Bytes) : String := match b with | none => "nil" | some x => hexOf x

def getN : Nat → Nodes → String → Bytes → Option Bytes
  | 0, _, _, _ => none
  | fuel + 1, ns, name, k =>
    match ns.lookup name with
    | none => none
    | some (.base m) => m.get k
    | some (.table inner p) => getN fuel ns inner (Table.prefixed k p)
    | some (.flush inner ov _ isLazy inited) =>
      Flushable.getOver (fun k' => if isLazy && !inited then none else getN fuel ns inner k') ov k
    | some (.synced inner) => getN fuel ns inner k

def hasN : Nat → Nodes → String → Bytes → Bool
  | 0, _, _, _ => false
  | fuel + 1, ns, name, k =>
    match ns.lookup name with
    | none => false
    | some (.base m) => m.has k
    | some (.table inner p) => hasN fuel ns inner (Table.prefixed k p)
    | some (.flush inner ov _ isLazy inited) =>
      Flushable.hasOver (fun k' => if isLazy && !inited then false else hasN fuel ns inner k') ov k
    | some (.synced inner) => hasN fuel ns inner k

def iterN : Nat → Nodes → String → Option Bytes → Bytes → KV
  | 0, _, _, _, _ => []
  | fuel + 1, ns, name, pfx, start =>
    match ns.lookup name with
    | none => []
    | some (.base m) => iterSpec m (pfx.getD []) start
    | some (.table inner p) => Table.iterOver (fun pf st => iterN fuel ns inner (some pf) st) p pfx start
    | some (.flush inner ov _ isLazy inited) =>
      let parentItems := if isLazy && !inited then [] else iterN fuel ns inner pfx start
      Flushable.iterateOver parentItems ov pfx start
    | some (.synced inner) => iterN fuel ns inner pfx start

/-- `Batch.Write` of a batch created on store `name` holding `ops` -/
def writeN : Nat → Nodes → String → List Op → Nodes
  | 0, ns, _, _ => ns
  | fuel + 1, ns, name, ops =>
    match ns.lookup name with
    | none => ns
    | some (.base m) => setNode ns name (.base (applyBatch m ops))
    | some (.table inner p) => writeN fuel ns inner (ops.map (Table.prefixOp p))
    | some (.flush inner ov size isLazy inited) =>
      let st := Flushable.write { under := [], overlay := ov, sizeEst := size } ops
      setNode ns name (.flush inner st.overlay st.sizeEst isLazy inited)
    | some (.synced inner) => writeN fuel ns inner ops

/-- the calls a writer receives from `Batch.Replay` of a batch created on store `name` -/
def replayN : Nat → Nodes → String → List Op → List Op
  | 0, _, _, ops => ops
  | fuel + 1, ns, name, ops =>
    match ns.lookup name with
    | none => ops
    | some (.base _) => ops
    | some (.table inner p) => (replayN fuel ns inner (ops.map (Table.prefixOp p))).map (Table.unprefixOp p)
    | some (.flush ..) => Flushable.replay ops
    | some (.synced inner) => replayN fuel ns inner ops

def compactN : Nat → Nodes → String → Option Bytes → Option Bytes → String
  | 0, _, _, _, _ => "none"
  | fuel + 1, ns, name, start, limit =>
    match ns.lookup name with
    | none => "none"
    | some (.base _) => optHex start ++ ".." ++ optHex limit
    | some (.table inner p) =>
      let r := Table.compactRange p start limit
      compactN fuel ns inner r.1 r.2
    | some (.flush inner _ _ isLazy inited) => if isLazy && !inited then "none" else compactN fuel ns inner start limit
    | some (.synced inner) => compactN fuel ns inner start limit

def fmtItems (l : KV) : String :=
  if l.isEmpty then "." else " ".intercalate (l.map (fun kv => hexOf kv.1 ++ ":" ++ hexOf kv.2))

def parseOps (s : String) : List Op :=
  (splitList s).filterMap (fun x =>
    match x.splitOn ":" with
    | ["d", k] => some (.del (unhex k))
    | ["p", k, v] => some (.put (unhex k) (unhex v))
    | _ => none)

def step (st : St) (ws : List String) : St × String :=
  let ns := st.nodes
  let fuel := ns.length + 1
  let known := fun (n : String) => (ns.lookup n).isSome
  match ws with
  | ["open", b] =>
    if b == "mem" || b == "ldb" || b == "pbl" then ({ nodes := [("b", .base [])] }, "ok") else (st, "bad-op")
  | ["incp", p] => (st, optHex (Table.incPrefix (unhex p)))
  | ["nop", k, p] => (st, hexOf (Table.noPrefix (unhex k) (unhex p)))
  | ["bpr", "ldb", p, s] =>
    let r := Table.ldbRange (optB p) ((optB s).getD [])
    (st, hexOf r.1 ++ ".." ++ optHex r.2)
  | ["bpr", "pbl", p, s] =>
    match Table.pblRange (optB p) ((optB s).getD []) (optB s).isNone with
    | none => (st, "all")
    | some r => (st, hexOf r.1 ++ ".." ++ optHex r.2)
  | ["sget", sid, k] =>
    match st.snaps.lookup sid with
    | none => (st, "nosnap")
    | some (sn, name) => (st, optHex (getN (sn.length + 1) sn name (unhex k)))
  | ["shas", sid, k] =>
    match st.snaps.lookup sid with
    | none => (st, "nosnap")
    | some (sn, name) => (st, b2s (hasN (sn.length + 1) sn name (unhex k)))
  | ["siter", sid, p, s] =>
    match st.snaps.lookup sid with
    | none => (st, "nosnap")
    | some (sn, name) => (st, fmtItems (iterN (sn.length + 1) sn name (optB p) ((optB s).getD [])))
  | ["srel", sid] =>
    match st.snaps.lookup sid with
    | none => (st, "nosnap")
    | some _ => ({ st with snaps := st.snaps.filter (fun x => x.1 != sid) }, "ok")
  | "wrap" :: name :: inner :: kind :: rest =>
    if !known inner then (st, "nostore") else
    let node : Option Node :=
      match kind, rest with
      | "t", [p] => some (.table inner (unhex p))
      | "f", [] => some (.flush inner [] 0 false false)
      | "lf", [] => some (.flush inner [] 0 true false)
      | "s", [] => some (.synced inner)
      | _, _ => none
    match node with
    | none => (st, "bad-op")
    | some n => ({ st with nodes := (ns.filter (fun x => x.1 != name)) ++ [(name, n)] }, "ok")
  | ["snap", sid, name] =>
    if !known name then (st, "nostore") else
    ({ st with snaps := (sid, (ns, name)) :: st.snaps.filter (fun x => x.1 != sid) }, "ok")
  | ["put", name, k, v] =>
    if !known name then (st, "nostore") else
    ({ st with nodes := writeN fuel ns name [.put (unhex k) (unhex v)] }, "ok")
  | ["del", name, k] =>
    if !known name then (st, "nostore") else
    ({ st with nodes := writeN fuel ns name [.del (unhex k)] }, "ok")
  | ["get", name, k] =>
    if !known name then (st, "nostore") else (st, optHex (getN fuel ns name (unhex k)))
  | ["has", name, k] =>
    if !known name then (st, "nostore") else (st, b2s (hasN fuel ns name (unhex k)))
  | ["iter", name, p, s] =>
    if !known name then (st, "nostore") else (st, fmtItems (iterN fuel ns name (optB p) ((optB s).getD [])))
  | ["batch", name, "w", ops] =>
    if !known name then (st, "nostore") else
    ({ st with nodes := writeN fuel ns name (parseOps ops) }, "ok")
  | ["batch", name, "r", target, ops] =>
    if !known name || !known target then (st, "nostore") else
    -- Replay(target): one Put/Delete call on the target store per recorded operation
    let calls := replayN fuel ns name (parseOps ops)
    ({ st with nodes := calls.foldl (fun n op => writeN fuel n target [op]) ns }, "ok")
  | ["batch", name, "rb", target, ops] =>
    if !known name || !known target then (st, "nostore") else
    ({ st with nodes := writeN fuel ns target (replayN fuel ns name (parseOps ops)) }, "ok")
  | ["flush", name] =>
    match ns.lookup name with
    | some (.flush inner ov _ isLazy _) =>
      let ns1 := setNode ns name (.flush inner [] 0 isLazy true)
      ({ st with nodes := writeN fuel ns1 inner (Flushable.flushOps ov) }, "ok")
    | some _ => (st, "noflushable")
    | none => (st, "nostore")
  | ["init", name] =>
    -- LazyFlushable.InitUnderlyingDb: from now on reads reach the produced store
    match ns.lookup name with
    | some (.flush inner ov size true _) => ({ st with nodes := setNode ns name (.flush inner ov size true true) }, "ok")
    | some _ => (st, "nolazy")
    | none => (st, "nostore")
  | ["drop", name] =>
    match ns.lookup name with
    | some (.flush inner _ _ isLazy inited) => ({ st with nodes := setNode ns name (.flush inner [] 0 isLazy inited) }, "ok")
    | some _ => (st, "noflushable")
    | none => (st, "nostore")
  | ["nfp", name] =>
    match ns.lookup name with
    | some (.flush _ ov size _ _) => (st, toString (Flushable.notFlushedPairs { under := [], overlay := ov, sizeEst := size }))
    | some _ => (st, "noflushable")
    | none => (st, "nostore")
  | ["nfs", name] =>
    match ns.lookup name with
    | some (.flush _ _ size _ _) => (st, toString size)
    | some _ => (st, "noflushable")
    | none => (st, "nostore")
  | ["settle", name] =>
    -- memtable flush + compaction of the engine: the identity on Spec.KV
    if !known name then (st, "nostore") else (st, "ok")
  | ["compact", name, s, l] =>
    if !known name then (st, "nostore") else (st, compactN fuel ns name (optB s) (optB l))
  | _ => (st, "bad-op")

def stream : StreamDef := { σ := St, init := {}, step := step }
end Drv.Kv
