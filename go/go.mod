module verifharness

go 1.17

require (
	github.com/cockroachdb/pebble v0.0.0-20221111210721-1bda21f14fc2
	github.com/emirpasic/gods v1.12.0
	github.com/ethereum/go-ethereum v1.9.22
	github.com/golang/mock v1.6.0
	github.com/hashicorp/golang-lru v0.5.4
	github.com/pkg/errors v0.9.1
	github.com/status-im/keycard-go v0.0.0-20190424133014-d95853db0f48
	github.com/stretchr/testify v1.7.2
	github.com/syndtr/goleveldb v1.0.1-0.20210305035536-64b5b1c73954
)
require (
	github.com/DataDog/zstd v1.4.5 // indirect
	github.com/beorn7/perks v1.0.1 // indirect
	github.com/cespare/xxhash/v2 v2.1.2 // indirect
	github.com/cockroachdb/errors v1.8.1 // indirect
	github.com/cockroachdb/logtags v0.0.0-20190617123548-eb05cc24525f // indirect
	github.com/cockroachdb/redact v1.0.8 // indirect
	github.com/cockroachdb/sentry-go v0.6.1-cockroachdb.2 // indirect
	github.com/davecgh/go-spew v1.1.1 // indirect
	github.com/gogo/protobuf v1.3.2 // indirect
	github.com/golang/protobuf v1.5.2 // indirect
	github.com/golang/snappy v0.0.4 // indirect
	github.com/klauspost/compress v1.11.13 // indirect
	github.com/kr/pretty v0.2.1 // indirect
	github.com/kr/text v0.2.0 // indirect
	github.com/matttproud/golang_protobuf_extensions v1.0.2-0.20181231171920-c182affec369 // indirect
	github.com/niemeyer/pretty v0.0.0-20200227124842-a10e7caefd8e // indirect
	github.com/pmezard/go-difflib v1.0.0 // indirect
	github.com/prometheus/client_golang v1.12.0 // indirect
	github.com/prometheus/client_model v0.2.1-0.20210607210712-147c58e9608a // indirect
	github.com/prometheus/common v0.32.1 // indirect
	github.com/prometheus/procfs v0.7.3 // indirect
	golang.org/x/crypto v0.0.0-20200622213623-75b288015ac9 // indirect
	golang.org/x/exp v0.0.0-20200513190911-00229845015e // indirect
	golang.org/x/sys v0.0.0-20220114195835-da31bd327af9 // indirect
	google.golang.org/protobuf v1.27.1 // indirect
	gopkg.in/check.v1 v1.0.0-20200227125254-8fa46927fb4f // indirect
	gopkg.in/yaml.v3 v3.0.1 // indirect
)

require github.com/Fantom-foundation/lachesis-base v0.0.0

replace github.com/Fantom-foundation/lachesis-base => /repo
