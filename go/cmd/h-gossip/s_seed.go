package main

// Stream `seed` (C17): the real basestreamseeder.BaseSeeder with its own goroutines.
//
// Synchronisation without sleeps: the reader loop handles requests in FIFO order, so a sentinel
// request of a private peer (RequestType 1, own session, empty range) whose ForEachItem call is
// observed proves that every earlier request was handled completely; deliveries are then awaited
// by count (every ForEachItem call yields exactly one SendChunk). Unregistrations travel through a
// second channel which the reader's select serves in random order with the request channel:
// 40 sentinel rounds leave a 2^-40 chance that the unregistration is still queued.
// While the gate is closed SendChunk of the test peers blocks, so responses stay pending and the
// reader stalls in waitPendingResponsesBelowLimit; a stall is the one thing that can only be
// observed by waiting (sentinel not handled for 250 ms while the produced memory reached the limit).

import (
	. "verifharness/hlib"

	"bufio"
	"fmt"
	"sort"
	"strings"
	"sync"
	"time"

	"github.com/Fantom-foundation/lachesis-base/gossip/basestream"
	"github.com/Fantom-foundation/lachesis-base/gossip/basestream/basestreamseeder"
)

func init() {
	Register("seed", &Stream{Gen: genSeed, NewRunner: func() Runner { return &seedRunner{} }})
}

type sLoc uint64

func (l sLoc) Compare(b basestream.Locator) int {
	o := b.(sLoc)
	if l < o {
		return -1
	}
	if l > o {
		return 1
	}
	return 0
}
func (l sLoc) Inc() basestream.Locator { return l + 1 }

type sItem struct{ key, size uint64 }

type sPayload struct {
	keys []uint64
	size uint64
}

func (p *sPayload) Len() int          { return len(p.keys) }
func (p *sPayload) TotalSize() uint64 { return p.size }
func (p *sPayload) TotalMemSize() int { return int(p.size) + 8*len(p.keys) }

type sDelivery struct {
	peer string
	resp basestream.Response
}

type seedRunner struct {
	seeder  *basestreamseeder.BaseSeeder
	threads int
	limit   int64
	items   []sItem

	mu         sync.Mutex
	notify     chan struct{}
	produced   int   // ForEachItem calls of test requests
	gateMem    int64 // memory of the responses produced since the gate was closed
	lastProd   time.Time
	delivered  int
	mismatches int
	sentSeen   uint64 // highest sentinel whose ForEachItem ran
	sentDeliv  uint64 // highest sentinel whose response was delivered
	opDeliv    []sDelivery
	gateCh     chan struct{}
	gateClosed bool
	stalled    bool
	nGated     int
	sentN      uint64
	peers      map[string]basestreamseeder.Peer
}

func (r *seedRunner) signal() {
	select {
	case r.notify <- struct{}{}:
	default:
	}
}

// waitFor polls pred (under the lock) on every event until it holds or the timeout elapses.
// after the first timed-out wait (the seeder does not do what every synchronisation relies on) the remaining waits
// are cut short so that a broken tree is reported quickly
var seedTimeouts int

func (r *seedRunner) waitFor(timeout time.Duration, pred func() bool) bool {
	if seedTimeouts >= 1 {
		timeout = 300 * time.Millisecond
	}
	deadline := time.Now().Add(timeout)
	for {
		r.mu.Lock()
		ok := pred()
		r.mu.Unlock()
		if ok {
			return true
		}
		left := time.Until(deadline)
		if left <= 0 {
			seedTimeouts++
			return false
		}
		if left > 20*time.Millisecond {
			left = 20 * time.Millisecond
		}
		select {
		case <-r.notify:
		case <-time.After(left):
		}
	}
}

func (r *seedRunner) forEachItem(start basestream.Locator, rType basestream.RequestType, onKey func(basestream.Locator) bool, onAppended func(basestream.Payload) bool) basestream.Payload {
	p := &sPayload{}
	if rType == 1 {
		r.mu.Lock()
		if uint64(start.(sLoc)) > r.sentSeen {
			r.sentSeen = uint64(start.(sLoc))
		}
		r.mu.Unlock()
		r.signal()
		return p
	}
	s := uint64(start.(sLoc))
	i := sort.Search(len(r.items), func(i int) bool { return r.items[i].key >= s })
	for ; i < len(r.items); i++ {
		it := r.items[i]
		if !onKey(sLoc(it.key)) {
			break
		}
		p.keys = append(p.keys, it.key)
		p.size += it.size
		if !onAppended(p) {
			break
		}
	}
	r.mu.Lock()
	r.produced++
	r.lastProd = time.Now()
	if r.gateClosed {
		r.gateMem += int64(p.TotalMemSize())
	}
	r.mu.Unlock()
	r.signal()
	return p
}

func (r *seedRunner) peer(id string) basestreamseeder.Peer {
	if p, ok := r.peers[id]; ok {
		return p
	}
	p := basestreamseeder.Peer{
		ID: id,
		SendChunk: func(resp basestream.Response) error {
			r.mu.Lock()
			g := r.gateCh
			r.mu.Unlock()
			<-g
			r.mu.Lock()
			r.opDeliv = append(r.opDeliv, sDelivery{id, resp})
			r.delivered++
			r.mu.Unlock()
			r.signal()
			return nil
		},
		Misbehaviour: func(error) {
			r.mu.Lock()
			r.mismatches++
			r.mu.Unlock()
			r.signal()
		},
	}
	r.peers[id] = p
	return p
}

var closedCh = func() chan struct{} { c := make(chan struct{}); close(c); return c }()

func (r *seedRunner) sentinel() uint64 {
	r.sentN++
	n := r.sentN
	p := basestreamseeder.Peer{ID: "sync", SendChunk: func(resp basestream.Response) error {
		r.mu.Lock()
		if uint64(resp.SessionID) > r.sentDeliv {
			r.sentDeliv = uint64(resp.SessionID)
		}
		r.mu.Unlock()
		r.signal()
		return nil
	}, Misbehaviour: func(error) {}}
	_, _ = r.seeder.NotifyRequestReceived(p, basestream.Request{
		Session: basestream.Session{ID: uint32(n), Start: sLoc(n), Stop: sLoc(n)}, Type: 1, MaxPayloadNum: 1, MaxPayloadSize: 1, MaxChunks: 1})
	return n
}

// syncReader returns once the reader loop has handled everything submitted before.
func (r *seedRunner) syncReader() bool {
	n := r.sentinel()
	return r.waitFor(20*time.Second, func() bool { return r.sentSeen >= n })
}

func (r *seedRunner) waitDelivered() bool {
	return r.waitFor(20*time.Second, func() bool { return r.delivered == r.produced })
}

func (r *seedRunner) fmtDeliveries() string {
	r.mu.Lock()
	d := r.opDeliv
	r.opDeliv = nil
	r.mu.Unlock()
	type key struct {
		peer uint64
		sid  uint32
	}
	groups := map[key][]string{}
	var keys []key
	for _, x := range d {
		k := key{Atou(x.peer[1:]), x.resp.SessionID}
		if _, ok := groups[k]; !ok {
			keys = append(keys, k)
		}
		p := x.resp.Payload.(*sPayload)
		s := B2s(x.resp.Done) + ":"
		if len(p.keys) == 0 {
			s += "-"
		} else {
			s += JoinU(p.keys, ",")
		}
		groups[k] = append(groups[k], s)
	}
	if len(keys) == 0 {
		return "resp -"
	}
	sort.Slice(keys, func(i, j int) bool {
		if keys[i].peer != keys[j].peer {
			return keys[i].peer < keys[j].peer
		}
		return keys[i].sid < keys[j].sid
	})
	out := make([]string, len(keys))
	for i, k := range keys {
		out[i] = fmt.Sprintf("%d/%d=%s", k.peer, k.sid, strings.Join(groups[k], ";"))
	}
	return "resp " + strings.Join(out, " ")
}

func kvOf(f []string, key string) uint64 {
	for _, w := range f {
		if strings.HasPrefix(w, key+"=") {
			return Atou(w[len(key)+1:])
		}
	}
	return 0
}

func (r *seedRunner) Step(line string) string {
	f := Fields(line)
	if f[0] == "cfg" {
		r.Close()
		threads, chunks, pend := kvOf(f, "threads"), kvOf(f, "chunks"), kvOf(f, "pend")
		if threads == 0 || chunks == 0 || pend == 0 {
			return "bad-cfg"
		}
		*r = seedRunner{threads: int(threads), limit: int64(pend), notify: make(chan struct{}, 1), gateCh: closedCh, peers: map[string]basestreamseeder.Peer{}}
		r.seeder = basestreamseeder.New(basestreamseeder.Config{
			SenderThreads: int(threads), MaxSenderTasks: 4096, MaxPendingResponsesSize: int64(pend),
			MaxResponsePayloadNum: uint32(kvOf(f, "num")), MaxResponsePayloadSize: kvOf(f, "size"), MaxResponseChunks: uint32(chunks),
		}, basestreamseeder.Callbacks{ForEachItem: r.forEachItem})
		r.seeder.Start()
		return "ok"
	}
	if r.seeder == nil {
		return "nocfg"
	}
	switch f[0] {
	case "db":
		if len(f) != 2 {
			return "bad-op"
		}
		r.items = nil
		for _, s := range SplitList(f[1]) {
			kv := strings.Split(s, ":")
			r.items = append(r.items, sItem{Atou(kv[0]), Atou(kv[1])})
		}
		return fmt.Sprintf("ok n=%d", len(r.items))
	case "req":
		if len(f) != 8 && len(f) != 9 {
			return "bad-op"
		}
		peer := r.peer("p" + f[1])
		req := basestream.Request{Session: basestream.Session{ID: uint32(Atou(f[2])), Start: sLoc(Atou(f[3])), Stop: sLoc(Atou(f[4]))},
			MaxPayloadNum: uint32(Atou(f[5])), MaxPayloadSize: Atou(f[6]), MaxChunks: uint32(Atou(f[7]))}
		if !r.gateClosed {
			r.mu.Lock()
			mism := r.mismatches
			r.mu.Unlock()
			if _, perr := r.seeder.NotifyRequestReceived(peer, req); perr != nil {
				return "toomany"
			}
			if !r.syncReader() || !r.waitDelivered() {
				return "timeout"
			}
			r.mu.Lock()
			m2 := r.mismatches
			r.mu.Unlock()
			if m2 > mism {
				return "mismatch"
			}
			return r.fmtDeliveries()
		}
		if r.nGated >= 8 {
			return "gatelimit"
		}
		r.nGated++
		r.mu.Lock()
		before, mism := r.produced, r.mismatches
		r.mu.Unlock()
		if _, perr := r.seeder.NotifyRequestReceived(peer, req); perr != nil {
			return "toomany"
		}
		if r.stalled {
			return "produced=0"
		}
		n := r.sentinel()
		start := time.Now()
		ok := r.waitFor(10*time.Second, func() bool {
			if r.sentSeen >= n {
				return true
			}
			last := r.lastProd
			if last.Before(start) {
				last = start
			}
			if r.gateMem >= r.limit && time.Since(last) >= 250*time.Millisecond {
				r.stalled = true
				return true
			}
			return false
		})
		if !ok {
			return "timeout"
		}
		r.mu.Lock()
		defer r.mu.Unlock()
		if r.mismatches > mism {
			return "mismatch"
		}
		return fmt.Sprintf("produced=%d", r.produced-before)
	case "unreg":
		if len(f) != 2 {
			return "bad-op"
		}
		if r.gateClosed {
			return "gated"
		}
		_ = r.seeder.UnregisterPeer("p" + f[1])
		for i := 0; i < 40; i++ {
			if !r.syncReader() {
				return "timeout"
			}
		}
		return "ok"
	case "gate":
		if len(f) != 2 {
			return "bad-op"
		}
		if f[1] == "close" {
			if r.gateClosed {
				return "bad-gate"
			}
			// let every sender finish its bookkeeping: one delivered sentinel per sender thread
			for i := 0; i < r.threads; i++ {
				n := r.sentinel()
				if !r.waitFor(20*time.Second, func() bool { return r.sentDeliv >= n }) {
					return "timeout"
				}
			}
			r.mu.Lock()
			r.gateCh = make(chan struct{})
			r.gateClosed, r.stalled, r.nGated, r.gateMem = true, false, 0, 0
			r.mu.Unlock()
			return "ok"
		}
		if f[1] == "open" {
			if !r.gateClosed {
				return "bad-gate"
			}
			r.mu.Lock()
			mism := r.mismatches
			close(r.gateCh)
			r.gateCh = closedCh
			r.gateClosed, r.stalled = false, false
			r.mu.Unlock()
			if !r.syncReader() || !r.waitDelivered() {
				return "timeout"
			}
			out := r.fmtDeliveries()
			r.mu.Lock()
			defer r.mu.Unlock()
			if r.mismatches > mism {
				out += fmt.Sprintf(" mismatch=%d", r.mismatches-mism)
			}
			return out
		}
	}
	return "bad-op"
}

func (r *seedRunner) Close() {
	if r.seeder == nil {
		return
	}
	r.mu.Lock()
	if r.gateClosed {
		close(r.gateCh)
		r.gateCh = closedCh
		r.gateClosed = false
	}
	r.mu.Unlock()
	done := make(chan struct{})
	s := r.seeder
	go func() { s.Stop(); close(done) }()
	select {
	case <-done:
	case <-time.After(5 * time.Second):
	}
	r.seeder = nil
}

// ---------------------------------------------------------------------------------------------

type gSess struct{ sid, start, stop uint64 }

func genSeed(r *Rand, n int, tier string, w *bufio.Writer) {
	gateEvery := 25 // one case in gateEvery has a phase with blocked senders (each stall costs 250 ms)
	maxOps := 25
	if tier == "thorough" {
		gateEvery, maxOps = 40, 45
	}
	for c := 0; c < n; c++ {
		fmt.Fprintf(w, "# case %d\n", c)
		cfgChunks := r.Pick(1, 2, 3, 5)
		cfgNum := r.Pick(1, 2, 3, 100, 100)
		cfgSize := r.Pick(1, 10, 30, 1000, 1000)
		pend := r.Pick(1, 40, 80, 150, 100000)
		// a case with a blocked-senders phase uses round memory sizes (10, 20, 40 per item) so that the pending
		// counter meets its limit exactly
		gateCase := r.Chance(1, gateEvery)
		if gateCase {
			pend = r.Pick(10, 20, 40, 80)
		}
		fmt.Fprintf(w, "cfg threads=%d num=%d size=%d chunks=%d pend=%d\n", 1+r.Intn(3), cfgNum, cfgSize, cfgChunks, pend)
		var db []string
		key := uint64(r.Intn(4))
		for i, k := 0, r.Intn(14); i < k; i++ {
			size := r.Pick(0, 1, 5, 10, 20)
			if gateCase {
				size = r.Pick(2, 2, 12, 32)
			}
			db = append(db, fmt.Sprintf("%d:%d", key, size))
			key += 1 + uint64(r.Intn(3))*uint64(r.Intn(3))
		}
		if len(db) == 0 {
			fmt.Fprintf(w, "db -\n")
		} else {
			fmt.Fprintf(w, "db %s\n", strings.Join(db, ","))
		}
		nPeers := 1 + r.Intn(3)
		known := make([][]gSess, nPeers+1)
		mkReq := func(peer int) string {
			var s gSess
			ks := known[peer]
			if len(ks) > 0 && r.Chance(3, 5) {
				s = ks[r.Intn(len(ks))] // resume (possibly a pruned one)
				if r.Chance(1, 15) {
					s.start += 1 // selector mismatch (or a new session if it was pruned)
				}
			} else {
				s.sid = uint64(1 + r.Intn(7))
				fresh := true
				for _, k := range ks {
					if k.sid == s.sid {
						s, fresh = k, false
					}
				}
				if fresh {
					s.start = uint64(r.Intn(int(key) + 3))
					switch r.Intn(6) {
					case 0:
						s.stop = s.start
					case 1:
						s.stop = uint64(r.Intn(int(s.start) + 1))
					case 2:
						s.stop = 1 << 40
					default:
						s.stop = s.start + uint64(r.Intn(int(key)+4))
					}
					known[peer] = append(known[peer], s)
				}
			}
			num := r.Pick(0, 1, 2, 3, 100, cfgNum, cfgNum+1)
			size := r.Pick(0, 1, 10, 25, 1000, cfgSize, cfgSize+1)
			chunks := uint64(r.Intn(int(cfgChunks) + 1))
			if r.Chance(1, 3) {
				chunks = r.Pick(0, 1, cfgChunks, cfgChunks, cfgChunks+1)
			}
			return fmt.Sprintf("req %d %d %d %d %d %d %d", peer, s.sid, s.start, s.stop, num, size, chunks)
		}
		nOps := 4 + r.Intn(maxOps)
		gateAt := -1
		if gateCase {
			gateAt = r.Intn(nOps)
		}
		for i := 0; i < nOps; i++ {
			peer := 1 + r.Intn(nPeers)
			switch {
			case r.Chance(1, 14):
				fmt.Fprintf(w, "unreg %d\n", peer)
				if r.Chance(2, 3) {
					known[peer] = nil
				}
			case i == gateAt:
				fmt.Fprintf(w, "gate close\n")
				for j, k := 0, 1+r.Intn(4); j < k; j++ {
					fmt.Fprintf(w, "%s\n", mkReq(1+r.Intn(nPeers)))
				}
				fmt.Fprintf(w, "gate open\n")
			default:
				fmt.Fprintf(w, "%s\n", mkReq(peer))
			}
		}
	}
}
