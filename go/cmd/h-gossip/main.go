// Command h-gossip: harness streams seed (C17), leech, peerleech (C18), fetch (C16).
package main

import "verifharness/hlib"

func main() { hlib.Main() }
