package main

// Streams `leech` (BaseLeecher through its exported methods, deterministic) and `peerleech`
// (BasePeerLeecher through its real loop; RecheckInterval = 1 h, so only NotifyChunkReceived drives
// it; the harness synchronises on the callback named by the op's `sync=` hint) — C18.

import (
	. "verifharness/hlib"

	"bufio"
	"fmt"
	"sort"
	"strings"
	"sync"
	"time"

	"github.com/Fantom-foundation/lachesis-base/gossip/basestream/basestreamleecher"
	"github.com/Fantom-foundation/lachesis-base/gossip/basestream/basestreamleecher/basepeerleecher"
)

func init() {
	Register("leech", &Stream{Gen: genLeech, NewRunner: func() Runner { return newLeechRunner() }})
	Register("peerleech", &Stream{Gen: genPeerLeech, NewRunner: func() Runner { return &peerLeechRunner{} }})
}

// ---------------------------------------------------------------------------------------------
// leech

func peerName(n uint64) string {
	if n == 0 {
		return ""
	}
	return fmt.Sprintf("p%d", n)
}

func peerNum(s string) uint64 {
	if s == "" {
		return 0
	}
	return Atou(s[1:])
}

type leechRunner struct {
	d       *basestreamleecher.BaseLeecher
	running []string
	events  []string
	// oracle of the current op
	shouldTerminate bool
	cands           []string
	pick            int
}

func newLeechRunner() *leechRunner {
	r := &leechRunner{}
	r.d = basestreamleecher.New(time.Hour, basestreamleecher.Callbacks{
		SelectSessionPeerCandidates: func() []string {
			var out []string
			for _, c := range r.cands {
				if _, ok := r.d.Peers[c]; ok {
					out = append(out, c)
				}
			}
			return out
		},
		ShouldTerminateSession: func() bool { return r.shouldTerminate },
		StartSession: func(candidates []string) {
			p := candidates[r.pick%len(candidates)]
			r.running = append(r.running, p)
			r.events = append(r.events, fmt.Sprintf("start:%d", peerNum(p)))
		},
		TerminateSession: func() {
			r.running = nil
			r.events = append(r.events, "term")
		},
		OngoingSession: func() bool { return len(r.running) != 0 },
		OngoingSessionPeer: func() string {
			if len(r.running) == 0 {
				return ""
			}
			return r.running[0]
		},
	})
	return r
}

func (r *leechRunner) oracle(f []string) {
	r.shouldTerminate, r.cands, r.pick = false, nil, 0
	for _, w := range f {
		switch {
		case strings.HasPrefix(w, "st="):
			r.shouldTerminate = w == "st=1"
		case strings.HasPrefix(w, "c="):
			for _, c := range SplitList(w[2:]) {
				r.cands = append(r.cands, peerName(Atou(c)))
			}
		case strings.HasPrefix(w, "pick="):
			r.pick = int(Atou(w[5:]))
		}
	}
}

func listOr(l []string) string {
	if len(l) == 0 {
		return "-"
	}
	return strings.Join(l, ",")
}

func (r *leechRunner) Step(line string) string {
	f := Fields(line)
	r.events = nil
	switch {
	case f[0] == "routine":
		r.oracle(f[1:])
		r.d.Mu.Lock()
		func() {
			defer r.d.Mu.Unlock()
			r.d.Routine()
		}()
	case f[0] == "reg" && len(f) == 2:
		_ = r.d.RegisterPeer(peerName(Atou(f[1])))
	case f[0] == "unreg" && len(f) >= 2:
		r.oracle(f[2:])
		_ = r.d.UnregisterPeer(peerName(Atou(f[1])))
	case f[0] == "terminate" && len(f) == 1:
		r.d.Terminate()
	default:
		return "bad-op"
	}
	var run, peers []string
	for _, p := range r.running {
		run = append(run, fmt.Sprint(peerNum(p)))
	}
	var pn []uint64
	for p := range r.d.Peers {
		pn = append(pn, peerNum(p))
	}
	sort.Slice(pn, func(i, j int) bool { return pn[i] < pn[j] })
	for _, p := range pn {
		peers = append(peers, fmt.Sprint(p))
	}
	return fmt.Sprintf("ev=%s run=%s peers=%s term=%s", listOr(r.events), listOr(run), listOr(peers), B2s(r.d.Terminated))
}

// all sequences over a 7-symbol alphabet up to the tier's length, then n random cases with richer oracles
func genLeech(r *Rand, n int, tier string, w *bufio.Writer) {
	alphabet := []string{"routine st=0 c=1,2 pick=0", "routine st=1 c=2,1 pick=0", "reg 1", "reg 2",
		"unreg 1 st=0 c=1,2 pick=0", "unreg 2 st=0 c=1,2 pick=1", "terminate"}
	depth := 5
	if tier == "thorough" {
		depth = 7
	}
	c := 0
	idx := make([]int, depth)
	for {
		fmt.Fprintf(w, "# case %d exhaustive\n", c)
		c++
		for _, i := range idx {
			fmt.Fprintf(w, "%s\n", alphabet[i])
		}
		k := depth - 1
		for k >= 0 {
			idx[k]++
			if idx[k] < len(alphabet) {
				break
			}
			idx[k] = 0
			k--
		}
		if k < 0 {
			break
		}
	}
	for i := 0; i < n; i++ {
		fmt.Fprintf(w, "# case %d random\n", c)
		c++
		nPeers := 1 + r.Intn(4)
		cands := func() string {
			var l []string
			for j, k := 0, r.Intn(nPeers+2); j < k; j++ {
				l = append(l, fmt.Sprint(r.Intn(nPeers+2)))
			}
			return listOr(l)
		}
		for j, k := 0, 3+r.Intn(20); j < k; j++ {
			switch r.Intn(10) {
			case 0, 1, 2, 3:
				fmt.Fprintf(w, "routine st=%d c=%s pick=%d\n", r.Intn(2), cands(), r.Intn(5))
			case 4, 5, 6:
				fmt.Fprintf(w, "reg %d\n", r.Intn(nPeers+1)+r.Intn(2))
			case 7, 8:
				fmt.Fprintf(w, "unreg %d st=%d c=%s pick=%d\n", r.Intn(nPeers+2), r.Intn(2), cands(), r.Intn(5))
			default:
				if r.Chance(1, 3) {
					fmt.Fprintf(w, "terminate\n")
				} else {
					fmt.Fprintf(w, "routine st=1 c=%s pick=%d\n", cands(), r.Intn(5))
				}
			}
		}
	}
}

// ---------------------------------------------------------------------------------------------
// peerleech

type peerLeechRunner struct {
	d   *basepeerleecher.BasePeerLeecher
	wg  sync.WaitGroup
	mu  sync.Mutex
	ev  chan struct{}
	num uint32
	sz  uint64

	done, susp bool
	proc       map[uint64]bool

	doneCalls, suspCalls int
	reqs                 []string
}

func (r *peerLeechRunner) signal() {
	select {
	case r.ev <- struct{}{}:
	default:
	}
}

// a wait that times out means the hinted callback never came (the code does not behave like the generator's
// bookkeeping); after the first one the remaining waits are cut short so that a broken tree is reported quickly
var peerLeechTimeouts int

func (r *peerLeechRunner) waitFor(pred func() bool) bool {
	timeout := 5 * time.Second
	if peerLeechTimeouts >= 1 {
		timeout = 20 * time.Millisecond
	}
	deadline := time.Now().Add(timeout)
	for {
		r.mu.Lock()
		ok := pred()
		r.mu.Unlock()
		if ok {
			return true
		}
		if time.Now().After(deadline) {
			peerLeechTimeouts++
			return false
		}
		select {
		case <-r.ev:
		case <-time.After(time.Millisecond):
		}
	}
}

func (r *peerLeechRunner) Step(line string) string {
	f := Fields(line)
	if f[0] == "cfg" && len(f) == 2 {
		r.Close()
		par := Atou(f[1])
		if par == 0 {
			return "bad-cfg"
		}
		*r = peerLeechRunner{ev: make(chan struct{}, 1), num: 7, sz: 77, proc: map[uint64]bool{}}
		r.d = basepeerleecher.New(&r.wg, basepeerleecher.EpochDownloaderConfig{
			RecheckInterval: time.Hour, DefaultChunkItemsNum: r.num, DefaultChunkItemsSize: r.sz, ParallelChunksDownload: int(par),
		}, basepeerleecher.EpochDownloaderCallbacks{
			IsProcessed: func(id interface{}) bool {
				r.mu.Lock()
				defer r.mu.Unlock()
				return r.proc[id.(uint64)]
			},
			RequestChunks: func(maxNum uint32, maxSize uint64, maxChunks uint32) error {
				r.mu.Lock()
				if maxNum != r.num || maxSize != r.sz {
					r.reqs = append(r.reqs, "badargs")
				} else {
					r.reqs = append(r.reqs, fmt.Sprint(maxChunks))
				}
				r.mu.Unlock()
				r.signal()
				return nil
			},
			Suspend: func() bool {
				r.mu.Lock()
				r.suspCalls++
				v := r.susp
				r.mu.Unlock()
				r.signal()
				return v
			},
			Done: func() bool {
				r.mu.Lock()
				r.doneCalls++
				v := r.done
				r.mu.Unlock()
				r.signal()
				return v
			},
		})
		r.d.Start()
		return "ok"
	}
	if r.d == nil {
		return "nocfg"
	}
	switch {
	case f[0] == "chunk" && len(f) >= 2:
		hint := ""
		r.mu.Lock()
		r.done, r.susp, r.proc = false, false, map[uint64]bool{}
		for _, w := range f[2:] {
			switch {
			case w == "done=1":
				r.done = true
			case w == "susp=1":
				r.susp = true
			case strings.HasPrefix(w, "proc="):
				for _, p := range SplitList(w[5:]) {
					r.proc[Atou(p)] = true
				}
			case strings.HasPrefix(w, "sync="):
				hint = w[5:]
			}
		}
		r.reqs = nil
		susp0, nreq0 := r.suspCalls, 0
		r.mu.Unlock()
		_ = r.d.NotifyChunkReceived(Atou(f[1]))
		ok := true
		switch hint {
		case "done":
			ok = r.waitFor(func() bool { return r.d.Stopped() })
		case "susp":
			ok = r.waitFor(func() bool { return r.suspCalls > susp0 })
		case "req":
			ok = r.waitFor(func() bool { return len(r.reqs) > nreq0 })
		}
		if !ok {
			return "timeout"
		}
	case f[0] == "terminate" && len(f) == 1:
		r.mu.Lock()
		r.reqs = nil
		r.mu.Unlock()
		r.d.Terminate()
	default:
		return "bad-op"
	}
	r.mu.Lock()
	defer r.mu.Unlock()
	return fmt.Sprintf("req=%s stopped=%s", listOr(r.reqs), B2s(r.d.Stopped()))
}

func (r *peerLeechRunner) Close() {
	if r.d != nil {
		r.d.Stop()
		r.d = nil
	}
}

func genPeerLeech(r *Rand, n int, tier string, w *bufio.Writer) {
	maxOps := 40
	if tier == "thorough" {
		maxOps = 120
	}
	for c := 0; c < n; c++ {
		fmt.Fprintf(w, "# case %d\n", c)
		par := int(r.Pick(1, 1, 2, 3, 5))
		fmt.Fprintf(w, "cfg %d\n", par)
		// generator-side bookkeeping, only to name the callback the harness has to wait for
		stopped := false
		var processing []uint64
		requested, processed := 0, 0
		stuck := r.Chance(1, 6) // the application rarely reports progress: the processing list fills up
		nextID := uint64(1)
		for i, k := 0, 3+r.Intn(maxOps); i < k; i++ {
			if stopped && r.Chance(2, 3) {
				break
			}
			if r.Chance(1, 60) {
				fmt.Fprintf(w, "terminate\n")
				stopped = true
				continue
			}
			id := nextID
			if len(processing) > 0 && r.Chance(1, 10) {
				id = processing[r.Intn(len(processing))] // a chunk id seen before
			} else {
				nextID++
			}
			done := r.Chance(1, 40)
			susp := r.Chance(1, 5)
			all := append(append([]uint64{}, processing...), id)
			var proc []uint64
			switch {
			case stuck && r.Chance(5, 6):
			case r.Chance(1, 3):
				proc = all
			default:
				for _, p := range all {
					if r.Bool() {
						proc = append(proc, p)
					}
				}
			}
			if r.Chance(1, 10) {
				proc = append(proc, nextID+5) // an id that is not being processed
			}
			hint := "none"
			if !stopped && len(processing) < par*2 {
				processing = append(processing, id)
				if done {
					stopped, hint = true, "done"
				} else {
					isProc := map[uint64]bool{}
					for _, p := range proc {
						isProc[p] = true
					}
					var left []uint64
					for _, p := range processing {
						if isProc[p] {
							processed++
						} else {
							left = append(left, p)
						}
					}
					processing = left
					hint = "susp"
					if !susp && requested < processed+par {
						requested = processed + par
						hint = "req"
					}
				}
			}
			fmt.Fprintf(w, "chunk %d done=%s susp=%s proc=%s sync=%s\n", id, B2s(done), B2s(susp), listOr(strings.Fields(strings.Trim(fmt.Sprint(proc), "[]"))), hint)
		}
	}
}
