package main

// Stream `fetch` (C16, judge mode): timed scenarios on the real itemsfetcher.Fetcher.
//
// One op line = one scenario: `scen fg=.. ar=.. ga=.. hl=.. | <script>` (µs). The output line is the harness-side
// event log (see lean/Driver/Gossip.lean, namespace Drv.Fetch). Every loop event is observed through the
// fetcher's own callbacks: a notification batch through the OnlyInterested call that receives the very slice the
// harness submitted (identity of the first element), a timer fire through the OnlyInterested call with a fresh
// slice, requests through the ItemsRequesterFn. NotifyReceived has no callback: the harness follows it with 60
// no-op notifications (an id nobody is interested in), after which the batch has been handled except with
// probability (2/3)^60; whether it was handled before or after a timer fire in between is decided by the judge
// from the announced set that fire reports.
// A scenario the judge does not accept (or calls inconclusive) is run again, up to 3 times, before its log is
// reported: scheduler noise on a loaded machine must never raise an alarm.

import (
	. "verifharness/hlib"

	"bufio"
	"bytes"
	"fmt"
	"os"
	"os/exec"
	"path/filepath"
	"strings"
	"sync"
	"time"

	"github.com/Fantom-foundation/lachesis-base/gossip/itemsfetcher"
	"github.com/Fantom-foundation/lachesis-base/utils/cachescale"
)

func init() {
	Register("fetch", &Stream{Gen: genFetch, NewRunner: func() Runner { return RunnerFunc(fetchStep) }})
}

const fetchSentinel = uint64(1 << 40)

type fetchRun struct {
	mu          sync.Mutex
	base        time.Time
	log         []string
	interesting map[uint64]bool // ids reported NOT interesting are stored as false; default true
	suspended   bool
	expect      *interface{} // first element of the submitted batch
	expectPeer  uint64
	expectAnn   int64
	seen        chan struct{}
	lastN       int // index of the last N record (susp is patched in by the Suspend callback)
	fires       int
}

func (r *fetchRun) now() int64 { return int64(time.Since(r.base) / time.Microsecond) }

func idsStr(ids []interface{}) string {
	if len(ids) == 0 {
		return "-"
	}
	s := make([]string, len(ids))
	for i, id := range ids {
		s[i] = fmt.Sprint(id.(uint64))
	}
	return strings.Join(s, ",")
}

func (r *fetchRun) onlyInterested(ids []interface{}) []interface{} {
	r.mu.Lock()
	defer r.mu.Unlock()
	t := r.now()
	var res []interface{}
	for _, id := range ids {
		v, ok := r.interesting[id.(uint64)]
		if id.(uint64) != fetchSentinel && (!ok || v) {
			res = append(res, id)
		}
	}
	if len(ids) > 0 && r.expect != nil && &ids[0] == r.expect {
		r.expect = nil
		if ids[0].(uint64) != fetchSentinel {
			r.lastN = len(r.log)
			r.log = append(r.log, fmt.Sprintf("N:%d:%d:%d:%s:%s:", t, r.expectPeer, r.expectAnn, idsStr(ids), idsStr(res)))
		}
		close(r.seen)
		return res
	}
	r.fires++
	r.log = append(r.log, fmt.Sprintf("F:%d:%s:%s", t, idsStr(ids), idsStr(res)))
	return res
}

func (r *fetchRun) suspend() bool {
	r.mu.Lock()
	defer r.mu.Unlock()
	if r.lastN >= 0 && strings.HasSuffix(r.log[r.lastN], ":") {
		r.log[r.lastN] += B2s(r.suspended)
	}
	return r.suspended
}

func (r *fetchRun) requester(peer uint64) itemsfetcher.ItemsRequesterFn {
	return func(ids []interface{}) error {
		r.mu.Lock()
		r.log = append(r.log, fmt.Sprintf("Q:%d:%d:%s", r.now(), peer, idsStr(ids)))
		r.mu.Unlock()
		return nil
	}
}

// announce submits one batch and waits until the loop has started handling it.
func (r *fetchRun) announce(f *itemsfetcher.Fetcher, peer uint64, ids []interface{}, annTime time.Time) bool {
	r.mu.Lock()
	r.expect, r.expectPeer = &ids[0], peer
	r.expectAnn = int64(annTime.Sub(r.base) / time.Microsecond)
	r.seen = make(chan struct{})
	seen := r.seen
	r.mu.Unlock()
	_ = f.NotifyAnnounces(fmt.Sprintf("p%d", peer), ids, annTime, r.requester(peer))
	select {
	case <-seen:
		return true
	case <-time.After(3 * time.Second):
		return false
	}
}

func parseIDs(s string) []interface{} {
	var ids []interface{}
	for _, x := range SplitList(s) {
		ids = append(ids, Atou(x))
	}
	return ids
}

// runScenario executes the script once and returns the log line.
func runScenario(cfgWords, script []string) string {
	us := func(k string) time.Duration { return time.Duration(kvOf(cfgWords, k)) * time.Microsecond }
	arrive := us("ar")
	r := &fetchRun{base: time.Now().Add(-10 * time.Second), interesting: map[uint64]bool{}, lastN: -1}
	cfg := itemsfetcher.Config{
		ForgetTimeout: us("fg"), ArriveTimeout: arrive, GatherSlack: us("ga"), HashLimit: int(kvOf(cfgWords, "hl")),
		MaxBatch: 64, MaxParallelRequests: 4, MaxQueuedBatches: 16,
	}
	if sc := kvOf(cfgWords, "sc"); sc != 0 {
		// the batch and queue sizes a node with a small cache scale derives are never 0 (DefaultConfig rounds up);
		// with a zero batch size nothing announced would ever be requested
		d := itemsfetcher.DefaultConfig(cachescale.Ratio{Base: sc, Target: 1})
		if d.MaxBatch <= 0 || d.MaxQueuedBatches <= 0 || d.MaxParallelRequests <= 0 {
			return "log X:derived-config-has-zero-sizes"
		}
	}
	f := itemsfetcher.New(cfg, itemsfetcher.Callback{OnlyInterested: r.onlyInterested, Suspend: r.suspend})
	f.Start()
	defer f.Stop()
	// the initial timer (NewTimer(0)) fires first
	deadline := time.Now().Add(2 * time.Second)
	for {
		r.mu.Lock()
		n := r.fires
		r.mu.Unlock()
		if n > 0 {
			break
		}
		if time.Now().After(deadline) {
			return "log X:initial-fire-missing"
		}
		time.Sleep(200 * time.Microsecond)
	}
	announced := false
	for _, a := range script {
		p := strings.Split(a, ":")
		switch p[0] {
		case "w":
			time.Sleep(time.Duration(Atou(p[1])) * time.Microsecond)
		case "s":
			r.mu.Lock()
			r.suspended = p[1] == "1"
			r.log = append(r.log, fmt.Sprintf("S:%d:%s", r.now(), p[1]))
			r.mu.Unlock()
		case "x", "y":
			r.mu.Lock()
			for _, id := range parseIDs(p[1]) {
				r.interesting[id.(uint64)] = p[0] == "y"
			}
			r.log = append(r.log, fmt.Sprintf("%s:%d:%s", strings.ToUpper(p[0]), r.now(), p[1]))
			r.mu.Unlock()
		case "n":
			ids := parseIDs(p[2])
			if len(ids) == 0 {
				continue
			}
			announced = true
			if !r.announce(f, Atou(p[1]), ids, time.Now().Add(-time.Duration(Atou(p[3]))*time.Microsecond)) {
				return "log X:notification-not-handled"
			}
		case "r":
			ids := parseIDs(p[1])
			if len(ids) == 0 {
				continue
			}
			r.mu.Lock()
			r.log = append(r.log, fmt.Sprintf("Rc:%d:%s", r.now(), idsStr(ids)))
			r.mu.Unlock()
			_ = f.NotifyReceived(ids)
			for i := 0; i < 60; i++ {
				if !r.announce(f, 0, []interface{}{fetchSentinel}, time.Now()) {
					return "log X:sentinel-not-handled"
				}
			}
			r.mu.Lock()
			r.log = append(r.log, fmt.Sprintf("Rd:%d:%s", r.now(), idsStr(ids)))
			r.mu.Unlock()
		}
	}
	if announced {
		// long enough for the judge's bound: arming time + 2*ArriveTimeout + 300 ms
		time.Sleep(2*arrive + 360*time.Millisecond)
	}
	r.mu.Lock()
	defer r.mu.Unlock()
	r.log = append(r.log, fmt.Sprintf("E:%d", r.now()))
	return "log " + strings.Join(r.log, " ")
}

var fetchJudge = func() string {
	if p := os.Getenv("VERIF_DRIVER_GOSSIP"); p != "" {
		return p
	}
	exe, err := os.Executable()
	if err != nil {
		return ""
	}
	p := filepath.Join(filepath.Dir(exe), "..", "lean", ".lake", "build", "bin", "lvdriver-gossip")
	if _, err := os.Stat(p); err != nil {
		return ""
	}
	return p
}()

// judged asks the Lean judge (the same the check uses) whether the log is accepted; "" if it cannot be asked.
func judged(line, log string) string {
	if fetchJudge == "" {
		return ""
	}
	cmd := exec.Command(fetchJudge, "fetch")
	cmd.Stdin = strings.NewReader(line + "\n> " + log + "\n")
	var out bytes.Buffer
	cmd.Stdout = &out
	if err := cmd.Run(); err != nil {
		return ""
	}
	l := strings.Split(strings.TrimSpace(out.String()), "\n")
	return l[len(l)-1]
}

func fetchStep(line string) string {
	f := Fields(line)
	if f[0] != "scen" {
		return "bad-op"
	}
	sep := len(f)
	for i, w := range f {
		if w == "|" {
			sep = i
		}
	}
	cfgWords := f[1:sep]
	var script []string
	if sep < len(f) {
		script = f[sep+1:]
	}
	if kvOf(cfgWords, "ar") == 0 || kvOf(cfgWords, "hl") == 0 {
		return "bad-op"
	}
	log := ""
	for attempt := 0; attempt < 3; attempt++ {
		log = runScenario(cfgWords, script)
		v := judged(line, log)
		if v == "" || v == "ok" {
			break
		}
	}
	return log
}

// ---------------------------------------------------------------------------------------------

func genFetch(r *Rand, n int, tier string, w *bufio.Writer) {
	for c := 0; c < n; c++ {
		arrive := r.Pick(20000, 30000, 40000, 60000)
		gather := arrive / r.Pick(3, 5, 7)
		forget := r.Pick(10000000, 10000000, 6*arrive+arrive/7)
		hl := r.Pick(2048, 2048, 2048, 3, 5)
		kind := c % 8
		if kind == 1 {
			hl = 2048
		}
		fmt.Fprintf(w, "# case %d kind=%d\n", c, kind)
		var s []string
		add := func(format string, a ...interface{}) { s = append(s, fmt.Sprintf(format, a...)) }
		wait := func(num, den uint64) { add("w:%d", arrive*num/den) }
		ids := func(from, k int) string {
			var l []string
			for i := 0; i < k; i++ {
				l = append(l, fmt.Sprint(from+i))
			}
			return strings.Join(l, ",")
		}
		switch kind {
		case 1:
			// DESIGN 7-D3: announcements while suspended, after the initial timer fire, and nothing else
			add("s:1")
			wait(uint64(r.Intn(3)), 2)
			add("n:%d:%s:0", 1+r.Intn(3), ids(1, 1+r.Intn(3)))
			if r.Bool() {
				wait(1, 3)
				add("n:%d:%s:0", 1+r.Intn(3), ids(2, 2))
			}
			wait(3, 1)
		case 2:
			// suspended announcements, later an unsuspended one for other items, receipts
			add("s:1")
			add("n:1:%s:0", ids(1, 2))
			wait(1, 2)
			add("s:0")
			add("n:2:%s:0", ids(3, 2))
			wait(1, 2)
			add("r:3")
			wait(2, 1)
			add("r:1,4")
			wait(2, 1)
		case 3:
			// interest withdrawn, then announced anew
			add("n:1:%s:0", ids(1, 3))
			add("n:2:%s:0", ids(2, 2))
			wait(3, 2)
			add("x:2")
			wait(2, 1)
			add("y:2")
			add("n:3:2:0")
			wait(2, 1)
		case 4:
			// old announcements are forgotten
			add("n:1:%s:%d", ids(1, 2), forget+100000)
			add("s:1")
			add("n:2:%s:%d", ids(5, 2), forget+100000)
			add("n:2:9:0")
			wait(3, 1)
		default:
			nPeers := 1 + r.Intn(3)
			nIDs := 2 + r.Intn(6)
			for i, k := 0, 4+r.Intn(9); i < k; i++ {
				switch r.Intn(10) {
				case 0, 1, 2, 3:
					from := 1 + r.Intn(nIDs)
					add("n:%d:%s:%d", 1+r.Intn(nPeers), ids(from, 1+r.Intn(3)), r.Pick(0, 0, 0, 1000, arrive))
				case 4, 5:
					add("r:%s", ids(1+r.Intn(nIDs), 1+r.Intn(2)))
				case 6:
					add("s:%d", r.Intn(2))
				case 7:
					if r.Bool() {
						add("x:%d", 1+r.Intn(nIDs))
					} else {
						add("y:%d", 1+r.Intn(nIDs))
					}
				default:
				}
				wait(uint64(r.Intn(8)), 4)
			}
		}
		sc := ""
		if r.Chance(1, 4) {
			sc = fmt.Sprintf(" sc=%d", r.Pick(8, 100, 1024, 100000))
		}
		fmt.Fprintf(w, "scen fg=%d ar=%d ga=%d hl=%d%s | %s\n", forget, arrive, gather, hl, sc, strings.Join(s, " "))
	}
}
