package main

// Runner shared by the streams `kv` (C23), `kvflush` (C22), `kvtable` (C24): a tree of named
// stores over one real backend. Protocol (keys/values in hex, "-" = empty, "nil" = nil slice):
//
//	open <mem|ldb|pbl>                    base store `b` (behind a Compact recorder)
//	wrap <name> <inner> t <prefix>|f|lf|s table / flushable / lazy flushable / synced over <inner>
//	put|del|get|has <name> ...            iter <name> <prefix|nil> <start|nil>   (drained at once)
//	batch <name> w|r|rb [<target>] <ops>  ops = p:k:v,d:k ; w = Write, r = Replay(target),
//	                                      rb = Replay into a batch of target, then Write it
//	snap <sid> <name> | sget|shas <sid> k | siter <sid> p s | srel <sid>
//	flush|drop|nfp|nfs <name>             Flush / DropNotFlushed / NotFlushedPairs / NotFlushedSizeEst
//	init <name>                           LazyFlushable.InitUnderlyingDb
//	compact <name> <start|nil> <limit|nil>  -> the range that reached the backend (which compacts it)
//	settle <name>                         Stat("sync_flush") through the stack + a full engine compaction
//	incp <prefix> | nop <key> <prefix> | bpr ldb|pbl <prefix|nil> <start|nil>   (pure helpers)

import (
	. "verifharness/hlib"

	"bufio"
	"fmt"
	"os"
	"path/filepath"
	"strings"
	"sync"
	"time"

	"github.com/Fantom-foundation/lachesis-base/kvdb"
	"github.com/Fantom-foundation/lachesis-base/kvdb/flushable"
	"github.com/Fantom-foundation/lachesis-base/kvdb/leveldb"
	"github.com/Fantom-foundation/lachesis-base/kvdb/memorydb"
	"github.com/Fantom-foundation/lachesis-base/kvdb/pebble"
	"github.com/Fantom-foundation/lachesis-base/kvdb/synced"
	"github.com/Fantom-foundation/lachesis-base/kvdb/table"
)

func init() {
	for _, name := range []string{"kv", "kvflush", "kvtable"} {
		name := name
		Register(name, &Stream{
			Gen:       func(r *Rand, n int, tier string, w *bufio.Writer) { genKV(name, r, n, tier, w) },
			NewRunner: func() Runner { return &kvRunner{nodes: map[string]*kvNode{}, snaps: map[string]kvdb.Snapshot{}} },
		})
	}
}

// recorder forwards everything to the backend except Compact, whose arguments it records.
type recorder struct {
	kvdb.Store
	last string
}

func (r *recorder) Compact(start, limit []byte) error {
	r.last = optHex(start) + ".." + optHex(limit)
	// the engine really compacts the range (an engine may refuse an empty or inverted range: that is
	// not part of the key-value semantics, the recorded range is what the stream compares)
	_ = r.Store.Compact(start, limit)
	return nil
}

type kvNode struct {
	store kvdb.Store
	tb    *table.Table
	fl    *flushable.Flushable
	lf    *flushable.LazyFlushable
}

type kvRunner struct {
	dir    string
	nodes  map[string]*kvNode
	snaps  map[string]kvdb.Snapshot
	rec    *recorder
	closer func() error
	// a guarded operation never returned: locks of the wrappers may be held for ever
	abandoned bool
}

var caseSeq int

func optHex(b []byte) string {
	if b == nil {
		return "nil"
	}
	return HexOf(b)
}

func optBytes(s string) []byte {
	if s == "nil" {
		return nil
	}
	return Unhex(s)
}

func errStr(err error) string {
	if err == nil {
		return "ok"
	}
	return "err " + strings.ReplaceAll(err.Error(), "\n", " ")
}

func drainIt(it kvdb.Iterator) string {
	defer it.Release()
	var sb strings.Builder
	n := 0
	for it.Next() {
		if n > 0 {
			sb.WriteByte(' ')
		}
		n++
		if n > 100000 {
			return "err iterator does not end"
		}
		sb.WriteString(HexOf(it.Key())) // a nil and an empty key are the same key
		sb.WriteByte(':')
		sb.WriteString(optHex(it.Value()))
	}
	if err := it.Error(); err != nil {
		return errStr(err)
	}
	if n == 0 {
		return "."
	}
	return sb.String()
}

func (q *kvRunner) open(backend string) string {
	var base kvdb.Store
	switch backend {
	case "mem":
		base = memorydb.New()
	case "ldb", "pbl":
		caseSeq++
		q.dir = filepath.Join(os.TempDir(), fmt.Sprintf("kv-harness-%d", os.Getpid()), fmt.Sprintf("c%d", caseSeq))
		if err := os.MkdirAll(q.dir, 0o700); err != nil {
			return errStr(err)
		}
		if backend == "ldb" {
			db, err := leveldb.New(q.dir, 16*1024*1024, 0, nil, nil)
			if err != nil {
				return errStr(err)
			}
			base, q.closer = db, db.Close
		} else {
			db, err := pebble.New(q.dir, 16*1024*1024, 100, nil, nil)
			if err != nil {
				return errStr(err)
			}
			base, q.closer = db, db.Close
		}
	default:
		return "bad-op"
	}
	q.rec = &recorder{Store: base}
	q.nodes["b"] = &kvNode{store: q.rec}
	return "ok"
}

func (q *kvRunner) Close() {
	if !q.abandoned { // releasing through a dead-locked wrapper would block
		for _, s := range q.snaps {
			s.Release()
		}
	}
	q.snaps = nil
	if q.closer != nil {
		_ = q.closer()
		q.closer = nil
	}
	if q.dir != "" {
		_ = os.RemoveAll(q.dir)
		// remove the per-process directory when it became empty
		_ = os.Remove(filepath.Dir(q.dir))
		q.dir = ""
	}
}

// scribble overwrites a buffer the harness handed to the store: after Put / Delete / batch.Put
// return, the caller owns its slices again and may reuse them (C22, C23: values must have been copied).
func scribble(bs ...[]byte) {
	for _, b := range bs {
		for i := range b {
			b[i] ^= 0xa5
		}
	}
}

type bop struct {
	del  bool
	k, v []byte
}

func parseOps(s string) []bop {
	var res []bop
	for _, x := range SplitList(s) {
		f := strings.Split(x, ":")
		if f[0] == "d" {
			res = append(res, bop{del: true, k: Unhex(f[1])})
		} else {
			res = append(res, bop{k: Unhex(f[1]), v: Unhex(f[2])})
		}
	}
	return res
}

// replayGuard bounds a Replay into a store (generous: a replay of a few operations takes microseconds).
const replayGuard = 2 * time.Second

func (q *kvRunner) Step(line string) string {
	f := Fields(line)
	if len(f) == 0 {
		return "bad-op"
	}
	if q.abandoned {
		return "abandoned"
	}
	// pure helpers
	switch f[0] {
	case "open":
		return q.open(f[1])
	case "incp":
		return optHex(table.IncPrefixVerif(Unhex(f[1])))
	case "nop":
		return optHex(table.NoPrefixVerif(Unhex(f[1]), Unhex(f[2])))
	case "bpr":
		if f[1] == "ldb" {
			lo, hi := leveldb.BytesPrefixRangeVerif(optBytes(f[2]), optBytes(f[3]))
			// a nil and an empty lower bound both mean "from the first key"
			return HexOf(lo) + ".." + optHex(hi)
		}
		all, lo, hi := pebble.BytesPrefixRangeVerif(optBytes(f[2]), optBytes(f[3]))
		if all {
			return "all"
		}
		return HexOf(lo) + ".." + optHex(hi)
	case "sget", "shas", "siter", "srel":
		s, ok := q.snaps[f[1]]
		if !ok {
			return "nosnap"
		}
		switch f[0] {
		case "sget":
			v, err := s.Get(Unhex(f[2]))
			if err != nil {
				return errStr(err)
			}
			return optHex(v)
		case "shas":
			ok, err := s.Has(Unhex(f[2]))
			if err != nil {
				return errStr(err)
			}
			return B2s(ok)
		case "siter":
			return drainIt(s.NewIterator(optBytes(f[2]), optBytes(f[3])))
		}
		s.Release()
		delete(q.snaps, f[1])
		return "ok"
	}
	if len(f) < 2 {
		return "bad-op"
	}
	if f[0] == "wrap" {
		inner, ok := q.nodes[f[2]]
		if !ok {
			return "nostore"
		}
		switch f[3] {
		case "t":
			// the prefix slice has spare capacity (as slices cut from a buffer have); a table over a
			// table is made the way applications do it, with NewTable
			raw := Unhex(f[4])
			pfx := make([]byte, len(raw), len(raw)+16)
			copy(pfx, raw)
			var tb *table.Table
			if inner.tb != nil {
				tb = inner.tb.NewTable(pfx)
			} else {
				tb = table.New(inner.store, pfx)
			}
			q.nodes[f[1]] = &kvNode{store: tb, tb: tb}
		case "f":
			fl := flushable.Wrap(inner.store)
			q.nodes[f[1]] = &kvNode{store: fl, fl: fl}
		case "lf":
			lf := flushable.NewLazy(func() (kvdb.Store, error) { return inner.store, nil }, nil)
			q.nodes[f[1]] = &kvNode{store: lf, fl: lf.Flushable, lf: lf}
		case "s":
			q.nodes[f[1]] = &kvNode{store: synced.WrapStore(inner.store, new(sync.RWMutex))}
		default:
			return "bad-op"
		}
		return "ok"
	}
	var nd *kvNode
	if f[0] == "snap" {
		nd = q.nodes[f[2]]
	} else {
		nd = q.nodes[f[1]]
	}
	if nd == nil {
		return "nostore"
	}
	st := nd.store
	switch f[0] {
	case "put":
		k, v := Unhex(f[2]), Unhex(f[3])
		err := st.Put(k, v)
		scribble(k, v)
		return errStr(err)
	case "del":
		k := Unhex(f[2])
		err := st.Delete(k)
		scribble(k)
		return errStr(err)
	case "get":
		k := Unhex(f[2])
		v, err := st.Get(k)
		scribble(k)
		if err != nil {
			return errStr(err)
		}
		res := optHex(v)
		scribble(v) // the result is the caller's own copy
		return res
	case "init":
		if nd.lf == nil {
			return "nolazy"
		}
		_, err := nd.lf.InitUnderlyingDb()
		return errStr(err)
	case "has":
		ok, err := st.Has(Unhex(f[2]))
		if err != nil {
			return errStr(err)
		}
		return B2s(ok)
	case "iter":
		return drainIt(st.NewIterator(optBytes(f[2]), optBytes(f[3])))
	case "batch":
		b := st.NewBatch()
		mode := f[2]
		opsArg := f[len(f)-1]
		for _, o := range parseOps(opsArg) {
			var err error
			if o.del {
				err = b.Delete(o.k)
			} else {
				err = b.Put(o.k, o.v)
			}
			scribble(o.k, o.v)
			if err != nil {
				return errStr(err)
			}
		}
		switch mode {
		case "w":
			return errStr(b.Write())
		case "r", "rb":
			tg := q.nodes[f[3]]
			if tg == nil {
				return "nostore"
			}
			if mode == "r" {
				// Replay calls the writer while the batch may hold a lock (synced): run it under a guard
				done := make(chan error, 1)
				go func() {
					defer func() {
						if p := recover(); p != nil {
							done <- fmt.Errorf("panic %v", p)
						}
					}()
					done <- b.Replay(tg.store)
				}()
				select {
				case err := <-done:
					return errStr(err)
				case <-time.After(replayGuard):
					// the goroutine is stuck inside the store: abandon the case's stores
					q.abandoned = true
					return "deadlock"
				}
			}
			nb := tg.store.NewBatch()
			if err := b.Replay(nb); err != nil {
				return errStr(err)
			}
			return errStr(nb.Write())
		}
		return "bad-op"
	case "snap":
		if old, ok := q.snaps[f[1]]; ok {
			old.Release()
		}
		s, err := st.GetSnapshot()
		if err != nil {
			return errStr(err)
		}
		q.snaps[f[1]] = s
		return "ok"
	case "flush":
		if nd.lf != nil {
			return errStr(nd.lf.Flush())
		}
		if nd.fl != nil {
			return errStr(nd.fl.Flush())
		}
		return "noflushable"
	case "drop":
		if nd.fl != nil {
			nd.fl.DropNotFlushed()
			return "ok"
		}
		return "noflushable"
	case "nfp":
		if nd.fl != nil {
			return fmt.Sprint(nd.fl.NotFlushedPairs())
		}
		return "noflushable"
	case "nfs":
		if nd.fl != nil {
			return fmt.Sprint(nd.fl.NotFlushedSizeEst())
		}
		return "noflushable"
	case "settle":
		// force the engine to move what it holds in memory into its tables and to compact them: the
		// identity on the key-value content (pebble: Stat("sync_flush"); other stores may not know the property)
		_, _ = st.Stat("sync_flush")
		_ = q.rec.Store.Compact(nil, nil)
		return "ok"
	case "compact":
		q.rec.last = "none"
		if err := st.Compact(optBytes(f[2]), optBytes(f[3])); err != nil {
			return errStr(err)
		}
		return q.rec.last
	}
	return "bad-op"
}
