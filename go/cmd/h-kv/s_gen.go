package main

// Generators of the streams kv / kvflush / kvtable: op sequences over key alphabets built to
// collide on prefixes ({00,01,fe,ff}* up to length 4), 0xff-boundary prefixes, start keys inside
// and outside the prefix, empty values, through every backend and wrapper stacking.

import (
	. "verifharness/hlib"

	"bufio"
	"fmt"
	"strings"
)

var alpha = []byte{0x00, 0x01, 0xfe, 0xff}

type kvGen struct {
	r       *Rand
	pool    [][]byte
	stores  []string // all store names, base first
	flush   []string // names of flushable / lazy flushable stores
	lazies  []string // names of the lazy ones
	tabs    map[string][]byte
	tabList [][]byte
	parent  map[string]string
	syncedS map[string]bool
	isFlush map[string]bool
	backend string
	snaps   int
	opNo    int
}

func (g *kvGen) rawKey(maxLen int) []byte {
	n := []int{0, 1, 1, 1, 2, 2, 2, 2, 2, 3, 3, 3, 3, 4, 4}[g.r.Intn(15)]
	if n > maxLen {
		n = maxLen
	}
	b := make([]byte, n)
	for i := range b {
		b[i] = alpha[g.r.Intn(4)]
	}
	return b
}

func (g *kvGen) mkPool(extra ...[]byte) {
	g.pool = nil
	stems := [][]byte{g.rawKey(2), g.rawKey(2)}
	stems = append(stems, extra...)
	for _, s := range stems {
		g.pool = append(g.pool, s)
		for i := 0; i < 2; i++ {
			k := append(append([]byte{}, s...), g.rawKey(2)...)
			if len(k) > 4 {
				k = k[:4]
			}
			g.pool = append(g.pool, k)
		}
	}
	g.pool = append(g.pool, []byte{0xff}, []byte{0xff, 0xff}, g.rawKey(4))
}

func (g *kvGen) key() []byte {
	if g.r.Chance(1, 7) {
		return g.rawKey(4)
	}
	k := g.pool[g.r.Intn(len(g.pool))]
	// keys aimed at stores below a table: inside that table's key space
	if len(g.tabList) > 0 && g.r.Chance(1, 3) {
		k = append(append([]byte{}, g.tabList[g.r.Intn(len(g.tabList))]...), k...)
	}
	return k
}

func (g *kvGen) val() string {
	g.opNo++
	switch g.r.Intn(8) {
	case 0, 1:
		return "-" // empty value, distinct from absent
	case 2:
		return []string{"00", "ff", "0000", "aa55"}[g.r.Intn(4)]
	}
	return fmt.Sprintf("%04x", g.opNo&0xffff)
}

func (g *kvGen) iterArgs() (string, string) {
	var p []byte
	ps := "nil"
	switch g.r.Intn(10) {
	case 0, 1, 2:
	case 3:
		p, ps = []byte{}, "-"
	case 4:
		p = [][]byte{{0xff}, {0xff, 0xff}, {0xfe}, {0x00}, {0xfe, 0xff}, {0x00, 0xff}}[g.r.Intn(6)]
		ps = HexOf(p)
	default:
		k := g.key()
		p = k[:g.r.Intn(len(k)+1)]
		ps = HexOf(p)
	}
	ss := "nil"
	switch g.r.Intn(8) {
	case 0, 1, 2:
	case 3:
		ss = "-"
	case 4, 5: // a start key inside the prefix: the rest of a pool key that has the prefix
		for try := 0; try < 6; try++ {
			k := g.key()
			if len(k) >= len(p) && string(k[:len(p)]) == string(p) {
				ss = HexOf(k[len(p):])
				break
			}
		}
		if ss == "nil" {
			ss = HexOf(g.rawKey(2))
		}
	default: // anywhere
		ss = HexOf(g.rawKey(3))
	}
	return ps, ss
}

func (g *kvGen) batchOps() string { return g.batchOpsFor("", false) }

func (g *kvGen) batchOpsFor(s string, replay bool) string {
	n := 1 + g.r.Intn(5)
	var parts []string
	for i := 0; i < n; i++ {
		if g.r.Chance(1, 3) {
			parts = append(parts, "d:"+HexOf(g.key()))
		} else {
			parts = append(parts, "p:"+HexOf(g.key())+":"+g.val())
		}
	}
	return strings.Join(parts, ",")
}

func (g *kvGen) target() string {
	if g.r.Chance(7, 10) {
		return g.stores[len(g.stores)-1]
	}
	return g.stores[g.r.Intn(len(g.stores))]
}

// one random data operation on store s
func (g *kvGen) dataOp(w *bufio.Writer, s string) {
	switch x := g.r.Intn(100); {
	case x < 26:
		fmt.Fprintf(w, "put %s %s %s\n", s, HexOf(g.key()), g.val())
	case x < 37:
		fmt.Fprintf(w, "del %s %s\n", s, HexOf(g.key()))
	case x < 49:
		fmt.Fprintf(w, "get %s %s\n", s, HexOf(g.key()))
	case x < 55:
		fmt.Fprintf(w, "has %s %s\n", s, HexOf(g.key()))
	case x < 76:
		p, st := g.iterArgs()
		fmt.Fprintf(w, "iter %s %s %s\n", s, p, st)
	case x < 86:
		switch g.r.Intn(5) {
		case 0:
			tg := g.stores[g.r.Intn(len(g.stores))]
			mode := "r"
			if g.sharesMutex(s, tg) {
				// syncedBatch.Replay holds the store's mutex while it calls the writer: replaying into a
				// store behind the same mutex dead-locks (known finding, kept as corpus/kv/synced-replay-self.ops,
				// not generated at random)
				mode = "rb"
			}
			fmt.Fprintf(w, "batch %s %s %s %s\n", s, mode, tg, g.batchOpsFor(s, true))
		case 1:
			fmt.Fprintf(w, "batch %s rb %s %s\n", s, g.stores[g.r.Intn(len(g.stores))], g.batchOpsFor(s, true))
		default:
			fmt.Fprintf(w, "batch %s w %s\n", s, g.batchOps())
		}
	case x < 90:
		if g.snaps < 3 {
			g.snaps++
		}
		fmt.Fprintf(w, "snap s%d %s\n", g.r.Intn(g.snaps), s)
	default:
		if g.snaps == 0 {
			fmt.Fprintf(w, "get %s %s\n", s, HexOf(g.key()))
			return
		}
		sid := g.r.Intn(g.snaps)
		switch g.r.Intn(8) {
		case 0, 1, 2:
			fmt.Fprintf(w, "sget s%d %s\n", sid, HexOf(g.key()))
		case 3:
			fmt.Fprintf(w, "shas s%d %s\n", sid, HexOf(g.key()))
		case 4:
			fmt.Fprintf(w, "srel s%d\n", sid)
		default:
			p, st := g.iterArgs()
			fmt.Fprintf(w, "siter s%d %s %s\n", sid, p, st)
		}
	}
}

// flushChain flushes every flushable store at or below s, outermost first, so that what was written
// through s reaches the backend
func (g *kvGen) flushChain(w *bufio.Writer, s string) {
	for x := s; x != ""; x = g.parent[x] {
		if g.isFlush[x] {
			fmt.Fprintf(w, "flush %s\n", x)
		}
	}
}

// settle: the engine flushes its memtable and compacts (whole or partial range, through the stacking)
func (g *kvGen) settle(w *bufio.Writer, s string) {
	switch g.r.Intn(4) {
	case 0:
		fmt.Fprintf(w, "compact %s nil nil\n", s)
		fmt.Fprintf(w, "settle b\n")
	case 1:
		fmt.Fprintf(w, "settle %s\n", s)
		fmt.Fprintf(w, "compact %s %s %s\n", s, HexOf(g.rawKey(1)), HexOf(append(g.rawKey(2), 0xff)))
	default:
		fmt.Fprintf(w, "settle %s\n", s)
	}
}

// overwriteDeletePattern: the same key written 2-3 times (possibly reaching the engine's tables in
// between), removed through a batch, then the engine flushes / compacts, then the key is read
func (g *kvGen) overwriteDeletePattern(w *bufio.Writer, s string) {
	k := HexOf(g.key())
	n := 2 + g.r.Intn(2)
	for i := 0; i < n; i++ {
		fmt.Fprintf(w, "put %s %s %s\n", s, k, g.val())
		if g.r.Chance(1, 2) {
			g.flushChain(w, s)
		}
		if g.r.Chance(1, 3) {
			g.settle(w, s)
		}
	}
	g.flushChain(w, s)
	ops := "d:" + k
	if g.r.Chance(1, 2) {
		ops = "p:" + HexOf(g.key()) + ":" + g.val() + "," + ops
	}
	switch g.r.Intn(4) {
	case 0:
		fmt.Fprintf(w, "batch %s rb %s %s\n", s, s, ops)
	default:
		fmt.Fprintf(w, "batch %s w %s\n", s, ops)
	}
	fmt.Fprintf(w, "get %s %s\n", s, k)
	g.flushChain(w, s)
	g.settle(w, s)
	fmt.Fprintf(w, "get %s %s\n", s, k)
	fmt.Fprintf(w, "has %s %s\n", s, k)
	fmt.Fprintf(w, "iter %s nil nil\n", s)
	fmt.Fprintf(w, "iter b nil nil\n")
}

func (g *kvGen) flushOp(w *bufio.Writer) {
	if len(g.flush) == 0 {
		return
	}
	if len(g.lazies) > 0 && g.r.Chance(1, 4) {
		// the real DB is produced before the first flush (as SyncedPool.Initialize does)
		fmt.Fprintf(w, "init %s\n", g.lazies[g.r.Intn(len(g.lazies))])
		return
	}
	s := g.flush[g.r.Intn(len(g.flush))]
	switch g.r.Intn(8) {
	case 0, 1, 2:
		fmt.Fprintf(w, "flush %s\n", s)
	case 3, 4:
		fmt.Fprintf(w, "drop %s\n", s)
	case 5, 6:
		fmt.Fprintf(w, "nfp %s\n", s)
	default:
		fmt.Fprintf(w, "nfs %s\n", s)
	}
}

var tablePrefixes = [][]byte{{}, {0x00}, {0xff}, {0x00, 0xff}, {0xff, 0x00}, {0xff, 0xff}, {0x00, 0x00}, {0x01}, {0xfe}, {0xfe, 0xff}, {0xff, 0xff, 0xff}, {0x01, 0xff}}

func (g *kvGen) tablePrefix() []byte {
	if g.r.Chance(1, 5) {
		return g.rawKey(3)
	}
	return tablePrefixes[g.r.Intn(len(tablePrefixes))]
}

// a prefix related to p: an extension, a truncation, the next sibling, or unrelated
func (g *kvGen) relatedPrefix(p []byte) []byte {
	switch g.r.Intn(5) {
	case 0:
		return append(append([]byte{}, p...), alpha[g.r.Intn(4)])
	case 1:
		if len(p) > 0 {
			return p[:len(p)-1]
		}
	case 2:
		if len(p) > 0 {
			q := append([]byte{}, p...)
			q[len(q)-1] = alpha[g.r.Intn(4)]
			return q
		}
	case 3:
		return p
	}
	return g.tablePrefix()
}

// sharesMutex: some synced wrapper lies both below-or-at a and below-or-at b
func (g *kvGen) sharesMutex(a, b string) bool {
	for x := a; x != ""; x = g.parent[x] {
		if !g.syncedS[x] {
			continue
		}
		for y := b; y != ""; y = g.parent[y] {
			if x == y {
				return true
			}
		}
	}
	return false
}

func (g *kvGen) wrap(w *bufio.Writer, name, inner, kind string, p []byte) {
	if g.parent == nil {
		g.parent, g.syncedS, g.isFlush = map[string]string{}, map[string]bool{}, map[string]bool{}
	}
	g.parent[name] = inner
	g.syncedS[name] = kind == "s"
	g.isFlush[name] = kind == "f" || kind == "lf"
	if kind == "t" {
		fmt.Fprintf(w, "wrap %s %s t %s\n", name, inner, HexOf(p))
		g.tabs[name] = p
		g.tabList = append(g.tabList, p)
	} else {
		fmt.Fprintf(w, "wrap %s %s %s\n", name, inner, kind)
		if kind == "f" || kind == "lf" {
			g.flush = append(g.flush, name)
		}
		if kind == "lf" {
			g.lazies = append(g.lazies, name)
		}
	}
	g.stores = append(g.stores, name)
}

func genKV(stream string, r *Rand, n int, tier string, w *bufio.Writer) {
	for c := 0; c < n; c++ {
		g := &kvGen{r: r, stores: []string{"b"}, tabs: map[string][]byte{}}
		backend := []string{"mem", "mem", "mem", "mem", "ldb", "ldb", "ldb", "pbl", "pbl", "pbl"}[r.Intn(10)]
		g.backend = backend
		fmt.Fprintf(w, "# case %d %s %s\n", c, stream, backend)
		fmt.Fprintf(w, "open %s\n", backend)
		nops := 20 + r.Intn(40)
		switch stream {
		case "kv":
			depth := []int{0, 1, 1, 2, 2, 2, 3, 3}[r.Intn(8)]
			for i := 1; i <= depth; i++ {
				kind := []string{"t", "t", "t", "f", "f", "f", "s", "s", "lf"}[r.Intn(9)]
				g.wrap(w, fmt.Sprintf("n%d", i), g.stores[len(g.stores)-1], kind, g.tablePrefix())
			}
			var stems [][]byte
			for _, p := range g.tabs {
				stems = append(stems, p)
			}
			g.mkPool(stems...)
			for i := 0; i < nops; i++ {
				switch {
				case r.Chance(1, 25):
					g.overwriteDeletePattern(w, g.target())
				case r.Chance(1, 40):
					g.settle(w, g.target())
				case len(g.flush) > 0 && r.Chance(1, 9):
					g.flushOp(w)
				default:
					g.dataOp(w, g.target())
				}
			}
		case "kvflush":
			inner := "b"
			if r.Chance(1, 4) {
				g.wrap(w, "t0", inner, "t", g.tablePrefix())
				inner = "t0"
			}
			kind := "f"
			if r.Chance(1, 4) {
				kind = "lf"
			}
			g.wrap(w, "f1", inner, kind, nil)
			top := "f1"
			switch r.Intn(6) {
			case 0:
				g.wrap(w, "t2", top, "t", g.tablePrefix())
			case 1:
				g.wrap(w, "s2", top, "s", nil)
			case 2:
				g.wrap(w, "f2", top, "f", nil)
			}
			var stems [][]byte
			for _, p := range g.tabs {
				stems = append(stems, p)
			}
			g.mkPool(stems...)
			// some flushed / underlying content first
			pre := r.Intn(6)
			if kind == "lf" {
				pre += 2 // a lazily produced DB that already holds data
			}
			for i := 0; i < pre; i++ {
				fmt.Fprintf(w, "put %s %s %s\n", inner, HexOf(g.key()), g.val())
			}
			if kind == "lf" && r.Chance(1, 2) {
				fmt.Fprintf(w, "init f1\n")
				fmt.Fprintf(w, "iter f1 nil nil\n")
			}
			for i := 0; i < nops; i++ {
				switch x := r.Intn(20); {
				case x < 5:
					g.flushOp(w)
				case x < 6: // the underlying store changes beneath the flushable
					fmt.Fprintf(w, "put %s %s %s\n", inner, HexOf(g.key()), g.val())
				case x < 16:
					g.dataOp(w, "f1")
				default:
					g.dataOp(w, g.target())
				}
			}
		case "kvtable":
			p1 := g.tablePrefix()
			g.wrap(w, "ta", "b", "t", p1)
			g.wrap(w, "tb", "b", "t", g.relatedPrefix(p1))
			p3 := g.tablePrefix()
			g.wrap(w, "tn", "ta", "t", p3)
			// a sibling sub-table of the same parent, mostly with a prefix of the same length
			p4 := g.relatedPrefix(p3)
			if r.Chance(1, 2) && len(p3) > 0 {
				p4 = append([]byte{}, p3...)
				p4[len(p4)-1] = alpha[r.Intn(4)]
			}
			g.wrap(w, "tm", "ta", "t", p4)
			if r.Chance(1, 3) {
				g.wrap(w, "ts", "ta", "s", nil)
			}
			if r.Chance(1, 4) {
				g.wrap(w, "tf", "tn", "f", nil)
			}
			g.mkPool(p1, g.tabs["tb"], append(append([]byte{}, p1...), p3...), append(append([]byte{}, p1...), p4...))
			for i := 0; i < nops; i++ {
				switch x := r.Intn(24); {
				case x < 2:
					fmt.Fprintf(w, "incp %s\n", HexOf(g.incArg()))
				case x < 3:
					fmt.Fprintf(w, "nop %s %s\n", HexOf(g.key()), HexOf(g.relatedPrefix(g.key())))
				case x < 5:
					st, lim := "nil", "nil"
					if r.Chance(1, 3) {
						st = HexOf(g.rawKey(2))
					}
					if r.Chance(1, 3) {
						lim = HexOf(g.rawKey(2))
					}
					fmt.Fprintf(w, "compact %s %s %s\n", g.stores[r.Intn(len(g.stores))], st, lim)
				case x < 6:
					fmt.Fprintf(w, "bpr %s %s %s\n", []string{"ldb", "pbl"}[r.Intn(2)], g.optArg(), g.optArg())
				case x < 8: // the whole underlying store: writes touch only the table's keys
					fmt.Fprintf(w, "iter b nil nil\n")
				case x < 9:
					g.flushOp(w)
				default:
					g.dataOp(w, g.stores[r.Intn(len(g.stores))])
				}
			}
		}
	}
}

func (g *kvGen) incArg() []byte {
	switch g.r.Intn(6) {
	case 0:
		n := 1 + g.r.Intn(4)
		b := make([]byte, n)
		for i := range b {
			b[i] = 0xff
		}
		return b
	case 1:
		return []byte{}
	case 2:
		b := g.rawKey(4)
		return append(b, 0xff)
	case 3:
		return []byte{byte(g.r.Intn(256)), byte(g.r.Pick(0, 0xff, 0x7f, 0x80))}
	}
	return g.rawKey(4)
}

func (g *kvGen) optArg() string {
	switch g.r.Intn(6) {
	case 0, 1:
		return "nil"
	case 2:
		return "-"
	case 3:
		return HexOf(g.incArg())
	}
	return HexOf(g.rawKey(3))
}
