// Command h-kv: harness streams kv, kvflush, kvtable (C22, C23, C24).
package main

import "verifharness/hlib"

func main() { hlib.Main() }
