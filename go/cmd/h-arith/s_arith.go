package main

// Streams `quorum` (C11) and `enc` (C32).

import (
	. "verifharness/hlib"

	"bufio"
	"bytes"
	"fmt"
	"strings"

	"github.com/Fantom-foundation/lachesis-base/common/bigendian"
	"github.com/Fantom-foundation/lachesis-base/common/littleendian"
	"github.com/Fantom-foundation/lachesis-base/hash"
	"github.com/Fantom-foundation/lachesis-base/inter/dag"
	"github.com/Fantom-foundation/lachesis-base/inter/idx"
	"github.com/Fantom-foundation/lachesis-base/inter/pos"
)

func init() {
	Register("quorum", &Stream{Gen: genQuorum, NewRunner: func() Runner { return &quorumRunner{} }})
	Register("enc", &Stream{Gen: genEnc, NewRunner: func() Runner { return RunnerFunc(encStep) }})
}

// ---------------------------------------------------------------------------------------------
// quorum

type quorumRunner struct {
	vv  *pos.Validators
	cnt *pos.WeightCounter
}

func (q *quorumRunner) Step(line string) string {
	f := Fields(line)
	switch f[0] {
	case "vals":
		b := pos.NewBuilder()
		for _, p := range f[1:] {
			kv := strings.Split(p, ":")
			b.Set(idx.ValidatorID(Atou(kv[0])), pos.Weight(Atou(kv[1])))
		}
		q.vv = nil
		q.cnt = nil
		vv := b.Build() // may panic on overflow
		// the application goes on using its builder (for the next epoch's set); the built set is immutable
		if len(f) > 1 {
			kv := strings.Split(f[1], ":")
			b.Set(idx.ValidatorID(Atou(kv[0])), 0)
			b.Set(idx.ValidatorID(Atou(kv[0])+424242), 3)
		}
		q.vv = vv
		q.cnt = vv.NewCounter()
		return fmt.Sprintf("n=%d total=%d quorum=%d", vv.Len(), vv.TotalWeight(), vv.Quorum())
	case "count":
		if q.cnt == nil {
			return "novals"
		}
		ok := q.cnt.Count(idx.ValidatorID(Atou(f[1])))
		return fmt.Sprintf("%s sum=%d hq=%s", B2s(ok), q.cnt.Sum(), B2s(q.cnt.HasQuorum()))
	case "countidx":
		if q.cnt == nil {
			return "novals"
		}
		ok := q.cnt.CountByIdx(idx.Validator(Atou(f[1])))
		return fmt.Sprintf("%s sum=%d hq=%s", B2s(ok), q.cnt.Sum(), B2s(q.cnt.HasQuorum()))
	case "newcounter":
		if q.vv == nil {
			return "novals"
		}
		q.cnt = q.vv.NewCounter()
		return fmt.Sprintf("sum=%d hq=%s", q.cnt.Sum(), B2s(q.cnt.HasQuorum()))
	}
	return "bad-op"
}

func genQuorum(r *Rand, n int, tier string, w *bufio.Writer) {
	const maxT = uint64(1)<<31 - 1
	for c := 0; c < n; c++ {
		fmt.Fprintf(w, "# case %d\n", c)
		kind := r.Intn(7)
		var ids, ws []uint64
		switch kind {
		case 6: // large sets (more than 32 / 64 validators): every validator counted once
			k := 30 + r.Intn(110)
			for i := 0; i < k; i++ {
				ids = append(ids, uint64(1000+i))
				ws = append(ws, uint64(1+r.Intn(3)))
			}
		case 0: // single validator of boundary / random total
			t := r.Around(32, 1, 2, 3, 4, maxT/3, maxT/2, maxT*2/3, maxT-1, maxT, maxT+1, 1<<31, 1<<32-1, 1431655765, 1431655766, 715827882, 715827883)
			if t == 0 {
				t = 1
			}
			ids = []uint64{r.Around(32, 0, 1, 1<<32-1)}
			ws = []uint64{t}
		case 1: // two or three validators summing near the limit
			k := 2 + r.Intn(2)
			t := r.Around(32, maxT-1, maxT, maxT+1, maxT/2, 1<<32-1, 1<<32+1)
			for i := 0; i < k; i++ {
				ids = append(ids, uint64(i+1))
				ws = append(ws, 0)
			}
			rest := t
			for i := 0; i < k-1; i++ {
				x := r.U64() % (rest + 1)
				if x >= 1<<32 {
					x = 1<<32 - 1
				}
				ws[i] = x
				rest -= x
			}
			if rest >= 1<<32 {
				rest = 1<<32 - 1
			}
			ws[k-1] = rest
		default: // random sets with small / equal / skewed weights
			k := 1 + r.Intn(9)
			for i := 0; i < k; i++ {
				ids = append(ids, uint64(r.Intn(12)))
				switch kind {
				case 2:
					ws = append(ws, uint64(1+r.Intn(4)))
				case 3:
					ws = append(ws, uint64(r.Intn(3))) // zero weights delete
				case 4:
					ws = append(ws, r.Pick(1, 1, 2, 1000, 1<<20, 1<<27))
				default:
					ws = append(ws, uint64(1+r.Intn(1000)))
				}
			}
		}
		w.WriteString("vals")
		for i := range ids {
			fmt.Fprintf(w, " %d:%d", ids[i], ws[i])
		}
		w.WriteByte('\n')
		// distinct count after dedup (later Set overwrites)
		final := map[uint64]uint64{}
		for i := range ids {
			if ws[i] == 0 {
				delete(final, ids[i])
			} else {
				final[ids[i]] = ws[i]
			}
		}
		nv := len(final)
		if nv == 0 {
			continue
		}
		steps := r.Intn(2*nv + 3)
		if kind == 6 {
			for _, i := range r.Perm(nv) {
				fmt.Fprintf(w, "countidx %d\n", i)
			}
			steps = 5
		}
		for s := 0; s < steps; s++ {
			switch r.Intn(8) {
			case 0:
				w.WriteString("newcounter\n")
			case 1, 2:
				fmt.Fprintf(w, "countidx %d\n", r.Intn(nv))
			case 3:
				fmt.Fprintf(w, "count %d\n", 100+r.Intn(5)) // unknown id -> index 0
			default:
				fmt.Fprintf(w, "count %d\n", ids[r.Intn(len(ids))])
			}
		}
	}
}

// ---------------------------------------------------------------------------------------------
// enc

func sign(c int) string {
	switch {
	case c < 0:
		return "lt"
	case c > 0:
		return "gt"
	}
	return "eq"
}

func mkID(epoch, lamport uint64, tail []byte) hash.Event {
	var e dag.MutableBaseEvent
	e.SetEpoch(idx.Epoch(epoch))
	e.SetLamport(idx.Lamport(lamport))
	var t [24]byte
	copy(t[:], tail)
	e.SetID(t)
	return e.ID()
}

func encStep(line string) string {
	f := Fields(line)
	switch f[0] {
	case "be16":
		b := bigendian.Uint16ToBytes(uint16(Atou(f[1])))
		return fmt.Sprintf("%s %d", HexOf(b), bigendian.BytesToUint16(b))
	case "be32":
		b := bigendian.Uint32ToBytes(uint32(Atou(f[1])))
		return fmt.Sprintf("%s %d", HexOf(b), bigendian.BytesToUint32(b))
	case "be64":
		b := bigendian.Uint64ToBytes(Atou(f[1]))
		return fmt.Sprintf("%s %d", HexOf(b), bigendian.BytesToUint64(b))
	case "le16":
		b := littleendian.Uint16ToBytes(uint16(Atou(f[1])))
		return fmt.Sprintf("%s %d", HexOf(b), littleendian.BytesToUint16(b))
	case "le32":
		b := littleendian.Uint32ToBytes(uint32(Atou(f[1])))
		return fmt.Sprintf("%s %d", HexOf(b), littleendian.BytesToUint32(b))
	case "le64":
		b := littleendian.Uint64ToBytes(Atou(f[1]))
		return fmt.Sprintf("%s %d", HexOf(b), littleendian.BytesToUint64(b))
	case "cmp16":
		return sign(bytes.Compare(bigendian.Uint16ToBytes(uint16(Atou(f[1]))), bigendian.Uint16ToBytes(uint16(Atou(f[2])))))
	case "cmp32":
		return sign(bytes.Compare(bigendian.Uint32ToBytes(uint32(Atou(f[1]))), bigendian.Uint32ToBytes(uint32(Atou(f[2])))))
	case "cmp64":
		return sign(bytes.Compare(bigendian.Uint64ToBytes(Atou(f[1])), bigendian.Uint64ToBytes(Atou(f[2]))))
	case "idx":
		n := Atou(f[2])
		switch f[1] {
		case "epoch":
			b := idx.Epoch(n).Bytes()
			return fmt.Sprintf("%s %d", HexOf(b), idx.BytesToEpoch(b))
		case "event":
			b := idx.Event(n).Bytes()
			return fmt.Sprintf("%s %d", HexOf(b), idx.BytesToEvent(b))
		case "block":
			b := idx.Block(n).Bytes()
			return fmt.Sprintf("%s %d", HexOf(b), idx.BytesToBlock(b))
		case "lamport":
			b := idx.Lamport(n).Bytes()
			return fmt.Sprintf("%s %d", HexOf(b), idx.BytesToLamport(b))
		case "frame":
			b := idx.Frame(n).Bytes()
			return fmt.Sprintf("%s %d", HexOf(b), idx.BytesToFrame(b))
		case "pack":
			b := idx.Pack(n).Bytes()
			return fmt.Sprintf("%s %d", HexOf(b), idx.BytesToPack(b))
		case "validatorid":
			b := idx.ValidatorID(n).Bytes()
			return fmt.Sprintf("%s %d", HexOf(b), idx.BytesToValidatorID(b))
		case "validator": // the validator INDEX type (inter/idx/internal.go), also used for branch ids
			b := idx.Validator(n).Bytes()
			return fmt.Sprintf("%s %d", HexOf(b), idx.BytesToValidator(b))
		}
	case "idxcmp":
		a, b := Atou(f[2]), Atou(f[3])
		switch f[1] {
		case "epoch":
			return sign(bytes.Compare(idx.Epoch(a).Bytes(), idx.Epoch(b).Bytes()))
		case "event":
			return sign(bytes.Compare(idx.Event(a).Bytes(), idx.Event(b).Bytes()))
		case "block":
			return sign(bytes.Compare(idx.Block(a).Bytes(), idx.Block(b).Bytes()))
		case "lamport":
			return sign(bytes.Compare(idx.Lamport(a).Bytes(), idx.Lamport(b).Bytes()))
		case "frame":
			return sign(bytes.Compare(idx.Frame(a).Bytes(), idx.Frame(b).Bytes()))
		case "pack":
			return sign(bytes.Compare(idx.Pack(a).Bytes(), idx.Pack(b).Bytes()))
		case "validatorid":
			return sign(bytes.Compare(idx.ValidatorID(a).Bytes(), idx.ValidatorID(b).Bytes()))
		case "validator":
			return sign(bytes.Compare(idx.Validator(a).Bytes(), idx.Validator(b).Bytes()))
		}
	case "id": // id epoch lamport tailhex  (SetID path)
		id := mkID(Atou(f[1]), Atou(f[2]), Unhex(f[3]))
		return fmt.Sprintf("%s %d %d", HexOf(id.Bytes()), id.Epoch(), id.Lamport())
	case "idbuild": // Build path; one mutable event serves as the template of all builds
		e := &idTemplate
		e.SetEpoch(idx.Epoch(Atou(f[1])))
		e.SetLamport(idx.Lamport(Atou(f[2])))
		var t [24]byte
		copy(t[:], Unhex(f[3]))
		built := e.Build(t)
		id := built.ID()
		res := fmt.Sprintf("%s %d %d", HexOf(id.Bytes()), id.Epoch(), id.Lamport())
		if built.Epoch() != idx.Epoch(Atou(f[1])) || built.Lamport() != idx.Lamport(Atou(f[2])) {
			res += " BUILT-FIELDS-DIFFER"
		}
		// events built earlier keep what they were built with
		for i, b := range idBuilt {
			if fmt.Sprintf("%s %d %d", HexOf(b.ID().Bytes()), b.Epoch(), b.Lamport()) != idBuiltWas[i] {
				res += " EARLIER-BUILT-EVENT-CHANGED"
				break
			}
		}
		if len(idBuilt) >= 4 {
			idBuilt, idBuiltWas = idBuilt[1:], idBuiltWas[1:]
		}
		idBuilt = append(idBuilt, built)
		idBuiltWas = append(idBuiltWas, fmt.Sprintf("%s %d %d", HexOf(id.Bytes()), built.Epoch(), built.Lamport()))
		return res
	case "idcmp":
		a := mkID(Atou(f[1]), Atou(f[2]), Unhex(f[3]))
		b := mkID(Atou(f[4]), Atou(f[5]), Unhex(f[6]))
		return sign(bytes.Compare(a.Bytes(), b.Bytes()))
	}
	return "bad-op"
}

var (
	idTemplate dag.MutableBaseEvent
	idBuilt    []*dag.BaseEvent
	idBuiltWas []string
)

func genEnc(r *Rand, n int, tier string, w *bufio.Writer) {
	idxTypes := []string{"epoch", "event", "block", "lamport", "frame", "pack", "validatorid", "validator"}
	tail := func() string {
		k := []int{0, 1, 24, 24, 3}[r.Intn(5)]
		b := make([]byte, k)
		for i := range b {
			b[i] = byte(r.Pick(0, 1, 0xfe, 0xff, uint64(r.Intn(256))))
		}
		return HexOf(b)
	}
	v := func(bits uint) uint64 {
		return r.Around(bits, 0, 1, 255, 256, 257, 65535, 65536, 1<<24, 1<<31-1, 1<<31, 1<<32-1, 1<<32, 1<<56, 1<<63, 1<<64-1)
	}
	near := func(bits uint, a uint64) uint64 {
		mask := uint64(1)<<bits - 1
		if bits == 64 {
			mask = ^uint64(0)
		}
		switch r.Intn(4) {
		case 0:
			return a
		case 1:
			return (a + 1) & mask
		case 2:
			return (a ^ (1 << uint(r.Intn(int(bits))))) & mask
		}
		return v(bits)
	}
	fmt.Fprintf(w, "# case 0\n")
	for c := 0; c < n; c++ {
		if c > 0 && c%1000 == 0 {
			fmt.Fprintf(w, "# case %d\n", c/1000)
		}
		switch r.Intn(12) {
		case 0:
			fmt.Fprintf(w, "be16 %d\n", v(16))
		case 1:
			fmt.Fprintf(w, "be32 %d\n", v(32))
		case 2:
			fmt.Fprintf(w, "be64 %d\n", v(64))
		case 3:
			fmt.Fprintf(w, "le%d %d\n", 16, v(16))
		case 4:
			fmt.Fprintf(w, "le%d %d\n", 32, v(32))
		case 5:
			fmt.Fprintf(w, "le%d %d\n", 64, v(64))
		case 6:
			bits := []uint{16, 32, 64}[r.Intn(3)]
			a := v(bits)
			fmt.Fprintf(w, "cmp%d %d %d\n", bits, a, near(bits, a))
		case 7:
			t := idxTypes[r.Intn(len(idxTypes))]
			bits := uint(32)
			if t == "block" {
				bits = 64
			}
			fmt.Fprintf(w, "idx %s %d\n", t, v(bits))
		case 8:
			t := idxTypes[r.Intn(len(idxTypes))]
			bits := uint(32)
			if t == "block" {
				bits = 64
			}
			a := v(bits)
			fmt.Fprintf(w, "idxcmp %s %d %d\n", t, a, near(bits, a))
		case 9:
			fmt.Fprintf(w, "id %d %d %s\n", v(32), v(32), tail())
		case 10:
			fmt.Fprintf(w, "idbuild %d %d %s\n", v(32), v(32), tail())
		default:
			e, l := v(32), v(32)
			fmt.Fprintf(w, "idcmp %d %d %s %d %d %s\n", e, l, tail(), near(32, e), near(32, l), tail())
		}
	}
}
