package main

// Stream `piecefunc` (C31).

import (
	. "verifharness/hlib"

	"bufio"
	"fmt"
	"strings"

	"github.com/Fantom-foundation/lachesis-base/utils/piecefunc"
)

func init() {
	Register("piecefunc", &Stream{Gen: genPiecefunc, NewRunner: func() Runner { return &pfRunner{} }})
}

type pfRunner struct{ f func(uint64) uint64 }

func (p *pfRunner) Step(line string) string {
	f := Fields(line)
	switch f[0] {
	case "dots":
		p.f = nil
		var dots []piecefunc.Dot
		for _, s := range SplitList(f[1]) {
			xy := strings.Split(s, ":")
			dots = append(dots, piecefunc.Dot{X: Atou(xy[0]), Y: Atou(xy[1])})
		}
		p.f = piecefunc.NewFunc(dots) // may panic
		return "ok"
	case "get":
		if p.f == nil {
			return "nofunc"
		}
		return fmt.Sprint(p.f(Atou(f[1])))
	}
	return "bad-op"
}

func genPiecefunc(r *Rand, n int, tier string, w *bufio.Writer) {
	const maxVal = ^uint64(0)/1000000 - 1
	coord := func() uint64 {
		switch r.Intn(8) {
		case 0:
			return uint64(r.Intn(10))
		case 1:
			return maxVal - uint64(r.Intn(3))
		case 2:
			return uint64(r.Intn(5000000))
		case 3:
			return r.U64() % (maxVal + 1)
		case 4:
			return 1000000 * uint64(r.Intn(100))
		case 5:
			return r.U64() >> uint(r.Intn(64))
		}
		return uint64(r.Intn(1000))
	}
	for c := 0; c < n; c++ {
		fmt.Fprintf(w, "# case %d\n", c)
		k := 2 + r.Intn(6)
		invalid := r.Chance(1, 6)
		if invalid && r.Chance(1, 4) {
			k = r.Intn(2)
		}
		xs := make([]uint64, k)
		ys := make([]uint64, k)
		// increasing X
		cur := coord() % (maxVal / 2)
		for i := 0; i < k; i++ {
			xs[i] = cur
			step := 1 + coord()%(1+(maxVal-cur)/uint64(k-i+1))
			if r.Chance(1, 3) {
				step = 1 + uint64(r.Intn(3))
			}
			cur += step
			if cur > maxVal {
				cur = maxVal
			}
			ys[i] = coord() % (maxVal + 1)
		}
		if invalid && k > 0 {
			i := r.Intn(k)
			switch r.Intn(4) {
			case 0:
				if i > 0 {
					xs[i] = xs[i-1] - uint64(r.Intn(2))
				}
			case 1:
				ys[i] = maxVal + 1 + uint64(r.Intn(3))
			case 2:
				xs[i] = maxVal + 1 + uint64(r.Intn(3))
			case 3:
				ys[i] = r.U64()
			}
		}
		parts := make([]string, k)
		for i := range xs {
			parts[i] = fmt.Sprintf("%d:%d", xs[i], ys[i])
		}
		l := strings.Join(parts, ",")
		if l == "" {
			l = "-"
		}
		fmt.Fprintf(w, "dots %s\n", l)
		if k == 0 {
			continue
		}
		for q := 0; q < 12; q++ {
			var x uint64
			i := r.Intn(k)
			switch r.Intn(6) {
			case 0:
				x = xs[i]
			case 1:
				x = xs[i] + 1
			case 2:
				x = xs[i] - 1
			case 3:
				if i+1 < k && xs[i+1] > xs[i] {
					x = xs[i] + r.U64()%(xs[i+1]-xs[i])
				} else {
					x = xs[i]
				}
			case 4:
				x = r.U64()
			default:
				x = r.U64() >> uint(r.Intn(64))
			}
			fmt.Fprintf(w, "get %d\n", x)
		}
	}
}
