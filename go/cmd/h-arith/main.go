// Command h-arith: harness streams quorum, enc, evcheck, dsign, piecefunc.
package main

import "verifharness/hlib"

func main() { hlib.Main() }
