package main

// Stream `evcheck` (C13): eventcheck.Checkers.Validate on generated events.

import (
	. "verifharness/hlib"

	"bufio"
	"encoding/binary"
	"fmt"
	"strings"

	"github.com/Fantom-foundation/lachesis-base/eventcheck"
	"github.com/Fantom-foundation/lachesis-base/eventcheck/basiccheck"
	"github.com/Fantom-foundation/lachesis-base/eventcheck/epochcheck"
	"github.com/Fantom-foundation/lachesis-base/eventcheck/parentscheck"
	"github.com/Fantom-foundation/lachesis-base/hash"
	"github.com/Fantom-foundation/lachesis-base/inter/dag"
	"github.com/Fantom-foundation/lachesis-base/inter/idx"
	"github.com/Fantom-foundation/lachesis-base/inter/pos"
)

func init() {
	Register("evcheck", &Stream{Gen: genEvCheck, NewRunner: func() Runner { return RunnerFunc(evCheckStep) }})
}

type epochReader struct {
	v *pos.Validators
	e idx.Epoch
}

func (r epochReader) GetEpochValidators() (*pos.Validators, idx.Epoch) { return r.v, r.e }

var errNames = map[error]string{
	basiccheck.ErrHugeValue: "huge", basiccheck.ErrNotInited: "notinited", basiccheck.ErrNoParents: "noparents",
	basiccheck.ErrDoubleParents: "doubleparents", epochcheck.ErrNotRelevant: "notrelevant", epochcheck.ErrAuth: "auth",
	parentscheck.ErrWrongLamport: "wronglamport", parentscheck.ErrWrongSelfParent: "wrongselfparent", parentscheck.ErrWrongSeq: "wrongseq",
}

// ev cur=<epoch> vals=1,2,3 e=<epoch>:<seq>:<frame>:<lamport>:<creator> ps=<id>:<creator>:<seq>:<lamport>,...
func evCheckStep(line string) string {
	var cur uint64
	var vals []idx.ValidatorID
	var e dag.MutableBaseEvent
	var parents dag.Events
	var pids hash.Events
	for _, w := range Fields(line)[1:] {
		kv := strings.SplitN(w, "=", 2)
		switch kv[0] {
		case "cur":
			cur = Atou(kv[1])
		case "vals":
			for _, s := range SplitList(kv[1]) {
				vals = append(vals, idx.ValidatorID(Atou(s)))
			}
		case "e":
			p := strings.Split(kv[1], ":")
			e.SetEpoch(idx.Epoch(Atou(p[0])))
			e.SetSeq(idx.Event(Atou(p[1])))
			e.SetFrame(idx.Frame(Atou(p[2])))
			e.SetLamport(idx.Lamport(Atou(p[3])))
			e.SetCreator(idx.ValidatorID(Atou(p[4])))
		case "ps":
			for _, s := range SplitList(kv[1]) {
				p := strings.Split(s, ":")
				var pe dag.MutableBaseEvent
				pe.SetCreator(idx.ValidatorID(Atou(p[1])))
				pe.SetSeq(idx.Event(Atou(p[2])))
				pe.SetLamport(idx.Lamport(Atou(p[3])))
				// id = epoch(0) ++ lamport ++ 24-byte tail carrying the protocol number; the generator only
				// repeats a protocol number on exact copies (same lamport), so equal numbers <=> equal ids
				var tail [24]byte
				binary.BigEndian.PutUint64(tail[16:], Atou(p[0]))
				pe.SetID(tail)
				be := pe.BaseEvent
				parents = append(parents, &be)
				pids = append(pids, be.ID())
			}
		}
	}
	e.SetParents(pids)
	// the epoch's validators come from a builder that the application keeps using afterwards
	// (preparing the next epoch): the built set must not follow it
	vb := pos.NewBuilder()
	for _, v := range vals {
		vb.Set(v, 1)
	}
	epochVals := vb.Build()
	for _, v := range vals {
		vb.Set(v, 0)
	}
	vb.Set(e.Creator(), 1)
	vb.Set(e.Creator()+1, 1)
	checkers := eventcheck.Checkers{
		Basiccheck:   basiccheck.New(),
		Epochcheck:   epochcheck.New(epochReader{epochVals, idx.Epoch(cur)}),
		Parentscheck: parentscheck.New(),
	}
	err := checkers.Validate(&e.BaseEvent, parents)
	if err == nil {
		return "ok"
	}
	if n, ok := errNames[err]; ok {
		return n
	}
	return "other:" + err.Error()
}

func genEvCheck(r *Rand, n int, tier string, w *bufio.Writer) {
	const lim = uint64(1)<<31 - 1
	bnd := func() uint64 {
		return r.Pick(0, 1, 2, 3, lim-3, lim-2, lim-1, lim, lim+1, 1<<32-2, 1<<32-1, uint64(r.Intn(50)), r.U64()&(1<<32-1))
	}
	type par struct{ id, creator, seq, lamport uint64 }
	fmt.Fprintf(w, "# case 0\n")
	for c := 0; c < n; c++ {
		if c > 0 && c%1000 == 0 {
			fmt.Fprintf(w, "# case %d\n", c/1000)
		}
		nv := 1 + r.Intn(6)
		vals := make([]uint64, nv)
		for i := range vals {
			vals[i] = uint64(i + 1)
		}
		cur := uint64(1 + r.Intn(5))
		if r.Chance(1, 20) {
			cur = bnd()
		}
		creator := vals[r.Intn(nv)]
		seq := uint64(1 + r.Intn(4))
		if r.Chance(1, 10) {
			seq = r.Pick(lim-3, lim-2, 5, 1000)
		}
		frame := uint64(1 + r.Intn(9))
		var ps []par
		nextID := uint64(100)
		if seq > 1 {
			ps = append(ps, par{nextID, creator, seq - 1, uint64(1 + r.Intn(30))})
			nextID++
		}
		others := r.Perm(nv)
		k := r.Intn(nv)
		if r.Chance(1, 10) {
			k = 0
		}
		for _, oi := range others {
			if k == 0 {
				break
			}
			if vals[oi] == creator {
				continue
			}
			ps = append(ps, par{nextID, vals[oi], uint64(1 + r.Intn(5)), uint64(1 + r.Intn(30))})
			nextID++
			k--
		}
		if r.Chance(1, 15) && len(ps) > 0 {
			ps[r.Intn(len(ps))].lamport = r.Pick(lim-3, lim-2, lim-1, 1<<32-2, 1<<32-1)
		}
		maxL := uint64(0)
		for _, p := range ps {
			if p.lamport > maxL {
				maxL = p.lamport
			}
		}
		lamport := (maxL + 1) & (1<<32 - 1)
		epoch := cur
		// mutations (0..2 of them)
		nm := []int{0, 0, 1, 1, 1, 2}[r.Intn(6)]
		for m := 0; m < nm; m++ {
			switch r.Intn(16) {
			case 0:
				seq = bnd()
			case 1:
				epoch = bnd()
			case 2:
				frame = bnd()
			case 3:
				lamport = bnd()
			case 4:
				lamport = (lamport + r.Pick(1, 1<<32-1)) & (1<<32 - 1)
			case 5:
				creator = r.Pick(0, uint64(nv+1), 99, vals[r.Intn(nv)])
			case 6:
				if len(ps) > 0 {
					ps = ps[1:]
				}
			case 7:
				if len(ps) > 1 {
					i := 1 + r.Intn(len(ps)-1)
					ps[0], ps[i] = ps[i], ps[0]
				}
			case 8:
				if len(ps) > 0 {
					ps = append(ps, ps[r.Intn(len(ps))])
				}
			case 9:
				if len(ps) > 0 {
					ps[r.Intn(len(ps))].creator = creator
				}
			case 10:
				if len(ps) > 0 {
					ps[0].seq = r.Pick(ps[0].seq+1, ps[0].seq-1, seq, 1<<32-1, 0) & (1<<32 - 1)
				}
			case 11:
				epoch = (cur + 1) & (1<<32 - 1)
			case 12:
				ps = nil
			case 13:
				if len(ps) > 0 {
					ps[0].creator = r.Pick(99, vals[r.Intn(nv)])
				}
			case 14:
				seq = (seq + 1) & (1<<32 - 1)
			case 15:
				if seq > 0 {
					seq = seq - 1
				}
			}
		}
		ids := make([]string, nv)
		for i, v := range vals {
			ids[i] = fmt.Sprint(v)
		}
		pss := make([]string, len(ps))
		for i, p := range ps {
			pss[i] = fmt.Sprintf("%d:%d:%d:%d", p.id, p.creator, p.seq, p.lamport)
		}
		psj := strings.Join(pss, ",")
		if psj == "" {
			psj = "-"
		}
		fmt.Fprintf(w, "ev cur=%d vals=%s e=%d:%d:%d:%d:%d ps=%s\n", cur, strings.Join(ids, ","), epoch, seq, frame, lamport, creator, psj)
	}
}
