package main

// Stream `dsign` (C21): doublesign.SyncedToEmit / DetectParallelInstance.

import (
	. "verifharness/hlib"

	"bufio"
	"fmt"
	"math/big"
	"strings"
	"time"

	"github.com/Fantom-foundation/lachesis-base/emitter/doublesign"
)

func init() {
	Register("dsign", &Stream{Gen: genDsign, NewRunner: func() Runner { return RunnerFunc(dsignStep) }})
}

// instant given in ns since the zero Time (decimal, may exceed int64)
func instant(s string) time.Time {
	v, ok := new(big.Int).SetString(s, 10)
	if !ok || v.Sign() < 0 {
		panic("bad instant " + s)
	}
	q, r := new(big.Int).QuoRem(v, big.NewInt(1000000000), new(big.Int))
	t := time.Unix(q.Int64()-62135596800, r.Int64())
	// the same instant in different representations (location pointer, zero struct): the result must not depend on it
	switch zoneSel % 4 {
	case 0:
		t = t.UTC()
	case 1:
		t = t.In(time.FixedZone("x", 3600*5))
	case 2:
		if v.Sign() == 0 {
			t = time.Time{}
		} else {
			t = t.Local()
		}
	case 3:
		if v.Sign() == 0 {
			t = time.Time{}.In(time.FixedZone("y", -3600))
		}
	}
	zoneSel++
	return t
}

// zoneSel rotates the representation used for the next instant (reset per op line by the `z=` field)
var zoneSel int

var dsErr = map[error]string{
	nil: "nil", doublesign.ErrNoConnections: "noconn", doublesign.ErrP2PSyncOngoing: "p2psync",
	doublesign.ErrSelfEventsOngoing: "selfevents", doublesign.ErrJustBecameValidator: "becamevalidator",
	doublesign.ErrJustConnected: "justconnected", doublesign.ErrJustP2PSynced: "justsynced",
}

func dsignStep(line string) string {
	f := Fields(line)
	var s doublesign.SyncStatus
	var thr int64
	for _, w := range f[1:] {
		kv := strings.SplitN(w, "=", 2)
		switch kv[0] {
		case "z":
			zoneSel = int(Atoi(kv[1]))
		case "peers":
			s.PeersNum = int(Atoi(kv[1]))
		case "thr":
			thr = Atoi(kv[1])
		case "now":
			s.Now = instant(kv[1])
		case "startup":
			s.Startup = instant(kv[1])
		case "conn":
			s.LastConnected = instant(kv[1])
		case "synced":
			s.P2PSynced = instant(kv[1])
		case "val":
			s.BecameValidator = instant(kv[1])
		case "created":
			s.ExternalSelfEventCreated = instant(kv[1])
		case "detected":
			s.ExternalSelfEventDetected = instant(kv[1])
		}
	}
	switch f[0] {
	case "sync":
		wait, err := doublesign.SyncedToEmit(s, time.Duration(thr))
		n, ok := dsErr[err]
		if !ok {
			n = "other"
		}
		return fmt.Sprintf("wait=%d err=%s", int64(wait), n)
	case "par":
		return B2s(doublesign.DetectParallelInstance(s, time.Duration(thr)))
	}
	return "bad-op"
}

func genDsign(r *Rand, n int, tier string, w *bufio.Writer) {
	two63 := new(big.Int).Lsh(big.NewInt(1), 63)
	two62 := new(big.Int).Lsh(big.NewInt(1), 62)
	y9999, _ := new(big.Int).SetString("315537897599000000000", 10)
	small := func() *big.Int { return big.NewInt(int64(r.Intn(2000))) }
	pickNow := func() *big.Int {
		switch r.Intn(6) {
		case 0:
			return small()
		case 1:
			return new(big.Int).Add(two63, small())
		case 2:
			return new(big.Int).Set(y9999)
		case 3:
			v, _ := new(big.Int).SetString("63800000000000000000", 10) // ~ year 2022
			return v.Add(v, small())
		case 4:
			return new(big.Int).Add(two62, small())
		}
		return new(big.Int).Add(new(big.Int).Lsh(two63, 1), small())
	}
	stamp := func(now *big.Int, thr int64) *big.Int {
		var v *big.Int
		switch r.Intn(12) {
		case 0:
			v = big.NewInt(0) // zero Time
		case 1:
			v = new(big.Int).Set(now)
		case 2, 3: // around the threshold
			v = new(big.Int).Sub(now, big.NewInt(thr))
			v.Add(v, big.NewInt(int64(r.Intn(5)-2)))
		case 4:
			v = new(big.Int).Sub(now, small())
		case 5:
			v = new(big.Int).Add(now, small())
		case 6:
			v = new(big.Int).Add(now, two62)
		case 7: // just around the saturation point, ahead
			v = new(big.Int).Add(now, two63)
			v.Add(v, big.NewInt(int64(r.Intn(5)-2)))
		case 8: // around the saturation point, behind
			v = new(big.Int).Sub(now, two63)
			v.Add(v, big.NewInt(int64(r.Intn(5)-2)))
		case 9:
			v = new(big.Int).Set(y9999)
		case 10:
			v = new(big.Int).Sub(now, two62)
		default:
			v = new(big.Int).Sub(now, big.NewInt(int64(r.U64()>>uint(1+r.Intn(60)))))
		}
		if v.Sign() < 0 {
			v = big.NewInt(int64(r.Intn(3)))
		}
		if v.Cmp(y9999) > 0 {
			v = new(big.Int).Set(y9999)
		}
		return v
	}
	fmt.Fprintf(w, "# case 0\n")
	for c := 0; c < n; c++ {
		if c > 0 && c%1000 == 0 {
			fmt.Fprintf(w, "# case %d\n", c/1000)
		}
		now := pickNow()
		var thr int64
		switch r.Intn(10) {
		case 0:
			thr = 0
		case 1:
			thr = 1
		case 2:
			thr = int64(r.Intn(1000))
		case 3:
			thr = 1<<63 - 1 - int64(r.Intn(3))
		case 4:
			thr = -int64(r.Intn(1000))
		case 5:
			thr = -1 << 63
		case 6:
			thr = -1<<63 + 1 + int64(r.Intn(3))
		case 7:
			thr = int64(time.Hour)
		default:
			thr = int64(r.U64() >> uint(1+r.Intn(62)))
		}
		peers := r.Intn(3)
		if r.Chance(3, 4) {
			peers = 1 + r.Intn(50)
		}
		op := "sync"
		if r.Chance(1, 4) {
			op = "par"
		}
		fmt.Fprintf(w, "%s z=%d peers=%d thr=%d now=%s startup=%s conn=%s synced=%s val=%s created=%s detected=%s\n", op, r.Intn(8), peers, thr,
			now, stamp(now, thr), stamp(now, thr), stamp(now, thr), stamp(now, thr), stamp(now, thr), stamp(now, thr))
	}
}
