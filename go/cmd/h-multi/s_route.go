package main

// Stream `route` (C26): random routing tables (exact + %d/%s pattern routes, nested request paths),
// several multidb.NewProducer instances over one table, request sequences through OpenDB, raw dumps
// of the backing DBs, restart over the same backing producers, Verify against mutated tables.

import (
	"bufio"
	"bytes"
	"fmt"
	"strings"

	"github.com/Fantom-foundation/lachesis-base/kvdb"
	"github.com/Fantom-foundation/lachesis-base/kvdb/multidb"

	. "verifharness/hlib"
)

var recordsKey = []byte{0xff, 'r'}

// fullProducer makes a memBackend a kvdb.FullDBProducer.
type fullProducer struct{ *memBackend }

func (fullProducer) Initialize(_ []string, id []byte) ([]byte, error) { return id, nil }
func (fullProducer) Close() error                                     { return nil }
func (fullProducer) Flush([]byte) error                               { return nil }
func (fullProducer) NotFlushedSizeEst() int                           { return 0 }

type routeRunner struct {
	backends map[multidb.TypeName]kvdb.FullDBProducer
	mem      map[multidb.TypeName]*memBackend
	tables   map[string]map[string]multidb.Route
	prods    map[string]*multidb.Producer
}

func newRouteRunner() Runner {
	r := &routeRunner{
		backends: map[multidb.TypeName]kvdb.FullDBProducer{},
		mem:      map[multidb.TypeName]*memBackend{},
		tables:   map[string]map[string]multidb.Route{},
		prods:    map[string]*multidb.Producer{},
	}
	for _, t := range []multidb.TypeName{"A", "B"} {
		m := newMemBackend(nil)
		r.mem[t] = m
		r.backends[t] = fullProducer{m}
	}
	return r
}

func fmtRoute(rt multidb.Route) string {
	return fmt.Sprintf("%s|%s|%s|%s", rt.Type, rt.Name, rt.Table, B2s(rt.NoDrop))
}

func argOf(f []string, key string) string {
	for _, w := range f {
		if strings.HasPrefix(w, key+"=") {
			return w[len(key)+1:]
		}
	}
	return ""
}

func errKind(err error) string {
	msg := err.Error()
	switch {
	case strings.HasPrefix(msg, "missing producer"):
		return "missing"
	case strings.Contains(msg, "re-assigning table"):
		return "reassign"
	case strings.Contains(msg, "conflicting tables"):
		return "conflict"
	}
	return "other " + msg
}

func (r *routeRunner) Step(line string) string {
	f := Fields(line)
	switch f[0] {
	case "table":
		t := map[string]multidb.Route{}
		for _, e := range f[2:] {
			p := strings.Split(e, "|")
			t[p[0]] = multidb.Route{Type: multidb.TypeName(p[1]), Name: p[2], Table: p[3], NoDrop: p[4] == "1"}
		}
		r.tables[f[1]] = t
		return fmt.Sprintf("ok %d", len(t))
	case "new":
		p, err := multidb.NewProducer(r.backends, r.tables[f[2]], recordsKey)
		if err != nil {
			delete(r.prods, f[1])
			return "err"
		}
		r.prods[f[1]] = p
		return "ok"
	case "restart":
		r.prods = map[string]*multidb.Producer{}
		return "ok"
	}
	p := r.prods[f[1]]
	if p == nil {
		return "noprod"
	}
	req := argOf(f, "r")
	switch f[0] {
	case "route":
		return fmtRoute(p.RouteOf(req))
	case "open", "put":
		db, err := p.OpenDB(req)
		if err != nil {
			return "err " + errKind(err)
		}
		rt := p.RouteOf(req)
		if f[0] == "put" {
			if err := db.Put(Unhex(argOf(f, "k")), Unhex(argOf(f, "v"))); err != nil {
				return "err put"
			}
		}
		raw := r.mem[rt.Type].dbs[rt.Name]
		recs, err := multidb.ReadTablesList(raw, recordsKey)
		if err != nil {
			return "err records"
		}
		parts := make([]string, len(recs))
		for i, rc := range recs {
			parts[i] = rc.Req + ":" + rc.Table
		}
		_ = db.Close()
		return "ok " + fmtRoute(rt) + " recs=" + strings.Join(parts, ",")
	case "read": // what the store opened for the request sees: through its iterator and through a snapshot of it
		db, err := p.OpenDB(req)
		if err != nil {
			return "err " + errKind(err)
		}
		defer db.Close()
		list := func(rd interface {
			NewIterator(prefix []byte, start []byte) kvdb.Iterator
		}) string {
			var parts []string
			it := rd.NewIterator(nil, nil)
			defer it.Release()
			for it.Next() {
				if bytes.Equal(it.Key(), recordsKey) {
					continue
				}
				parts = append(parts, HexOf(it.Key())+"="+HexOf(it.Value()))
			}
			if len(parts) == 0 {
				return "-"
			}
			return strings.Join(parts, ",")
		}
		direct := list(db)
		snap, err := db.GetSnapshot()
		if err != nil {
			return "err snapshot"
		}
		defer snap.Release()
		if viaSnap := list(snap); viaSnap != direct {
			return direct + " SNAPSHOT-DIFFERS " + viaSnap
		}
		return direct
	case "dump":
		rt := p.RouteOf(req)
		m := r.mem[rt.Type]
		if m == nil || m.dbs[rt.Name] == nil {
			return "nodb"
		}
		return m.dbs[rt.Name].dump(recordsKey)
	case "verify":
		if err := p.Verify(); err != nil {
			return "err"
		}
		return "ok"
	}
	return "bad-op"
}

// ---------------------------------------------------------------------------------------------

var (
	segs     = []string{"a", "b", "ab", "x1", "12", "7", "-3", "+4", "007", "a5", "b12", "q", "9223372036854775808", "1-2", "ab7b"}
	scanPats = []string{"%d", "%s", "a%d", "a%s", "b%d", "ab%s", "x%d", "%d%s", "%d-%d", "a%db", "%s%d", "q/%d", "%d/a"}
	tabs     = []string{"", "t", "t1", "t/", "a", "ab", "b", "u", "uv"}
)

func genReq(r *Rand) string {
	if r.Chance(1, 12) {
		return ""
	}
	n := 1 + r.Intn(3)
	parts := make([]string, n)
	for i := range parts {
		parts[i] = segs[r.Intn(len(segs))]
	}
	s := strings.Join(parts, "/")
	if r.Chance(1, 15) {
		s += "/"
	}
	if r.Chance(1, 20) {
		s = "/" + s
	}
	return s
}

func verbs(t string) []string {
	var v []string
	for i := 0; i+1 < len(t); i++ {
		if t[i] == '%' {
			v = append(v, t[i:i+2])
		}
	}
	return v
}

func genName(r *Rand, scan string) string {
	vs := verbs(scan)
	k := len(vs)
	if r.Chance(1, 5) {
		k = r.Intn(len(vs) + 1) // fewer verbs: Sprintf appends %!(EXTRA …)
	}
	name := []string{"n", "db-", "m"}[r.Intn(3)]
	for i := 0; i < k; i++ {
		name += vs[i] + []string{"", "_", "x"}[r.Intn(3)]
	}
	switch {
	case r.Chance(1, 70):
		name += "%s" // more / other verbs than scanned: CompileFilter fails
	case r.Chance(1, 120):
		name += "%f"
	case r.Chance(1, 150):
		name += "%"
	}
	return name
}

func genEntry(r *Rand, req string) string {
	typ := []string{"A", "A", "A", "A", "B", "B", "B", "B", "B", "C"}[r.Intn(10)]
	name := []string{"main", "aux", "d1"}[r.Intn(3)]
	if strings.Contains(req, "%") {
		name = genName(r, req)
	} else if r.Chance(1, 80) {
		name = "s%d" // exact request with a pattern name: compiled, ops mismatch -> error
	}
	return fmt.Sprintf("%s|%s|%s|%s|%s", req, typ, name, tabs[r.Intn(len(tabs))], B2s(r.Chance(1, 4)))
}

func genTable(r *Rand) []string {
	seen := map[string]bool{}
	var es []string
	add := func(req string) {
		if !seen[req] {
			seen[req] = true
			es = append(es, genEntry(r, req))
		}
	}
	if !r.Chance(1, 30) {
		add("")
	}
	for i, n := 0, r.Intn(4); i < n; i++ {
		add(genReq(r))
	}
	for i, n := 0, r.Intn(5); i < n; i++ {
		add(scanPats[r.Intn(len(scanPats))])
	}
	p := r.Perm(len(es))
	out := make([]string, len(es))
	for i, j := range p {
		out[i] = es[j]
	}
	return out
}

func mutateTable(r *Rand, es []string) []string {
	out := append([]string{}, es...)
	if len(out) == 0 {
		return out
	}
	i := r.Intn(len(out))
	switch r.Intn(4) {
	case 0: // change one field of one entry
		p := strings.Split(out[i], "|")
		switch r.Intn(3) {
		case 0:
			p[1] = map[string]string{"A": "B", "B": "A", "C": "A"}[p[1]]
		case 1:
			p[2] += "2"
		default:
			p[3] += "z"
		}
		out[i] = strings.Join(p, "|")
	case 1: // remove an entry (never the default route)
		if !strings.HasPrefix(out[i], "|") {
			out = append(out[:i], out[i+1:]...)
		}
	case 2: // add a pattern that may capture requests
		pat := scanPats[r.Intn(len(scanPats))]
		dup := false
		for _, e := range out {
			dup = dup || strings.HasPrefix(e, pat+"|")
		}
		if !dup {
			out = append(out, genEntry(r, pat))
		}
	default: // same table, other order
		p := r.Perm(len(out))
		o2 := make([]string, len(out))
		for k, j := range p {
			o2[k] = out[j]
		}
		out = o2
	}
	return out
}

func genRoute(r *Rand, n int, tier string, w *bufio.Writer) {
	for c := 0; c < n; c++ {
		fmt.Fprintf(w, "# case %d\n", c)
		t0 := genTable(r)
		fmt.Fprintf(w, "table T0 %s\n", strings.Join(t0, " "))
		fmt.Fprintf(w, "table T1 %s\n", strings.Join(mutateTable(r, t0), " "))
		ninst := 2 + r.Intn(3)
		for i := 0; i < ninst; i++ {
			fmt.Fprintf(w, "new p%d T0\n", i)
		}
		fmt.Fprintf(w, "new m T1\n")
		reqs := make([]string, 2+r.Intn(5))
		for i := range reqs {
			reqs[i] = genReq(r)
		}
		for _, q := range reqs {
			for i := 0; i < ninst; i++ {
				fmt.Fprintf(w, "route p%d r=%s\n", i, q)
			}
		}
		steps := 4 + r.Intn(10)
		for s := 0; s < steps; s++ {
			q := reqs[r.Intn(len(reqs))]
			if r.Chance(1, 6) {
				q = genReq(r)
			}
			p := fmt.Sprintf("p%d", r.Intn(ninst))
			switch x := r.Intn(12); {
			case x < 4:
				fmt.Fprintf(w, "open %s r=%s\n", p, q)
			case x < 7:
				fmt.Fprintf(w, "put %s r=%s k=%s v=%s\n", p, q, HexOf([]byte{byte(r.Intn(3)), byte('a' + r.Intn(2))}[:1+r.Intn(2)]), HexOf([]byte{byte(r.Intn(256))}))
			case x < 8:
				fmt.Fprintf(w, "dump %s r=%s\n", p, q)
				if r.Chance(1, 2) {
					fmt.Fprintf(w, "read %s r=%s\n", p, q)
				}
			case x < 9:
				fmt.Fprintf(w, "verify %s\n", p)
			case x < 10:
				fmt.Fprintf(w, "verify m\n")
			case x < 11:
				fmt.Fprintf(w, "open m r=%s\n", q)
			default:
				fmt.Fprintf(w, "restart\n")
				for i := 0; i < ninst; i++ {
					fmt.Fprintf(w, "new p%d T0\n", i)
				}
				fmt.Fprintf(w, "new m T1\n")
			}
		}
		for _, q := range reqs {
			fmt.Fprintf(w, "open p0 r=%s\n", q)
			fmt.Fprintf(w, "dump p0 r=%s\n", q)
			fmt.Fprintf(w, "read p0 r=%s\n", q)
		}
		fmt.Fprintf(w, "verify p%d\nverify m\n", ninst-1)
	}
}

func init() {
	Register("route", &Stream{Gen: genRoute, NewRunner: newRouteRunner})
}
