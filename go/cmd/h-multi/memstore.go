package main

// Non-destructive in-memory kvdb.Store / producers of the harness (memorydb stores are destroyed by
// Close). Every durable operation the backend receives is appended to a journal in arrival order:
// create, put, delete, batch write, drop.

import (
	"bytes"
	"sort"
	"strings"

	"github.com/Fantom-foundation/lachesis-base/kvdb"

	. "verifharness/hlib"
)

type jop struct {
	kind string // create | put | del | batch | drop
	db   string
	key  []byte
	val  []byte
	ops  []bop // batch
}

type bop struct {
	del bool
	key []byte
	val []byte
}

func (o jop) String() string {
	switch o.kind {
	case "put":
		return "put:" + o.db + ":" + HexOf(o.key) + ":" + HexOf(o.val)
	case "del":
		return "del:" + o.db + ":" + HexOf(o.key)
	case "batch":
		parts := make([]string, len(o.ops))
		for i, b := range o.ops {
			if b.del {
				parts[i] = "-" + HexOf(b.key)
			} else {
				parts[i] = "+" + HexOf(b.key) + "=" + HexOf(b.val)
			}
		}
		return "batch:" + o.db + ":" + strings.Join(parts, ";")
	}
	return o.kind + ":" + o.db
}

type journal struct {
	ops []jop
}

func (j *journal) add(o jop) {
	if j != nil {
		j.ops = append(j.ops, o)
	}
}

// memBackend is a kvdb.IterableDBProducer over memDBs.
type memBackend struct {
	dbs map[string]*memDB
	j   *journal
}

func newMemBackend(j *journal) *memBackend { return &memBackend{dbs: map[string]*memDB{}, j: j} }

func (b *memBackend) OpenDB(name string) (kvdb.Store, error) {
	if db, ok := b.dbs[name]; ok {
		return db, nil
	}
	db := &memDB{name: name, data: map[string][]byte{}, b: b}
	b.dbs[name] = db
	b.j.add(jop{kind: "create", db: name})
	return db, nil
}

func (b *memBackend) Names() []string {
	names := make([]string, 0, len(b.dbs))
	for n := range b.dbs {
		names = append(names, n)
	}
	sort.Strings(names)
	return names
}

// apply replays one journaled operation (used to rebuild the surviving DBs after a crash).
func (b *memBackend) apply(o jop) {
	switch o.kind {
	case "create":
		b.dbs[o.db] = &memDB{name: o.db, data: map[string][]byte{}, b: b}
	case "drop":
		delete(b.dbs, o.db)
	case "put":
		b.dbs[o.db].data[string(o.key)] = o.val
	case "del":
		delete(b.dbs[o.db].data, string(o.key))
	case "batch":
		for _, x := range o.ops {
			if x.del {
				delete(b.dbs[o.db].data, string(x.key))
			} else {
				b.dbs[o.db].data[string(x.key)] = x.val
			}
		}
	}
}

type memDB struct {
	name string
	data map[string][]byte
	b    *memBackend
}

func cp(b []byte) []byte { return append([]byte{}, b...) }

func (d *memDB) Has(key []byte) (bool, error) { _, ok := d.data[string(key)]; return ok, nil }

func (d *memDB) Get(key []byte) ([]byte, error) {
	v, ok := d.data[string(key)]
	if !ok {
		return nil, nil
	}
	return cp(v), nil
}

func (d *memDB) Put(key, value []byte) error {
	d.data[string(key)] = cp(value)
	d.b.j.add(jop{kind: "put", db: d.name, key: cp(key), val: cp(value)})
	return nil
}

func (d *memDB) Delete(key []byte) error {
	delete(d.data, string(key))
	d.b.j.add(jop{kind: "del", db: d.name, key: cp(key)})
	return nil
}

func (d *memDB) Close() error { return nil }

func (d *memDB) Drop() {
	delete(d.b.dbs, d.name)
	d.b.j.add(jop{kind: "drop", db: d.name})
}

func (d *memDB) Stat(string) (string, error)  { return "", nil }
func (d *memDB) Compact([]byte, []byte) error { return nil }

func (d *memDB) sortedKeys(prefix, start []byte) []string {
	keys := make([]string, 0, len(d.data))
	from := string(prefix) + string(start)
	for k := range d.data {
		if strings.HasPrefix(k, string(prefix)) && k >= from {
			keys = append(keys, k)
		}
	}
	sort.Strings(keys)
	return keys
}

func (d *memDB) NewIterator(prefix, start []byte) kvdb.Iterator {
	keys := d.sortedKeys(prefix, start)
	vals := make([][]byte, len(keys))
	for i, k := range keys {
		vals[i] = cp(d.data[k])
	}
	return &memIter{keys: keys, vals: vals, pos: -1}
}

func (d *memDB) GetSnapshot() (kvdb.Snapshot, error) {
	s := &memDB{name: d.name, data: map[string][]byte{}}
	for k, v := range d.data {
		s.data[k] = cp(v)
	}
	return memSnap{s}, nil
}

type memSnap struct{ *memDB }

func (memSnap) Release() {}

func (d *memDB) NewBatch() kvdb.Batch { return &memBatch{db: d} }

type memIter struct {
	keys []string
	vals [][]byte
	pos  int
}

func (it *memIter) Next() bool {
	if it.pos+1 >= len(it.keys) {
		it.pos = len(it.keys)
		return false
	}
	it.pos++
	return true
}
func (it *memIter) Error() error { return nil }
func (it *memIter) Key() []byte {
	if it.pos < 0 || it.pos >= len(it.keys) {
		return nil
	}
	return []byte(it.keys[it.pos])
}
func (it *memIter) Value() []byte {
	if it.pos < 0 || it.pos >= len(it.keys) {
		return nil
	}
	return it.vals[it.pos]
}
func (it *memIter) Release() {}

type memBatch struct {
	db   *memDB
	ops  []bop
	size int
}

func (b *memBatch) Put(key, value []byte) error {
	b.ops = append(b.ops, bop{key: cp(key), val: cp(value)})
	b.size += len(value) // like the leveldb/pebble batches: value bytes only
	return nil
}
func (b *memBatch) Delete(key []byte) error {
	b.ops = append(b.ops, bop{del: true, key: cp(key)}) // a delete adds no value bytes
	return nil
}
func (b *memBatch) ValueSize() int { return b.size }
func (b *memBatch) Write() error {
	o := jop{kind: "batch", db: b.db.name, ops: append([]bop{}, b.ops...)}
	b.db.b.apply(o)
	b.db.b.j.add(o)
	return nil
}
func (b *memBatch) Reset() { b.ops, b.size = nil, 0 }
func (b *memBatch) Replay(w kvdb.Writer) error {
	for _, o := range b.ops {
		var err error
		if o.del {
			err = w.Delete(o.key)
		} else {
			err = w.Put(o.key, o.val)
		}
		if err != nil {
			return err
		}
	}
	return nil
}

// dump prints the content of a DB except the given key, sorted, as k=v pairs.
func (d *memDB) dump(except []byte) string {
	var parts []string
	for _, k := range d.sortedKeys(nil, nil) {
		if bytes.Equal([]byte(k), except) {
			continue
		}
		parts = append(parts, HexOf([]byte(k))+"="+HexOf(d.data[k]))
	}
	if len(parts) == 0 {
		return "-"
	}
	return strings.Join(parts, ",")
}
