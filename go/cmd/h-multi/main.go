// Command h-multi: harness streams route (C26), crash (C25).
package main

import "verifharness/hlib"

func main() { hlib.Main() }
