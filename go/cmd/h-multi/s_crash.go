package main

// Stream `crash` (C25): generated multi-database histories (writes, drops, flushes over 1-3 DBs) are
// run through the real flushable.SyncedPool / flaggedproducer.Producer over the journaling memory
// backend; every op line answers with the durable operations it caused. The final `crashes` op
// rebuilds, for EVERY prefix of the journal, the surviving DBs, creates fresh producer objects over
// them and reports the answer of the real Initialize(Names(), nil).

import (
	"bufio"
	"bytes"
	"fmt"
	"sort"
	"strings"

	"github.com/Fantom-foundation/lachesis-base/kvdb"
	"github.com/Fantom-foundation/lachesis-base/kvdb/flaggedproducer"
	"github.com/Fantom-foundation/lachesis-base/kvdb/flushable"

	. "verifharness/hlib"
)

var flushIDKey = []byte{0xff, 'f'}

type crashRunner struct {
	mode    string
	j       *journal
	backend *memBackend
	pool    *flushable.SyncedPool
	flagged *flaggedproducer.Producer
	batches map[string]kvdb.Batch
}

func newCrashRunner() Runner { return &crashRunner{} }

func (c *crashRunner) open(name string) kvdb.Store {
	var db kvdb.Store
	var err error
	if c.mode == "pool" {
		db, err = c.pool.OpenDB(name)
	} else {
		db, err = c.flagged.OpenDB(name)
	}
	if err != nil {
		panic(err)
	}
	return db
}

func initialize(mode string, b *memBackend) string {
	var id []byte
	var err error
	if mode == "pool" {
		p := flushable.NewSyncedPool(b, flushIDKey)
		id, err = p.Initialize(b.Names(), nil)
	} else {
		f := flaggedproducer.Wrap(b, flushIDKey)
		id, err = f.Initialize(f.Names(), nil)
	}
	if err != nil {
		return "err"
	}
	if id == nil {
		return "ok:nil"
	}
	return "ok:" + HexOf(id)
}

func (c *crashRunner) Step(line string) string {
	f := Fields(line)
	if f[0] == "mode" {
		c.mode = f[1]
		c.j = &journal{}
		c.batches = map[string]kvdb.Batch{}
		c.backend = newMemBackend(c.j)
		if c.mode == "pool" {
			c.pool = flushable.NewSyncedPool(c.backend, flushIDKey)
		} else {
			c.flagged = flaggedproducer.Wrap(c.backend, flushIDKey)
		}
		return "j -"
	}
	if c.j == nil {
		return "nomode"
	}
	from := len(c.j.ops)
	if f[0] == "bput" || f[0] == "bdel" || f[0] == "bwrite" {
		if c.batches[f[1]] == nil {
			return "nobatch"
		}
	}
	switch f[0] {
	case "bnew": // explicit batch object: may live across flushes
		c.batches[f[2]] = c.open(f[1]).NewBatch()
	case "bput":
		if err := c.batches[f[1]].Put(Unhex(argOf(f, "k")), Unhex(argOf(f, "v"))); err != nil {
			return "err " + err.Error()
		}
	case "bdel":
		if err := c.batches[f[1]].Delete(Unhex(argOf(f, "k"))); err != nil {
			return "err " + err.Error()
		}
	case "bwrite":
		if err := c.batches[f[1]].Write(); err != nil {
			return "err " + err.Error()
		}
	case "open":
		c.open(f[1])
	case "put":
		if err := c.open(f[1]).Put(Unhex(argOf(f, "k")), Unhex(argOf(f, "v"))); err != nil {
			return "err " + err.Error()
		}
	case "del":
		if err := c.open(f[1]).Delete(Unhex(argOf(f, "k"))); err != nil {
			return "err " + err.Error()
		}
	case "batch":
		b := c.open(f[1]).NewBatch()
		for _, it := range strings.Split(f[2], ";") {
			if it[0] == '-' {
				_ = b.Delete(Unhex(it[1:]))
			} else {
				kv := strings.SplitN(it[1:], "=", 2)
				_ = b.Put(Unhex(kv[0]), Unhex(kv[1]))
			}
		}
		if err := b.Write(); err != nil {
			return "err " + err.Error()
		}
	case "drop":
		db := c.open(f[1])
		_ = db.Close()
		db.Drop()
	case "flush":
		var err error
		if c.mode == "pool" {
			err = c.pool.Flush(Unhex(f[1]))
		} else {
			err = c.flagged.Flush(Unhex(f[1]))
		}
		if err != nil {
			return "err " + err.Error()
		}
	case "crashes":
		var out []string
		for k := 0; k <= len(c.j.ops); k++ {
			b := newMemBackend(nil)
			for _, o := range c.j.ops[:k] {
				b.apply(o)
			}
			out = append(out, initialize(c.mode, b))
		}
		return "r " + strings.Join(out, " ")
	default:
		return "bad-op"
	}
	var parts []string
	for _, o := range c.j.ops[from:] {
		if o.kind == "put" && bytes.Equal(o.key, flushIDKey) {
			parts = append(parts, "mark:"+o.db+":"+HexOf(o.val))
		} else {
			parts = append(parts, o.String())
		}
	}
	if len(parts) == 0 {
		return "j -"
	}
	return "j " + strings.Join(parts, " ")
}

// ---------------------------------------------------------------------------------------------

type crashGen struct {
	r      *Rand
	w      *bufio.Writer
	mode   string
	opened map[string]bool // pool: wrapper exists; flagged: in f.dbs
	exists map[string]bool // DB exists durably
	queued map[string]bool // pool: drop queued
	nextID int
	batch  map[string]string // live batch id -> DB
	style  map[string]int    // 0 mixed, 1 only empty-valued puts, 2 only deletes
	nextB  int
}

func (g *crashGen) sortedBatches() []string {
	ids := make([]string, 0, len(g.batch))
	for b := range g.batch {
		ids = append(ids, b)
	}
	sort.Strings(ids)
	return ids
}

// forget drops the batches of a DB whose store object is gone (or doomed).
func (g *crashGen) forget(db string) {
	for b, d := range g.batch {
		if d == db {
			delete(g.batch, b)
		}
	}
}

// batchOp emits one operation on explicit batch objects.
func (g *crashGen) batchOp(name string) {
	ids := g.sortedBatches()
	if len(ids) == 0 || g.r.Chance(1, 4) {
		g.nextB++
		b := fmt.Sprintf("b%d", g.nextB)
		g.batch[b], g.style[b] = name, g.r.Intn(3)
		fmt.Fprintf(g.w, "bnew %s %s\n", name, b)
		return
	}
	b := ids[g.r.Intn(len(ids))]
	switch x := g.r.Intn(5); {
	case x < 3:
		switch st := g.style[b]; {
		case st == 2 || (st == 0 && g.r.Chance(1, 4)):
			fmt.Fprintf(g.w, "bdel %s k=%s\n", b, g.key())
		case st == 1 || g.r.Chance(1, 4):
			fmt.Fprintf(g.w, "bput %s k=%s v=-\n", b, g.key())
		default:
			fmt.Fprintf(g.w, "bput %s k=%s v=%s\n", b, g.key(), g.val())
		}
	default:
		fmt.Fprintf(g.w, "bwrite %s\n", b)
	}
}

func (g *crashGen) key() string {
	return HexOf([]byte{byte(g.r.Intn(3)), byte('a' + g.r.Intn(2))}[:1+g.r.Intn(2)])
}
func (g *crashGen) val() string { return HexOf([]byte{byte(g.r.Intn(256))}) }

func (g *crashGen) flush() {
	if g.mode == "pool" {
		for n := range g.queued {
			g.forget(n) // the flushable of a dropped DB is closed by the flush
			delete(g.opened, n)
			delete(g.exists, n)
		}
		g.queued = map[string]bool{}
		for n := range g.opened {
			g.exists[n] = true
		}
	}
	g.nextID++
	fmt.Fprintf(g.w, "flush %s\n", HexOf([]byte{byte(g.nextID), byte(g.r.Intn(256))}[:1+g.r.Intn(2)]))
}

func genCrash(r *Rand, n int, tier string, w *bufio.Writer) {
	for c := 0; c < n; c++ {
		g := &crashGen{r: r, w: w, opened: map[string]bool{}, exists: map[string]bool{}, queued: map[string]bool{},
			batch: map[string]string{}, style: map[string]int{}}
		g.mode = []string{"pool", "flagged"}[r.Intn(2)]
		fmt.Fprintf(w, "# case %d\nmode %s\n", c, g.mode)
		names := []string{"a", "b", "c"}[:1+r.Intn(3)]
		steps := 5 + r.Intn(14)
		if tier == "thorough" {
			steps += r.Intn(12)
		}
		for s := 0; s < steps; s++ {
			name := names[r.Intn(len(names))]
			if !g.opened[name] {
				fmt.Fprintf(w, "open %s\n", name)
				g.opened[name] = true
				if g.mode == "flagged" {
					g.exists[name] = true
				}
				continue
			}
			switch x := r.Intn(27); {
			case x >= 20:
				g.batchOp(name)
			case x < 1:
				fmt.Fprintf(w, "put %s k=%s v=-\n", name, g.key())
			case x < 8:
				fmt.Fprintf(w, "put %s k=%s v=%s\n", name, g.key(), g.val())
			case x < 10:
				fmt.Fprintf(w, "del %s k=%s\n", name, g.key())
			case x < 12:
				if g.mode == "flagged" {
					fmt.Fprintf(w, "batch %s +%s=%s;-%s;+%s=%s\n", name, g.key(), g.val(), g.key(), g.key(), g.val())
				} else {
					fmt.Fprintf(w, "open %s\n", name)
				}
			case x < 15:
				fmt.Fprintf(w, "drop %s\n", name)
				g.forget(name)
				if g.mode == "pool" {
					g.queued[name] = true
				} else {
					delete(g.opened, name)
					delete(g.exists, name)
				}
			default:
				g.flush()
			}
		}
		if r.Chance(2, 3) {
			g.flush()
		}
		fmt.Fprintf(w, "crashes\n")
	}
}

func init() {
	Register("crash", &Stream{Gen: genCrash, NewRunner: newCrashRunner})
}
