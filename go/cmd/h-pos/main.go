// Command h-pos: harness stream canon (C12).
package main

import "verifharness/hlib"

func main() { hlib.Main() }
