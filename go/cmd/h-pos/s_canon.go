package main

// Stream `canon` (C12): canonical form of validator sets, RLP round trip, ValidatorsBigBuilder.
//
//	build id:w id:w ...        Set calls in this order on a fresh builder, then Build
//	big id:dec|nil ...         ValidatorsBigBuilder.Set calls in this order, then Build
//	decode last                DecodeRLP of the bytes produced by the last successful build/big/decode
//	decode set <pos> <byte> | trunc <n> | append <hex> | raw <hex>     mutated / hand-made inputs
//
// Output of a set: ids=… w=… idx=id:index,… total=… rlp=<hex>; `err` for a decode error.

import (
	. "verifharness/hlib"

	"bufio"
	"fmt"
	"math/big"
	"sort"
	"strings"

	"github.com/ethereum/go-ethereum/rlp"

	"github.com/Fantom-foundation/lachesis-base/abft/election"
	"github.com/Fantom-foundation/lachesis-base/hash"
	"github.com/Fantom-foundation/lachesis-base/inter/idx"
	"github.com/Fantom-foundation/lachesis-base/inter/pos"
)

func init() {
	Register("canon", &Stream{Gen: genCanon, NewRunner: func() Runner { return &canonRunner{} }})
}

type canonRunner struct {
	last []byte
}

func (c *canonRunner) show(vv *pos.Validators) string {
	ids := vv.SortedIDs()
	ws := vv.SortedWeights()
	var a, b []string
	for i := range ids {
		a = append(a, fmt.Sprint(uint32(ids[i])))
	}
	for i := range ws {
		b = append(b, fmt.Sprint(uint32(ws[i])))
	}
	type kv struct{ id, i uint32 }
	var m []kv
	for id, i := range vv.Idxs() {
		m = append(m, kv{uint32(id), uint32(i)})
	}
	sort.Slice(m, func(i, j int) bool {
		if m[i].i != m[j].i {
			return m[i].i < m[j].i
		}
		return m[i].id < m[j].id
	})
	var x []string
	for _, e := range m {
		x = append(x, fmt.Sprintf("%d:%d", e.id, e.i))
	}
	enc, err := rlp.EncodeToBytes(vv)
	if err != nil {
		return "encode-error"
	}
	c.last = enc
	return fmt.Sprintf("ids=%s w=%s idx=%s total=%d rlp=%s", dash(a), dash(b), dash(x), vv.TotalWeight(), HexOf(enc))
}

func dash(s []string) string {
	if len(s) == 0 {
		return "-"
	}
	return strings.Join(s, ",")
}

func (c *canonRunner) Step(line string) string {
	f := Fields(line)
	switch f[0] {
	case "build":
		b := pos.NewBuilder()
		for _, p := range f[1:] {
			kv := strings.Split(p, ":")
			b.Set(idx.ValidatorID(Atou(kv[0])), pos.Weight(Atou(kv[1])))
		}
		vv := b.Build()
		res := c.show(vv)
		// the builder and derived builders / copies are used further; the built set must not follow them
		b.Set(idx.ValidatorID(777777), 5)
		d := vv.Copy().Builder()
		d.Set(idx.ValidatorID(888888), 9)
		e := vv.Builder()
		e.Set(idx.ValidatorID(999999), 1)
		if len(f) > 1 {
			kv := strings.Split(f[1], ":")
			b.Set(idx.ValidatorID(Atou(kv[0])), 0)
			d.Set(idx.ValidatorID(Atou(kv[0])), 0)
			e.Set(idx.ValidatorID(Atou(kv[0])), 0)
		}
		// consumers that only read the set (an election over it, its debug printer) do not disturb it either
		el := election.New(vv, 1, func(a, b hash.Event) bool { return false }, func(f idx.Frame) []election.RootAndSlot { return nil })
		_ = el.String(nil)
		_ = vv.String()
		last := c.last
		if c.show(vv) != res {
			res += " BUILT-SET-CHANGED"
		}
		c.last = last
		return res
	case "buildraw", "array":
		// buildraw: the builder map is filled directly (b[id] = w, zero entries stay in the map);
		// array: ArrayToValidators with the pairs in this order
		var ids []idx.ValidatorID
		var ws []pos.Weight
		b := pos.ValidatorsBuilder{}
		for _, p := range f[1:] {
			kv := strings.Split(p, ":")
			ids = append(ids, idx.ValidatorID(Atou(kv[0])))
			ws = append(ws, pos.Weight(Atou(kv[1])))
			b[idx.ValidatorID(Atou(kv[0]))] = pos.Weight(Atou(kv[1]))
		}
		if f[0] == "array" {
			return c.show(pos.ArrayToValidators(ids, ws))
		}
		vv := b.Build()
		res := c.show(vv)
		// neither the builder it came from nor a builder derived from it can change a built set
		b[idx.ValidatorID(777777)] = 5
		d := vv.Builder()
		d.Set(idx.ValidatorID(888888), 9)
		if len(ids) > 0 {
			d.Set(ids[0], 0)
			b.Set(ids[len(ids)-1], 0)
		}
		last := c.last
		if c.show(vv) != res {
			res += " BUILT-SET-CHANGED"
		}
		c.last = last
		// Len / Exists / Get / Copy / Builder().Build() see the same set
		cp := vv.Copy()
		rb := vv.Builder().Build()
		if int(vv.Len()) != len(vv.SortedIDs()) || cp.String() != vv.String() || rb.String() != vv.String() {
			res += " INCONSISTENT-ACCESSORS"
		}
		for _, id := range ids {
			if vv.Exists(id) != (vv.Get(id) != 0) {
				res += " INCONSISTENT-EXISTS"
				break
			}
		}
		return res
	case "big":
		b := pos.NewBigBuilder()
		for _, p := range f[1:] {
			kv := strings.Split(p, ":")
			if kv[1] == "nil" {
				b.Set(idx.ValidatorID(Atou(kv[0])), nil)
				continue
			}
			v, ok := new(big.Int).SetString(kv[1], 10)
			if !ok {
				return "bad-op"
			}
			b.Set(idx.ValidatorID(Atou(kv[0])), v)
		}
		return c.show(b.Build())
	case "decode":
		in := append([]byte{}, c.last...)
		switch f[1] {
		case "last":
		case "set":
			if len(in) == 0 {
				return "nolast"
			}
			in[int(Atou(f[2]))%len(in)] = byte(Atou(f[3]))
		case "trunc":
			if len(in) == 0 {
				return "nolast"
			}
			in = in[:int(Atou(f[2]))%len(in)]
		case "append":
			in = append(in, Unhex(f[2])...)
		case "raw":
			in = Unhex(f[2])
		default:
			return "bad-op"
		}
		var vv pos.Validators
		if err := rlp.DecodeBytes(in, &vv); err != nil {
			return "err"
		}
		return c.show(&vv)
	}
	return "bad-op"
}

// ---------------------------------------------------------------------------------------------
// generator

// history writes Set calls whose final map is `final` (ids in `order`), with overwritten earlier
// values, deletions that are re-set later, and ids that end up deleted.
func history(r *Rand, final map[uint64]uint64, order []uint64, noise []uint64) []string {
	var ops []string
	for _, id := range order {
		// earlier, overwritten calls
		for r.Chance(1, 3) {
			ops = append(ops, fmt.Sprintf("%d:%d", id, r.Pick(0, 1, 2, 7, final[id], final[id]+1)))
		}
	}
	for _, id := range noise { // ids that are deleted in the end
		ops = append(ops, fmt.Sprintf("%d:%d", id, 1+r.Intn(5)))
	}
	// shuffle the prefix (its effect is overwritten by what follows)
	p := r.Perm(len(ops))
	sh := make([]string, len(ops))
	for i, j := range p {
		sh[i] = ops[j]
	}
	ops = sh
	// the deciding calls: deletes of noise ids and final values, in a shuffled order
	var tail []string
	for _, id := range noise {
		tail = append(tail, fmt.Sprintf("%d:0", id))
	}
	for _, id := range order {
		tail = append(tail, fmt.Sprintf("%d:%d", id, final[id]))
	}
	p = r.Perm(len(tail))
	for _, j := range p {
		ops = append(ops, tail[j])
	}
	return ops
}

var bnd32 = []uint64{0, 1, 2, 127, 128, 129, 255, 256, 257, 65535, 65536, 1 << 24, 1<<24 - 1, 1<<31 - 1, 1 << 31, 1<<32 - 1}

// rawUint writes an rlp integer, optionally in a non-canonical way.
func rawUint(r *Rand, v uint64, mutate bool) []byte {
	var be []byte
	for x := v; x > 0; x >>= 8 {
		be = append([]byte{byte(x)}, be...)
	}
	if mutate {
		switch r.Intn(5) {
		case 0: // leading zero
			be = append([]byte{0}, be...)
			return append([]byte{byte(0x80 + len(be))}, be...)
		case 1: // single byte in long form
			if len(be) <= 1 {
				if len(be) == 0 {
					be = []byte{0}
				}
				return []byte{0x81, be[0]}
			}
		case 2: // zero as the byte 0x00
			return []byte{0}
		case 3: // 5 bytes
			return []byte{0x85, 1, 2, 3, 4, 5}
		case 4: // a list where an integer is expected
			return []byte{0xc0}
		}
	}
	if v == 0 {
		return []byte{0x80}
	}
	if v < 128 {
		return []byte{byte(v)}
	}
	return append([]byte{byte(0x80 + len(be))}, be...)
}

func rawList(r *Rand, payload []byte, mutate bool) []byte {
	n := uint64(len(payload))
	var be []byte
	for x := n; x > 0; x >>= 8 {
		be = append([]byte{byte(x)}, be...)
	}
	if mutate {
		switch r.Intn(4) {
		case 0: // long form for a short payload
			if n < 56 {
				if len(be) == 0 {
					be = []byte{0}
				}
				return append(append([]byte{byte(0xf7 + len(be))}, be...), payload...)
			}
		case 1: // leading zero in the size
			be = append([]byte{0}, be...)
			return append(append([]byte{byte(0xf7 + len(be))}, be...), payload...)
		case 2: // size one too large / small
			if n < 55 && n > 0 {
				return append([]byte{byte(0xc0 + n + uint64(r.Intn(2))*2 - 1)}, payload...)
			}
		case 3: // a string header instead of a list header
			if n < 56 {
				return append([]byte{byte(0x80 + n)}, payload...)
			}
		}
	}
	if n < 56 {
		return append([]byte{byte(0xc0 + n)}, payload...)
	}
	return append(append([]byte{byte(0xf7 + len(be))}, be...), payload...)
}

func genCanon(r *Rand, n int, tier string, w *bufio.Writer) {
	for c := 0; c < n; c++ {
		fmt.Fprintf(w, "# case %d\n", c)
		kind := r.Intn(10)
		final := map[uint64]uint64{}
		var order []uint64
		add := func(id, wt uint64) {
			if wt == 0 {
				return
			}
			if _, ok := final[id]; !ok {
				order = append(order, id)
			}
			final[id] = wt
		}
		switch {
		case kind < 4: // small sets, many ties
			k := r.Intn(9)
			for i := 0; i < k; i++ {
				add(uint64(r.Intn(12)), uint64(1+r.Intn(4)))
			}
		case kind < 6: // boundary ids and weights (byte-length boundaries of the encoding)
			k := 1 + r.Intn(6)
			for i := 0; i < k; i++ {
				add(r.Around(32, bnd32...), r.Around(28, bnd32[:13]...))
			}
			if r.Chance(1, 6) { // near / over the weight limit
				add(r.Around(32, bnd32...), r.Around(32, 1<<31-1, 1<<31, 1<<32-1, 1<<30))
			}
		case kind < 8: // larger sets: long list headers
			k := 5 + r.Intn(60)
			if tier == "thorough" && r.Chance(1, 400) {
				k = 6000 + r.Intn(2000) // payload >= 65536 bytes
			}
			for i := 0; i < k; i++ {
				add(r.Pick(uint64(r.Intn(200)), r.U64()&0xffffffff, uint64(r.Intn(70000))), r.Pick(uint64(1+r.Intn(100)), uint64(1+r.Intn(100000)), 5))
			}
		default: // equal weights
			k := 1 + r.Intn(10)
			wt := r.Pick(1, 5, 127, 128, 1000000)
			for i := 0; i < k; i++ {
				add(r.Around(32, bnd32...), wt)
			}
		}
		var noise []uint64
		for i := r.Intn(3); i > 0; i-- {
			id := uint64(100 + r.Intn(8))
			if _, ok := final[id]; !ok {
				noise = append(noise, id)
			}
		}
		reps := 1 + r.Intn(3)
		for i := 0; i < reps; i++ {
			p := r.Perm(len(order))
			sh := make([]uint64, len(order))
			for a, b := range p {
				sh[a] = order[b]
			}
			fmt.Fprintf(w, "build %s\n", strings.Join(history(r, final, sh, noise), " "))
			if r.Chance(1, 3) {
				fmt.Fprintf(w, "%s %s\n", []string{"buildraw", "array"}[r.Intn(2)], strings.Join(history(r, final, sh, noise), " "))
			}
		}
		fmt.Fprintf(w, "decode last\n")
		for i := r.Intn(4); i > 0; i-- {
			switch r.Intn(4) {
			case 0:
				fmt.Fprintf(w, "decode set %d %d\n", r.Intn(64), r.Pick(0, 1, 0x7f, 0x80, 0x81, 0x84, 0x85, 0xb7, 0xb8, 0xc0, 0xc1, 0xc2, 0xc3, 0xf7, 0xf8, 0xf9, 0xff, uint64(r.Intn(256))))
			case 1:
				fmt.Fprintf(w, "decode trunc %d\n", r.Intn(64))
			case 2:
				fmt.Fprintf(w, "decode append %s\n", []string{"00", "80", "c0", "c20101", "c3010203"}[r.Intn(5)])
			default:
				// hand-made encoding of the same pairs, possibly non-canonical in one place, possibly with
				// duplicates / zero weights (which DecodeRLP overwrites / drops)
				var payload []byte
				bad := -1
				if r.Chance(2, 3) {
					bad = r.Intn(2*len(order) + 2)
				}
				pos := 0
				items := append([]uint64{}, order...)
				if r.Chance(1, 3) && len(order) > 0 {
					items = append(items, order[r.Intn(len(order))]) // duplicate id
				}
				for _, id := range items {
					wt := final[id]
					if r.Chance(1, 8) {
						wt = uint64(r.Intn(3))
					}
					item := append(rawUint(r, id, pos == bad), rawUint(r, wt, false)...)
					if r.Chance(1, 12) {
						item = append(item, 0x05) // a third field
					} else if r.Chance(1, 12) {
						item = rawUint(r, id, false) // one field only
					}
					payload = append(payload, rawList(r, item, pos+1 == bad)...)
					pos += 2
				}
				fmt.Fprintf(w, "decode raw %s\n", HexOf(rawList(r, payload, pos == bad)))
			}
		}
		// big stakes
		for i := r.Intn(3); i > 0; i-- {
			k := 1 + r.Intn(6)
			var ops []string
			bits := uint(r.Pick(8, 30, 31, 32, 33, 64, 65, 128, 255, 256))
			var vals []*big.Int
			for j := 0; j < k; j++ {
				v := new(big.Int)
				switch r.Intn(6) {
				case 0:
					v.SetUint64(r.Around(34, 0, 1, 1<<31-1, 1<<31, 1<<32-1, 1<<32))
				case 1: // a power of two, or one less
					v.Lsh(big.NewInt(1), uint(r.Intn(int(bits)+1)))
					if r.Bool() {
						v.Sub(v, big.NewInt(1))
					}
				default:
					for b := uint(0); b < bits; b += 32 {
						v.Lsh(v, 32)
						v.Or(v, new(big.Int).SetUint64(r.U64()&0xffffffff))
					}
					v.Rsh(v, uint(r.Intn(int(bits))))
				}
				vals = append(vals, v)
			}
			if r.Chance(1, 3) && k >= 2 {
				// make the total land exactly on a power of two boundary (or one below)
				sum := new(big.Int)
				for _, v := range vals[1:] {
					sum.Add(sum, v)
				}
				t := new(big.Int).Lsh(big.NewInt(1), uint(sum.BitLen())+uint(r.Intn(3)))
				if r.Bool() {
					t.Sub(t, big.NewInt(1))
				}
				vals[0] = t.Sub(t, sum)
			}
			for j, v := range vals {
				id := uint64(r.Intn(8))
				if r.Chance(1, 2) {
					id = uint64(j + 10)
				}
				if r.Chance(1, 10) {
					ops = append(ops, fmt.Sprintf("%d:nil", id))
				} else {
					ops = append(ops, fmt.Sprintf("%d:%s", id, v.String()))
				}
			}
			fmt.Fprintf(w, "big %s\n", strings.Join(ops, " "))
			if r.Chance(1, 3) {
				fmt.Fprintf(w, "decode last\n")
			}
		}
	}
}
