package main

// multidb.Producer over several pools / flagged producers (C25 across producers): the flush id is
// threaded through the wrapped producers' Initialize calls, so that producers which disagree about the
// last completed flush are reported as unsynchronised.
func init() {
	fact := func(module, name, file, fn, sel, doc string) Site {
		return Site{Module: module, Name: name, File: file, Func: fn, Sel: sel, Result: "Bool", Doc: doc}
	}
	const P = "kvdb/multidb/producer.go"
	sites = append(sites, []Site{
		fact("FactsC25m", "initializeThreadsFlushID", P, "Producer.Initialize", "hasassign:flushID", "every wrapped producer receives the flush id the previous one reported"),
		fact("FactsC25m", "initializeShadowsFlushID", P, "Producer.Initialize", "hasdefine:flushID", "expected FALSE: a shadowed flushID would compare every producer with the caller's id only"),
		fact("FactsC25m", "initializeCallsEvery", P, "Producer.Initialize", "hascall:producer.Initialize", ""),
		fact("FactsC25m", "flushCallsEvery", P, "Producer.Flush", "hascall:producer.Flush", ""),
	}...)
}
