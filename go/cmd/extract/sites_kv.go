package main

// Extracted decision kernels of the `kv` family (C22, C23, C24): the comparison conditions of the
// merged iterator of kvdb/flushable, the length tests of kvdb/table and the prefix-range kernels
// of kvdb/pebble. `bytes.Compare(a, b)` is an input named cmp (an Int in {-1, 0, 1}).

const FL = "kvdb/flushable/flushable.go"
const TB = "kvdb/table/table.go"
const PB = "kvdb/pebble/pebble.go"

func init() {
	sites = append(sites, []Site{
		// ---- kvdb/flushable: flushableIterator (C22) ------------------------------------------
		{Module: "Kv", Name: "initFromStart", File: FL, Func: "flushableIterator.init", Sel: "if:0", Mode: "nat", Result: "Bool",
			Vars: map[string]string{"len(it.start)": "startLen"}, Params: []string{"startLen"},
			Doc: "Ceiling(start) when true, leftmost tree node otherwise"},
		{Module: "Kv", Name: "notPrefixed", File: FL, Func: "flushableIterator.Next", Sel: "if:1", Mode: "nat", Result: "Bool",
			Vars:    map[string]string{"it.prefix != nil": "prefixSet", "bytes.HasPrefix(key, it.prefix)": "keyHasPrefix"},
			BParams: []string{"prefixSet", "keyHasPrefix"}, Doc: "isSuitable: stop this cursor"},
		{Module: "Kv", Name: "notPrefixedOk", File: FL, Func: "flushableIterator.Next", Sel: "ret:1.0", Mode: "nat", Result: "Bool"},
		{Module: "Kv", Name: "notPrefixedCont", File: FL, Func: "flushableIterator.Next", Sel: "ret:1.1", Mode: "nat", Result: "Bool"},
		{Module: "Kv", Name: "afterPrev", File: FL, Func: "flushableIterator.Next", Sel: "ret:2.0", Mode: "nat", PType: "Int", Result: "Bool",
			Vars:   map[string]string{"prevKey == nil": "prevNil", "bytes.Compare(key, prevKey)": "cmp"},
			Params: []string{"cmp"}, BParams: []string{"prevNil"}, Doc: "isSuitable: ok"},
		{Module: "Kv", Name: "prefixedCont", File: FL, Func: "flushableIterator.Next", Sel: "ret:2.1", Mode: "nat", Result: "Bool"},
		{Module: "Kv", Name: "outerLoop", File: FL, Func: "flushableIterator.Next", Sel: "for:0", Mode: "nat", Result: "Bool",
			Vars: map[string]string{"it.treeOk": "treeOk", "it.parentOk": "parentOk"}, BParams: []string{"treeOk", "parentOk"}},
		{Module: "Kv", Name: "treeLoop", File: FL, Func: "flushableIterator.Next", Sel: "for:1", Mode: "nat", PType: "Int", Result: "Bool",
			Vars:   map[string]string{"it.treeOk": "treeOk", "it.parentOk": "parentOk", "bytes.Compare(treeKey, it.parentIt.Key())": "cmp"},
			Params: []string{"cmp"}, BParams: []string{"treeOk", "parentOk"}, Doc: "the tree has priority on equal keys"},
		// ---- kvdb/table (C24) ------------------------------------------------------------------
		{Module: "Kv", Name: "noPrefixShort", File: TB, Func: "noPrefix", Sel: "if:0", Mode: "nat", Result: "Bool",
			Vars:   map[string]string{"len(key)": "keyLen", "len(prefix)": "prefixLen", "len(separator)": "sepLen"},
			Params: []string{"keyLen", "prefixLen", "sepLen"}, Doc: "separator is the empty byte string: sepLen = 0"},
		{Module: "Kv", Name: "incPrefixEmpty", File: TB, Func: "incPrefix", Sel: "if:0", Mode: "nat", Result: "Bool",
			Vars: map[string]string{"len(prefix)": "prefixLen"}, Params: []string{"prefixLen"}},
		// ---- kvdb/pebble: prefix range translation (C23) ----------------------------------------
		{Module: "Kv", Name: "rangeAll", File: PB, Func: "bytesPrefixRange", Sel: "if:0", Mode: "nat", Result: "Bool",
			Vars: map[string]string{"prefix == nil": "prefixNil", "start == nil": "startNil"}, BParams: []string{"prefixNil", "startNil"}},
		{Module: "Kv", Name: "rangeHasPrefix", File: PB, Func: "bytesPrefixRange", Sel: "if:1", Mode: "nat", Result: "Bool",
			Vars: map[string]string{"prefix != nil": "prefixSet"}, BParams: []string{"prefixSet"}},
		{Module: "Kv", Name: "limitByteBelowMax", File: PB, Func: "bytesPrefix", Sel: "if:0", Mode: "nat", Result: "Bool",
			Vars: map[string]string{"c": "c"}, Params: []string{"c"}},
		{Module: "Kv", Name: "limitByte", File: PB, Func: "bytesPrefix", Sel: "assign:limit[i]", Mode: "nat", Result: "Nat",
			Vars: map[string]string{"c": "c"}, Params: []string{"c"}, Doc: "guarded by c < 0xff: no byte overflow"},
		// ---- kvdb/leveldb: replayer (C23, repaired by 228cf31) -------------------------------------
		{Module: "Kv", Name: "ldbReplayNilValue", File: "kvdb/leveldb/leveldb.go", Func: "replayer.Put", Sel: "if:1", Mode: "nat", Result: "Bool",
			Vars: map[string]string{"value == nil": "valueNil"}, BParams: []string{"valueNil"},
			Doc: "goleveldb hands an empty value over as nil; the replayer turns it back into an empty slice"},
		{Module: "Kv", Name: "pebbleStarted", File: PB, Func: "iterator.Next", Sel: "if:0", Mode: "nat", Result: "Bool",
			Vars: map[string]string{"it.isStarted": "isStarted"}, BParams: []string{"isStarted"}, Doc: "Next when true, First otherwise"},
	}...)
}
