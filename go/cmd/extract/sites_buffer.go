package main

// Extracted decision kernels of the `buffer` family (C14 ordering buffer, C15 event processor).

const (
	bufEB  = "gossip/dagordering/event_buffer.go"
	bufDP  = "gossip/dagprocessor/processor.go"
	bufSem = "utils/datasemaphore/semaphore.go"
)

func init() {
	sites = append(sites, []Site{
		// ---- gossip/dagordering (C14) -------------------------------------------------------
		{Module: "Buffer", Name: "spillCond", File: bufEB, Func: "EventsBuffer.spillIncompletes", Sel: "for:0", Mode: "nat",
			Vars: map[string]string{"buf.incompletes.Len()": "len", "limit.Num": "limNum",
				"buf.incompletes.Weight()": "weight", "limit.Size": "limSize"},
			Params: []string{"len", "limNum", "weight", "limSize"}, Result: "Bool",
			Doc: "loop condition of the spill; idx.Event is uint32, dag.Metric.Size is uint64"},
		// ---- gossip/dagprocessor (C15) ------------------------------------------------------
		{Module: "Buffer", Name: "maxLamportDiff", File: bufDP, Func: "Processor.process", Sel: "assign:maxLamportDiff", Mode: "u32",
			Vars:   map[string]string{"f.cfg.EventsBufferLimit.Num": "bufNum"},
			Params: []string{"bufNum"}, Result: "Nat", Doc: "idx.Lamport is uint32"},
		{Module: "Buffer", Name: "farFuture", File: bufDP, Func: "Processor.process", Sel: "if:1", Mode: "u32",
			Vars:   map[string]string{"event.Lamport()": "lamport", "highestLamport": "highest", "maxLamportDiff": "maxDiff"},
			Params: []string{"lamport", "highest", "maxDiff"}, Result: "Bool"},
		{Module: "Buffer", Name: "reRequest", File: bufDP, Func: "Processor.process", Sel: "if:2", Mode: "u32",
			Vars:   map[string]string{"event.Lamport()": "lamport", "highestLamport": "highest", "maxLamportDiff": "maxDiff", "complete": "complete"},
			Params: []string{"lamport", "highest", "maxDiff"}, BParams: []string{"complete"}, Result: "Bool"},
		{Module: "Buffer", Name: "orderedLoop", File: bufDP, Func: "Processor.Enqueue", Sel: "for:1", Mode: "nat",
			Vars:   map[string]string{"processed": "processed", "len(orderedResults)": "n", "orderedResults[i] != nil": "present"},
			Params: []string{"processed", "n"}, BParams: []string{"present"}, Result: "Bool",
			Doc: "inner loop of the ordered reassembly (i = processed throughout)"},
		{Module: "Buffer", Name: "batchLoop", File: bufDP, Func: "Processor.Enqueue", Sel: "for:0", Mode: "nat",
			Vars:   map[string]string{"processed": "processed", "eventsLen": "n"},
			Params: []string{"processed", "n"}, Result: "Bool"},
		// ---- utils/datasemaphore as used by the processor (C15) -----------------------------
		{Module: "Buffer", Name: "semAddNum", File: bufSem, Func: "DataSemaphore.tryAcquire", Sel: "assign:tmp.Num", Mode: "u32",
			Vars: map[string]string{"tmp.Num": "held", "metric.Num": "req"}, Params: []string{"held", "req"}, Result: "Nat"},
		{Module: "Buffer", Name: "semAddSize", File: bufSem, Func: "DataSemaphore.tryAcquire", Sel: "assign:tmp.Size", Mode: "u64",
			Vars: map[string]string{"tmp.Size": "held", "metric.Size": "req"}, Params: []string{"held", "req"}, Result: "Nat"},
		{Module: "Buffer", Name: "semOverflow", File: bufSem, Func: "DataSemaphore.tryAcquire", Sel: "if:0", Mode: "nat",
			Vars:   map[string]string{"tmp.Num": "newNum", "metric.Num": "reqNum", "tmp.Size": "newSize", "metric.Size": "reqSize"},
			Params: []string{"newNum", "reqNum", "newSize", "reqSize"}, Result: "Bool"},
		{Module: "Buffer", Name: "semOverCap", File: bufSem, Func: "DataSemaphore.tryAcquire", Sel: "if:1", Mode: "nat",
			Vars:   map[string]string{"tmp.Num": "newNum", "s.maxProcessing.Num": "capNum", "tmp.Size": "newSize", "s.maxProcessing.Size": "capSize"},
			Params: []string{"newNum", "capNum", "newSize", "capSize"}, Result: "Bool"},
		{Module: "Buffer", Name: "semUnderflow", File: bufSem, Func: "DataSemaphore.Release", Sel: "if:0", Mode: "nat",
			Vars:   map[string]string{"s.processing.Num": "heldNum", "weight.Num": "relNum", "s.processing.Size": "heldSize", "weight.Size": "relSize"},
			Params: []string{"heldNum", "relNum", "heldSize", "relSize"}, Result: "Bool"},
		{Module: "Buffer", Name: "semSubNum", File: bufSem, Func: "DataSemaphore.Release", Sel: "assign:s.processing.Num", Mode: "nat",
			Vars: map[string]string{"s.processing.Num": "held", "weight.Num": "rel"}, Params: []string{"held", "rel"}, Result: "Nat",
			Doc: "guarded by semUnderflow: held ≥ rel, the truncated subtraction is exact"},
		{Module: "Buffer", Name: "semSubSize", File: bufSem, Func: "DataSemaphore.Release", Sel: "assign:s.processing.Size", Mode: "nat",
			Vars: map[string]string{"s.processing.Size": "held", "weight.Size": "rel"}, Params: []string{"held", "rel"}, Result: "Nat",
			Doc: "guarded by semUnderflow"},
	}...)
}
