package main

// Structural facts of the `multi` family: C25 (flush protocol of flushable.SyncedPool and
// flaggedproducer), C26 (multidb routing / table records), C27 (cachedproducer). See sites_facts.go.
// Expected values: lean/LachesisVerif/Props/Factsmulti.lean.
func init() {
	fact := func(module, name, file, fn, sel, doc string) Site {
		return Site{Module: module, Name: name, File: file, Func: fn, Sel: sel, Result: "Bool", Doc: doc}
	}
	const (
		SPf = "kvdb/flushable/synced_pool.go"
		FPf = "kvdb/flaggedproducer/producer.go"
		FSf = "kvdb/flaggedproducer/store.go"
		MPf = "kvdb/multidb/producer.go"
		MVf = "kvdb/multidb/verify.go"
		MRf = "kvdb/multidb/records.go"
		FFf = "utils/fmtfilter/fmt.go"
		CPf = "kvdb/cachedproducer/producer.go"
		CSf = "kvdb/cachedproducer/store.go"
	)
	sites = append(sites, []Site{
		// ---- C25: flushable.SyncedPool (beyond FactsC25 of sites_facts.go) ---------------------------
		fact("FactsC25b", "poolFlushPopsQueue", SPf, "SyncedPool.flush", "topcall:p.popQueuedDrops", "every flush takes the queued drops, unconditionally"),
		fact("FactsC25b", "poolPopClearsQueue", SPf, "SyncedPool.popQueuedDrops", "topassign:p.queuedDrops", "the queue is emptied by the pop: a drop is executed by one flush only"),
		fact("FactsC25b", "poolDropCallbackEnqueues", SPf, "SyncedPool.callbacks", "hascall:p.enqueueDropDb", "store.Drop() only queues the drop"),
		fact("FactsC25b", "poolForgetsDroppedBeforeMarks", SPf, "SyncedPool.flush", "before:delete < w.Flushable.InitUnderlyingDb", "the wrappers of the queued DBs leave p.wrappers before the first `range p.wrappers`: a dropped DB gets no data and no clean mark"),
		{Module: "FactsC25b", Name: "poolMark0Dirty", File: SPf, Func: "SyncedPool.flush", Sel: "call:MarkFlushID#0.2", Mode: "nat", Result: "Bool",
			Vars: map[string]string{"DirtyPrefix": "true", "CleanPrefix": "false"}, Doc: "prefix of the 1st MarkFlushID of flush (DBs to be dropped): true = DirtyPrefix"},
		{Module: "FactsC25b", Name: "poolMark1Dirty", File: SPf, Func: "SyncedPool.flush", Sel: "call:MarkFlushID#1.2", Mode: "nat", Result: "Bool",
			Vars: map[string]string{"DirtyPrefix": "true", "CleanPrefix": "false"}, Doc: "prefix of the 2nd MarkFlushID (remaining wrappers, before drops and data)"},
		{Module: "FactsC25b", Name: "poolMark2Dirty", File: SPf, Func: "SyncedPool.flush", Sel: "call:MarkFlushID#2.2", Mode: "nat", Result: "Bool",
			Vars: map[string]string{"DirtyPrefix": "true", "CleanPrefix": "false"}, Doc: "prefix of the 3rd (last) MarkFlushID: false = CleanPrefix"},
		// ---- C25: flaggedproducer -----------------------------------------------------------------
		fact("FactsC25b", "flaggedPutMarksFirst", FSf, "flaggedStore.Put", "before:s.modified < s.Store.Put", "dirty mark before the write"),
		fact("FactsC25b", "flaggedDeleteMarksFirst", FSf, "flaggedStore.Delete", "before:s.modified < s.Store.Delete", ""),
		fact("FactsC25b", "flaggedBatchMarksFirst", FSf, "flaggedBatch.Write", "before:s.db.modified < s.Batch.Write", ""),
		fact("FactsC25b", "flaggedDropMarksOthersBeforeDrop", FPf, "Producer.OpenDB", "before:other.modified < db.Drop", "DropFn: the remaining DBs are marked dirty before the DB disappears"),
		fact("FactsC25b", "flaggedFlushCleanBeforeReset", FPf, "Producer.Flush", "before:flushable.MarkFlushID < atomic.StoreUint32", "the clean mark goes through Put/modified() first, THEN Dirty := 0"),

		// ---- C26: multidb ---------------------------------------------------------------------------
		fact("FactsC26", "newProducerSorts", MPf, "NewProducer", "topcall:sort.Strings", "patterns are compiled in sorted order (repair of D8), unconditionally"),
		fact("FactsC26", "newProducerSortsBeforeCompile", MPf, "NewProducer", "before:sort.Strings < fmtfilter.CompileFilter", ""),
		fact("FactsC26", "openRoutesBeforeOpen", MPf, "Producer.OpenDB", "before:p.RouteOf < producer.OpenDB", "the DB opened is the routed one"),
		fact("FactsC26", "openChecksAlways", MPf, "Producer.OpenDB", "topcall:p.handleRoute", "every open goes through the record check"),
		fact("FactsC26", "openChecksBeforeTable", MPf, "Producer.OpenDB", "before:p.handleRoute < table.New", "the table store is built (with table.New: key prefix) only after the check"),
		fact("FactsC26", "handleReadsRecords", MPf, "Producer.handleRoute", "topcall:ReadTablesList", "the check runs against the records stored in the DB"),
		fact("FactsC26", "handleChecksBeforeSave", MPf, "Producer.handleRoute", "before:tablesConflicting < WriteTablesList", "check before save: a refused request leaves no record"),
		fact("FactsC26", "writeListPuts", MRf, "WriteTablesList", "hascall:store.Put", "the new record list is stored in the DB itself (survives a restart)"),
		fact("FactsC26", "verifyReadsThenChecks", MVf, "Producer.Verify", "before:p.getRecords < p.verifyRecords", ""),
		fact("FactsC26", "verifyReroutes", MVf, "Producer.verifyRecords", "hascall:p.RouteOf", "every recorded request is routed again with the current table"),
		fact("FactsC26", "getRecordsCollects", MVf, "Producer.getRecords", "before:ReadTablesList < dbRecords[locator]", "the records of every existing DB are collected"),
		fact("FactsC26", "compileChecksOpsPrefix", FFf, "CompileFilter", "before:parseScanfOps < strings.HasPrefix", "the printf verbs must be a prefix of the scanf verbs, checked after parsing and before any matcher is built"),

		// ---- C27: cachedproducer ------------------------------------------------------------------
		fact("FactsC27", "openRearmsDropFirst", CPf, "openDB", "before:c.notDropped[name] < c.mu.Unlock", "notDropped[name] = true on every open, before the re-use return"),
		fact("FactsC27", "openCachesAfterRealOpen", CPf, "openDB", "before:p.OpenDB < c.opened[name]", "the new store is cached after a successful underlying open"),
		fact("FactsC27", "capturesRealClose", CPf, "openDB", "topassign:realClose", "the underlying Close is captured unconditionally"),
		{Module: "FactsC27", Name: "lastCloseReturnsReal", File: CPf, Func: "openDB", Sel: "ret:3", Mode: "nat", Result: "Bool",
			Vars: map[string]string{"realClose()": "realCloseCalled"}, BParams: []string{"realCloseCalled"}, Doc: "CloseFn under `if toClose`: the underlying Close is called and its result returned"},
		fact("FactsC27", "closeWritesBackCounter", CPf, "openDB", "before:counter < c.refCounter[name]", "a non-last close stores the decremented counter"),
		fact("FactsC27", "storeCloseCallsFn", CSf, "StoreWithFn.Close", "hascall:s.CloseFn", "handles close through the counting CloseFn"),
		fact("FactsC27", "storeDropCallsFn", CSf, "StoreWithFn.Drop", "topcall:s.DropFn", ""),
		fact("FactsC27", "wrapUsesOpenDB", CPf, "DBProducer.OpenDB", "hascall:openDB", "both producers share openDB"),
		fact("FactsC27", "wrapAllUsesOpenDB", CPf, "AllDBProducer.OpenDB", "hascall:openDB", ""),
		{Module: "FactsC27", Name: "reuseCounter", File: CPf, Func: "openDB", Sel: "assign:c.refCounter[name]#0", Mode: "nat", Result: "Nat",
			Vars: map[string]string{"c.refCounter[name]": "ref"}, Params: []string{"ref"}, Doc: "re-use path: c.refCounter[name]++ (a small count of opens, no wrap-around)"},
		{Module: "FactsC27", Name: "newCounter", File: CPf, Func: "openDB", Sel: "assign:c.refCounter[name]#2", Mode: "nat", Result: "Nat",
			Vars: map[string]string{"c.refCounter[name]": "ref"}, Params: []string{"ref"}, Doc: "new store: c.refCounter[name]++"},
		{Module: "FactsC27", Name: "closeCounter", File: CPf, Func: "openDB", Sel: "assign:counter#1", Mode: "nat", Result: "Nat",
			Vars: map[string]string{"counter": "counter"}, Params: []string{"counter"}, Doc: "CloseFn, counter > 1: counter--"},
	}...)
}
