package main

// Structural facts of the emitter / utils properties C19, C20, C21, C29, C30 (see sites_facts.go for
// the mechanism): statements the models Model/Ancestor.lean, Model/Doublesign.lean, Model/Wlru.lean
// and Model/Semaphore.lean hard-code and that no decision kernel covers. Expected values are stated
// in lean/LachesisVerif/Props/Factsmisc.lean.
func init() {
	fact := func(module, name, file, fn, sel, doc string) Site {
		return Site{Module: module, Name: name, File: file, Func: fn, Sel: sel, Result: "Bool", Doc: doc}
	}
	const SE = "emitter/ancestor/search.go"
	const WE = "emitter/ancestor/weighted.go"
	const QI = "emitter/ancestor/quorum_indexer.go"
	const SH = "emitter/doublesign/synced_heuristic.go"
	const PH = "emitter/doublesign/parallel_instance_heuristic.go"
	const LR = "utils/simplewlru/simplewlru.go"
	const SM = "utils/datasemaphore/semaphore.go"
	sites = append(sites, []Site{
		// ---- C19: ChooseParents / strategies -----------------------------------------------------
		fact("FactsC19", "optionsFromSet", SE, "ChooseParents", "topcall:options.Set", "the options are deduplicated (a set) before anything else"),
		fact("FactsC19", "existingAppendedAtTop", SE, "ChooseParents", "topcall:append", "the existing parents are appended unconditionally, outside the strategy loop"),
		fact("FactsC19", "existingAppendedBeforeChoose", SE, "ChooseParents", "before:append < strategies[i].Choose", "the existing parents come first"),
		fact("FactsC19", "existingErasedBeforeChoose", SE, "ChooseParents", "before:optionsSet.Erase < strategies[i].Choose", "existing parents are no options for any strategy"),
		fact("FactsC19", "sliceBeforeChoose", SE, "ChooseParents", "before:optionsSet.Slice < strategies[i].Choose", "a strategy is given the current option set"),
		fact("FactsC19", "metricCallsFnBeforeUpdate", WE, "MetricStrategy.Choose", "before:st.metricFn < maxI", "the compared weight is the metric of the option"),
		fact("FactsC19", "metricUpdatesIndexAndWeight", WE, "MetricStrategy.Choose", "before:maxI < maxWeight", "an update records both the index and the weight"),
		fact("FactsC19", "randomInRange", "emitter/ancestor/rand.go", "RandomStrategy.Choose", "hascall:st.r.Intn", "the random index is drawn by Intn (inside the slice)"),
		// ---- C20: QuorumIndexer ------------------------------------------------------------------
		fact("FactsC20", "processMarksDirty", QI, "QuorumIndexer.ProcessEvent", "topassign:h.dirty", "every processed event invalidates the medians, unconditionally"),
		fact("FactsC20", "processWritesMatrix", QI, "QuorumIndexer.ProcessEvent", "before:seqOf < h.globalMatrix.Row(validatorIdx)[creatorIdx]", "the matrix cell gets the fork-adjusted observation"),
		fact("FactsC20", "processWritesSelf", QI, "QuorumIndexer.ProcessEvent", "before:seqOf < h.selfParentSeqs[validatorIdx]", ""),
		fact("FactsC20", "recacheSortsBeforeMedian", QI, "QuorumIndexer.recacheState", "before:sort.Slice < wmedian.Of", "wmedian.Of scans pairs sorted by descending seq"),
		fact("FactsC20", "recacheStopsAtQuorum", QI, "QuorumIndexer.recacheState", "hascall:h.validators.Quorum", ""),
		fact("FactsC20", "recacheUsesWeights", QI, "QuorumIndexer.recacheState", "hascall:h.validators.GetWeightByIdx", ""),
		fact("FactsC20", "recacheStoresBeforeClean", QI, "QuorumIndexer.recacheState", "before:h.globalMedianSeqs[validatorIdx] < h.dirty", "medians are stored, then the state is marked clean"),
		fact("FactsC20", "recacheRenewsStrategy", QI, "QuorumIndexer.recacheState", "topassign:h.searchStrategy", "the metric cache never outlives a recache"),
		fact("FactsC20", "metricRecachesBeforeDiff", QI, "QuorumIndexer.GetMetricOf", "before:h.recacheState < h.diffMetricFn", "medians are refreshed before they are read"),
		fact("FactsC20", "metricForkAdjusted", QI, "QuorumIndexer.GetMetricOf", "before:seqOf < h.diffMetricFn", "the candidate's observation is fork-adjusted"),
		fact("FactsC20", "mediansRecache", QI, "QuorumIndexer.GetGlobalMedianSeqs", "hascall:h.recacheState", ""),
		fact("FactsC20", "strategyRecaches", QI, "QuorumIndexer.SearchStrategy", "hascall:h.recacheState", ""),
		// ---- C21: doublesign heuristics ----------------------------------------------------------
		fact("FactsC21", "emitChecksP2PZero", SH, "SyncedToEmit", "hascall:s.P2PSynced.IsZero", "the unfinished-sync guard (no kernel)"),
		fact("FactsC21", "emitGuardsBeforeWaits", SH, "SyncedToEmit", "before:s.P2PSynced.IsZero < max.apply", "the guards return before any wait is accumulated"),
		fact("FactsC21", "emitUsesRemaining", SH, "SyncedToEmit", "hascall:remaining", "waits are computed by the saturating `remaining` (an argument of max.apply)"),
		fact("FactsC21", "emitSinceBeforeApply", SH, "SyncedToEmit", "before:s.Since < max.apply", ""),
		fact("FactsC21", "applySetsWaitAndErr", SH, "maxWaitError.apply", "before:m.wait < m.waitErr", "a larger wait replaces both the wait and its error"),
		fact("FactsC21", "sinceIsNowSub", SH, "SyncStatus.Since", "hascall:s.Now.Sub", "Since(t) = Now.Sub(t) (saturating)"),
		fact("FactsC21", "parallelChecksStartup", PH, "DetectParallelInstance", "hascall:s.ExternalSelfEventCreated.Before", "the older-than-startup guard (no kernel)"),
		fact("FactsC21", "parallelUsesSince", PH, "DetectParallelInstance", "hascall:s.Since", ""),
		// ---- C29: simplewlru ---------------------------------------------------------------------
		fact("FactsC29", "removeUnlinks", LR, "Cache.removeElement", "topcall:c.evictList.Remove", ""),
		fact("FactsC29", "removeDeletesKey", LR, "Cache.removeElement", "topcall:delete", ""),
		fact("FactsC29", "removeReports", LR, "Cache.removeElement", "hascall:c.onEvict", "every removed entry goes to the eviction callback"),
		fact("FactsC29", "addRefreshes", LR, "Cache.Add", "hascall:c.evictList.MoveToFront", "a re-add makes the entry the newest"),
		fact("FactsC29", "addPushesFront", LR, "Cache.Add", "topcall:c.evictList.PushFront", "a new entry is the newest"),
		fact("FactsC29", "addWeightBeforeNormalize", LR, "Cache.Add", "before:c.weight < c.normalize", "the bounds are enforced on the updated weight"),
		fact("FactsC29", "getRefreshes", LR, "Cache.Get", "hascall:c.evictList.MoveToFront", ""),
		fact("FactsC29", "peekRefreshes", LR, "Cache.Peek", "hascall:c.evictList.MoveToFront", "expected false"),
		fact("FactsC29", "normalizeEvictsOldest", LR, "Cache.normalize", "hascall:c.removeOldest", ""),
		fact("FactsC29", "oldestIsBack", LR, "Cache.removeOldest", "before:c.evictList.Back < c.removeElement", "the victim is the back of the list"),
		fact("FactsC29", "keysFromBack", LR, "Cache.Keys", "before:c.evictList.Back < ent.Prev", "oldest first"),
		fact("FactsC29", "purgeReports", LR, "Cache.Purge", "before:c.onEvict < c.evictList.Init", "Purge reports the entries and empties the list"),
		// ---- C30: datasemaphore ------------------------------------------------------------------
		fact("FactsC30", "releaseBroadcastsAlways", SM, "DataSemaphore.Release", "topcall:s.cond.Broadcast", "every release wakes the waiters"),
		fact("FactsC30", "releaseWarnsBeforeReset", SM, "DataSemaphore.Release", "before:s.warning < s.processing", "the warning sees the held amount, then it is reset"),
		fact("FactsC30", "terminateZeroesCap", SM, "DataSemaphore.Terminate", "topassign:s.maxProcessing", ""),
		fact("FactsC30", "terminateBroadcasts", SM, "DataSemaphore.Terminate", "topcall:s.cond.Broadcast", ""),
		fact("FactsC30", "terminateZeroBeforeBroadcast", SM, "DataSemaphore.Terminate", "before:s.maxProcessing < s.cond.Broadcast", "woken waiters see the zero capacity"),
		fact("FactsC30", "acquireArmsTimer", SM, "DataSemaphore.Acquire", "topcall:time.AfterFunc", "a deadline timer exists for every Acquire"),
		fact("FactsC30", "acquireTimerBroadcasts", SM, "DataSemaphore.Acquire", "before:s.cond.Broadcast < s.cond.Wait", "the timer callback (declared before the loop) broadcasts"),
		fact("FactsC30", "acquireTriesBeforeWait", SM, "DataSemaphore.Acquire", "before:s.tryAcquire < s.cond.Wait", "a fitting request is granted without sleeping"),
		fact("FactsC30", "acquireDeadlineFirst", SM, "DataSemaphore.Acquire", "before:deadline < s.tryAcquire", "the deadline is taken at the call"),
		fact("FactsC30", "tryStartsFromHeld", SM, "DataSemaphore.tryAcquire", "topassign:tmp", ""),
		fact("FactsC30", "tryCommits", SM, "DataSemaphore.tryAcquire", "topassign:s.processing", "a granted request is added to the held amount, after both tests"),
		fact("FactsC30", "tryAcquireDelegates", SM, "DataSemaphore.TryAcquire", "hascall:s.tryAcquire", ""),
	}...)
}
