package main

// Extracted decision kernels of the `multi` family (C25 crash consistency, C26 multidb routing).
// String / byte-slice predicates are leaves (Bool parameters named after the Go expression); what is
// regenerated is the way the code combines them, the constants and the mark layout. An edit of a
// leaf's source text makes the site fail (tie broken), an edit of the combination changes the model.

const (
	SP = "kvdb/flushable/synced_pool.go"
	FS = "kvdb/flaggedproducer/store.go"
	MP = "kvdb/multidb/producer.go"
	MV = "kvdb/multidb/verify.go"
)

func init() {
	sites = append(sites, []Site{
		// ---- kvdb/flushable, kvdb/flaggedproducer (C25) --------------------------------------
		{Module: "SyncedPool", Name: "dirtyPrefix", File: SP, Sel: "const:DirtyPrefix", Mode: "nat", Result: "Nat"},
		{Module: "SyncedPool", Name: "cleanPrefix", File: SP, Sel: "const:CleanPrefix", Mode: "nat", Result: "Nat"},
		{Module: "SyncedPool", Name: "markValue", File: SP, Func: "MarkFlushID", Sel: "ret:0", Mode: "nat", PType: "List Nat", Result: "List Nat",
			Vars:   map[string]string{"db.Put(key, append([]byte{prefix}, flushID...))": "(pfx ++ flushID)"},
			Params: []string{"pfx", "flushID"}, Doc: "value stored under the flush-id key; pfx = [prefix]"},
		{Module: "SyncedPool", Name: "markMissing", File: SP, Func: "CheckDBsSynced", Sel: "if:1", Mode: "nat", Result: "Bool",
			Vars: map[string]string{"mark == nil": "markIsNil"}, BParams: []string{"markIsNil"}},
		{Module: "SyncedPool", Name: "markDirty", File: SP, Func: "CheckDBsSynced", Sel: "if:2", Mode: "nat", Result: "Bool",
			Vars: map[string]string{"bytes.HasPrefix(mark, []byte{DirtyPrefix})": "hasDirtyPrefix"}, BParams: []string{"hasDirtyPrefix"}},
		{Module: "SyncedPool", Name: "adoptMark", File: SP, Func: "CheckDBsSynced", Sel: "if:3", Mode: "nat", Result: "Bool",
			Vars: map[string]string{"flushID == nil": "idIsNil"}, BParams: []string{"idIsNil"}},
		{Module: "SyncedPool", Name: "notSynced", File: SP, Func: "CheckDBsSynced", Sel: "if:4", Mode: "nat", Result: "Bool",
			Vars: map[string]string{"bytes.Equal(mark, flushID)": "markEqId"}, BParams: []string{"markEqId"}},
		{Module: "SyncedPool", Name: "nonInitialized", File: SP, Func: "CheckDBsSynced", Sel: "if:5", Mode: "nat", Result: "Bool",
			Vars: map[string]string{"flushID != nil": "idNotNil", "nonInit": "nonInit"}, BParams: []string{"idNotNil", "nonInit"}},
		{Module: "SyncedPool", Name: "flaggedNeedsMark", File: FS, Func: "flaggedStore.modified", Sel: "if:0", Mode: "nat", Result: "Bool",
			Vars: map[string]string{"atomic.LoadUint32(&s.Dirty)": "dirty"}, Params: []string{"dirty"}},
		{Module: "SyncedPool", Name: "flaggedDirtyMark", File: FS, Func: "flaggedStore.modified", Sel: "assign:err", Mode: "nat", Result: "List Nat",
			Vars: map[string]string{"s.Store.Put(s.flushIDKey, []byte{flushable.DirtyPrefix})": "[dirtyPrefix]"}},
		// ---- kvdb/multidb (C26) ---------------------------------------------------------------
		{Module: "Multidb", Name: "exactRoute", File: MP, Func: "NewProducer", Sel: "if:1", Mode: "nat", Result: "Bool",
			Vars:    map[string]string{"strings.ContainsRune(req, '%')": "reqHasPercent", "strings.ContainsRune(route.Name, '%')": "nameHasPercent"},
			BParams: []string{"reqHasPercent", "nameHasPercent"}},
		{Module: "Multidb", Name: "tryNextPattern", File: MP, Func: "Producer.RouteOf", Sel: "for:1", Mode: "nat", Result: "Bool",
			Vars:   map[string]string{"ok": "found", "i": "i", "len(p.routingFmt)": "n"},
			Params: []string{"i", "n"}, BParams: []string{"found"}},
		{Module: "Multidb", Name: "tablesConflicting", File: MP, Func: "tablesConflicting", Sel: "ret:0", Mode: "nat", Result: "Bool",
			Vars:    map[string]string{"strings.HasPrefix(a, b)": "bPrefixOfA", "strings.HasPrefix(b, a)": "aPrefixOfB"},
			BParams: []string{"bPrefixOfA", "aPrefixOfB"}},
		{Module: "Multidb", Name: "recordFound", File: MP, Func: "Producer.handleRoute", Sel: "if:1", Mode: "nat", Result: "Bool",
			Vars:    map[string]string{"old.Req == req": "sameReq", "old.Table == route.Table": "sameTable"},
			BParams: []string{"sameReq", "sameTable"}},
		{Module: "Multidb", Name: "recordReassigned", File: MP, Func: "Producer.handleRoute", Sel: "if:2", Mode: "nat", Result: "Bool",
			Vars:    map[string]string{"old.Req == req": "sameReq", "old.Table != route.Table": "otherTable"},
			BParams: []string{"sameReq", "otherTable"}},
		{Module: "Multidb", Name: "recordConflicts", File: MP, Func: "Producer.handleRoute", Sel: "if:3", Mode: "nat", Result: "Bool",
			Vars:    map[string]string{"tablesConflicting(old.Table, route.Table)": "conflicting"},
			BParams: []string{"conflicting"}},
		{Module: "Multidb", Name: "verifyTypeDiffers", File: MV, Func: "Producer.verifyRecords", Sel: "if:0", Mode: "nat", Result: "Bool",
			Vars: map[string]string{"oldLoc.Type != newRoute.Type": "typeDiffers"}, BParams: []string{"typeDiffers"}},
		{Module: "Multidb", Name: "verifyNameDiffers", File: MV, Func: "Producer.verifyRecords", Sel: "if:1", Mode: "nat", Result: "Bool",
			Vars: map[string]string{"oldLoc.Name != newRoute.Name": "nameDiffers"}, BParams: []string{"nameDiffers"}},
		{Module: "Multidb", Name: "verifyTableDiffers", File: MV, Func: "Producer.verifyRecords", Sel: "if:2", Mode: "nat", Result: "Bool",
			Vars: map[string]string{"old.Table != newRoute.Table": "tableDiffers"}, BParams: []string{"tableDiffers"}},
	}...)
}
