package main

// Structural facts of the consensus family, one module per property (C01, C02, C04, C08, C09, C33).
// They complement FactsCons / FactsVec (sites_facts.go); expected values: lean/LachesisVerif/Props/Factscons.lean.
func init() {
	fact := func(module, name, file, fn, sel, doc string) Site {
		return Site{Module: module, Name: name, File: file, Func: fn, Sel: sel, Result: "Bool", Doc: doc}
	}
	const (
		EM = "abft/election/election_math.go"
		EL = "abft/election/election.go"
		EP = "abft/event_processing.go"
		FD = "abft/frame_decide.go"
		BS = "abft/bootstrap.go"
		LA = "abft/lachesis.go"
		TR = "abft/traversal.go"
		SR = "abft/store_roots.go"
		ST = "abft/store.go"
		EC = "abft/store_event_confirmed.go"
		FC = "vecfc/forkless_cause.go"
		WL = "utils/simplewlru/simplewlru.go"
	)
	sites = append(sites, []Site{
		// ---- C01: order independence -----------------------------------------------------------------
		fact("FactsC01", "processRootChoosesFirst", EM, "Election.ProcessRoot", "topcall:el.chooseAtropos", "a decided election answers every later root with its result and takes no more votes"),
		fact("FactsC01", "subjectsUnconditional", EM, "Election.ProcessRoot", "topcall:el.notDecidedRoots", "the subjects of this root's votes are computed once, before the vote loop"),
		fact("FactsC01", "subjectsBeforeVotes", EM, "Election.ProcessRoot", "before:el.notDecidedRoots < el.votes[vid]", "votes are written only after the subject list was fixed"),
		fact("FactsC01", "decisionThenVote", EM, "Election.ProcessRoot", "before:el.decidedRoots[validatorSubject] < el.votes[vid]", "a decided vote is recorded in decidedRoots and every vote is stored for the next rounds"),
		fact("FactsC01", "handleDecidesAfterVote", EP, "Orderer.handleElection", "before:p.election.ProcessRoot < p.onFrameDecided", ""),
		fact("FactsC01", "handleReprocessesKnownRoots", EP, "Orderer.handleElection", "before:p.onFrameDecided < p.bootstrapElection", "after a decision the known roots are re-voted in the new election: what makes the result independent of the arrival order"),
		fact("FactsC01", "bootstrapElectionLoops", EP, "Orderer.bootstrapElection", "before:p.processKnownRoots < p.onFrameDecided", ""),
		fact("FactsC01", "knownRootsFromLastDecided", EP, "Orderer.processKnownRoots", "topcall:p.store.GetLastDecidedFrame", ""),
		fact("FactsC01", "knownRootsReadsThenVotes", EP, "Orderer.processKnownRoots", "before:p.store.GetFrameRoots < p.election.ProcessRoot", "the re-vote feeds the roots of the table, frame by frame"),
		fact("FactsC01", "processSavesAtTop", EP, "Orderer.Process", "topcall:p.checkAndSaveEvent", "every Process checks the frame and registers the root first, unconditionally"),
		fact("FactsC01", "fcInitsBranchesFirst", FC, "Index.ForklessCause", "before:vi.Engine.InitBranchesInfo < vi.forklessCause", "the branch table is loaded before an uncached forkless-cause query reads it"),
		fact("FactsC01", "fcCountsByCreator", FC, "Index.forklessCause", "hascall:yes.CountByIdx", "a creator with several branches is counted once (by creator index)"),
		// ---- C02: block = new ancestry of the Atropos ---------------------------------------------------
		fact("FactsC02", "confirmWalksDfs", LA, "Lachesis.confirmEvents", "topcall:p.dfsSubgraph", ""),
		fact("FactsC02", "confirmChecksBeforeMark", LA, "Lachesis.confirmEvents", "before:p.store.GetEventConfirmedOn < p.store.SetEventConfirmedOn", "an event is marked only after it was found unconfirmed"),
		fact("FactsC02", "confirmMarksBeforeApply", LA, "Lachesis.confirmEvents", "before:p.store.SetEventConfirmedOn < onEventConfirmed", "the walked event is marked and handed to the application"),
		fact("FactsC02", "dfsReadsBeforeFilter", TR, "Orderer.dfsSubgraph", "before:p.input.GetEvent < filter", ""),
		fact("FactsC02", "dfsFiltersBeforePush", TR, "Orderer.dfsSubgraph", "before:filter < stack.Push", "parents are pushed only for events the filter accepted"),
		fact("FactsC02", "dfsPushesParents", TR, "Orderer.dfsSubgraph", "hascall:event.Parents", ""),
		fact("FactsC02", "dfsPops", TR, "Orderer.dfsSubgraph", "hascall:stack.Pop", "the walk continues with the stack until it is empty"),
		fact("FactsC02", "applyBeginsBeforeConfirm", LA, "Lachesis.applyAtropos", "before:p.callback.BeginBlock < p.confirmEvents", ""),
		fact("FactsC02", "applyConfirmsBeforeEnd", LA, "Lachesis.applyAtropos", "before:p.confirmEvents < blockCallback.EndBlock", "EndBlock (the seal decision) comes after all events of the block were delivered"),
		fact("FactsC02", "confirmedWrittenToEpochTable", EC, "Store.SetEventConfirmedOn", "hascall:s.epochTable.ConfirmedEvent.Put", "the confirmed marks live in the epoch DB: per epoch, persistent"),
		fact("FactsC02", "confirmedReadFromEpochTable", EC, "Store.GetEventConfirmedOn", "topcall:s.epochTable.ConfirmedEvent.Get", ""),
		// ---- C04: frame rule ------------------------------------------------------------------------
		fact("FactsC04", "checkCalcsAtTop", EP, "Orderer.checkAndSaveEvent", "topcall:p.calcFrameIdx", ""),
		fact("FactsC04", "checkBeforeSave", EP, "Orderer.checkAndSaveEvent", "before:p.calcFrameIdx < p.store.AddRoot", "the frame is computed (and compared) before the event is registered as a root"),
		fact("FactsC04", "buildSetsFrame", EP, "Orderer.Build", "topcall:e.SetFrame", ""),
		fact("FactsC04", "buildCalcsBeforeSet", EP, "Orderer.Build", "before:p.calcFrameIdx < e.SetFrame", ""),
		fact("FactsC04", "buildDoesNotSave", EP, "Orderer.Build", "hascall:p.store.AddRoot", "EXPECTED FALSE: building registers no root"),
		fact("FactsC04", "calcDoesNotSave", EP, "Orderer.calcFrameIdx", "hascall:p.store.AddRoot", "EXPECTED FALSE: computing a frame leaves no trace in the roots table"),
		fact("FactsC04", "spfDefaultsToZero", EP, "Orderer.calcFrameIdx", "topassign:selfParentFrame", "no self-parent: self-parent frame 0"),
		fact("FactsC04", "spfFromSelfParent", EP, "Orderer.calcFrameIdx", "hascall:p.input.GetEvent(*e.SelfParent()).Frame", ""),
		fact("FactsC04", "quorumFreshCounter", EP, "Orderer.forklessCausedByQuorumOn", "topcall:p.store.GetValidators().NewCounter", "a fresh counter over the epoch's validators per (event, frame)"),
		fact("FactsC04", "quorumReadsFrameRoots", EP, "Orderer.forklessCausedByQuorumOn", "hascall:p.store.GetFrameRoots", ""),
		fact("FactsC04", "quorumAsksIndexThenCounts", EP, "Orderer.forklessCausedByQuorumOn", "before:p.dagIndex.ForklessCause < observedCounter.Count", ""),
		fact("FactsC04", "addRootEveryFrame", SR, "Store.AddRoot", "hascall:s.addRoot", "one registration per frame of (selfParentFrame, frame]"),
		// ---- C08: restart -----------------------------------------------------------------------------
		fact("FactsC08", "bootstrapLoadsEpochDB", BS, "Orderer.Bootstrap", "topcall:p.loadEpochDB", ""),
		fact("FactsC08", "bootstrapCallbackBeforeRevote", BS, "Orderer.Bootstrap", "before:p.callback < p.bootstrapElection", "the block handler is set before the re-vote can decide a frame"),
		fact("FactsC08", "bootstrapNotifiesBeforeElection", BS, "Orderer.Bootstrap", "before:p.callback.EpochDBLoaded < election.New", "the index is reset over the persisted tables before the election asks it"),
		fact("FactsC08", "bootstrapElectionBeforeRevote", BS, "Orderer.Bootstrap", "before:election.New < p.bootstrapElection", ""),
		fact("FactsC08", "bootstrapRevotesAtTop", BS, "Orderer.Bootstrap", "topcall:p.bootstrapElection", "the known roots are re-voted unconditionally"),
		fact("FactsC08", "loadUsesStoredEpoch", BS, "Orderer.loadEpochDB", "hascall:p.store.GetEpoch", "the epoch DB opened is the one of the persisted epoch state"),
		fact("FactsC08", "decidedStateWrittenThrough", "abft/store_last_decided_state.go", "Store.SetLastDecidedState", "topcall:s.set", "LastDecidedFrame reaches the main DB with every change, not only the cache"),
		fact("FactsC08", "epochStateWrittenThrough", "abft/store_epoch_state.go", "Store.SetEpochState", "topcall:s.setEpochState", ""),
		fact("FactsC08", "epochStateSetWrites", "abft/store_epoch_state.go", "Store.setEpochState", "topcall:s.set", ""),
		fact("FactsC08", "rootPersisted", SR, "Store.addRoot", "hascall:s.epochTable.Roots.Put", "every root goes to the epoch DB, whatever the cache holds"),
		fact("FactsC08", "initReadsPersistedFirst", "vecengine/branches_info.go", "Engine.InitBranchesInfo", "before:vi.getBranchesInfo < newInitialBranchesInfo", "a fresh index prefers the persisted branch table to the initial one"),
		fact("FactsC08", "engineResetBindsTablesToDB", "vecengine/index.go", "Engine.Reset", "before:vi.vecDb < table.MigrateTables", "the vector tables are bound to the (wrapped) DB handed to Reset"),
		// ---- C09: sealing ---------------------------------------------------------------------------
		fact("FactsC09", "sealSetsValidators", FD, "Orderer.sealEpoch", "topassign:epochState.Validators", ""),
		fact("FactsC09", "applyBeforeSeal", FD, "Orderer.onFrameDecided", "before:p.callback.ApplyAtropos < p.sealEpoch", "the sealing block is delivered in the old epoch (old validators, old epoch DB) before the switch"),
		fact("FactsC09", "resetDropsBeforeOpen", FD, "Orderer.resetEpochStore", "before:p.store.dropEpochDB < p.store.openEpochDB", ""),
		fact("FactsC09", "resetOpensAtTop", FD, "Orderer.resetEpochStore", "topcall:p.store.openEpochDB", ""),
		fact("FactsC09", "resetNotifiesAfterOpen", FD, "Orderer.resetEpochStore", "before:p.store.openEpochDB < p.callback.EpochDBLoaded", "the index is reset over the NEW epoch's tables"),
		fact("FactsC09", "dropClosesBeforeDrop", ST, "Store.dropEpochDB", "before:prevDb.Close < prevDb.Drop", "the old epoch DB (roots, confirmed marks, vectors) is really dropped"),
		fact("FactsC09", "openRebindsTables", ST, "Store.openEpochDB", "before:s.epochDB < table.MigrateTables", "roots / confirmed / vector tables point into the new epoch DB"),
		fact("FactsC09", "resetGenesisBeforeStore", BS, "Orderer.Reset", "before:p.store.applyGenesis < p.resetEpochStore", ""),
		fact("FactsC09", "resetElectionAfterStore", BS, "Orderer.Reset", "before:p.resetEpochStore < p.election.Reset", ""),
		fact("FactsC09", "electionResetClearsVotes", EL, "Election.Reset", "topassign:el.votes", "unconditional: no vote of the old epoch survives"),
		fact("FactsC09", "electionResetClearsDecided", EL, "Election.Reset", "topassign:el.decidedRoots", ""),
		fact("FactsC09", "electionResetSetsValidators", EL, "Election.Reset", "topassign:el.validators", "unconditional (not guarded by a comparison of the sets)"),
		// ---- C33: root registry ------------------------------------------------------------------------
		fact("FactsC33", "addRootWritesTable", SR, "Store.addRoot", "hascall:s.epochTable.Roots.Put", ""),
		fact("FactsC33", "addRootWriteBeforeCache", SR, "Store.addRoot", "before:s.epochTable.Roots.Put < s.cache.FrameRoots.Add", "write, then cache update"),
		fact("FactsC33", "addRootCacheOnlyIfPresent", SR, "Store.addRoot", "before:s.cache.FrameRoots.Get < s.cache.FrameRoots.Add", "the cached list of the frame is extended, never created from one root"),
		fact("FactsC33", "addRootCacheAddUnguarded", SR, "Store.addRoot", "topcall:s.cache.FrameRoots.Add", "EXPECTED FALSE: the cache is touched only inside the `if cached` branch"),
		fact("FactsC33", "getChecksCacheFirst", SR, "Store.GetFrameRoots", "before:s.cache.FrameRoots.Get < s.epochTable.Roots.NewIterator", ""),
		fact("FactsC33", "getIteratesTable", SR, "Store.GetFrameRoots", "topcall:s.epochTable.Roots.NewIterator", ""),
		fact("FactsC33", "getFillsCacheAtTop", SR, "Store.GetFrameRoots", "topcall:s.cache.FrameRoots.Add", ""),
		fact("FactsC33", "getFillsAfterIteration", SR, "Store.GetFrameRoots", "before:it.Next < s.cache.FrameRoots.Add", "the cached list is the complete list read from the table"),
		fact("FactsC33", "openPurgesRoots", ST, "Store.openEpochDB", "topcall:s.cache.FrameRoots.Purge", "a new epoch starts with an empty roots cache, unconditionally"),
		fact("FactsC33", "openRebindsTables", ST, "Store.openEpochDB", "topcall:table.MigrateTables", "and with the roots table of the new epoch DB"),
		fact("FactsC33", "wlruAddReplacesExisting", WL, "Cache.Add", "before:c.evictList.MoveToFront < existing.value", "Add on a present key replaces its value"),
		fact("FactsC33", "wlruAddStoresNew", WL, "Cache.Add", "topassign:c.items[key]", ""),
		fact("FactsC33", "wlruPurgeDeletes", WL, "Cache.Purge", "hascall:delete", ""),
	}...)
}
