package main

// Extracted decision kernels of the `cache` family (C27, C29, C30).

const (
	wlruFile = "utils/simplewlru/simplewlru.go"
	semFile  = "utils/datasemaphore/semaphore.go"
	cpFile   = "kvdb/cachedproducer/producer.go"
)

func init() {
	semTry := map[string]string{"tmp.Num": "sumNum", "metric.Num": "num", "tmp.Size": "sumSize", "metric.Size": "size",
		"s.maxProcessing.Num": "capNum", "s.maxProcessing.Size": "capSize"}
	semRel := map[string]string{"s.processing.Num": "heldNum", "weight.Num": "num", "s.processing.Size": "heldSize", "weight.Size": "size"}
	sites = append(sites, []Site{
		// ---- utils/simplewlru (C29) ---------------------------------------------------------
		{Module: "Wlru", Name: "normalizeCond", File: wlruFile, Func: "Cache.normalize", Sel: "for:0", Mode: "nat",
			Vars:   map[string]string{"c.weight": "weight", "c.maxWeight": "maxWeight", "c.Len()": "len", "c.maxSize": "maxSize"},
			Params: []string{"weight", "maxWeight", "len", "maxSize"}, Result: "Bool",
			Doc: "loop condition of normalize; maxSize is an int that NewWithEvict requires to be >= 0"},
		{Module: "Wlru", Name: "removeSub", File: wlruFile, Func: "Cache.removeElement", Sel: "assign:c.weight", Mode: "nat",
			Vars: map[string]string{"c.weight": "weight", "kv.weight": "entryWeight"}, Params: []string{"weight", "entryWeight"}, Result: "Nat",
			Doc: "c.weight is the sum of the entry weights, so the subtraction cannot underflow"},
		{Module: "Wlru", Name: "readdSub", File: wlruFile, Func: "Cache.Add", Sel: "assign:c.weight", Mode: "nat",
			Vars: map[string]string{"c.weight": "weight", "existing.weight": "oldWeight"}, Params: []string{"weight", "oldWeight"}, Result: "Nat",
			Doc: "first update of c.weight in Add (existing key): the old weight is taken off"},
		// ---- utils/datasemaphore (C30) ------------------------------------------------------
		{Module: "Semaphore", Name: "addNum", File: semFile, Func: "DataSemaphore.tryAcquire", Sel: "assign:tmp.Num", Mode: "u32",
			Vars: map[string]string{"tmp.Num": "heldNum", "metric.Num": "num"}, Params: []string{"heldNum", "num"}, Result: "Nat",
			Doc: "dag.Metric.Num is idx.Event = uint32: wraps modulo 2^32"},
		{Module: "Semaphore", Name: "addSize", File: semFile, Func: "DataSemaphore.tryAcquire", Sel: "assign:tmp.Size", Mode: "u64",
			Vars: map[string]string{"tmp.Size": "heldSize", "metric.Size": "size"}, Params: []string{"heldSize", "size"}, Result: "Nat",
			Doc: "dag.Metric.Size is uint64: wraps modulo 2^64"},
		{Module: "Semaphore", Name: "overflowCond", File: semFile, Func: "DataSemaphore.tryAcquire", Sel: "if:0", Mode: "nat",
			Vars: semTry, Params: []string{"sumNum", "num", "sumSize", "size"}, Result: "Bool",
			Doc: "wrap-around test on the sums computed just before"},
		{Module: "Semaphore", Name: "exceedsCond", File: semFile, Func: "DataSemaphore.tryAcquire", Sel: "if:1", Mode: "nat",
			Vars: semTry, Params: []string{"sumNum", "capNum", "sumSize", "capSize"}, Result: "Bool"},
		{Module: "Semaphore", Name: "releaseOver", File: semFile, Func: "DataSemaphore.Release", Sel: "if:0", Mode: "nat",
			Vars: semRel, Params: []string{"heldNum", "num", "heldSize", "size"}, Result: "Bool"},
		{Module: "Semaphore", Name: "releaseSubNum", File: semFile, Func: "DataSemaphore.Release", Sel: "assign:s.processing.Num", Mode: "u32",
			Vars: semRel, Params: []string{"heldNum", "num"}, Result: "Nat"},
		{Module: "Semaphore", Name: "releaseSubSize", File: semFile, Func: "DataSemaphore.Release", Sel: "assign:s.processing.Size", Mode: "u64",
			Vars: semRel, Params: []string{"heldSize", "size"}, Result: "Nat"},
		{Module: "Semaphore", Name: "acquireLoop", File: semFile, Func: "DataSemaphore.Acquire", Sel: "for:0", Mode: "nat",
			Vars: map[string]string{"s.tryAcquire(weight)": "acquired"}, BParams: []string{"acquired"}, Result: "Bool",
			Doc: "the waiter keeps looping while this holds"},
		{Module: "Semaphore", Name: "acquireGiveUp", File: semFile, Func: "DataSemaphore.Acquire", Sel: "if:0", Mode: "nat",
			Vars: map[string]string{"weight.Size": "size", "s.maxProcessing.Size": "capSize", "weight.Num": "num", "s.maxProcessing.Num": "capNum",
				"time.Now().After(deadline)": "deadlineReached"},
			Params: []string{"num", "capNum", "size", "capSize"}, BParams: []string{"deadlineReached"}, Result: "Bool",
			Doc: "tested after every failed tryAcquire, before going (back) to sleep"},
		// ---- kvdb/cachedproducer (C27) ------------------------------------------------------
		{Module: "Cachedproducer", Name: "closeTooOften", File: cpFile, Func: "openDB", Sel: "if:2", Mode: "nat",
			Vars: map[string]string{"counter": "counter"}, Params: []string{"counter"}, Result: "Bool",
			Doc: "CloseFn: the counter is a map read (0 when absent) and is never negative"},
		{Module: "Cachedproducer", Name: "closeLast", File: cpFile, Func: "openDB", Sel: "if:3", Mode: "nat",
			Vars: map[string]string{"counter": "counter"}, Params: []string{"counter"}, Result: "Bool"},
		{Module: "Cachedproducer", Name: "reuseOpened", File: cpFile, Func: "openDB", Sel: "if:0", Mode: "nat",
			Vars: map[string]string{"ok": "found"}, BParams: []string{"found"}, Result: "Bool",
			Doc: "`store, ok := c.opened[name]`: an opened store is handed out again"},
		{Module: "Cachedproducer", Name: "doRealClose", File: cpFile, Func: "openDB", Sel: "if:4", Mode: "nat",
			Vars: map[string]string{"toClose": "toClose"}, BParams: []string{"toClose"}, Result: "Bool"},
		{Module: "Cachedproducer", Name: "doRealDrop", File: cpFile, Func: "openDB", Sel: "if:5", Mode: "nat",
			Vars: map[string]string{"toDrop": "toDrop"}, BParams: []string{"toDrop"}, Result: "Bool"},
	}...)
}
