package main

// Extracted decision kernels of the `gossip` family (C16 items fetcher, C17 stream seeder, C18 leechers).

const (
	gSeeder  = "gossip/basestream/basestreamseeder/seeder.go"
	gPeerL   = "gossip/basestream/basestreamleecher/basepeerleecher/session.go"
	gBaseL   = "gossip/basestream/basestreamleecher/base_leecher.go"
	gFetcher = "gossip/itemsfetcher/fetcher.go"
)

func init() {
	sites = append(sites, []Site{
		// ---- basestreamseeder (C17) ---------------------------------------------------------
		{Module: "Seeder", Name: "tooManyChunks", File: gSeeder, Func: "BaseSeeder.NotifyRequestReceived", Sel: "if:0", Mode: "nat",
			Vars: map[string]string{"r.MaxChunks": "maxChunks", "s.cfg.MaxResponseChunks": "cfgChunks"}, Params: []string{"maxChunks", "cfgChunks"}, Result: "Bool"},
		{Module: "Seeder", Name: "clampNum", File: gSeeder, Func: "BaseSeeder.NotifyRequestReceived", Sel: "if:1", Mode: "nat",
			Vars: map[string]string{"r.MaxPayloadNum": "maxNum", "s.cfg.MaxResponsePayloadNum": "cfgNum"}, Params: []string{"maxNum", "cfgNum"}, Result: "Bool"},
		{Module: "Seeder", Name: "clampSize", File: gSeeder, Func: "BaseSeeder.NotifyRequestReceived", Sel: "if:2", Mode: "nat",
			Vars: map[string]string{"r.MaxPayloadSize": "maxSize", "s.cfg.MaxResponsePayloadSize": "cfgSize"}, Params: []string{"maxSize", "cfgSize"}, Result: "Bool"},
		{Module: "Seeder", Name: "pendingFull", File: gSeeder, Func: "BaseSeeder.waitPendingResponsesBelowLimit", Sel: "for:0", Mode: "nat",
			Vars:   map[string]string{"atomic.LoadInt64(&s.pendingResponsesSize)": "pending", "int64(s.cfg.MaxPendingResponsesSize)": "limit"},
			Params: []string{"pending", "limit"}, Result: "Bool", Doc: "the reader waits while this holds"},
		{Module: "Seeder", Name: "isNewSession", File: gSeeder, Func: "BaseSeeder.readerLoop", Sel: "if:0", Mode: "nat",
			Vars: map[string]string{"ok": "found"}, BParams: []string{"found"}, Result: "Bool"},
		{Module: "Seeder", Name: "pruneCond", File: gSeeder, Func: "BaseSeeder.readerLoop", Sel: "if:1", Mode: "nat",
			Vars: map[string]string{"len(sessions)": "nSessions"}, Params: []string{"nSessions"}, Result: "Bool",
			Doc: "the oldest session of the peer is pruned when this holds (evaluated only when a session is created)"},
		{Module: "Seeder", Name: "selectorMismatch", File: gSeeder, Func: "BaseSeeder.readerLoop", Sel: "if:2", Mode: "i64", PType: "Int",
			Vars: map[string]string{"session.origSelector.Compare(op.request.Session.Start)": "cmp"}, Params: []string{"cmp"}, Result: "Bool"},
		{Module: "Seeder", Name: "stopReached", File: gSeeder, Func: "BaseSeeder.readerLoop", Sel: "if:3", Mode: "i64", PType: "Int",
			Vars: map[string]string{"key.Compare(session.stop)": "cmp"}, Params: []string{"cmp"}, Result: "Bool"},
		{Module: "Seeder", Name: "limitReached", File: gSeeder, Func: "BaseSeeder.readerLoop", Sel: "if:4", Mode: "nat",
			Vars: map[string]string{"numReached": "numReached", "sizeReached": "sizeReached"}, BParams: []string{"numReached", "sizeReached"}, Result: "Bool"},
		{Module: "Seeder", Name: "numReached", File: gSeeder, Func: "BaseSeeder.readerLoop", Sel: "assign:numReached", Mode: "nat",
			Vars: map[string]string{"items.Len()": "len", "op.request.MaxPayloadNum": "maxNum"}, Params: []string{"len", "maxNum"}, Result: "Bool"},
		{Module: "Seeder", Name: "sizeReached", File: gSeeder, Func: "BaseSeeder.readerLoop", Sel: "assign:sizeReached", Mode: "nat",
			Vars: map[string]string{"items.TotalSize()": "size", "op.request.MaxPayloadSize": "maxSize"}, Params: []string{"size", "maxSize"}, Result: "Bool"},
		{Module: "Seeder", Name: "chunkLoop", File: gSeeder, Func: "BaseSeeder.readerLoop", Sel: "for:1", Mode: "nat",
			Vars:   map[string]string{"i": "i", "op.request.MaxChunks": "maxChunks", "session.done": "done"},
			Params: []string{"i", "maxChunks"}, BParams: []string{"done"}, Result: "Bool"},
		// ---- basepeerleecher (C18) ----------------------------------------------------------
		{Module: "Leecher", Name: "acceptChunk", File: gPeerL, Func: "BasePeerLeecher.loop", Sel: "if:1", Mode: "nat",
			Vars:   map[string]string{"len(d.processingChunks)": "nProcessing", "d.cfg.ParallelChunksDownload": "parallel"},
			Params: []string{"nProcessing", "parallel"}, Result: "Bool"},
		{Module: "Leecher", Name: "windowOpen", File: gPeerL, Func: "BasePeerLeecher.tryToSync", Sel: "if:1", Mode: "nat",
			Vars:   map[string]string{"d.totalRequested": "requested", "d.totalProcessed": "processed", "d.cfg.ParallelChunksDownload": "parallel"},
			Params: []string{"requested", "processed", "parallel"}, Result: "Bool"},
		{Module: "Leecher", Name: "requestsToSend", File: gPeerL, Func: "BasePeerLeecher.tryToSync", Sel: "assign:requestsToSend", Mode: "nat",
			Vars:   map[string]string{"d.totalRequested": "requested", "d.totalProcessed": "processed", "d.cfg.ParallelChunksDownload": "parallel"},
			Params: []string{"requested", "processed", "parallel"}, Result: "Nat", Doc: "guarded by windowOpen, so the truncated subtraction is exact"},
		{Module: "Leecher", Name: "requestedAfter", File: gPeerL, Func: "BasePeerLeecher.tryToSync", Sel: "assign:d.totalRequested", Mode: "nat",
			Vars: map[string]string{"d.totalRequested": "requested", "requestsToSend": "toSend"}, Params: []string{"requested", "toSend"}, Result: "Nat"},
		// ---- basestreamleecher (C18) --------------------------------------------------------
		{Module: "Leecher", Name: "routineTerminated", File: gBaseL, Func: "BaseLeecher.Routine", Sel: "if:0", Mode: "nat",
			Vars: map[string]string{"d.Terminated": "terminated"}, BParams: []string{"terminated"}, Result: "Bool"},
		{Module: "Leecher", Name: "routineShouldStop", File: gBaseL, Func: "BaseLeecher.Routine", Sel: "if:1", Mode: "nat",
			Vars:    map[string]string{"d.callback.OngoingSession()": "ongoing", "d.callback.ShouldTerminateSession()": "shouldTerminate"},
			BParams: []string{"ongoing", "shouldTerminate"}, Result: "Bool"},
		{Module: "Leecher", Name: "routineIdle", File: gBaseL, Func: "BaseLeecher.Routine", Sel: "if:2", Mode: "nat",
			Vars: map[string]string{"d.callback.OngoingSession()": "ongoing"}, BParams: []string{"ongoing"}, Result: "Bool"},
		{Module: "Leecher", Name: "routineHasCandidates", File: gBaseL, Func: "BaseLeecher.Routine", Sel: "if:3", Mode: "nat",
			Vars: map[string]string{"len(candidates)": "nCandidates"}, Params: []string{"nCandidates"}, Result: "Bool"},
		{Module: "Leecher", Name: "registerRefused", File: gBaseL, Func: "BaseLeecher.RegisterPeer", Sel: "if:0", Mode: "nat",
			Vars: map[string]string{"d.Terminated": "terminated"}, BParams: []string{"terminated"}, Result: "Bool"},
		{Module: "Leecher", Name: "unregisterHitsSession", File: gBaseL, Func: "BaseLeecher.UnregisterPeer", Sel: "if:0", Mode: "nat",
			Vars: map[string]string{"d.callback.OngoingSessionPeer()": "sessionPeer", "peer": "peer"}, Params: []string{"sessionPeer", "peer"}, Result: "Bool",
			Doc: "peers are numbered; 0 = the empty string (no session)"},
		// ---- itemsfetcher (C16) ---------------------------------------------------------------
		{Module: "Fetcher", Name: "noAnnounces", File: gFetcher, Func: "Fetcher.processNotification", Sel: "assign:noAnnounces", Mode: "nat",
			Vars: map[string]string{"f.announces.Len()": "nAnnounces"}, Params: []string{"nAnnounces"}, Result: "Bool"},
		{Module: "Fetcher", Name: "nothingInteresting", File: gFetcher, Func: "Fetcher.processNotification", Sel: "if:0", Mode: "nat",
			Vars: map[string]string{"len(notification.ids)": "nIds"}, Params: []string{"nIds"}, Result: "Bool"},
		{Module: "Fetcher", Name: "fetchNow", File: gFetcher, Func: "Fetcher.processNotification", Sel: "if:1", Mode: "nat",
			Vars: map[string]string{"noFetching": "suspended"}, BParams: []string{"suspended"}, Result: "Bool"},
		{Module: "Fetcher", Name: "notYetFetching", File: gFetcher, Func: "Fetcher.processNotification", Sel: "if:2", Mode: "nat",
			Vars: map[string]string{"ok": "isFetching"}, BParams: []string{"isFetching"}, Result: "Bool"},
		{Module: "Fetcher", Name: "sendRequest", File: gFetcher, Func: "Fetcher.processNotification", Sel: "if:3", Mode: "nat",
			Vars: map[string]string{"len(toFetch)": "nToFetch"}, Params: []string{"nToFetch"}, Result: "Bool"},
		{Module: "Fetcher", Name: "armTimer", File: gFetcher, Func: "Fetcher.processNotification", Sel: "if:4", Mode: "nat",
			Vars:   map[string]string{"noAnnounces": "noAnnounces", "f.announces.Len()": "nAnnounces"},
			Params: []string{"nAnnounces"}, BParams: []string{"noAnnounces"}, Result: "Bool",
			Doc: "the timer is armed after a notification when this holds (DESIGN 7-D3 and the re-arm repair: an armed timer is never moved)"},
		{Module: "Fetcher", Name: "tooOld", File: gFetcher, Func: "Fetcher.loop", Sel: "if:1", Mode: "nat",
			Vars: map[string]string{"time.Since(oldest.time)": "age", "f.cfg.ForgetTimeout": "forget"}, Params: []string{"age", "forget"}, Result: "Bool"},
		{Module: "Fetcher", Name: "refetch", File: gFetcher, Func: "Fetcher.loop", Sel: "if:2", Mode: "nat",
			Vars:   map[string]string{"time.Since(f.fetching[id].fetchingTime)": "since", "f.cfg.ArriveTimeout": "arrive", "f.cfg.GatherSlack": "gather"},
			Params: []string{"since", "arrive", "gather"}, Result: "Bool", Doc: "durations as naturals; GatherSlack <= ArriveTimeout assumed (truncated subtraction)"},
		{Module: "Fetcher", Name: "nothingAnnounced", File: gFetcher, Func: "Fetcher.rescheduleFetch", Sel: "if:0", Mode: "nat",
			Vars: map[string]string{"f.announces.Len()": "nAnnounces"}, Params: []string{"nAnnounces"}, Result: "Bool"},
		{Module: "Fetcher", Name: "maxChecks", File: gFetcher, Func: "Fetcher.rescheduleFetch", Sel: "assign:maxChecks", Mode: "nat",
			Vars: map[string]string{"f.cfg.HashLimit": "hashLimit"}, Params: []string{"hashLimit"}, Result: "Nat"},
		{Module: "Fetcher", Name: "maxDurationFirst", File: gFetcher, Func: "maxDuration", Sel: "if:0", Mode: "nat",
			Vars: map[string]string{"a": "a", "b": "b"}, Params: []string{"a", "b"}, Result: "Bool"},
	}...)
}
