package main

// Lock facts (C28): for every exported method of the thread-safe components, which mutex the method
// takes first (mode, how it is released) and whether any guarded field of the receiver is touched
// while its mutex is not held. Emitted as the table Gen/Locks.lean; Props/C28.lean proves by
// `decide` that every row satisfies the premise of `lock_atomic_linearizable`.
//
// The analysis is syntactic (go/ast, no type information) and deliberately rigid: a lock must be a
// statement `recv.<mutex>.Lock()` / `RLock()` in a statement list, released either by a `defer`
// unlock in the very next statement or by a matching unlock statement later in the same list with
// no `return` in between. Anything else is reported as `irregular` (the Lean obligation then fails).
// Calls of other methods of the receiver are followed (their bodies are analysed with the locks held
// at the call site). Every field of the receiver struct must be classified in the table below;
// an unclassified field, a missing type or a missing exempt method aborts the extraction.

import (
	"bytes"
	"fmt"
	"go/ast"
	"go/parser"
	"go/token"
	"os"
	"path/filepath"
	"sort"
	"strings"
)

type lockType struct {
	Name      string              // row type
	Dir       string              // package directory below the repository root
	Recvs     []string            // receiver types whose methods form the method set (own type, then embedded ones)
	Mutexes   map[string][]string // mutex field ("Mutex" = embedded sync.Mutex) -> fields it guards
	Conds     []string            // sync.Cond fields
	SelfSync  []string            // fields holding objects that synchronise themselves (set once by the constructor)
	Immutable []string            // fields never written after construction
	ReadOnly  map[string][]string // guarded field -> methods of the field's value that do not modify it
	// unexported, lock-free internals of *other* objects of the package: calling one on anything but the
	// receiver by-passes that object's mutex
	ForeignInternals []string
	Exempt           map[string][2]string
}

var lockTypes = []lockType{
	{
		Name: "Flushable", Dir: "kvdb/flushable", Recvs: []string{"Flushable", "flushableReader"},
		// `underlying` is swapped by LazyFlushable (same package) under the lock, so it counts as guarded
		Mutexes:   map[string][]string{"lock": {"modified", "sizeEstimation", "underlying"}},
		Immutable: []string{"onDrop", "flushableReader"},
		ReadOnly: map[string][]string{"modified": {"Get", "Size", "Iterator"},
			"underlying": {"Has", "Get", "Stat", "Compact", "GetSnapshot", "NewIterator"}},
		Exempt: map[string][2]string{
			"NewBatch": {"pure", "allocates a batch object; touches no field"},
		},
	},
	{
		Name: "SyncedPool", Dir: "kvdb/flushable", Recvs: []string{"SyncedPool"},
		Mutexes:          map[string][]string{"Mutex": {"wrappers"}, "queuedDropsMu": {"queuedDrops"}, "flushing": {}},
		Immutable:        []string{"producer", "flushIDKey"},
		ForeignInternals: []string{"initUnderlyingDb", "flush", "put", "delete", "dropNotFlushed"},
		Exempt: map[string][2]string{
			"Initialize": {"lifecycle", "start-up: registers the DBs before the pool is shared (getDB without the pool lock); caller contract"},
			"Close":      {"lifecycle", "tear-down: overwrites the whole object including its mutexes; must not run concurrently with anything (caller contract)"},
		},
	},
	{
		Name: "Cache", Dir: "utils/wlru", Recvs: []string{"Cache"},
		Mutexes:  map[string][]string{"lock": {"lru"}},
		ReadOnly: map[string][]string{"lru": {"Contains", "Peek", "Keys", "Len", "Weight", "Total"}},
	},
	{
		Name: "DataSemaphore", Dir: "utils/datasemaphore", Recvs: []string{"DataSemaphore"},
		Mutexes:   map[string][]string{"mu": {"processing", "maxProcessing"}},
		Conds:     []string{"cond"},
		Immutable: []string{"warning"},
		Exempt: map[string][2]string{
			"Acquire": {"blocking", "cond.Wait splits the call into several critical sections; its last section is one tryAcquire attempt (C30 covers the waiting)"},
		},
	},
	{
		Name: "EventsBuffer", Dir: "gossip/dagordering", Recvs: []string{"EventsBuffer"},
		Mutexes:   map[string][]string{"mu": {"deps"}},
		SelfSync:  []string{"incompletes"},
		Immutable: []string{"callback", "limit"},
		Exempt: map[string][2]string{
			"IsBuffered": {"delegates", "one call of the thread-safe wlru.Cache (may observe the cache between the steps of a PushEvent/Clear)"},
			"Total":      {"delegates", "one call of the thread-safe wlru.Cache (may observe the cache between the steps of a PushEvent/Clear)"},
		},
	},
}

type lockRow struct {
	Type, Method, Pos    string
	Mutex, Mode, Unlock  string
	Outside, ReaderWrite []string
	Irregular            []string
	Waits                bool
	Exempt, Reason       string
}

type lockAnalysis struct {
	lt      *lockType
	fset    *token.FileSet
	methods map[string]*ast.FuncDecl // by method name, first receiver in Recvs wins
	guardOf map[string]string        // guarded field -> mutex
	row     *lockRow
	stack   map[string]bool
}

func lockFail(format string, a ...interface{}) {
	fmt.Fprintf(os.Stderr, "extract: lock facts: "+format+"\n", a...)
	os.Exit(1)
}

func recvTypeName(fd *ast.FuncDecl) string {
	if fd.Recv == nil || len(fd.Recv.List) == 0 {
		return ""
	}
	t := fd.Recv.List[0].Type
	if s, ok := t.(*ast.StarExpr); ok {
		t = s.X
	}
	if id, ok := t.(*ast.Ident); ok {
		return id.Name
	}
	return ""
}

func recvVar(fd *ast.FuncDecl) string {
	if fd.Recv == nil || len(fd.Recv.List) == 0 || len(fd.Recv.List[0].Names) == 0 {
		return ""
	}
	return fd.Recv.List[0].Names[0].Name
}

func contains(l []string, s string) bool {
	for _, x := range l {
		if x == s {
			return true
		}
	}
	return false
}

func addUniq(l []string, s string) []string {
	if contains(l, s) {
		return l
	}
	return append(l, s)
}

// lockCall recognises recv.<mu>.Lock() etc. (and recv.Lock() for an embedded sync.Mutex).
// Returns mutex name, method name.
func (a *lockAnalysis) lockCall(e ast.Expr, recv string) (string, string) {
	call, ok := e.(*ast.CallExpr)
	if !ok || len(call.Args) != 0 {
		return "", ""
	}
	sel, ok := call.Fun.(*ast.SelectorExpr)
	if !ok {
		return "", ""
	}
	m := sel.Sel.Name
	if m != "Lock" && m != "Unlock" && m != "RLock" && m != "RUnlock" {
		return "", ""
	}
	if id, ok := sel.X.(*ast.Ident); ok && id.Name == recv {
		if _, ok := a.lt.Mutexes["Mutex"]; ok {
			return "Mutex", m
		}
		return "", ""
	}
	if in, ok := sel.X.(*ast.SelectorExpr); ok {
		if id, ok := in.X.(*ast.Ident); ok && id.Name == recv {
			if _, ok := a.lt.Mutexes[in.Sel.Name]; ok {
				return in.Sel.Name, m
			}
		}
	}
	return "", ""
}

func hasReturn(stmts []ast.Stmt) bool {
	found := false
	for _, s := range stmts {
		ast.Inspect(s, func(n ast.Node) bool {
			switch n.(type) {
			case *ast.FuncLit:
				return false
			case *ast.ReturnStmt:
				found = true
			}
			return !found
		})
	}
	return found
}

func copyHeld(h map[string]string) map[string]string {
	c := map[string]string{}
	for k, v := range h {
		c[k] = v
	}
	return c
}

func (a *lockAnalysis) irregular(format string, args ...interface{}) {
	a.row.Irregular = addUniq(a.row.Irregular, fmt.Sprintf(format, args...))
}

// baseField: the receiver field an lvalue / callee expression is rooted in (recv.f, *recv.f, recv.f[i], recv.f.x ...).
func baseField(e ast.Expr, recv string) string {
	for {
		switch v := e.(type) {
		case *ast.StarExpr:
			e = v.X
		case *ast.IndexExpr:
			e = v.X
		case *ast.ParenExpr:
			e = v.X
		case *ast.SelectorExpr:
			if id, ok := v.X.(*ast.Ident); ok && id.Name == recv {
				return v.Sel.Name
			}
			e = v.X
		default:
			return ""
		}
	}
}

func (a *lockAnalysis) fieldClass(f string) string {
	lt := a.lt
	if _, ok := lt.Mutexes[f]; ok {
		return "mutex"
	}
	if _, ok := a.guardOf[f]; ok {
		return "guarded"
	}
	switch {
	case contains(lt.Conds, f):
		return "cond"
	case contains(lt.SelfSync, f):
		return "selfsync"
	case contains(lt.Immutable, f):
		return "immutable"
	}
	return ""
}

func (a *lockAnalysis) access(f string, held map[string]string) {
	if a.fieldClass(f) == "guarded" {
		if _, ok := held[a.guardOf[f]]; !ok {
			a.row.Outside = addUniq(a.row.Outside, f)
		}
	}
}

func (a *lockAnalysis) write(e ast.Expr, recv string, held map[string]string) {
	if id, ok := e.(*ast.StarExpr); ok {
		if x, ok := id.X.(*ast.Ident); ok && x.Name == recv {
			a.irregular("overwrites the whole receiver")
			return
		}
	}
	f := baseField(e, recv)
	if f == "" || a.fieldClass(f) != "guarded" {
		return
	}
	if held[a.guardOf[f]] == "shared" {
		a.row.ReaderWrite = addUniq(a.row.ReaderWrite, f)
	}
}

func heldKey(h map[string]string) string {
	var ks []string
	for k, v := range h {
		ks = append(ks, k+"="+v)
	}
	sort.Strings(ks)
	return strings.Join(ks, ",")
}

func (a *lockAnalysis) follow(fd *ast.FuncDecl, held map[string]string) {
	key := fd.Name.Name + "|" + heldKey(held)
	if a.stack[key] || fd.Body == nil {
		return
	}
	a.stack[key] = true
	a.walkStmts(fd.Body.List, recvVar(fd), held, false)
	delete(a.stack, key)
}

func (a *lockAnalysis) walkStmts(list []ast.Stmt, recv string, held map[string]string, top bool) {
	held = copyHeld(held)
	release := map[int]string{}
	for i := 0; i < len(list); i++ {
		if mu, ok := release[i]; ok {
			delete(held, mu)
			continue
		}
		s := list[i]
		if es, ok := s.(*ast.ExprStmt); ok {
			if mu, m := a.lockCall(es.X, recv); mu != "" {
				if m == "Unlock" || m == "RUnlock" {
					a.irregular("%s.%s without a lock statement earlier in the same statement list", mu, m)
					continue
				}
				mode, un := "excl", "Unlock"
				if m == "RLock" {
					mode, un = "shared", "RUnlock"
				}
				if _, dup := held[mu]; dup {
					a.irregular("%s locked while already held", mu)
				}
				kind := ""
				if i+1 < len(list) {
					if ds, ok := list[i+1].(*ast.DeferStmt); ok {
						if mu2, m2 := a.lockCall(ds.Call, recv); mu2 == mu && m2 == un {
							kind = "deferred"
							i++
						}
					}
				}
				for j := i + 1; kind == "" && j < len(list); j++ {
					if es2, ok := list[j].(*ast.ExprStmt); ok {
						if mu2, m2 := a.lockCall(es2.X, recv); mu2 == mu && m2 == un {
							if hasReturn(list[i+1 : j]) {
								a.irregular("return between %s.%s and its paired %s", mu, m, un)
							}
							kind = "paired"
							release[j] = mu
						}
					}
				}
				if kind == "" {
					a.irregular("%s.%s is neither followed by a defer %s nor paired with one in the same statement list", mu, m, un)
					kind = "none"
				} else {
					held[mu] = mode
				}
				if top && a.row.Mutex == "" {
					a.row.Mutex, a.row.Mode, a.row.Unlock = mu, mode, kind
				} else if top {
					if _, inside := held[a.row.Mutex]; !inside || mu == a.row.Mutex {
						a.irregular("a second critical section (%s.%s) after the first one was left", mu, m)
					}
				}
				continue
			}
		}
		if ds, ok := s.(*ast.DeferStmt); ok {
			if mu, m := a.lockCall(ds.Call, recv); mu != "" {
				a.irregular("defer %s.%s does not directly follow its lock statement", mu, m)
				continue
			}
		}
		a.walkNode(s, recv, held)
	}
}

func (a *lockAnalysis) walkNode(n ast.Node, recv string, held map[string]string) {
	ast.Inspect(n, func(x ast.Node) bool {
		switch v := x.(type) {
		case *ast.BlockStmt:
			a.walkStmts(v.List, recv, held, false)
			return false
		case *ast.CaseClause:
			for _, e := range v.List {
				a.walkNode(e, recv, held)
			}
			a.walkStmts(v.Body, recv, held, false)
			return false
		case *ast.CommClause:
			if v.Comm != nil {
				a.walkNode(v.Comm, recv, held)
			}
			a.walkStmts(v.Body, recv, held, false)
			return false
		case *ast.GoStmt:
			a.walkNode(v.Call, recv, map[string]string{}) // a new goroutine holds nothing
			return false
		case *ast.FuncLit:
			a.walkStmts(v.Body.List, recv, held, false)
			return false
		case *ast.AssignStmt:
			for _, l := range v.Lhs {
				a.write(l, recv, held)
			}
		case *ast.IncDecStmt:
			a.write(v.X, recv, held)
		case *ast.CallExpr:
			if id, ok := v.Fun.(*ast.Ident); ok && id.Name == "delete" && len(v.Args) > 0 {
				a.write(v.Args[0], recv, held)
			}
			if sel, ok := v.Fun.(*ast.SelectorExpr); ok {
				if id, ok := sel.X.(*ast.Ident); ok && id.Name == recv {
					if fd := a.methods[sel.Sel.Name]; fd != nil {
						a.follow(fd, held)
					}
				} else if contains(a.lt.ForeignInternals, sel.Sel.Name) {
					a.irregular("calls %s, a lock-free internal of another object, without that object's mutex", sel.Sel.Name)
				} else if f := baseField(sel.X, recv); f != "" {
					if contains(a.lt.Conds, f) && sel.Sel.Name == "Wait" {
						a.row.Waits = true
					}
					if a.fieldClass(f) == "guarded" && !contains(a.lt.ReadOnly[f], sel.Sel.Name) {
						a.write(sel.X, recv, held)
					}
				}
			}
		case *ast.SelectorExpr:
			if id, ok := v.X.(*ast.Ident); ok && id.Name == recv {
				name := v.Sel.Name
				if a.fieldClass(name) == "" && a.methods[name] == nil &&
					!(name == "Lock" || name == "Unlock") {
					lockFail("%s: selector %s.%s is neither a classified field nor a method (%s)", a.lt.Name, recv, name,
						a.fset.Position(v.Pos()))
				}
				a.access(name, held)
			}
		}
		return true
	})
}

func leanStr(s string) string {
	s = strings.ReplaceAll(s, `\`, `\\`)
	s = strings.ReplaceAll(s, `"`, `\"`)
	return `"` + s + `"`
}

func leanList(l []string) string {
	q := make([]string, len(l))
	for i, s := range l {
		q[i] = leanStr(s)
	}
	return "[" + strings.Join(q, ", ") + "]"
}

// structFields lists the field names of a struct type declaration (embedded fields by type name).
func structFields(files []*ast.File, name string) ([]string, bool) {
	for _, f := range files {
		for _, d := range f.Decls {
			gd, ok := d.(*ast.GenDecl)
			if !ok {
				continue
			}
			for _, sp := range gd.Specs {
				ts, ok := sp.(*ast.TypeSpec)
				if !ok || ts.Name.Name != name {
					continue
				}
				st, ok := ts.Type.(*ast.StructType)
				if !ok {
					return nil, false
				}
				var out []string
				for _, fl := range st.Fields.List {
					if len(fl.Names) == 0 {
						t := fl.Type
						if s, ok := t.(*ast.StarExpr); ok {
							t = s.X
						}
						switch v := t.(type) {
						case *ast.Ident:
							out = append(out, v.Name)
						case *ast.SelectorExpr:
							out = append(out, v.Sel.Name)
						}
					}
					for _, n := range fl.Names {
						out = append(out, n.Name)
					}
				}
				return out, true
			}
		}
	}
	return nil, false
}

func lockRows(repo string) []lockRow {
	var rows []lockRow
	for ti := range lockTypes {
		lt := &lockTypes[ti]
		fset := token.NewFileSet()
		pkgs, err := parser.ParseDir(fset, filepath.Join(repo, lt.Dir), func(fi os.FileInfo) bool {
			return !strings.HasSuffix(fi.Name(), "_test.go")
		}, 0)
		if err != nil {
			lockFail("%s: %v", lt.Dir, err)
		}
		var names []string
		byName := map[string]*ast.File{}
		for _, p := range pkgs {
			for fn, f := range p.Files {
				names = append(names, fn)
				byName[fn] = f
			}
		}
		sort.Strings(names)
		var files []*ast.File
		for _, fn := range names {
			files = append(files, byName[fn])
		}
		a := &lockAnalysis{lt: lt, fset: fset, methods: map[string]*ast.FuncDecl{}, guardOf: map[string]string{}}
		for mu, fs := range lt.Mutexes {
			for _, f := range fs {
				a.guardOf[f] = mu
			}
		}
		// every field of the receiver structs must be classified
		for _, r := range lt.Recvs {
			fields, ok := structFields(files, r)
			if !ok {
				lockFail("struct type %s not found in %s", r, lt.Dir)
			}
			for _, f := range fields {
				if a.fieldClass(f) == "" {
					lockFail("%s: field %s.%s is not classified (mutex / guarded / cond / self-synchronised / immutable)", lt.Name, r, f)
				}
			}
		}
		// method set: own type first, then the embedded receivers
		var exported []*ast.FuncDecl
		for _, r := range lt.Recvs {
			for _, f := range files {
				for _, d := range f.Decls {
					fd, ok := d.(*ast.FuncDecl)
					if !ok || recvTypeName(fd) != r || fd.Body == nil {
						continue
					}
					if _, dup := a.methods[fd.Name.Name]; dup {
						continue
					}
					a.methods[fd.Name.Name] = fd
					if ast.IsExported(fd.Name.Name) {
						exported = append(exported, fd)
					}
				}
			}
		}
		if len(exported) == 0 {
			lockFail("%s: no exported methods found", lt.Name)
		}
		for m := range lt.Exempt {
			if fd := a.methods[m]; fd == nil || !ast.IsExported(m) {
				lockFail("%s: exempt method %s not found", lt.Name, m)
			}
		}
		for _, fd := range exported {
			pos := fset.Position(fd.Pos())
			rel, _ := filepath.Rel(repo, pos.Filename)
			row := lockRow{Type: lt.Name, Method: fd.Name.Name, Pos: fmt.Sprintf("%s:%d", rel, pos.Line),
				Mode: "none", Unlock: "none", Exempt: "no"}
			if ex, ok := lt.Exempt[fd.Name.Name]; ok {
				row.Exempt, row.Reason = ex[0], ex[1]
			}
			a.row = &row
			a.stack = map[string]bool{}
			a.walkStmts(fd.Body.List, recvVar(fd), map[string]string{}, true)
			rows = append(rows, row)
		}
	}
	return rows
}

// genLockFacts writes Gen/Locks.lean (only when its content changes).
func genLockFacts(repo, out string) {
	rows := lockRows(repo)
	var b bytes.Buffer
	b.WriteString("/-! GENERATED by go/cmd/extract (lockfacts.go) from the Go sources of lachesis-base — do not edit.\n" +
		"    One row per exported method of the thread-safe components: the mutex taken first, how it is\n" +
		"    released, and the guarded receiver fields touched while their mutex is not held. -/\nnamespace Gen.Locks\n\n" +
		"inductive Mode where\n  | none | excl | shared\nderiving DecidableEq, Repr\n\n" +
		"inductive Unlock where\n  | none | deferred | paired\nderiving DecidableEq, Repr\n\n" +
		"/-- why a method is not claimed to be one critical section (`no` = it is claimed) -/\n" +
		"inductive Exempt where\n  | no | pure | delegates | immutable | blocking | lifecycle\nderiving DecidableEq, Repr\n\n" +
		"structure Row where\n  ty : String\n  method : String\n  mutex : String\n  mode : Mode\n  unlock : Unlock\n" +
		"  /-- guarded fields accessed while their mutex is not held -/\n  outside : List String\n" +
		"  /-- guarded fields written (assigned, or passed to a method not known to be read-only) under a shared lock -/\n  readerWrites : List String\n" +
		"  /-- lock statements that do not follow the `Lock; defer Unlock` / `Lock … Unlock` patterns -/\n  irregular : List String\n" +
		"  /-- calls cond.Wait (releases the mutex in the middle) -/\n  waits : Bool\n  exempt : Exempt\n  reason : String\nderiving Repr\n\n")
	fmt.Fprintf(&b, "/-- guarded fields per type and mutex (the table in lockfacts.go) -/\ndef guarded : List (String × String × List String) := [\n")
	var gl []string
	for _, lt := range lockTypes {
		var mus []string
		for mu := range lt.Mutexes {
			mus = append(mus, mu)
		}
		sort.Strings(mus)
		for _, mu := range mus {
			gl = append(gl, fmt.Sprintf("  (%s, %s, %s)", leanStr(lt.Name), leanStr(mu), leanList(lt.Mutexes[mu])))
		}
	}
	b.WriteString(strings.Join(gl, ",\n") + "]\n\n")
	b.WriteString("def rows : List Row := [\n")
	for i, r := range rows {
		fmt.Fprintf(&b, "  -- %s\n  { ty := %s, method := %s, mutex := %s, mode := .%s, unlock := .%s,\n    outside := %s, readerWrites := %s, irregular := %s,\n    waits := %v, exempt := .%s, reason := %s }",
			r.Pos, leanStr(r.Type), leanStr(r.Method), leanStr(r.Mutex), r.Mode, r.Unlock,
			leanList(r.Outside), leanList(r.ReaderWrite), leanList(r.Irregular), r.Waits, r.Exempt, leanStr(r.Reason))
		if i+1 < len(rows) {
			b.WriteString(",")
		}
		b.WriteString("\n")
	}
	b.WriteString("]\n\nend Gen.Locks\n")
	path := filepath.Join(out, "Locks.lean")
	old, _ := os.ReadFile(path)
	if !bytes.Equal(old, b.Bytes()) {
		if err := os.WriteFile(path, b.Bytes(), 0o644); err != nil {
			fmt.Fprintln(os.Stderr, err)
			os.Exit(1)
		}
		fmt.Printf("extract: rewrote %s\n", path)
	}
}
