package main

// Structural facts about utils/workers (the task queues behind the seeder's sender threads and the
// processor's checker / inserter): the models of C15 and C17 assume a bounded FIFO whose Enqueue
// blocks when the queue is full and whose tasks run on the worker goroutines started by Start, one
// after another per worker — never on an extra goroutine.
func init() {
	fact := func(module, name, file, fn, sel, doc string) Site {
		return Site{Module: module, Name: name, File: file, Func: fn, Sel: sel, Result: "Bool", Doc: doc}
	}
	const W = "utils/workers/workers.go"
	sites = append(sites, []Site{
		fact("FactsC17w", "enqueueSpawns", W, "Workers.Enqueue", "hasgo:", "expected FALSE: tasks run on the workers only, in queue order"),
		fact("FactsC17w", "enqueueNonBlocking", W, "Workers.Enqueue", "hasselectdefault:", "expected FALSE: a full queue blocks the caller (back-pressure), nothing overtakes"),
		fact("FactsC17w", "startSpawnsWorkers", W, "Workers.Start", "hasgo:", "the workers are goroutines started by Start"),
		fact("FactsC17w", "workerRunsJobs", W, "worker", "hascall:job", ""),
		fact("FactsC15w", "enqueueSpawns", W, "Workers.Enqueue", "hasgo:", "expected FALSE: the single inserter handles checked events one after another"),
		fact("FactsC15w", "enqueueNonBlocking", W, "Workers.Enqueue", "hasselectdefault:", "expected FALSE"),
	}...)
}
