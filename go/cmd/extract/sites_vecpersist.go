package main

// Extracted decision kernels of the vector index's persistence (vecengine/index.go, branches_info.go) —
// Model/VecPersist.lean (C06/C07/C08: flush, DropNotFlushed, reload of the branch table).
func init() {
	const VI = "vecengine/index.go"
	const BI = "vecengine/branches_info.go"
	sites = append(sites, []Site{
		{Module: "VecPersist", Name: "flushWritesBI", File: VI, Func: "Engine.Flush", Sel: "if:0", Mode: "nat", Result: "Bool",
			Vars: map[string]string{"vi.bi != nil": "biPresent"}, BParams: []string{"biPresent"},
			Doc: "Flush persists the branch table whenever one is held in memory (forks or not)"},
		{Module: "VecPersist", Name: "dropClears", File: VI, Func: "Engine.DropNotFlushed", Sel: "if:0", Mode: "nat", Result: "Bool",
			Vars: map[string]string{"vi.vecDb.NotFlushedPairs()": "notFlushedPairs"}, Params: []string{"notFlushedPairs"},
			Doc: "DropNotFlushed discards the overlay (and purges the row caches) when anything is unflushed"},
		{Module: "VecPersist", Name: "initNeeded", File: BI, Func: "Engine.InitBranchesInfo", Sel: "if:0", Mode: "nat", Result: "Bool",
			Vars: map[string]string{"vi.bi == nil": "biAbsent"}, BParams: []string{"biAbsent"},
			Doc: "the branch table is (re)loaded when none is held in memory"},
		{Module: "VecPersist", Name: "useInitial", File: BI, Func: "Engine.InitBranchesInfo", Sel: "if:1", Mode: "nat", Result: "Bool",
			Vars: map[string]string{"vi.bi == nil": "loadedAbsent"}, BParams: []string{"loadedAbsent"},
			Doc: "the initial table of the validators is used when the store holds none"},
	}...)
}
