package main

// Extracted decision kernels of the vector index (vecengine, vecfc) — C05, C06.
func init() {
	const VO = "vecfc/vector_ops.go"
	const VI = "vecengine/index.go"
	sites = append(sites, []Site{
		{Module: "Vec", Name: "collectSkip", File: VO, Func: "HighestBeforeSeq.CollectFrom", Sel: "if:0", Mode: "nat", Result: "Bool",
			Vars: map[string]string{"hisSeq.Seq": "hisSeq", "hisSeq.IsForkDetected()": "hisFork"}, Params: []string{"hisSeq"}, BParams: []string{"hisFork"}},
		{Module: "Vec", Name: "collectMinCond", File: VO, Func: "HighestBeforeSeq.CollectFrom", Sel: "if:3", Mode: "nat", Result: "Bool",
			Vars: map[string]string{"mySeq.Seq": "mySeq", "mySeq.MinSeq": "myMin", "hisSeq.MinSeq": "hisMin"}, Params: []string{"mySeq", "myMin", "hisMin"}},
		{Module: "Vec", Name: "collectSeqCond", File: VO, Func: "HighestBeforeSeq.CollectFrom", Sel: "if:4", Mode: "nat", Result: "Bool",
			Vars: map[string]string{"mySeq.Seq": "mySeq", "hisSeq.Seq": "hisSeq"}, Params: []string{"mySeq", "hisSeq"}},
		{Module: "Vec", Name: "collectLoopCond", File: VO, Func: "HighestBeforeSeq.CollectFrom", Sel: "for:0", Mode: "nat", Result: "Bool",
			Vars: map[string]string{"branchID": "branchID", "num": "num"}, Params: []string{"branchID", "num"}},
		{Module: "Vec", Name: "gatherCond", File: VO, Func: "HighestBeforeSeq.GatherFrom", Sel: "if:1", Mode: "nat", Result: "Bool",
			Vars: map[string]string{"branch.Seq": "branchSeq", "highestBranchSeq.Seq": "highestSeq"}, Params: []string{"branchSeq", "highestSeq"}},
		{Module: "Vec", Name: "isEmpty", File: VO, Func: "HighestBeforeSeq.IsEmpty", Sel: "ret:0", Mode: "nat", Result: "Bool",
			Vars: map[string]string{"seq.Seq": "seq", "seq.IsForkDetected()": "isFork"}, Params: []string{"seq"}, BParams: []string{"isFork"}},
		{Module: "Vec", Name: "visitSkip", File: VO, Func: "LowestAfterSeq.Visit", Sel: "if:0", Mode: "nat", Result: "Bool",
			Vars: map[string]string{"b.Get(i)": "cur"}, Params: []string{"cur"}},
		{Module: "Vec", Name: "fcBranchCond", File: "vecfc/forkless_cause.go", Func: "Index.forklessCause", Sel: "if:4", Mode: "nat", Result: "Bool",
			Vars: map[string]string{"bLowestAfter": "lowestAfter", "aHighestBefore.Seq": "highestSeq", "aHighestBefore.IsForkDetected()": "isFork"},
			Params: []string{"lowestAfter", "highestSeq"}, BParams: []string{"isFork"}},
		{Module: "Vec", Name: "firstOnBranch", File: VI, Func: "Engine.fillGlobalBranchID", Sel: "if:3", Mode: "nat", Result: "Bool",
			Vars: map[string]string{"vi.bi.BranchIDLastSeq[meIdx]": "lastSeq"}, Params: []string{"lastSeq"}},
		{Module: "Vec", Name: "extendsBranch", File: VI, Func: "Engine.fillGlobalBranchID", Sel: "if:5", Mode: "u32", Result: "Bool",
			Vars: map[string]string{"vi.bi.BranchIDLastSeq[selfParentBranchID]": "lastSeq", "e.Seq()": "seq"}, Params: []string{"lastSeq", "seq"}},
		{Module: "Vec", Name: "singleBranch", File: VI, Func: "Engine.fillEventVectors", Sel: "if:2", Mode: "nat", Result: "Bool",
			Vars: map[string]string{"len(vi.bi.BranchIDByCreators[n])": "nBranches"}, Params: []string{"nBranches"}},
		{Module: "Vec", Name: "overlap", File: VI, Func: "Engine.fillEventVectors", Sel: "if:7", Mode: "nat", Result: "Bool",
			Vars: map[string]string{"myVecs.before.MinSeq(a)": "minA", "myVecs.before.Seq(b)": "seqB", "myVecs.before.MinSeq(b)": "minB", "myVecs.before.Seq(a)": "seqA"},
			Params: []string{"minA", "seqA", "minB", "seqB"}},
		{Module: "Vec", Name: "atLeastOneFork", File: "vecengine/branches_info.go", Func: "Engine.AtLeastOneFork", Sel: "ret:0", Mode: "nat", Result: "Bool",
			Vars: map[string]string{"len(vi.bi.BranchIDCreatorIdxs)": "nBranches", "vi.validators.Len()": "nVals"}, Params: []string{"nBranches", "nVals"}},
	}...)
}
