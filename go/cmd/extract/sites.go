package main

// The table of extracted decision kernels. Each entry names the Go expression (by function and
// position) and the Lean definition it becomes.
var sites = []Site{
	// ---- inter/pos (C11, C12) ----------------------------------------------------------
	{Module: "Pos", Name: "quorum", File: "inter/pos/validators.go", Func: "Validators.Quorum", Sel: "ret:0", Mode: "u32",
		Vars: map[string]string{"vv.TotalWeight()": "totalWeight"}, Params: []string{"totalWeight"}, Result: "Nat",
		Doc: "pos.Weight is uint32: every operation wraps modulo 2^32"},
	{Module: "Pos", Name: "sumWrapped", File: "inter/pos/validators.go", Func: "Validators.calcCaches", Sel: "if:0", Mode: "nat",
		Vars: map[string]string{"cache.totalWeight": "newTotal", "totalWeightBefore": "before"}, Params: []string{"newTotal", "before"}, Result: "Bool",
		Doc: "overflow test after `cache.totalWeight += v.Weight`"},
	{Module: "Pos", Name: "overLimit", File: "inter/pos/validators.go", Func: "Validators.calcCaches", Sel: "if:1", Mode: "nat",
		Vars: map[string]string{"cache.totalWeight": "totalWeight"}, Params: []string{"totalWeight"}, Result: "Bool"},
	{Module: "Pos", Name: "lessCond", File: "inter/pos/sort.go", Func: "validators.Less", Sel: "if:0", Mode: "nat",
		Vars: map[string]string{"vv[i].Weight": "wi", "vv[j].Weight": "wj"}, Params: []string{"wi", "wj"}, Result: "Bool"},
	{Module: "Pos", Name: "lessThen", File: "inter/pos/sort.go", Func: "validators.Less", Sel: "ret:0", Mode: "nat",
		Vars: map[string]string{"vv[i].Weight": "wi", "vv[j].Weight": "wj"}, Params: []string{"wi", "wj"}, Result: "Bool"},
	{Module: "Pos", Name: "lessElse", File: "inter/pos/sort.go", Func: "validators.Less", Sel: "ret:1", Mode: "nat",
		Vars: map[string]string{"vv[i].ID": "idi", "vv[j].ID": "idj"}, Params: []string{"idi", "idj"}, Result: "Bool"},
	{Module: "Pos", Name: "hasQuorum", File: "inter/pos/stake.go", Func: "WeightCounter.HasQuorum", Sel: "ret:0", Mode: "nat",
		Vars: map[string]string{"s.sum": "sum", "s.quorum": "quorum"}, Params: []string{"sum", "quorum"}, Result: "Bool"},
	{Module: "Pos", Name: "counterAdd", File: "inter/pos/stake.go", Func: "WeightCounter.CountByIdx", Sel: "assign:s.sum", Mode: "u32",
		Vars: map[string]string{"s.sum": "sum", "s.validators.GetWeightByIdx(validatorIdx)": "weight"}, Params: []string{"sum", "weight"}, Result: "Nat"},
}
