package main

// Extracted decision kernels of the `pos` family (C12): the builders of inter/pos.
// (validators.Less, the calcCaches limit and Quorum are shared with C11: module Pos, sites_arith.go.)
func init() {
	const V = "inter/pos/validators.go"
	const B = "inter/pos/stake_bigint.go"
	sites = append(sites, []Site{
		{Module: "PosBig", Name: "setDeletes", File: V, Func: "ValidatorsBuilder.Set", Sel: "if:0", Mode: "nat",
			Vars: map[string]string{"weight": "weight"}, Params: []string{"weight"}, Result: "Bool",
			Doc: "a zero weight deletes the id from the builder"},
		{Module: "PosBig", Name: "bigSetDeletes", File: B, Func: "ValidatorsBigBuilder.Set", Sel: "if:0", Mode: "nat",
			Vars:    map[string]string{"weight == nil": "isNil", "weight.Sign() == 0": "isZero"},
			BParams: []string{"isNil", "isZero"}, Result: "Bool"},
		{Module: "PosBig", Name: "overBits", File: B, Func: "ValidatorsBigBuilder.Build", Sel: "if:0", Mode: "nat",
			Vars: map[string]string{"totalBits": "totalBits"}, Params: []string{"totalBits"}, Result: "Bool",
			Doc: "totalBits = TotalWeight().BitLen(); the shift is totalBits-31 when this holds"},
		{Module: "PosBig", Name: "shiftInit", File: B, Func: "ValidatorsBigBuilder.Build", Sel: "assign:shift", Mode: "nat",
			Result: "Nat", Doc: "the shift when the test above fails"},
		{Module: "PosBig", Name: "shiftValue", File: B, Func: "ValidatorsBigBuilder.Build", Sel: "assign:shift#1", Mode: "nat",
			Vars: map[string]string{"totalBits": "totalBits"}, Params: []string{"totalBits"}, Result: "Nat",
			Doc: "the shift when the test holds (totalBits > 31, so the subtraction cannot underflow)"},
	}...)
}
