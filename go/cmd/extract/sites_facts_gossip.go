package main

// Structural facts of the gossip family (C14 ordering buffer, C15 event processor, C16 items fetcher,
// C17 stream seeder, C18 leechers): statements the models Model/EventsBuffer.lean, Model/Processor.lean,
// Model/Fetcher.lean, Model/Seeder.lean, Model/Leecher.lean hard-code and no decision kernel covers.
// Expected values: lean/LachesisVerif/Props/Factsgossip.lean.
func init() {
	fact := func(module, name, file, fn, sel, doc string) Site {
		return Site{Module: module, Name: name, File: file, Func: fn, Sel: sel, Result: "Bool", Doc: doc}
	}
	const EB = "gossip/dagordering/event_buffer.go"
	const DP = "gossip/dagprocessor/processor.go"
	const SEM = "utils/datasemaphore/semaphore.go"
	const WK = "utils/workers/workers.go"
	const FE = "gossip/itemsfetcher/fetcher.go"
	const SD = "gossip/basestream/basestreamseeder/seeder.go"
	const BL = "gossip/basestream/basestreamleecher/base_leecher.go"
	const PL = "gossip/basestream/basestreamleecher/basepeerleecher/session.go"
	const sessKey = "s.sessions[sessionIDAndPeer{op.request.Session.ID, op.peer.ID}]"
	const sendQ = "s.senders[session.senderI].Enqueue"
	sites = append(sites, []Site{
		// ---- C14 ordering buffer -----------------------------------------------------------------
		fact("FactsC14", "pushSpillsAlways", EB, "EventsBuffer.PushEvent", "topcall:buf.spillIncompletes", "the limits are enforced after every non-duplicate push, unconditionally"),
		fact("FactsC14", "pushSpillsAfterPush", EB, "EventsBuffer.PushEvent", "before:buf.pushEvent < buf.spillIncompletes", "the spill sees the entry the push has just added"),
		fact("FactsC14", "pushDupCheckFirst", EB, "EventsBuffer.PushEvent", "before:buf.incompletes.Peek < buf.pushEvent", "a duplicate never replaces the buffered copy"),
		fact("FactsC14", "pushDupReleased", EB, "EventsBuffer.PushEvent", "hascall:buf.releaseEvent", "the duplicate copy is reported released"),
		fact("FactsC14", "parentsBeforeProcess", EB, "EventsBuffer.pushEvent", "before:buf.completeEventParents < buf.processCompleteEvent", "parents are looked up before the event is processed"),
		fact("FactsC14", "processedReleasedAlways", EB, "EventsBuffer.pushEvent", "topcall:buf.releaseEvent", "a complete event is released whatever Check/Process answered"),
		fact("FactsC14", "processedRemovedAlways", EB, "EventsBuffer.pushEvent", "topcall:buf.incompletes.Remove", "a released copy does not stay in incompletes"),
		fact("FactsC14", "incompleteStored", EB, "EventsBuffer.pushEvent", "hascall:buf.incompletes.Add", "an event with a missing parent is kept"),
		fact("FactsC14", "spillRemovesBeforeRelease", EB, "EventsBuffer.spillIncompletes", "before:buf.incompletes.RemoveOldest < buf.releaseEvent", "what is spilled is the removed entry, and it is released"),
		fact("FactsC14", "releaseMarksAlways", EB, "EventsBuffer.releaseEvent", "topassign:e.released", "the released flag is set unconditionally (guards the stale snapshot and the second release)"),
		fact("FactsC14", "releaseCallsBack", EB, "EventsBuffer.releaseEvent", "hascall:buf.callback.Released", ""),
		fact("FactsC14", "clearSpillsAll", EB, "EventsBuffer.Clear", "topcall:buf.spillIncompletes", "Clear releases everything still buffered"),
		// ---- C15 event processor -----------------------------------------------------------------
		fact("FactsC15b", "wrapperInstalled", DP, "New", "topassign:callback.Event.Released", "the Released wrapper is installed unconditionally"),
		fact("FactsC15b", "wrapperReleasesSemaphore", DP, "New", "hascall:f.eventsSemaphore.Release", "every Released gives the event's weight back"),
		fact("FactsC15b", "wrapperBeforeBuffer", DP, "New", "before:callback.Event.Released < dagordering.New", "the buffer gets the wrapped Released (Callbacks is copied by value)"),
		fact("FactsC15b", "wrapperBeforeStore", DP, "New", "before:callback.Event.Released < f.callback", "process() gets the wrapped Released (copied by value)"),
		fact("FactsC15b", "enqueueAcquiresFirst", DP, "Processor.Enqueue", "before:f.eventsSemaphore.Acquire < f.checker.Enqueue", "nothing of a batch is handled before its weight is acquired"),
		fact("FactsC15b", "processPushesAtTop", DP, "Processor.process", "topcall:f.buffer.PushEvent", "an event that passed both early returns is always pushed"),
		fact("FactsC15b", "processReleasesRejected", DP, "Processor.process", "hascall:f.callback.Event.Released", "rejected / too-far events are released by process() itself"),
		fact("FactsC15b", "stopClearsAlways", DP, "Processor.Stop", "topcall:f.buffer.Clear", "Stop releases what is still buffered, unconditionally"),
		fact("FactsC15b", "terminateZeroesCapacity", SEM, "DataSemaphore.Terminate", "topassign:s.maxProcessing", ""),
		fact("FactsC15b", "tryAcquireCommits", SEM, "DataSemaphore.tryAcquire", "topassign:s.processing", "the new amount is stored after both checks passed"),
		fact("FactsC15b", "workersAddBeforeGo", WK, "Workers.Start", "before:w.wg.Add < worker", "Stop's wg.Wait covers every worker"),
		fact("FactsC15b", "workerRunsJob", WK, "worker", "hascall:job", "a dequeued task is executed"),
		// ---- C16 items fetcher -------------------------------------------------------------------
		fact("FactsC16", "filterAssigned", FE, "Fetcher.processNotification", "topassign:notification.ids", "only the ids OnlyInterested returned are handled"),
		fact("FactsC16", "filterBeforeAdd", FE, "Fetcher.processNotification", "before:f.callback.OnlyInterested < f.announces.Add", ""),
		fact("FactsC16", "suspendBeforeRequest", FE, "Fetcher.processNotification", "before:f.callback.Suspend < f.parallelTasks.Enqueue", ""),
		fact("FactsC16", "notifyArms", FE, "Fetcher.processNotification", "hascall:f.rescheduleFetch", "the body of the armTimer branch"),
		fact("FactsC16", "loopRefiltersBeforeRequest", FE, "Fetcher.loop", "before:f.callback.OnlyInterested < f.parallelTasks.Enqueue", "the timer case asks OnlyInterested before it requests"),
		fact("FactsC16", "loopReschedules", FE, "Fetcher.loop", "hascall:f.rescheduleFetch", "the timer is re-armed after a fire"),
		fact("FactsC16", "loopForgets", FE, "Fetcher.loop", "hascall:f.forgetHash", "received / uninteresting / too old items are forgotten"),
		fact("FactsC16", "forgetRemoves", FE, "Fetcher.forgetHash", "topcall:f.announces.Remove", ""),
		fact("FactsC16", "evictDeletesFetching", FE, "New", "hascall:delete", "the eviction callback drops the fetching entry"),
		fact("FactsC16", "rescheduleResets", FE, "Fetcher.rescheduleFetch", "topcall:fetch.Reset", "past the nothingAnnounced return the timer is always reset"),
		fact("FactsC16", "wlruRemoveDelegates", "utils/wlru/wlru.go", "Cache.Remove", "topcall:c.lru.Remove", ""),
		fact("FactsC16", "removeElementCallsEvict", "utils/simplewlru/simplewlru.go", "Cache.removeElement", "hascall:c.onEvict", "Remove (not only capacity eviction) runs the eviction callback"),
		// ---- C17 stream seeder -------------------------------------------------------------------
		fact("FactsC17", "sessionStoredAtCreation", SD, "BaseSeeder.readerLoop", "before:"+sessKey+" < session.origSelector.Compare", "a new session is stored when created, not only by the chunk loop (repair D4)"),
		fact("FactsC17", "sessionListedAtCreation", SD, "BaseSeeder.readerLoop", "before:s.peerSessions[op.peer.ID] < session.origSelector.Compare", ""),
		fact("FactsC17", "mismatchCheckedBeforeServing", SD, "BaseSeeder.readerLoop", "before:session.origSelector.Compare < s.callback.ForEachItem", ""),
		fact("FactsC17", "waitBeforeProduce", SD, "BaseSeeder.readerLoop", "before:s.waitPendingResponsesBelowLimit < s.callback.ForEachItem", "the wait at the head of the request case"),
		fact("FactsC17", "nextFromLastKey", SD, "BaseSeeder.readerLoop", "before:s.callback.ForEachItem < lastKey.Inc", "the session resumes right after the last key read"),
		fact("FactsC17", "doneMarkedBeforeSend", SD, "BaseSeeder.readerLoop", "before:session.done < "+sendQ, ""),
		fact("FactsC17", "respDoneBeforeSend", SD, "BaseSeeder.readerLoop", "before:resp.Done < "+sendQ, "the queued response already carries its Done flag"),
		fact("FactsC17", "pendingCountedBeforeSend", SD, "BaseSeeder.readerLoop", "before:atomic.AddInt64 < "+sendQ, ""),
		fact("FactsC17", "chunkIsSent", SD, "BaseSeeder.readerLoop", "hascall:session.sendChunk", ""),
		fact("FactsC17", "unregisterDeletes", SD, "BaseSeeder.readerLoop", "before:delete < s.waitPendingResponsesBelowLimit", "the first delete belongs to the unregister case, which precedes the request case"),
		// ---- C18 leechers ------------------------------------------------------------------------
		fact("FactsC18b", "doneBeforeSweep", PL, "BasePeerLeecher.routine", "before:d.callback.Done < d.sweepProcessedChunks", ""),
		fact("FactsC18b", "doneTerminates", PL, "BasePeerLeecher.routine", "hascall:d.Terminate", ""),
		fact("FactsC18b", "sweepStored", PL, "BasePeerLeecher.routine", "topassign:d.processingChunks", "swept chunks are not counted as processed again"),
		fact("FactsC18b", "sweepBeforeSync", PL, "BasePeerLeecher.routine", "before:d.sweepProcessedChunks < d.tryToSync", ""),
		fact("FactsC18b", "suspendBeforeRequest", PL, "BasePeerLeecher.tryToSync", "before:d.callback.Suspend < d.callback.RequestChunks", ""),
		fact("FactsC18b", "requestUnconditional", PL, "BasePeerLeecher.tryToSync", "topcall:d.callback.RequestChunks", "expected FALSE: the request sits under the window test"),
		fact("FactsC18b", "peerTerminateCloses", PL, "BasePeerLeecher.Terminate", "hascall:close", ""),
		fact("FactsC18b", "baseTerminateSets", BL, "BaseLeecher.Terminate", "topassign:d.Terminated", ""),
		fact("FactsC18b", "baseTerminateEndsSession", BL, "BaseLeecher.Terminate", "topcall:d.callback.TerminateSession", ""),
		fact("FactsC18b", "routineTerminatesBeforeSelect", BL, "BaseLeecher.Routine", "before:d.callback.TerminateSession < d.callback.SelectSessionPeerCandidates", ""),
		fact("FactsC18b", "startUnconditional", BL, "BaseLeecher.Routine", "topcall:d.callback.StartSession", "expected FALSE: StartSession sits under the !OngoingSession and candidates tests"),
		fact("FactsC18b", "unregisterDeletesAlways", BL, "BaseLeecher.UnregisterPeer", "topcall:delete", "the peer is removed whether or not it holds the session"),
	}...)
}
