package main

// Structural facts of the `kv` family (C22, C23, C24): statements of kvdb/flushable, kvdb/table,
// kvdb/pebble, kvdb/leveldb, kvdb/memorydb and kvdb/synced which the models Model/Flushable.lean and
// Model/Table.lean hard-code and no decision kernel of sites_kv.go covers. Expected values are stated
// in lean/LachesisVerif/Props/Factskv.lean.
func init() {
	fact := func(module, name, file, fn, sel, doc string) Site {
		return Site{Module: module, Name: name, File: file, Func: fn, Sel: sel, Result: "Bool", Doc: doc}
	}
	const FLU = "kvdb/flushable/flushable.go"
	const LAZ = "kvdb/flushable/lazy_flushable.go"
	const TAB = "kvdb/table/table.go"
	const TRO = "kvdb/table/readonly.go"
	const PBL = "kvdb/pebble/pebble.go"
	const LDB = "kvdb/leveldb/leveldb.go"
	const MEM = "kvdb/memorydb/memorydb.go"
	const SYN = "kvdb/synced/store.go"
	sites = append(sites, []Site{
		// ---- C22: flushable ----------------------------------------------------------------------
		fact("FactsC22", "flushIntoUnderlying", FLU, "Flushable.flush", "topcall:w.underlying.NewBatch", "the batch that receives the tree is a batch of the underlying store, taken unconditionally"),
		fact("FactsC22", "flushClearsTree", FLU, "Flushable.flush", "topcall:w.modified.Clear", "after the loop, unconditionally: Flush empties the overlay"),
		fact("FactsC22", "flushPutsBeforeClear", FLU, "Flushable.flush", "before:batch.Put < w.modified.Clear", "the tree is walked into the batch before it is cleared"),
		fact("FactsC22", "flushDeletesTombstones", FLU, "Flushable.flush", "hascall:batch.Delete", "a nil node reaches the underlying store as a deletion"),
		fact("FactsC22", "dropClearsTree", FLU, "Flushable.dropNotFlushed", "topcall:w.modified.Clear", "unconditional: DropNotFlushed restores the underlying view"),
		fact("FactsC22", "dropCallsInner", FLU, "Flushable.DropNotFlushed", "topcall:w.dropNotFlushed", ""),
		fact("FactsC22", "getCacheFirst", FLU, "flushableReader.Get", "before:w.modified.Get < w.underlying.Get", "the tree decides where it has a node"),
		fact("FactsC22", "hasCacheFirst", FLU, "flushableReader.Has", "before:w.modified.Get < w.underlying.Has", ""),
		fact("FactsC22", "snapshotOfParent", FLU, "Flushable.GetSnapshot", "topcall:w.underlying.GetSnapshot", "the snapshot reads a snapshot of the parent, not the live parent"),
		fact("FactsC22", "snapshotCopiesTree", FLU, "Flushable.GetSnapshot", "hascall:modifiedCopy.Put", "the snapshot owns a copy of the tree (later writes, flushes and drops do not reach it)"),
		fact("FactsC22", "iterInit", FLU, "flushableReader.NewIterator", "topcall:it.init", "both cursors are positioned before the iterator is handed out"),
		fact("FactsC22", "lazyInitsBeforeFlush", LAZ, "LazyFlushable.Flush", "before:w.initUnderlyingDb < w.flush", "the real store is produced before the tree is written into it"),
		// ---- C23: backends and wrappers -----------------------------------------------------------
		fact("FactsC23", "pblIterUsesRange", PBL, "Database.NewIterator", "hascall:bytesPrefixRange", "the engine iterator is bounded by the translated (prefix, start)"),
		fact("FactsC23", "pblSnapIterUsesRange", PBL, "snapshot.NewIterator", "hascall:bytesPrefixRange", ""),
		fact("FactsC23", "pblRangeAppendsStart", PBL, "bytesPrefixRange", "topassign:r.LowerBound", "start is appended to the lower bound on every non-nil path"),
		fact("FactsC23", "pblFirstOnStart", PBL, "iterator.Next", "hascall:it.Iterator.First", "the first Next positions the engine iterator with First"),
		fact("FactsC23", "pblMarksStarted", PBL, "iterator.Next", "hascall:it.isStarted", "assignment: First is used once only"),
		fact("FactsC23", "pblGetCopiesBeforeClose", PBL, "Database.Get", "before:append < closer.Close", "the value is cloned while the engine buffer is still valid"),
		fact("FactsC23", "ldbIterUsesRange", LDB, "Database.NewIterator", "hascall:bytesPrefixRange", ""),
		fact("FactsC23", "ldbRangeAppendsStart", LDB, "bytesPrefixRange", "topassign:r.Start", "start is appended to util.BytesPrefix(prefix).Start unconditionally"),
		fact("FactsC23", "ldbReplayForwardsPut", LDB, "replayer.Put", "hascall:r.writer.Put", "a replayed record reaches the writer (value repaired by the kernel ldbReplayNilValue)"),
		fact("FactsC23", "memIsFlushable", MEM, "New", "hascall:flushable.Wrap", "the memory backend is a flushable store"),
		fact("FactsC23", "memOverDevnull", MEM, "New", "hascall:devnulldb.New", "over an always-empty store"),
		fact("FactsC23", "syncedPutForwards", SYN, "store.Put", "hascall:s.underlying.Put", "the synchronised wrapper forwards"),
		// ---- C24: table ---------------------------------------------------------------------------
		fact("FactsC24", "putPrefixes", TAB, "Table.Put", "hascall:prefixed", ""),
		fact("FactsC24", "deletePrefixes", TAB, "Table.Delete", "hascall:prefixed", ""),
		fact("FactsC24", "getPrefixes", TRO, "IteratedReader.Get", "hascall:prefixed", ""),
		fact("FactsC24", "hasPrefixes", TRO, "IteratedReader.Has", "hascall:prefixed", ""),
		fact("FactsC24", "iterPrefixes", TRO, "IteratedReader.NewIterator", "hascall:prefixed", "the iterator prefix handed down is table prefix ++ itPrefix"),
		fact("FactsC24", "iterKeyStrips", TRO, "iterator.Key", "hascall:noPrefix", "keys come back with the table prefix removed"),
		fact("FactsC24", "batchPutPrefixes", TAB, "batch.Put", "hascall:prefixed", ""),
		fact("FactsC24", "batchDeletePrefixes", TAB, "batch.Delete", "hascall:prefixed", ""),
		fact("FactsC24", "replayPutStrips", TAB, "replayer.Put", "hascall:noPrefix", "a replay hands the writer the keys as they were put into the table batch"),
		fact("FactsC24", "replayDeleteStrips", TAB, "replayer.Delete", "hascall:noPrefix", ""),
		fact("FactsC24", "compactPrefixesStart", TAB, "Table.Compact", "hascall:prefixed", ""),
		fact("FactsC24", "compactIncPrefix", TAB, "Table.Compact", "hascall:incPrefix", "a nil limit becomes the successor of the table prefix"),
	}...)
}
