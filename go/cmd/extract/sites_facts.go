package main

// Structural facts: statements the hand-written models take for granted (a call that is made
// unconditionally, the order of two statements). Each is regenerated as a Bool constant; the
// property files state the expected value (`example : Gen.Facts….x = true := rfl`), so dropping,
// guarding or reordering such a statement breaks a proof obligation.
func init() {
	fact := func(module, name, file, fn, sel, doc string) Site {
		return Site{Module: module, Name: name, File: file, Func: fn, Sel: sel, Result: "Bool", Doc: doc}
	}
	const IL = "abft/indexed_lachesis.go"
	const FI = "vecfc/index.go"
	const EI = "vecengine/index.go"
	sites = append(sites, []Site{
		// ---- consensus core ----------------------------------------------------------------------
		fact("FactsCons", "buildSetsFreshID", IL, "IndexedLachesis.Build", "topcall:e.SetID", "every Build gives the event a fresh temporary id, unconditionally"),
		fact("FactsCons", "sampleIncrements", IL, "uniqueID.sample", "hascall:u.counter.Add", "every sample advances the counter"),
		fact("FactsCons", "sampleFillsAllBytes", IL, "uniqueID.sample", "topcall:u.counter.FillBytes", "the counter is right-aligned in the whole 24-byte id (Model.TempId.sample)"),
		fact("FactsCons", "sampleIncrementsBeforeFill", IL, "uniqueID.sample", "before:u.counter.Add < u.counter.FillBytes", ""),
		fact("FactsCons", "buildDropsAlways", IL, "IndexedLachesis.Build", "topcall:p.dagIndexer.DropNotFlushed", "Build always rolls the index back (deferred)"),
		fact("FactsCons", "buildAddsBeforeBuild", IL, "IndexedLachesis.Build", "before:p.dagIndexer.Add < p.Lachesis.Build", ""),
		fact("FactsCons", "processDropsAlways", IL, "IndexedLachesis.Process", "topcall:p.dagIndexer.DropNotFlushed", "deferred: a no-op after Flush, a roll-back after a failure"),
		fact("FactsCons", "processAddsBeforeProcess", IL, "IndexedLachesis.Process", "before:p.dagIndexer.Add < p.Lachesis.Process", ""),
		fact("FactsCons", "processFlushesAfterProcess", IL, "IndexedLachesis.Process", "before:p.Lachesis.Process < p.dagIndexer.Flush", "the index is committed only after the Orderer accepted the event"),
		fact("FactsCons", "processFlushesAtTop", IL, "IndexedLachesis.Process", "topcall:p.dagIndexer.Flush", ""),
		fact("FactsCons", "epochDBLoadedResetsIndex", IL, "IndexedLachesis.Bootstrap", "hascall:p.dagIndexer.Reset", "a (re)loaded epoch DB resets the index to the epoch's validators"),
		fact("FactsCons", "confirmMarks", "abft/lachesis.go", "Lachesis.confirmEvents", "hascall:p.store.SetEventConfirmedOn", ""),
		fact("FactsCons", "processChecksBeforeElection", "abft/event_processing.go", "Orderer.Process", "before:p.checkAndSaveEvent < p.handleElection", ""),
		fact("FactsCons", "frameDecidedStoresState", "abft/frame_decide.go", "Orderer.onFrameDecided", "topcall:p.store.SetLastDecidedState", ""),
		fact("FactsCons", "sealStoresEpochBeforeReset", "abft/frame_decide.go", "Orderer.sealEpoch", "before:p.store.SetEpochState < p.resetEpochStore", ""),
		// ---- vector index: persistence and caches ------------------------------------------------
		fact("FactsVec", "resetPurgesFc", FI, "Index.Reset", "topcall:vi.cache.ForklessCause.Purge", "answers cached for another validator set are never served"),
		fact("FactsVec", "resetPurgesRows", FI, "Index.Reset", "topcall:vi.onDropNotFlushed", ""),
		fact("FactsVec", "resetResetsEngine", FI, "Index.Reset", "topcall:vi.Engine.Reset", ""),
		fact("FactsVec", "dropPurgesHB", FI, "Index.onDropNotFlushed", "topcall:vi.cache.HighestBeforeSeq.Purge", ""),
		fact("FactsVec", "dropPurgesLA", FI, "Index.onDropNotFlushed", "topcall:vi.cache.LowestAfterSeq.Purge", ""),
		fact("FactsVec", "setLAAdds", "vecfc/store_vectors.go", "Index.SetLowestAfter", "topcall:vi.cache.LowestAfterSeq.Add", "a written row replaces the cached one"),
		fact("FactsVec", "setHBAdds", "vecfc/store_vectors.go", "Index.SetHighestBefore", "topcall:vi.cache.HighestBeforeSeq.Add", ""),
		fact("FactsVec", "setLAWritesFirst", "vecfc/store_vectors.go", "Index.SetLowestAfter", "hascall:vi.setBytes", ""),
		fact("FactsVec", "setHBWritesFirst", "vecfc/store_vectors.go", "Index.SetHighestBefore", "hascall:vi.setBytes", ""),
		fact("FactsVec", "getLAAdds", "vecfc/store_vectors.go", "Index.GetLowestAfter", "topcall:vi.cache.LowestAfterSeq.Add", ""),
		fact("FactsVec", "getHBAdds", "vecfc/store_vectors.go", "Index.GetHighestBefore", "topcall:vi.cache.HighestBeforeSeq.Add", ""),
		fact("FactsVec", "flushWritesBIFirst", EI, "Engine.Flush", "before:vi.setBranchesInfo < vi.vecDb.Flush", "the branch table goes out with the same flush as the rows"),
		fact("FactsVec", "dropForgetsBI", EI, "Engine.DropNotFlushed", "topassign:vi.bi", "unconditional: the in-memory branch table is re-read after every roll-back"),
		fact("FactsVec", "engineResetDrops", EI, "Engine.Reset", "topcall:vi.DropNotFlushed", ""),
		fact("FactsVec", "addInitsBIFirst", EI, "Engine.Add", "before:vi.InitBranchesInfo < vi.fillEventVectors", ""),
		// ---- gossip ------------------------------------------------------------------------------
		fact("FactsC15", "stopWaitsBeforeClear", "gossip/dagprocessor/processor.go", "Processor.Stop", "before:f.wg.Wait < f.buffer.Clear", "the buffer is cleared only after the inserter finished"),
		fact("FactsC15", "stopTerminatesSemaphore", "gossip/dagprocessor/processor.go", "Processor.Stop", "before:f.eventsSemaphore.Terminate < f.wg.Wait", ""),
		fact("FactsC18", "unregisterDeletesBeforeRoutine", "gossip/basestream/basestreamleecher/base_leecher.go", "BaseLeecher.UnregisterPeer", "before:delete < d.Routine", "the removed peer is no candidate for the next session"),
		fact("FactsC18", "unregisterTerminatesBeforeRoutine", "gossip/basestream/basestreamleecher/base_leecher.go", "BaseLeecher.UnregisterPeer", "before:d.callback.TerminateSession < d.Routine", ""),
		// ---- storage -----------------------------------------------------------------------------
		fact("FactsC25", "poolDirtyBeforeDrop", "kvdb/flushable/synced_pool.go", "SyncedPool.flush", "before:MarkFlushID < w.RealClose", "dirty marks are written before any queued DB is closed and dropped"),
		fact("FactsC25", "poolDropBeforeData", "kvdb/flushable/synced_pool.go", "SyncedPool.flush", "before:db.Drop < wrapper.Flushable.Flush", ""),
		fact("FactsC25", "poolCloseBeforeDrop", "kvdb/flushable/synced_pool.go", "SyncedPool.flush", "before:w.RealClose < db.Drop", ""),
	}...)
}
