package main

// Extracted decision kernels of the `emitter` family (C19, C20): emitter/ancestor and utils/wmedian.
func init() {
	const Q = "emitter/ancestor/quorum_indexer.go"
	const W = "utils/wmedian/median.go"
	sites = append(sites, []Site{
		// ---- C19 -------------------------------------------------------------------------------
		{Module: "Emitter", Name: "chooseLoop", File: "emitter/ancestor/search.go", Func: "ChooseParents", Sel: "for:0", Mode: "nat",
			Vars:   map[string]string{"i": "i", "len(strategies)": "nStrategies", "len(optionsSet)": "nOptions"},
			Params: []string{"i", "nStrategies", "nOptions"}, Result: "Bool"},
		{Module: "Emitter", Name: "chooseUpdate", File: "emitter/ancestor/weighted.go", Func: "MetricStrategy.Choose", Sel: "if:0", Mode: "nat",
			Vars: map[string]string{"maxWeight": "maxWeight", "weight": "weight"}, Params: []string{"maxWeight", "weight"}, Result: "Bool"},
		// ---- C20 -------------------------------------------------------------------------------
		{Module: "Emitter", Name: "seqIsFork", File: Q, Func: "seqOf", Sel: "if:0", Mode: "nat",
			Vars: map[string]string{"seq.IsForkDetected()": "forkDetected"}, BParams: []string{"forkDetected"}, Result: "Bool"},
		{Module: "Emitter", Name: "forkSeq", File: Q, Func: "seqOf", Sel: "ret:0", Mode: "nat", Result: "Nat",
			Doc: "the value a detected fork counts as (constant arithmetic, no wrap-around)"},
		{Module: "Emitter", Name: "processLoop", File: Q, Func: "QuorumIndexer.ProcessEvent", Sel: "for:0", Mode: "nat",
			Vars: map[string]string{"validatorIdx": "validatorIdx", "h.validators.Len()": "n"}, Params: []string{"validatorIdx", "n"}, Result: "Bool"},
		{Module: "Emitter", Name: "processSelf", File: Q, Func: "QuorumIndexer.ProcessEvent", Sel: "if:0", Mode: "nat",
			Vars: map[string]string{"selfEvent": "selfEvent"}, BParams: []string{"selfEvent"}, Result: "Bool"},
		{Module: "Emitter", Name: "recacheLoop", File: Q, Func: "QuorumIndexer.recacheState", Sel: "for:0", Mode: "nat",
			Vars: map[string]string{"validatorIdx": "validatorIdx", "h.validators.Len()": "n"}, Params: []string{"validatorIdx", "n"}, Result: "Bool"},
		{Module: "Emitter", Name: "sortBefore", File: Q, Func: "QuorumIndexer.recacheState", Sel: "ret:0", Mode: "nat",
			Vars: map[string]string{"a.seq": "seqA", "b.seq": "seqB"}, Params: []string{"seqA", "seqB"}, Result: "Bool",
			Doc: "the less function given to sort.Slice"},
		{Module: "Emitter", Name: "medianAdd", File: W, Func: "Of", Sel: "assign:curWeight", Mode: "u32",
			Vars: map[string]string{"curWeight": "curWeight", "value.Weight()": "weight"}, Params: []string{"curWeight", "weight"}, Result: "Nat",
			Doc: "pos.Weight is uint32"},
		{Module: "Emitter", Name: "medianStop", File: W, Func: "Of", Sel: "if:0", Mode: "nat",
			Vars: map[string]string{"curWeight": "curWeight", "stop": "stop"}, Params: []string{"curWeight", "stop"}, Result: "Bool"},
		{Module: "Emitter", Name: "metricDirty", File: Q, Func: "QuorumIndexer.GetMetricOf", Sel: "if:0", Mode: "nat",
			Vars: map[string]string{"h.dirty": "dirty"}, BParams: []string{"dirty"}, Result: "Bool"},
		{Module: "Emitter", Name: "metricLoop", File: Q, Func: "QuorumIndexer.GetMetricOf", Sel: "for:0", Mode: "nat",
			Vars: map[string]string{"validatorIdx": "validatorIdx", "h.validators.Len()": "n"}, Params: []string{"validatorIdx", "n"}, Result: "Bool"},
		{Module: "Emitter", Name: "metricAdd", File: Q, Func: "QuorumIndexer.GetMetricOf", Sel: "assign:metric", Mode: "u64",
			Vars:   map[string]string{"metric": "metric", "h.diffMetricFn(median, current, update, validatorIdx)": "diff"},
			Params: []string{"metric", "diff"}, Result: "Nat", Doc: "Metric is uint64"},
		{Module: "Emitter", Name: "mediansDirty", File: Q, Func: "QuorumIndexer.GetGlobalMedianSeqs", Sel: "if:0", Mode: "nat",
			Vars: map[string]string{"h.dirty": "dirty"}, BParams: []string{"dirty"}, Result: "Bool"},
		{Module: "Emitter", Name: "strategyDirty", File: Q, Func: "QuorumIndexer.SearchStrategy", Sel: "if:0", Mode: "nat",
			Vars: map[string]string{"h.dirty": "dirty"}, BParams: []string{"dirty"}, Result: "Bool"},
	}...)
}
