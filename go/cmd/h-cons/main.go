// Command h-cons: harness streams of the consensus family.
package main

import "verifharness/hlib"

func main() { hlib.Main() }
