package main

// Stream `cons` (C01–C10, C33): several abft.IndexedLachesis instances over vecfc.Index, driven
// through exported API only. The Lean driver answers the same ops from the graph-level reference
// implementation of the Lachesis rules (Spec/Lachesis.lean).

import (
	"bufio"
	"encoding/binary"
	"fmt"
	"sort"
	"strings"

	. "verifharness/hlib"

	"github.com/Fantom-foundation/lachesis-base/abft"
	"github.com/Fantom-foundation/lachesis-base/hash"
	"github.com/Fantom-foundation/lachesis-base/inter/dag"
	"github.com/Fantom-foundation/lachesis-base/inter/idx"
	"github.com/Fantom-foundation/lachesis-base/inter/pos"
	"github.com/Fantom-foundation/lachesis-base/kvdb"
	"github.com/Fantom-foundation/lachesis-base/kvdb/flushable"
	"github.com/Fantom-foundation/lachesis-base/kvdb/memorydb"
	"github.com/Fantom-foundation/lachesis-base/lachesis"
	"github.com/Fantom-foundation/lachesis-base/utils/adapters"
	"github.com/Fantom-foundation/lachesis-base/utils/cachescale"
	"github.com/Fantom-foundation/lachesis-base/vecfc"
)

func init() {
	Register("cons", &Stream{Gen: genCons, NewRunner: func() Runner { return newConsRunner() }})
}

type evStore struct{ m map[hash.Event]dag.Event }

func (s *evStore) HasEvent(h hash.Event) bool { _, ok := s.m[h]; return ok }
func (s *evStore) GetEvent(h hash.Event) dag.Event {
	e, ok := s.m[h]
	if !ok {
		return nil
	}
	return e
}

// keepDB is an epoch database that survives Close (like a database on disk): Close is a no-op, Drop
// deletes the content. The producer hands out one keepDB per epoch number.
type keepDB struct {
	kvdb.Store
}

func (d *keepDB) Close() error { return nil }
func (d *keepDB) Drop()        { d.Store = memorydb.New() }

type blockRec struct {
	epoch, frame uint64
	atropos      hash.Event
	cheaters     []idx.ValidatorID
	applied      []hash.Event
	sealed       bool
	noapply      bool
}

type inst struct {
	r          *consRunner
	mainDB     kvdb.Store
	epochDBs   map[idx.Epoch]kvdb.Store
	store      *abft.Store
	lch        *abft.IndexedLachesis
	index      *vecfc.Index
	input      *evStore
	blocks     []blockRec
	allBlocks  []blockRec                       // every block since the instance was created (kept as handed over)
	noApplyMod uint64                           // > 0: blocks whose frame is a multiple of it get no ApplyEvent callback
	flushy     bool                             // databases are flushable write-back buffers, flushed after every op
	spec       map[uint64]*dag.MutableBaseEvent // event objects of speculative builds (for `rebuild`)
	rootsCfg   int                              // 0: cache 0/0, 1: 1/1, 2: 2/2, 3: lite default
	critErr    string
}

type consRunner struct {
	genesis *pos.Validators
	events  map[uint64]*dag.BaseEvent
	byHash  map[hash.Event]uint64
	seals   map[[2]uint64]*pos.Validators
	insts   map[uint64]*inst
}

func newConsRunner() *consRunner {
	return &consRunner{events: map[uint64]*dag.BaseEvent{}, byHash: map[hash.Event]uint64{}, seals: map[[2]uint64]*pos.Validators{},
		insts: map[uint64]*inst{}}
}

func parseVals(ws []string) *pos.Validators {
	b := pos.NewBuilder()
	for _, p := range ws {
		kv := strings.Split(p, ":")
		b.Set(idx.ValidatorID(Atou(kv[0])), pos.Weight(Atou(kv[1])))
	}
	return b.Build()
}

func (in *inst) storeCfg() abft.StoreConfig {
	switch in.rootsCfg {
	case 0:
		return abft.StoreConfig{Cache: abft.StoreCacheConfig{RootsNum: 0, RootsFrames: 0}}
	case 1:
		return abft.StoreConfig{Cache: abft.StoreCacheConfig{RootsNum: 1, RootsFrames: 1}}
	case 2:
		return abft.StoreConfig{Cache: abft.StoreCacheConfig{RootsNum: 3, RootsFrames: 2}}
	}
	return abft.LiteStoreConfig()
}

// boot (re)creates the volatile objects over the instance's databases.
func (in *inst) boot(genesis *pos.Validators) {
	crit := func(err error) {
		in.critErr = err.Error()
		panic("crit: " + err.Error())
	}
	getEDB := func(epoch idx.Epoch) kvdb.Store {
		db, ok := in.epochDBs[epoch]
		if !ok {
			if in.flushy {
				// the application keeps its databases behind write-back buffers that it flushes after every event
				db = &keepDB{Store: flushable.Wrap(memorydb.New())}
			} else {
				db = &keepDB{Store: memorydb.New()}
			}
			in.epochDBs[epoch] = db
		}
		return db
	}
	in.store = abft.NewStore(in.mainDB, getEDB, crit, in.storeCfg())
	if genesis != nil {
		if err := in.store.ApplyGenesis(&abft.Genesis{Epoch: abft.FirstEpoch, Validators: genesis}); err != nil {
			panic(err)
		}
	}
	cfg := vecfc.LiteConfig()
	if in.rootsCfg == 0 {
		cfg = vecfc.IndexConfig{Caches: vecfc.IndexCacheConfig{ForklessCausePairs: 1, HighestBeforeSeqSize: 1, LowestAfterSeqSize: 1}}
	} else if in.rootsCfg == 1 {
		cfg = vecfc.DefaultConfig(cachescale.Ratio{Base: 2000, Target: 1})
	}
	in.index = vecfc.NewIndex(crit, cfg)
	in.lch = abft.NewIndexedLachesis(in.store, in.input, &adapters.VectorToDagIndexer{Index: in.index}, crit, abft.LiteConfig())
	err := in.lch.Bootstrap(lachesis.ConsensusCallbacks{
		BeginBlock: func(block *lachesis.Block) lachesis.BlockCallbacks {
			// the application keeps the block (and its cheaters slice) as handed over, without copying
			rec := blockRec{epoch: uint64(in.store.GetEpoch()), frame: uint64(in.store.GetLastDecidedFrame()) + 1,
				atropos: block.Atropos, cheaters: block.Cheaters}
			apply := func(e dag.Event) { rec.applied = append(rec.applied, e.ID()) }
			if in.noApplyMod > 0 && rec.frame%in.noApplyMod == 0 {
				// the application does not listen to the events of this block
				apply = nil
				rec.noapply = true
			}
			if in.noApplyMod%2 == 1 && rec.noapply && in.r.seals[[2]uint64{rec.epoch, rec.frame}] == nil {
				// an application that ignores this block altogether returns empty callbacks
				in.blocks = append(in.blocks, rec)
				in.allBlocks = append(in.allBlocks, rec)
				return lachesis.BlockCallbacks{}
			}
			if in.noApplyMod > 1 && rec.frame%in.noApplyMod == 1 && in.r.seals[[2]uint64{rec.epoch, rec.frame}] == nil {
				// an application with nothing to decide at the end of this block passes no EndBlock callback
				bi, ai := len(in.blocks), len(in.allBlocks)
				in.blocks = append(in.blocks, rec)
				in.allBlocks = append(in.allBlocks, rec)
				return lachesis.BlockCallbacks{ApplyEvent: func(e dag.Event) {
					in.blocks[bi].applied = append(in.blocks[bi].applied, e.ID())
					in.allBlocks[ai].applied = in.blocks[bi].applied
				}}
			}
			return lachesis.BlockCallbacks{
				ApplyEvent: apply,
				EndBlock: func() *pos.Validators {
					nv := in.r.seals[[2]uint64{rec.epoch, rec.frame}]
					rec.sealed = nv != nil
					in.blocks = append(in.blocks, rec)
					in.allBlocks = append(in.allBlocks, rec)
					if nv != nil && nv.String() == in.store.GetValidators().String() {
						// an unchanged validator set is handed back as the very same object
						return in.store.GetValidators()
					}
					return nv
				},
			}
		},
	})
	if err != nil {
		panic(err)
	}
}

func (r *consRunner) num(h hash.Event) string {
	if n, ok := r.byHash[h]; ok {
		return fmt.Sprint(n)
	}
	return "?" + h.String()
}

func (r *consRunner) fmtBlocks(bs []blockRec) string {
	if len(bs) == 0 {
		return "-"
	}
	parts := make([]string, len(bs))
	for i, b := range bs {
		ch := make([]string, len(b.cheaters))
		for j, c := range b.cheaters {
			ch[j] = fmt.Sprint(uint64(c))
		}
		seen := map[uint64]bool{}
		var evs []uint64
		for _, h := range b.applied {
			n := r.byHash[h]
			if !seen[n] {
				seen[n] = true
				evs = append(evs, n)
			}
		}
		sort.Slice(evs, func(a, b int) bool { return evs[a] < evs[b] })
		seal := ""
		if b.sealed {
			seal = ":seal"
		}
		evStr := fmt.Sprintf("[%s]:n=%d", JoinU(evs, ","), len(b.applied))
		if b.noapply {
			evStr = "skip"
		}
		parts[i] = fmt.Sprintf("%d.%d:a=%s:ch=[%s]:ev=%s%s", b.epoch, b.frame, r.num(b.atropos), strings.Join(ch, ","), evStr, seal)
	}
	return strings.Join(parts, " ")
}

func (in *inst) stateStr() string {
	return fmt.Sprintf("E=%d LDF=%d", in.store.GetEpoch(), in.store.GetLastDecidedFrame())
}

func (r *consRunner) mkEvent(n, epoch uint64, kv map[string]string, frame uint64) *dag.MutableBaseEvent {
	var e dag.MutableBaseEvent
	e.SetEpoch(idx.Epoch(epoch))
	e.SetCreator(idx.ValidatorID(Atou(kv["c"])))
	e.SetSeq(idx.Event(Atou(kv["s"])))
	e.SetLamport(idx.Lamport(Atou(kv["l"])))
	e.SetFrame(idx.Frame(frame))
	var ps hash.Events
	for _, p := range SplitList(kv["p"]) {
		pe, ok := r.events[Atou(p)]
		if !ok {
			return nil
		}
		ps = append(ps, pe.ID())
	}
	e.SetParents(ps)
	return &e
}

func tailOf(n uint64) [24]byte {
	// 0xAA marker: real ids must not coincide with the temporary ids of IndexedLachesis.Build (a counter)
	var t [24]byte
	t[0] = 0xAA
	binary.BigEndian.PutUint64(t[16:], n)
	return t
}

func kvOf(ws []string) map[string]string {
	m := map[string]string{}
	for _, w := range ws {
		if i := strings.Index(w, "="); i > 0 {
			m[w[:i]] = w[i+1:]
		}
	}
	return m
}

// flushAll flushes the write-back buffers of the instances that use them (after every op, as an
// application does after every processed event)
func (r *consRunner) flushAll() {
	for _, in := range r.insts {
		if !in.flushy {
			continue
		}
		dbs := []kvdb.Store{in.mainDB}
		for _, d := range in.epochDBs {
			dbs = append(dbs, d)
		}
		for _, d := range dbs {
			if k, ok := d.(*keepDB); ok {
				if fl, ok := k.Store.(*flushable.Flushable); ok {
					_ = fl.Flush()
				}
			}
		}
	}
}

func (r *consRunner) Step(line string) string {
	defer r.flushAll()
	return r.step(line)
}

func (r *consRunner) step(line string) string {
	f := Fields(line)
	switch f[0] {
	case "restart", "reset", "build", "rebuild", "process", "fc", "hb", "roots", "state", "allblocks", "noapply":
		if len(f) < 2 || r.insts[Atou(f[1])] == nil {
			return "noinst"
		}
	case "inst":
		if r.genesis == nil {
			return "novals"
		}
	}
	switch f[0] {
	case "vals":
		r.genesis = parseVals(f[1:])
		return "ok"
	case "seal": // seal <epoch> <frame> id:w ...
		r.seals[[2]uint64{Atou(f[1]), Atou(f[2])}] = parseVals(f[3:])
		return "ok"
	case "inst": // inst <k> <rootsCfg>
		in := &inst{r: r, mainDB: &keepDB{Store: memorydb.New()}, epochDBs: map[idx.Epoch]kvdb.Store{}, input: &evStore{m: map[hash.Event]dag.Event{}},
			rootsCfg: int(Atou(f[2])) % 4, flushy: Atou(f[2]) >= 4}
		if in.flushy {
			in.mainDB = &keepDB{Store: flushable.Wrap(memorydb.New())}
		}
		r.insts[Atou(f[1])] = in
		in.boot(r.genesis)
		return in.stateStr()
	case "restart": // restart <k> [clean]: a new Store / index / Lachesis over the same DBs; `clean` closes the old store first
		in := r.insts[Atou(f[1])]
		in.blocks = nil
		if len(f) > 2 && f[2] == "clean" {
			if err := in.store.Close(); err != nil {
				return "err close: " + err.Error()
			}
		}
		in.boot(nil)
		return in.stateStr() + " " + r.fmtBlocks(in.blocks)
	case "reset": // reset <k> <epoch> id:w ...
		in := r.insts[Atou(f[1])]
		if err := in.lch.Reset(idx.Epoch(Atou(f[2])), parseVals(f[3:])); err != nil {
			return "err " + err.Error()
		}
		for h := range in.input.m { // the instance starts the epoch afresh: it knows no event
			delete(in.input.m, h)
		}
		return in.stateStr()
	case "ev": // ev <n> e=<epoch> c= s= l= f= p=
		n := Atou(f[1])
		kv := kvOf(f[2:])
		e := r.mkEvent(n, Atou(kv["e"]), kv, Atou(kv["f"]))
		if e == nil {
			return "err unknown-parent"
		}
		be := e.Build(tailOf(n))
		r.events[n] = be
		r.byHash[be.ID()] = n
		return "ok"
	case "build": // build <k> <n> c= s= l= p=   (declares event n with the frame Build assigns)
		in := r.insts[Atou(f[1])]
		n := Atou(f[2])
		kv := kvOf(f[3:])
		e := r.mkEvent(n, uint64(in.store.GetEpoch()), kv, 0)
		if e == nil {
			return "err unknown-parent"
		}
		for _, p := range e.Parents() {
			if !in.input.HasEvent(p) {
				return "err noparent"
			}
		}
		if err := in.lch.Build(e); err != nil {
			return "err " + err.Error()
		}
		if kv["keep"] != "0" {
			be := e.Build(tailOf(n))
			r.events[n] = be
			r.byHash[be.ID()] = n
		} else {
			if in.spec == nil {
				in.spec = map[uint64]*dag.MutableBaseEvent{}
			}
			in.spec[n] = e
		}
		return fmt.Sprintf("frame=%d", e.Frame())
	case "rebuild": // rebuild <k> <n> c= s= l= p= : Build again on the SAME event object that `build <k> <n> … keep=0` used
		in := r.insts[Atou(f[1])]
		obj, ok := in.spec[Atou(f[2])]
		kv := kvOf(f[3:])
		fresh := r.mkEvent(Atou(f[2]), uint64(in.store.GetEpoch()), kv, 0)
		if fresh == nil {
			return "err unknown-parent"
		}
		for _, p := range fresh.Parents() {
			if !in.input.HasEvent(p) {
				return "err noparent"
			}
		}
		if !ok {
			obj = fresh
		} else {
			obj.SetEpoch(fresh.Epoch())
			obj.SetCreator(fresh.Creator())
			obj.SetSeq(fresh.Seq())
			obj.SetLamport(fresh.Lamport())
			obj.SetParents(fresh.Parents())
			obj.SetFrame(0)
		}
		if err := in.lch.Build(obj); err != nil {
			return "err " + err.Error()
		}
		return fmt.Sprintf("frame=%d", obj.Frame())
	case "process": // process <k> <n>
		in := r.insts[Atou(f[1])]
		e, ok := r.events[Atou(f[2])]
		if !ok {
			return "unknown-event"
		}
		if e.Epoch() != in.store.GetEpoch() {
			return "skip " + in.stateStr()
		}
		for _, p := range e.Parents() {
			if !in.input.HasEvent(p) {
				return "err noparent " + in.stateStr()
			}
		}
		in.blocks = nil
		in.input.m[e.ID()] = e
		err := in.lch.Process(e)
		if err != nil {
			delete(in.input.m, e.ID())
			kind := "other:" + err.Error()
			if err == abft.ErrWrongFrame {
				kind = "wrongframe"
			}
			return "err " + kind + " " + in.stateStr()
		}
		return "ok " + in.stateStr() + " " + r.fmtBlocks(in.blocks)
	case "fc": // fc <k> <a> <b>
		in := r.insts[Atou(f[1])]
		a, b := r.events[Atou(f[2])], r.events[Atou(f[3])]
		if a == nil || b == nil || !in.input.HasEvent(a.ID()) || !in.input.HasEvent(b.ID()) ||
			a.Epoch() != in.store.GetEpoch() || b.Epoch() != in.store.GetEpoch() {
			return "na"
		}
		return B2s(in.index.ForklessCause(a.ID(), b.ID()))
	case "hb": // hb <k> <a>  -> merged highest-before by validator index (F = fork)
		in := r.insts[Atou(f[1])]
		a := r.events[Atou(f[2])]
		if a == nil || !in.input.HasEvent(a.ID()) || a.Epoch() != in.store.GetEpoch() {
			return "na"
		}
		v := in.index.GetMergedHighestBefore(a.ID())
		if ps := a.Parents(); len(ps) > 0 {
			// a caller may hold one merged clock while asking for another one
			_ = in.index.GetMergedHighestBefore(ps[len(ps)-1])
		}
		av := (&adapters.VectorToDagIndexer{Index: in.index}).GetMergedHighestBefore(a.ID())
		n := int(in.store.GetValidators().Len())
		parts := make([]string, n)
		for i := 0; i < n; i++ {
			s := v.Get(idx.Validator(i))
			if s.IsForkDetected() {
				parts[i] = "F"
			} else {
				parts[i] = fmt.Sprint(uint64(s.Seq))
			}
			as := av.Get(idx.Validator(i))
			if as.IsForkDetected() != s.IsForkDetected() || (!s.IsForkDetected() && as.Seq() != s.Seq) {
				parts[i] += "!adapter"
			}
		}
		return strings.Join(parts, ",")
	case "roots": // roots <k> <frame> -> sorted "validator:event"
		in := r.insts[Atou(f[1])]
		fr := idx.Frame(Atou(f[2]))
		rr := in.store.GetFrameRoots(fr)
		parts := make([]string, len(rr))
		for i, x := range rr {
			bad := ""
			if x.Slot.Frame != fr {
				bad = fmt.Sprintf("!frame=%d", x.Slot.Frame)
			}
			parts[i] = fmt.Sprintf("%d:%s%s", x.Slot.Validator, r.num(x.ID), bad)
		}
		sort.Strings(parts)
		if len(parts) == 0 {
			return "-"
		}
		return strings.Join(parts, " ")
	case "noapply": // noapply <k> <m>: instance k passes a nil ApplyEvent for blocks whose frame is a multiple of m
		in := r.insts[Atou(f[1])]
		in.noApplyMod = Atou(f[2])
		return "ok"
	case "allblocks": // every block the application received so far: epoch.frame:cheaters
		in := r.insts[Atou(f[1])]
		parts := make([]string, len(in.allBlocks))
		for i, b := range in.allBlocks {
			ch := make([]string, len(b.cheaters))
			for j, c := range b.cheaters {
				ch[j] = fmt.Sprint(uint64(c))
			}
			parts[i] = fmt.Sprintf("%d.%d:a=%s:ch=[%s]", b.epoch, b.frame, r.num(b.atropos), strings.Join(ch, ","))
		}
		if len(parts) == 0 {
			return "-"
		}
		return strings.Join(parts, " ")
	case "state":
		in := r.insts[Atou(f[1])]
		vv := in.store.GetValidators()
		parts := make([]string, 0, vv.Len())
		for i, id := range vv.SortedIDs() {
			parts = append(parts, fmt.Sprintf("%d:%d", id, vv.GetWeightByIdx(idx.Validator(i))))
		}
		return in.stateStr() + " vals=" + strings.Join(parts, ",")
	}
	return "bad-op"
}

// ---------------------------------------------------------------------------------------------
// generator

type gEvent struct {
	n       uint64
	epoch   int
	creator uint64
	seq     uint64
	lamport uint64
	parents []uint64
}

func genCons(r *Rand, n int, tier string, w *bufio.Writer) {
	for c := 0; c < n; c++ {
		fmt.Fprintf(w, "# case %d\n", c)
		genConsCase(r, tier, w)
	}
}

// The generator is closed-loop: every op it writes is also executed on a generator-side runner (the
// real code), so that it knows which frames were assigned and when the builder instance sealed an
// epoch. The op list it writes stays fully explicit; `run` and the Lean reference replay it blindly.
func genConsCase(r *Rand, tier string, w *bufio.Writer) {
	gr := newConsRunner()
	emit := func(format string, a ...interface{}) (res string) {
		line := fmt.Sprintf(format, a...)
		fmt.Fprintln(w, line)
		defer func() {
			if p := recover(); p != nil {
				res = "panic"
			}
		}()
		return gr.Step(line)
	}
	epochOf := func(res string) int {
		for _, f := range strings.Fields(res) {
			if strings.HasPrefix(f, "E=") {
				return int(Atou(f[2:]))
			}
		}
		return -1
	}
	nv := 1 + r.Intn(7)
	// "slow quorum" style: four equal validators of which two are slow, so that no quorum forms without
	// a slow one and the slow validators' roots jump over frames (shape of corpus/cons/slow-validators-seal.ops)
	slowQuorum := r.Chance(1, 6)
	if slowQuorum {
		nv = 4
	}
	// "two cheaters" style: seven validators, the two lightest ones fork; the heavier of the two has the larger id,
	// so that canonical order (weight, then id) differs from id order
	twoCheaters := !slowQuorum && r.Chance(1, 8)
	if twoCheaters {
		nv = 7
	}
	// "many validators" style: 13-20 validators with few distinct weights (many ties in the canonical order)
	// and several cheaters
	manyValidators := !slowQuorum && !twoCheaters && r.Chance(1, 10)
	if manyValidators {
		nv = 13 + r.Intn(8)
	}
	ids := make([]uint64, nv)
	ws := make([]uint64, nv)
	perm := r.Perm(20)
	wkind := r.Intn(5)
	if slowQuorum {
		wkind = 0
	}
	if manyValidators {
		wkind = []int{0, 0, 3}[r.Intn(3)]
	}
	var total uint64
	for i := range ids {
		ids[i] = uint64(1 + perm[i])
		switch wkind {
		case 0:
			ws[i] = 1
		case 1:
			ws[i] = uint64(1 + r.Intn(5))
		case 2:
			ws[i] = uint64(1 + r.Intn(100))
		case 3:
			ws[i] = []uint64{1, 1, 2, 10, 33}[r.Intn(5)]
		default:
			ws[i] = uint64(1+r.Intn(3)) * 100000000
		}
		total += ws[i]
	}
	if twoCheaters {
		total = 0
		for i := range ids {
			ws[i] = 5
			total += 5
		}
		lo, hi := ids[nv-2], ids[nv-1]
		if lo > hi {
			lo, hi = hi, lo
		}
		ids[nv-2], ids[nv-1] = hi, lo // ids[nv-2] has the larger id
		ws[nv-2], ws[nv-1] = 2, 1     // … and the larger weight: canonical order lists it first
		total = total - 10 + 3
	}
	// in half of the scenarios one validator is "needed": it holds more than one third of the weight, so no
	// quorum forms without it; when it is also the lagging validator its frame-jumping roots are the ones
	// that decide several frames within one Process call
	needed := -1
	if nv >= 2 && total < 1<<29 && !slowQuorum && !twoCheaters && !manyValidators && r.Chance(1, 2) {
		needed = r.Intn(nv)
		others := total - ws[needed]
		ws[needed] = others/2 + 1 + uint64(r.Intn(int(others/2)+1))
		total = others + ws[needed]
	}
	valsStr := func(ids, ws []uint64) string {
		p := make([]string, len(ids))
		for i := range ids {
			p[i] = fmt.Sprintf("%d:%d", ids[i], ws[i])
		}
		return strings.Join(p, " ")
	}
	if r.Chance(1, 12) {
		// a genesis set whose total weight exceeds 2^31-1 is refused by the builder (quorum arithmetic is 32-bit)
		emit("vals %d:%d %d:%d", ids[0], []uint64{1<<31 - 1, 1 << 31, 1<<32 - 1, 1500000000}[r.Intn(4)], ids[0]+100, []uint64{1, 1 << 30, 1500000000}[r.Intn(3)])
		emit("seal 9 1 %d:%d %d:1", ids[0], uint64(1<<31-1), ids[0]+100)
	}
	emit("vals %s", valsStr(ids, ws))
	// cheaters: weight strictly below one third
	cheater := map[uint64]bool{}
	if twoCheaters {
		cheater[ids[nv-1]] = true
		cheater[ids[nv-2]] = true
	} else if r.Chance(2, 3) {
		var cw uint64
		for _, i := range r.Perm(nv) {
			if 3*(cw+ws[i]) < total && r.Chance(1, 2) {
				cheater[ids[i]] = true
				cw += ws[i]
			}
		}
	}
	// seals
	epochs := 1 + r.Intn(4)
	_ = epochs
	sealFrame := map[int]int{}
	type vset struct{ ids, ws []uint64 }
	epochSets := map[int]vset{1: {ids, ws}}
	for e := 1; e < epochs; e++ {
		sealFrame[e] = 1 + r.Intn(6)
		// mutated or unchanged validator set; outside the fixed-shape styles validators also join and leave
		prev := epochSets[e]
		nids := append([]uint64{}, prev.ids...)
		nws := make([]uint64, len(nids))
		for i := range nws {
			nws[i] = prev.ws[i]
			if r.Chance(1, 2) {
				nws[i] = prev.ws[i]*uint64(500+r.Intn(500))/1000 + 1
			}
		}
		if !slowQuorum && !twoCheaters {
			if len(nids) > 1 && r.Chance(1, 4) {
				k := r.Intn(len(nids))
				nids = append(nids[:k], nids[k+1:]...)
				nws = append(nws[:k], nws[k+1:]...)
			}
			for len(nids) < 9 && r.Chance(1, 3) {
				nw := nws[r.Intn(len(nws))]
				var nt uint64
				for _, x := range nws {
					nt += x
				}
				if nt+nw > 1<<31-1 {
					break // the total weight of a validator set is limited to 2^31-1
				}
				nids = append(nids, uint64(30+3*e+len(nids)))
				nws = append(nws, nw)
			}
		}
		epochSets[e+1] = vset{nids, nws}
		emit("seal %d %d %s", e, sealFrame[e], valsStr(nids, nws))
	}
	specN := uint64(0)
	specAge := 0
	restartHeavy := r.Chance(1, 8)
	sparse := r.Chance(1, 3)
	slowN := 0
	if nv >= 3 && r.Chance(1, 3) {
		slowN = 1 + r.Intn(2)
	}
	if slowQuorum {
		slowN = 2
	}
	// a lagging validator mostly extends only its own chain and occasionally catches up with everybody:
	// its roots then jump over several frames (multi-frame roots)
	lagger := uint64(0)
	if r.Chance(1, 2) {
		lagger = ids[r.Intn(nv)]
		if needed >= 0 && r.Chance(2, 3) {
			lagger = ids[needed]
		}
	}
	// "hider" style: for stretches of the run one validator's new events stay unknown to the others (they keep
	// referencing its last visible event) and it references few events itself; then it catches up with everybody.
	// Votes disagree meanwhile, decisions are delayed, and the catching-up root decides several frames at once
	// (the later ones while known roots are re-processed).
	hider := uint64(0)
	if nv >= 3 && r.Chance(1, 3) {
		hider = ids[r.Intn(nv)]
	}
	hideTo := -1
	catchUp := false
	ninst := 2 + r.Intn(2)
	for k := 0; k < ninst; k++ {
		emit("inst %d %d", k, (k+r.Intn(4))%4+4*r.Intn(2))
	}
	if r.Chance(1, 4) {
		emit("noapply %d %d", r.Intn(ninst), 1+r.Intn(3))
	}
	maxEv := 30 + r.Intn(90)
	if tier == "thorough" {
		maxEv = 30 + r.Intn(250)
	}
	next := uint64(1)
	curEpoch := 1 // epoch of the builder (instance 0) as the generator believes; events carry the builder's real epoch
	type head struct{ n, seq, lamport uint64 }
	var all []gEvent                 // events of the current builder epoch
	heads := map[uint64][]head{}     // creator -> known tips (several if forked)
	var visibleHider []head          // the hider's tips as the other validators know them during a hiding window
	lamportOf := map[uint64]uint64{} // event -> lamport
	queue := make([][]uint64, ninst) // per laggard: events not yet processed
	done := make([]map[uint64]bool, ninst)
	for k := range done {
		done[k] = map[uint64]bool{}
	}
	parentsOf := map[uint64][]uint64{}
	builderEvents := 0
	deferred := make([][]uint64, ninst) // events of an epoch the instance has not reached yet
	instEpoch := make([]int, ninst)
	for k := range instEpoch {
		instEpoch[k] = 1
	}
	evEpoch := map[uint64]int{}
	flush := func(k int, limit int) {
		// process up to `limit` queued events whose parents are processed by k, in random eligible order
		for limit > 0 {
			var elig []int
			for qi, n := range queue[k] {
				ok := true
				for _, p := range parentsOf[n] {
					if !done[k][p] && (inQueue(queue[k], p) || inQueue(deferred[k], p)) {
						ok = false
						break
					}
				}
				if ok {
					elig = append(elig, qi)
				}
			}
			if len(elig) == 0 {
				return
			}
			qi := elig[r.Intn(len(elig))]
			n := queue[k][qi]
			queue[k] = append(queue[k][:qi], queue[k][qi+1:]...)
			res := emit("process %d %d", k, n)
			limit--
			ep := epochOf(res)
			if strings.HasPrefix(res, "skip") && evEpoch[n] > ep {
				// the instance has not sealed the previous epoch yet: it will receive the event again later
				deferred[k] = append(deferred[k], n)
				continue
			}
			done[k][n] = true
			if ep > instEpoch[k] {
				instEpoch[k] = ep
				queue[k] = append(queue[k], deferred[k]...)
				deferred[k] = nil
			}
		}
	}
	for step := 0; step < maxEv; step++ {
		// pick creator and parents among events processed by the builder in the current epoch
		ci := r.Intn(nv)
		if slowN > 0 {
			// slow validators create events rarely (and then reference most heads): their roots jump frames
			for ci < slowN && !r.Chance(1, 8) {
				ci = r.Intn(nv)
			}
		}
		if hider != 0 && step > hideTo && !catchUp && r.Chance(1, 5) {
			hideTo = step + 4 + r.Intn(14)
			visibleHider = append([]head{}, heads[hider]...)
		}
		hiding := hider != 0 && step <= hideTo
		creator := ids[ci]
		var selfParent *head
		if hs := heads[creator]; len(hs) > 0 {
			h := hs[r.Intn(len(hs))]
			selfParent = &h
			if cheater[creator] && r.Chance(1, 3) && len(all) > 0 {
				// fork: pick an older event of the creator as self-parent (or restart from seq 1)
				var own []gEvent
				for _, e := range all {
					if e.creator == creator {
						own = append(own, e)
					}
				}
				if r.Chance(1, 5) {
					selfParent = nil
				} else if len(own) > 0 {
					o := own[r.Intn(len(own))]
					selfParent = &head{o.n, o.seq, o.lamport}
				}
			}
		}
		var parents []uint64
		seq := uint64(1)
		maxL := uint64(0)
		if selfParent != nil {
			parents = append(parents, selfParent.n)
			seq = selfParent.seq + 1
			maxL = selfParent.lamport
		}
		np := r.Intn(nv + 1)
		if r.Chance(1, 3) {
			np = nv
		}
		if slowN > 0 {
			np = 0
			for i := 0; i < nv-1; i++ {
				if !r.Chance(1, 3) {
					np++
				}
			}
		} else if sparse && selfParent != nil {
			// sparse gossip: few parents most of the time, an occasional full sync: decisions are delayed by
			// disagreeing votes and many roots jump over frames
			np = []int{0, 1, 1, 1, 2, nv}[r.Intn(6)]
		}
		if creator == lagger && selfParent != nil {
			if r.Chance(4, 5) {
				np = 0
			} else {
				np = nv
			}
		}
		if creator == hider && selfParent != nil {
			if hiding {
				np = []int{0, 0, 1}[r.Intn(3)]
				catchUp = true
			} else if catchUp {
				np = nv
				catchUp = false
			}
		}
		for _, oi := range r.Perm(nv) {
			if np == 0 {
				break
			}
			if ids[oi] == creator {
				continue
			}
			hs := heads[ids[oi]]
			if hiding && ids[oi] == hider {
				hs = visibleHider
			}
			if len(hs) == 0 {
				continue
			}
			h := hs[r.Intn(len(hs))]
			if r.Chance(1, 6) && len(all) > 0 { // lagging view: an older event of that creator
				var own []gEvent
				for _, e := range all {
					if e.creator == ids[oi] {
						own = append(own, e)
					}
				}
				if len(own) > 0 {
					o := own[r.Intn(len(own))]
					h = head{o.n, o.seq, o.lamport}
				}
			}
			parents = append(parents, h.n)
			if h.lamport > maxL {
				maxL = h.lamport
			}
			np--
		}
		n := next
		next++
		ps := make([]string, len(parents))
		for i, p := range parents {
			ps[i] = fmt.Sprint(p)
		}
		pj := strings.Join(ps, ",")
		if pj == "" {
			pj = "-"
		}
		// occasionally: speculative builds that are never processed (C07), on a random instance that has the parents
		if specN != 0 && (specAge < 3 || r.Chance(1, 4)) {
			// the application re-uses (re-fills and rebuilds) the event object of an earlier speculative build,
			// soon after it, while the first build's forkless-cause answers are still cached
			emit("rebuild 0 %d c=%d s=%d l=%d p=%s", specN, creator, seq, maxL+1, pj)
		}
		specAge++
		if r.Chance(1, 8) {
			emit("build 0 %d c=%d s=%d l=%d p=%s keep=0", 900000+n, creator, seq, maxL+1, pj)
			specN = 900000 + n
			specAge = 0
		}
		bres := emit("build 0 %d c=%d s=%d l=%d p=%s", n, creator, seq, maxL+1, pj)
		builtFrame := uint64(0)
		if strings.HasPrefix(bres, "frame=") {
			builtFrame = Atou(bres[6:])
		}
		evEpoch[n] = curEpoch
		// occasionally: a wrong-frame twin of the event, processed and rejected (C04/C07); under-claimed frames
		// that the frame rule allows are avoided by claiming a frame above the built (maximal) one or 0-distance below
		// the self-parent's
		if r.Chance(1, 8) && builtFrame > 0 {
			wrong := builtFrame + 1 + uint64(r.Intn(3))
			if r.Chance(1, 3) && builtFrame > 1 && seq == 1 {
				wrong = builtFrame - 1
			}
			emit("ev %d e=%d c=%d s=%d l=%d f=%d p=%s", 800000+n, curEpoch, creator, seq, maxL+1, wrong, pj)
			emit("process %d %d", 0, 800000+n)
		}
		res := emit("process 0 %d", n)
		if strings.HasPrefix(res, "ok") && builtFrame > 0 && epochOf(res) == curEpoch && r.Chance(1, 8) {
			// fork twins of the event just accepted (same creator, seq and parents) that leave no trace (C07):
			// one is only built, one is processed with a wrong frame and rejected; both open a new branch in the
			// vector index before they are rolled back
			if r.Chance(1, 2) {
				emit("build 0 %d c=%d s=%d l=%d p=%s keep=0", 700000+n, creator, seq, maxL+1, pj)
			}
			if r.Chance(2, 3) {
				emit("ev %d e=%d c=%d s=%d l=%d f=%d p=%s", 600000+n, curEpoch, creator, seq, maxL+1, builtFrame+1+uint64(r.Intn(2)), pj)
				emit("process %d %d", 0, 600000+n)
			}
		}
		builderEvents++
		ge := gEvent{n, curEpoch, creator, seq, maxL + 1, parents}
		all = append(all, ge)
		parentsOf[n] = parents
		lamportOf[n] = maxL + 1
		// update heads
		nh := head{n, seq, maxL + 1}
		if selfParent == nil {
			heads[creator] = append(heads[creator], nh)
		} else {
			replaced := false
			for i, h := range heads[creator] {
				if h.n == selfParent.n {
					heads[creator][i] = nh
					replaced = true
				}
			}
			if !replaced {
				heads[creator] = append(heads[creator], nh)
			}
		}
		for k := 1; k < ninst; k++ {
			queue[k] = append(queue[k], n)
			if r.Chance(1, 3) {
				flush(k, 1+r.Intn(8))
			}
		}
		// queries
		if r.Chance(1, 4) && len(all) > 1 {
			k := r.Intn(ninst)
			a := all[r.Intn(len(all))].n
			b := all[r.Intn(len(all))].n
			switch r.Intn(4) {
			case 0:
				emit("hb %d %d", k, a)
			case 1:
				emit("roots %d %d", k, 1+r.Intn(6))
			default:
				emit("fc %d %d %d", k, a, b)
			}
		}
		if r.Chance(1, 25) || restartHeavy {
			// restart-heavy scenarios restart an instance at every event boundary (C08)
			emit("restart %d%s", r.Intn(ninst), []string{"", " clean"}[r.Intn(2)])
			if restartHeavy {
				emit("restart 0")
			}
		}
		if r.Chance(1, 30) {
			emit("state %d", r.Intn(ninst))
		}
		// Reset of a non-builder instance to the builder's current epoch and validator set (C09): it starts the
		// epoch afresh (also when it was already in that epoch: the old epoch DB must be dropped) and
		// receives the epoch's events again
		if ninst > 1 && r.Chance(1, 40) {
			k := 1 + r.Intn(ninst-1)
			st := emit("state 0")
			if i := strings.Index(st, "vals="); i >= 0 && epochOf(st) == curEpoch {
				emit("reset %d %d %s", k, curEpoch, strings.ReplaceAll(st[i+5:], ",", " "))
				instEpoch[k] = curEpoch
				queue[k] = nil
				deferred[k] = nil
				for _, e := range all {
					queue[k] = append(queue[k], e.n)
					delete(done[k], e.n)
				}
			}
		}
		// the builder sealed its epoch while processing n: the next epoch starts with an empty DAG
		if ep := epochOf(res); ep > curEpoch {
			curEpoch = ep
			builderEvents = 0
			all = nil
			heads = map[uint64][]head{}
			visibleHider, hideTo, catchUp = nil, -1, false
			if ns, ok := epochSets[ep]; ok {
				// the validator set itself changed: cheaters stay cheaters while they hold less than one third
				neededID := uint64(0)
				if needed >= 0 {
					neededID = ids[needed]
				}
				ids, ws, nv = ns.ids, ns.ws, len(ns.ids)
				total = 0
				for _, x := range ws {
					total += x
				}
				var cw uint64
				nc := map[uint64]bool{}
				needed = -1
				for i, id := range ids {
					if cheater[id] && 3*(cw+ws[i]) < total {
						nc[id] = true
						cw += ws[i]
					}
					if id == neededID {
						needed = i
					}
				}
				cheater = nc
				if slowN >= nv {
					slowN = nv - 1
				}
				present := func(x uint64) bool {
					for _, id := range ids {
						if id == x {
							return true
						}
					}
					return false
				}
				if !present(lagger) {
					lagger = 0
				}
				if !present(hider) {
					hider = 0
				}
			}
			if r.Chance(1, 2) {
				for k := 1; k < ninst; k++ {
					flush(k, 1<<30)
				}
			}
		}
	}
	for k := 1; k < ninst; k++ {
		flush(k, 1<<30)
	}
	for k := 0; k < ninst; k++ {
		emit("allblocks %d", k)
		emit("state %d", k)
		emit("roots %d %d", k, 1+r.Intn(4))
	}
}

func inQueue(q []uint64, n uint64) bool {
	for _, x := range q {
		if x == n {
			return true
		}
	}
	return false
}
