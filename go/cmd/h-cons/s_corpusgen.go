package main

// `h-cons gen cons-slowseal <seed> <n>`: deterministic scenario family used to produce corpus files
// (corpus/cons/slow-validators-*.ops): two slow validators among four equal ones create events
// rarely and then reference most heads, so their roots advance several frames at once; every epoch is
// sealed at a random frame. (Same shape as the demonstration of seeded change C09-1; math/rand.)

import (
	"bufio"
	"fmt"
	"math/rand"
	"strings"

	. "verifharness/hlib"
)

func init() {
	Register("cons-slowseal", &Stream{Gen: genSlowSeal, NewRunner: func() Runner { return newConsRunner() }})
}

func genSlowSeal(_ *Rand, n int, tier string, w *bufio.Writer) {
	seeds := []int64{51, 138, 244, 346, 1143, 1, 2, 3, 11, 12, 13, 14, 15, 16, 17, 18, 19, 20, 21, 22}
	for i, seed := range seeds[:n] {
		// the seeds after the first eight run without seals (one long epoch)
		noSeal = i >= 8
		fmt.Fprintf(w, "# case slowseal-%d\n", seed)
		genSlowSealCase(seed, w)
	}
}

var noSeal bool

func genSlowSealCase(seed int64, w *bufio.Writer) {
	r := rand.New(rand.NewSource(seed))
	gr := newConsRunner()
	emit := func(format string, a ...interface{}) (res string) {
		line := fmt.Sprintf(format, a...)
		fmt.Fprintln(w, line)
		defer func() {
			if p := recover(); p != nil {
				res = "panic"
			}
		}()
		return gr.Step(line)
	}
	const nv, epochs, maxSealFrame = 4, 4, 6
	emit("vals 1:1 2:1 3:1 4:1")
	for ep := 1; ep <= epochs; ep++ {
		f := 1 + r.Intn(maxSealFrame)
		ws := []int{1, 1, 1, 1}
		if r.Intn(2) == 0 {
			ws = []int{2, 1, 1, 1}
		}
		if !noSeal {
			emit("seal %d %d 1:%d 2:%d 3:%d 4:%d", ep, f, ws[0], ws[1], ws[2], ws[3])
		}
	}
	emit("inst 0 3")
	emit("inst 1 1")
	pick := func() int {
		for {
			i := r.Intn(nv)
			if i <= 1 && r.Intn(8) != 0 {
				continue
			}
			return i
		}
	}
	type head struct{ n, seq, lamport uint64 }
	next := uint64(1)
	var all []uint64
	for epoch := 1; epoch <= epochs; epoch++ {
		heads := map[int]*head{}
		limit := 3000
		if noSeal {
			limit = 250
			if epoch > 1 {
				break
			}
		}
		for cnt := 0; cnt < limit; cnt++ {
			self := pick()
			seq, lamport := uint64(1), uint64(1)
			var ps []string
			if sp := heads[self]; sp != nil {
				seq, lamport = sp.seq+1, sp.lamport+1
				ps = append(ps, fmt.Sprint(sp.n))
			}
			for _, other := range r.Perm(nv) {
				if other == self || heads[other] == nil || r.Intn(3) == 0 {
					continue
				}
				ps = append(ps, fmt.Sprint(heads[other].n))
				if lamport <= heads[other].lamport {
					lamport = heads[other].lamport + 1
				}
			}
			pj := strings.Join(ps, ",")
			if pj == "" {
				pj = "-"
			}
			n := next
			next++
			emit("build 0 %d c=%d s=%d l=%d p=%s", n, self+1, seq, lamport, pj)
			res := emit("process 0 %d", n)
			all = append(all, n)
			heads[self] = &head{n, seq, lamport}
			sealed := false
			for _, f := range strings.Fields(res) {
				if strings.HasPrefix(f, "E=") && int(Atou(f[2:])) > epoch {
					sealed = true
				}
			}
			if sealed {
				break
			}
		}
	}
	// the second instance receives everything in creation order
	for _, n := range all {
		emit("process 1 %d", n)
	}
	emit("allblocks 0")
	emit("allblocks 1")
	emit("state 0")
	emit("state 1")
}
