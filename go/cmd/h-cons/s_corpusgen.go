package main

// `h-cons gen cons-slowseal <seed> <n>`: deterministic scenario family used to produce corpus files
// (corpus/cons/slow-validators-*.ops): two slow validators among four equal ones create events
// rarely and then reference most heads, so their roots advance several frames at once; every epoch is
// sealed at a random frame. (Same shape as the demonstration of seeded change C09-1; math/rand.)

import (
	"bufio"
	"fmt"
	"math/rand"
	"strings"

	. "verifharness/hlib"
)

func init() {
	Register("cons-slowseal", &Stream{Gen: genSlowSeal, NewRunner: func() Runner { return newConsRunner() }})
}

func genSlowSeal(_ *Rand, n int, tier string, w *bufio.Writer) {
	seeds := []int64{51, 138, 244, 346, 1143, 1, 2, 3, 11, 12, 13, 14, 15, 16, 17, 18, 19, 20, 21, 22}
	for i, seed := range seeds[:n] {
		// the seeds after the first eight run without seals (one long epoch)
		noSeal = i >= 8
		fmt.Fprintf(w, "# case slowseal-%d\n", seed)
		genSlowSealCase(seed, w)
	}
}

var noSeal bool

func genSlowSealCase(seed int64, w *bufio.Writer) {
	r := rand.New(rand.NewSource(seed))
	gr := newConsRunner()
	emit := func(format string, a ...interface{}) (res string) {
		line := fmt.Sprintf(format, a...)
		fmt.Fprintln(w, line)
		defer func() {
			if p := recover(); p != nil {
				res = "panic"
			}
		}()
		return gr.Step(line)
	}
	const nv, epochs, maxSealFrame = 4, 4, 6
	emit("vals 1:1 2:1 3:1 4:1")
	for ep := 1; ep <= epochs; ep++ {
		f := 1 + r.Intn(maxSealFrame)
		ws := []int{1, 1, 1, 1}
		if r.Intn(2) == 0 {
			ws = []int{2, 1, 1, 1}
		}
		if !noSeal {
			emit("seal %d %d 1:%d 2:%d 3:%d 4:%d", ep, f, ws[0], ws[1], ws[2], ws[3])
		}
	}
	emit("inst 0 3")
	emit("inst 1 1")
	pick := func() int {
		for {
			i := r.Intn(nv)
			if i <= 1 && r.Intn(8) != 0 {
				continue
			}
			return i
		}
	}
	type head struct{ n, seq, lamport uint64 }
	next := uint64(1)
	var all []uint64
	for epoch := 1; epoch <= epochs; epoch++ {
		heads := map[int]*head{}
		limit := 3000
		if noSeal {
			limit = 250
			if epoch > 1 {
				break
			}
		}
		for cnt := 0; cnt < limit; cnt++ {
			self := pick()
			seq, lamport := uint64(1), uint64(1)
			var ps []string
			if sp := heads[self]; sp != nil {
				seq, lamport = sp.seq+1, sp.lamport+1
				ps = append(ps, fmt.Sprint(sp.n))
			}
			for _, other := range r.Perm(nv) {
				if other == self || heads[other] == nil || r.Intn(3) == 0 {
					continue
				}
				ps = append(ps, fmt.Sprint(heads[other].n))
				if lamport <= heads[other].lamport {
					lamport = heads[other].lamport + 1
				}
			}
			pj := strings.Join(ps, ",")
			if pj == "" {
				pj = "-"
			}
			n := next
			next++
			emit("build 0 %d c=%d s=%d l=%d p=%s", n, self+1, seq, lamport, pj)
			res := emit("process 0 %d", n)
			all = append(all, n)
			heads[self] = &head{n, seq, lamport}
			sealed := false
			for _, f := range strings.Fields(res) {
				if strings.HasPrefix(f, "E=") && int(Atou(f[2:])) > epoch {
					sealed = true
				}
			}
			if sealed {
				break
			}
		}
	}
	// the second instance receives everything in creation order
	for _, n := range all {
		emit("process 1 %d", n)
	}
	emit("allblocks 0")
	emit("allblocks 1")
	emit("state 0")
	emit("state 1")
}

// `h-cons gen cons-longlag 1 1`: three of four equal validators advance beyond frame 105 while the
// fourth stays at frame 1; its next event is then offered with claimed frames around the +100 cap of
// Build: processing must accept every allowed claim (also more than 100 above the self-parent's
// frame), reject claims above the highest allowed frame, and Build must stop at +100.
func init() {
	Register("cons-longlag", &Stream{Gen: genLongLag, NewRunner: func() Runner { return newConsRunner() }})
}

func genLongLag(_ *Rand, n int, tier string, w *bufio.Writer) {
	gr := newConsRunner()
	emit := func(format string, a ...interface{}) (res string) {
		line := fmt.Sprintf(format, a...)
		fmt.Fprintln(w, line)
		defer func() {
			if p := recover(); p != nil {
				res = "panic"
			}
		}()
		return gr.Step(line)
	}
	fmt.Fprintln(w, "# case longlag")
	emit("vals 1:1 2:1 3:1 4:1")
	emit("inst 0 3")
	emit("inst 1 1")
	type head struct{ n, seq, lamport uint64 }
	next := uint64(1)
	emit("build 0 %d c=4 s=1 l=1 p=-", next)
	emit("process 0 %d", next)
	lag := head{next, 1, 1}
	next++
	heads := map[int]*head{}
	frame := uint64(0)
	for cnt := 0; frame < 106 && cnt < 2000; cnt++ {
		self := cnt % 3
		seq, lamport := uint64(1), uint64(1)
		var ps []string
		if sp := heads[self]; sp != nil {
			seq, lamport = sp.seq+1, sp.lamport+1
			ps = append(ps, fmt.Sprint(sp.n))
		}
		for other := 0; other < 3; other++ {
			if other == self || heads[other] == nil {
				continue
			}
			ps = append(ps, fmt.Sprint(heads[other].n))
			if lamport <= heads[other].lamport {
				lamport = heads[other].lamport + 1
			}
		}
		if cnt == 5 {
			ps = append(ps, fmt.Sprint(lag.n))
		}
		pj := strings.Join(ps, ",")
		if pj == "" {
			pj = "-"
		}
		res := emit("build 0 %d c=%d s=%d l=%d p=%s", next, self+1, seq, lamport, pj)
		fmt.Sscanf(res, "frame=%d", &frame)
		emit("process 0 %d", next)
		heads[self] = &head{next, seq, lamport}
		next++
	}
	lamport := lag.lamport + 1
	ps := []string{fmt.Sprint(lag.n)}
	for other := 0; other < 3; other++ {
		ps = append(ps, fmt.Sprint(heads[other].n))
		if lamport <= heads[other].lamport {
			lamport = heads[other].lamport + 1
		}
	}
	pj := strings.Join(ps, ",")
	emit("build 0 %d c=4 s=2 l=%d p=%s keep=0", next, lamport, pj)
	next++
	for _, claim := range []uint64{200, frame + 1, 99, 101, frame, 102} {
		// twins of the lagging validator's second event; instance 1 sees only the last one
		emit("ev %d e=1 c=4 s=2 l=%d f=%d p=%s", next, lamport, claim, pj)
		emit("process 0 %d", next)
		next++
	}
	for i := uint64(1); i < next; i++ {
		if i < next-6 || i == next-1 {
			emit("process 1 %d", i)
		}
	}
	emit("allblocks 0")
	emit("allblocks 1")
	emit("state 0")
	emit("state 1")
}

// `h-cons gen cons-hider <seed> <n>`: dense gossip among all validators but one, whose events stay unknown
// to the others for a few rounds (and which sees little itself); then it catches up with everybody. Votes
// about the hidden validator's roots disagree meanwhile, so decisions are delayed and the catching-up
// event — a root of several frames at once — decides several frames within one Process call, the later
// ones while the known roots are re-processed. Every epoch is sealed at a low random frame.
func init() {
	Register("cons-hider", &Stream{Gen: genHider, NewRunner: func() Runner { return newConsRunner() }})
}

func genHider(r *Rand, n int, tier string, w *bufio.Writer) {
	for i := 0; i < n; i++ {
		fmt.Fprintf(w, "# case hider-%d\n", i)
		genHiderCase(r, w)
	}
}

func genHiderCase(r *Rand, w *bufio.Writer) {
	gr := newConsRunner()
	emit := func(format string, a ...interface{}) (res string) {
		line := fmt.Sprintf(format, a...)
		fmt.Fprintln(w, line)
		defer func() {
			if p := recover(); p != nil {
				res = "panic"
			}
		}()
		return gr.Step(line)
	}
	nv := 4 + r.Intn(2)
	vals := make([]string, nv)
	for i := range vals {
		vals[i] = fmt.Sprintf("%d:1", i+1)
	}
	vs := strings.Join(vals, " ")
	emit("vals %s", vs)
	const epochs = 3
	for ep := 1; ep <= epochs; ep++ {
		emit("seal %d %d %s", ep, 1+r.Intn(4), vs)
	}
	emit("inst 0 3")
	emit("inst 1 1")
	type head struct{ n, seq, lamport uint64 }
	next := uint64(1)
	var all []uint64
	for epoch := 1; epoch <= epochs; epoch++ {
		heads := map[int]*head{}
		visible := map[int]*head{} // what the others know of the hidden validator
		hidden := r.Intn(nv)
		sealed := false
		create := func(self int, ps []*head) {
			seq, lamport := uint64(1), uint64(1)
			var pl []string
			if sp := heads[self]; sp != nil {
				seq, lamport = sp.seq+1, sp.lamport+1
				pl = append(pl, fmt.Sprint(sp.n))
			}
			for _, p := range ps {
				if p == nil || (heads[self] != nil && p.n == heads[self].n) {
					continue
				}
				pl = append(pl, fmt.Sprint(p.n))
				if lamport <= p.lamport {
					lamport = p.lamport + 1
				}
			}
			pj := strings.Join(pl, ",")
			if pj == "" {
				pj = "-"
			}
			n := next
			next++
			emit("build 0 %d c=%d s=%d l=%d p=%s", n, self+1, seq, lamport, pj)
			res := emit("process 0 %d", n)
			all = append(all, n)
			heads[self] = &head{n, seq, lamport}
			for _, f := range strings.Fields(res) {
				if strings.HasPrefix(f, "E=") && int(Atou(f[2:])) > epoch {
					sealed = true
				}
			}
		}
		for round := 0; round < 60 && !sealed; round++ {
			hideRounds := 2 + r.Intn(4)
			visible[hidden] = heads[hidden]
			for hr := 0; hr < hideRounds && !sealed; hr++ {
				for _, self := range r.Perm(nv) {
					if sealed {
						break
					}
					if self == hidden {
						if r.Chance(1, 2) {
							// the hidden validator sees one other head at most
							var ps []*head
							if r.Chance(1, 2) {
								ps = append(ps, heads[(hidden+1+r.Intn(nv-1))%nv])
							}
							create(self, ps)
						}
						continue
					}
					var ps []*head
					for _, o := range r.Perm(nv) {
						if o == self || r.Chance(1, 5) {
							continue
						}
						if o == hidden {
							ps = append(ps, visible[hidden])
						} else {
							ps = append(ps, heads[o])
						}
					}
					create(self, ps)
				}
			}
			if sealed {
				break
			}
			// catch up: the hidden validator references every head
			var ps []*head
			for o := 0; o < nv; o++ {
				if o != hidden {
					ps = append(ps, heads[o])
				}
			}
			create(hidden, ps)
			if r.Chance(1, 2) {
				hidden = r.Intn(nv)
			}
		}
	}
	for _, n := range all {
		emit("process 1 %d", n)
	}
	emit("allblocks 0")
	emit("allblocks 1")
	emit("state 0")
	emit("state 1")
}

// `h-cons gen cons-cheaters <seed> <n>`: seven equal validators in dense gossip; in the first epoch a
// validator late in the canonical order forks early and one early in the canonical order forks several
// frames later (so the cheater lists of successive blocks are [6], …, [2,6]); in the second epoch a
// third validator forks alone. The application keeps every block as handed over; `allblocks` at the
// end compares all of them.
func init() {
	Register("cons-cheaters", &Stream{Gen: genCheaters, NewRunner: func() Runner { return newConsRunner() }})
}

func genCheaters(r *Rand, n int, tier string, w *bufio.Writer) {
	for i := 0; i < n; i++ {
		fmt.Fprintf(w, "# case cheaters-%d\n", i)
		genCheatersCase(r, w)
	}
}

func genCheatersCase(r *Rand, w *bufio.Writer) {
	gr := newConsRunner()
	emit := func(format string, a ...interface{}) (res string) {
		line := fmt.Sprintf(format, a...)
		fmt.Fprintln(w, line)
		defer func() {
			if p := recover(); p != nil {
				res = "panic"
			}
		}()
		return gr.Step(line)
	}
	const nv = 7
	vs := "1:1 2:1 3:1 4:1 5:1 6:1 7:1"
	emit("vals %s", vs)
	// the second epoch's set has the reverse canonical order (weights grow with the id)
	vs2 := "1:1 2:2 3:3 4:4 5:5 6:6 7:7"
	emit("seal 1 %d %s", 9+r.Intn(3), vs2)
	emit("seal 2 %d %s", 5+r.Intn(3), vs2)
	emit("inst 0 3")
	emit("inst 1 %d", r.Intn(4))
	emit("inst 2 %d", r.Intn(4)) // stays in epoch 1, is Reset to epoch 2 at the end and receives that epoch's events
	var ep2 []uint64
	type head struct{ n, seq, lamport uint64 }
	next := uint64(1)
	var all []uint64
	// (epoch, round) at which a validator (index) creates a fork
	late, early, third := 4+r.Intn(3), r.Intn(3), r.Intn(nv)
	forkAt := map[[2]int]int{{1, 2}: late, {1, 6 + r.Intn(2)}: early, {2, 1 + r.Intn(2)}: third}
	for epoch := 1; epoch <= 3; epoch++ {
		heads := map[int][]head{}
		sealed := false
		create := func(self int, sp *head, others []head) {
			seq, lamport := uint64(1), uint64(1)
			var pl []string
			if sp != nil {
				seq, lamport = sp.seq+1, sp.lamport+1
				pl = append(pl, fmt.Sprint(sp.n))
			}
			for _, p := range others {
				pl = append(pl, fmt.Sprint(p.n))
				if lamport <= p.lamport {
					lamport = p.lamport + 1
				}
			}
			pj := strings.Join(pl, ",")
			if pj == "" {
				pj = "-"
			}
			n := next
			next++
			emit("build 0 %d c=%d s=%d l=%d p=%s", n, self+1, seq, lamport, pj)
			res := emit("process 0 %d", n)
			all = append(all, n)
			if epoch == 2 {
				ep2 = append(ep2, n)
			}
			// a fork adds a tip, an ordinary event replaces the tip it extends
			nh := head{n, seq, lamport}
			replaced := false
			for i, h := range heads[self] {
				if sp != nil && h.n == sp.n {
					heads[self][i] = nh
					replaced = true
				}
			}
			if !replaced {
				heads[self] = append(heads[self], nh)
			}
			for _, f := range strings.Fields(res) {
				if strings.HasPrefix(f, "E=") && int(Atou(f[2:])) > epoch {
					sealed = true
				}
			}
		}
		for round := 0; round < 40 && !sealed && epoch < 3; round++ {
			for _, self := range r.Perm(nv) {
				if sealed {
					break
				}
				var others []head
				for o := 0; o < nv; o++ {
					if o == self || len(heads[o]) == 0 || r.Chance(1, 6) {
						continue
					}
					if len(heads[o]) > 1 && r.Chance(1, 2) {
						others = append(others, heads[o]...) // sees both sides of a fork
					} else {
						others = append(others, heads[o][r.Intn(len(heads[o]))])
					}
				}
				var sp *head
				if hs := heads[self]; len(hs) > 0 {
					h := hs[r.Intn(len(hs))]
					sp = &h
				}
				if v, ok := forkAt[[2]int{epoch, round}]; ok && v == self && sp != nil {
					// two events on the same self-parent
					spc := *sp
					create(self, &spc, others)
					if sealed {
						break
					}
					heads[self] = append(heads[self], spc) // the old tip stays extendable: the second one forks
					create(self, &spc, others[:len(others)/2])
					continue
				}
				create(self, sp, others)
			}
		}
	}
	for _, n := range all {
		emit("process 1 %d", n)
	}
	// an instance that never saw the first epoch's seal is reset to the second epoch: its blocks must name the
	// cheaters by the NEW epoch's canonical order
	emit("reset 2 2 %s", vs2)
	for _, n := range ep2 {
		emit("process 2 %d", n)
	}
	emit("allblocks 0")
	emit("allblocks 1")
	emit("allblocks 2")
	emit("state 0")
	emit("state 1")
	emit("state 2")
}
