package main

// Stream `vec` (C03, C05, C06): vecfc.Index driven directly (no consensus on top), so that forking
// validators may hold ANY share of the weight. Two or three index instances receive the same
// events in different parents-first orders; forkless-cause and merged-clock answers are compared
// with the graph definitions (and the vector model) by the Lean driver.

import (
	"bufio"
	"fmt"
	"strings"

	. "verifharness/hlib"

	"github.com/Fantom-foundation/lachesis-base/hash"
	"github.com/Fantom-foundation/lachesis-base/inter/dag"
	"github.com/Fantom-foundation/lachesis-base/inter/idx"
	"github.com/Fantom-foundation/lachesis-base/inter/pos"
	"github.com/Fantom-foundation/lachesis-base/kvdb/memorydb"
	"github.com/Fantom-foundation/lachesis-base/utils/cachescale"
	"github.com/Fantom-foundation/lachesis-base/vecfc"
)

func init() {
	Register("vec", &Stream{Gen: genVec, NewRunner: func() Runner { return &vecRunner{events: map[uint64]*dag.BaseEvent{}, idxs: map[uint64]*vecInst{}} }})
}

type vecInst struct {
	index *vecfc.Index
	input *evStore
	vals  *pos.Validators
}

type vecRunner struct {
	vals   *pos.Validators
	events map[uint64]*dag.BaseEvent
	idxs   map[uint64]*vecInst
}

func (r *vecRunner) Step(line string) string {
	f := Fields(line)
	switch f[0] {
	case "vals":
		r.vals = parseVals(f[1:])
		return "ok"
	case "idx": // idx <k> <cacheCfg>
		if r.vals == nil {
			return "novals"
		}
		crit := func(err error) { panic("crit: " + err.Error()) }
		cfg := vecfc.LiteConfig()
		switch Atou(f[2]) {
		case 0:
			cfg = vecfc.IndexConfig{Caches: vecfc.IndexCacheConfig{ForklessCausePairs: 1, HighestBeforeSeqSize: 1, LowestAfterSeqSize: 1}}
		case 1:
			cfg = vecfc.DefaultConfig(cachescale.Ratio{Base: 2000, Target: 1})
		}
		in := &vecInst{index: vecfc.NewIndex(crit, cfg), input: &evStore{m: map[hash.Event]dag.Event{}}, vals: r.vals}
		in.index.Reset(r.vals, memorydb.New(), in.input.GetEvent)
		r.idxs[Atou(f[1])] = in
		return "ok"
	case "ev": // ev <n> c= s= l= p=
		n := Atou(f[1])
		kv := kvOf(f[2:])
		var e dag.MutableBaseEvent
		e.SetEpoch(1)
		e.SetCreator(idx.ValidatorID(Atou(kv["c"])))
		e.SetSeq(idx.Event(Atou(kv["s"])))
		e.SetLamport(idx.Lamport(Atou(kv["l"])))
		var ps hash.Events
		for _, p := range SplitList(kv["p"]) {
			pe, ok := r.events[Atou(p)]
			if !ok {
				return "err unknown-parent"
			}
			ps = append(ps, pe.ID())
		}
		e.SetParents(ps)
		r.events[n] = e.Build(tailOf(n))
		return "ok"
	}
	if len(f) < 2 || r.idxs[Atou(f[1])] == nil {
		return "noinst"
	}
	in := r.idxs[Atou(f[1])]
	switch f[0] {
	case "revals": // revals <k> id:w ... : Reset of the index to another validator set over a fresh DB
		nv := parseVals(f[2:])
		in.input.m = map[hash.Event]dag.Event{}
		in.index.Reset(nv, memorydb.New(), in.input.GetEvent)
		in.vals = nv
		return "ok"
	case "add": // add <k> <n>
		e, ok := r.events[Atou(f[2])]
		if !ok {
			return "unknown-event"
		}
		if in.input.HasEvent(e.ID()) {
			return "dup"
		}
		for _, p := range e.Parents() {
			if !in.input.HasEvent(p) {
				return "err noparent"
			}
		}
		in.input.m[e.ID()] = e
		if err := in.index.Add(e); err != nil {
			in.index.DropNotFlushed()
			delete(in.input.m, e.ID())
			return "err " + err.Error()
		}
		in.index.Flush()
		return "ok"
	case "fc":
		a, b := r.events[Atou(f[2])], r.events[Atou(f[3])]
		if a == nil || b == nil || !in.input.HasEvent(a.ID()) || !in.input.HasEvent(b.ID()) {
			return "na"
		}
		return B2s(in.index.ForklessCause(a.ID(), b.ID()))
	case "hb":
		a := r.events[Atou(f[2])]
		if a == nil || !in.input.HasEvent(a.ID()) {
			return "na"
		}
		v := in.index.GetMergedHighestBefore(a.ID())
		if ps := a.Parents(); len(ps) > 0 {
			// a caller may hold one merged clock while asking for another one
			_ = in.index.GetMergedHighestBefore(ps[len(ps)-1])
		}
		n := int(in.vals.Len())
		parts := make([]string, n)
		for i := 0; i < n; i++ {
			s := v.Get(idx.Validator(i))
			if s.IsForkDetected() {
				parts[i] = "F"
			} else {
				parts[i] = fmt.Sprint(uint64(s.Seq))
			}
		}
		return strings.Join(parts, ",")
	}
	return "bad-op"
}

func genVec(r *Rand, n int, tier string, w *bufio.Writer) {
	for c := 0; c < n; c++ {
		fmt.Fprintf(w, "# case %d\n", c)
		nv := 1 + r.Intn(6)
		ids := make([]uint64, nv)
		perm := r.Perm(20)
		vals := make([]string, nv)
		for i := range ids {
			ids[i] = uint64(1 + perm[i])
			vals[i] = fmt.Sprintf("%d:%d", ids[i], []uint64{1, 1, 2, 3, 10}[r.Intn(5)])
		}
		fmt.Fprintf(w, "vals %s\n", strings.Join(vals, " "))
		ninst := 2 + r.Intn(2)
		for k := 0; k < ninst; k++ {
			fmt.Fprintf(w, "idx %d %d\n", k, r.Intn(3))
		}
		// any validator may fork, with any weight
		forkProb := []int{0, 5, 15, 35}[r.Intn(4)]
		maxEv := 10 + r.Intn(50)
		if tier == "thorough" {
			maxEv = 10 + r.Intn(120)
		}
		type ev struct {
			n, creator, seq, lamport uint64
			parents                  []uint64
		}
		var all []ev
		tips := map[uint64][]ev{}
		for step := 0; step < maxEv; step++ {
			creator := ids[r.Intn(nv)]
			var sp *ev
			if ts := tips[creator]; len(ts) > 0 {
				t := ts[r.Intn(len(ts))]
				sp = &t
				if r.Intn(100) < forkProb {
					var own []ev
					for _, e := range all {
						if e.creator == creator {
							own = append(own, e)
						}
					}
					if r.Chance(1, 5) {
						sp = nil
					} else {
						o := own[r.Intn(len(own))]
						sp = &o
					}
				}
			}
			e := ev{n: uint64(step + 1), creator: creator, seq: 1}
			maxL := uint64(0)
			if sp != nil {
				e.parents = append(e.parents, sp.n)
				e.seq = sp.seq + 1
				maxL = sp.lamport
			}
			np := r.Intn(nv + 1)
			for _, oi := range r.Perm(nv) {
				if np == 0 {
					break
				}
				if ids[oi] == creator || len(tips[ids[oi]]) == 0 {
					continue
				}
				ts := tips[ids[oi]]
				t := ts[r.Intn(len(ts))]
				if r.Chance(1, 5) {
					var own []ev
					for _, x := range all {
						if x.creator == ids[oi] {
							own = append(own, x)
						}
					}
					t = own[r.Intn(len(own))]
				}
				e.parents = append(e.parents, t.n)
				if t.lamport > maxL {
					maxL = t.lamport
				}
				np--
			}
			e.lamport = maxL + 1
			ps := make([]string, len(e.parents))
			for i, p := range e.parents {
				ps[i] = fmt.Sprint(p)
			}
			pj := strings.Join(ps, ",")
			if pj == "" {
				pj = "-"
			}
			fmt.Fprintf(w, "ev %d c=%d s=%d l=%d p=%s\n", e.n, e.creator, e.seq, e.lamport, pj)
			all = append(all, e)
			// tips: replace the self-parent tip if it was one, else add a new tip (fork)
			replaced := false
			if sp != nil {
				for i, t := range tips[creator] {
					if t.n == sp.n {
						tips[creator][i] = e
						replaced = true
					}
				}
			}
			if !replaced {
				tips[creator] = append(tips[creator], e)
			}
		}
		// every instance indexes all events in its own random parents-first order, with queries interleaved
		parentsOf := map[uint64][]uint64{}
		for _, e := range all {
			parentsOf[e.n] = e.parents
		}
		for k := 0; k < ninst; k++ {
			done := map[uint64]bool{}
			var doneList []uint64
			for len(doneList) < len(all) {
				var elig []uint64
				for _, e := range all {
					if done[e.n] {
						continue
					}
					ok := true
					for _, p := range e.parents {
						if !done[p] {
							ok = false
						}
					}
					if ok {
						elig = append(elig, e.n)
					}
					if k == 0 && len(elig) > 0 { // instance 0: creation order
						break
					}
				}
				x := elig[r.Intn(len(elig))]
				fmt.Fprintf(w, "add %d %d\n", k, x)
				done[x] = true
				doneList = append(doneList, x)
				for q := r.Intn(3); q > 0; q-- {
					a := doneList[r.Intn(len(doneList))]
					b := doneList[r.Intn(len(doneList))]
					if r.Chance(1, 3) {
						fmt.Fprintf(w, "hb %d %d\n", k, a)
					} else {
						fmt.Fprintf(w, "fc %d %d %d\n", k, a, b)
					}
				}
			}
			// sometimes: Reset the index to other weights (same validator ids) and index the same events again;
			// answers cached under the old weights must not be served
			if r.Chance(1, 4) {
				nvs := make([]string, nv)
				for i := range ids {
					nvs[i] = fmt.Sprintf("%d:%d", ids[i], []uint64{1, 1, 5, 9}[r.Intn(4)])
				}
				// ... or to a larger set (validators that create no events join): more branches than before
				if r.Chance(1, 2) {
					for x := 1 + r.Intn(3); x > 0; x-- {
						nvs = append(nvs, fmt.Sprintf("%d:%d", 50+x, []uint64{1, 2, 7}[r.Intn(3)]))
					}
				}
				fmt.Fprintf(w, "revals %d %s\n", k, strings.Join(nvs, " "))
				for _, e := range all {
					fmt.Fprintf(w, "add %d %d\n", k, e.n)
				}
				for q := 0; q < 3*len(all); q++ {
					if q%4 == 3 {
						fmt.Fprintf(w, "hb %d %d\n", k, all[r.Intn(len(all))].n)
						continue
					}
					fmt.Fprintf(w, "fc %d %d %d\n", k, all[r.Intn(len(all))].n, all[r.Intn(len(all))].n)
				}
			}
			// final sweep: all pairs for small DAGs
			if len(all) <= 14 {
				for _, a := range all {
					fmt.Fprintf(w, "hb %d %d\n", k, a.n)
					for _, b := range all {
						fmt.Fprintf(w, "fc %d %d %d\n", k, a.n, b.n)
					}
				}
			}
		}
	}
}
