package main

// Generator of stream `conc`: per case one component, 2-6 goroutines with 5-30 operations each
// (the total is capped so that the judge's search stays fast), a small key space for contention,
// sequential `pre` ops that put the object into a non-trivial state and `post` ops that read the
// final state back (they pin the linearisation down to one that explains the final state too).

import (
	. "verifharness/hlib"

	"bufio"
	"fmt"
	"strings"
)

type opGen func(r *Rand) string

func weighted(r *Rand, table []struct {
	w int
	g opGen
}) string {
	total := 0
	for _, e := range table {
		total += e.w
	}
	x := r.Intn(total)
	for _, e := range table {
		if x < e.w {
			return e.g(r)
		}
		x -= e.w
	}
	return table[0].g(r)
}

type wt = struct {
	w int
	g opGen
}

func hexVal(r *Rand) string {
	if r.Chance(1, 5) {
		return fmt.Sprintf("%02x%02x", r.Intn(256), r.Intn(256))
	}
	return fmt.Sprintf("%02x", 1+r.Intn(9))
}

func genConc(r *Rand, n int, tier string, w *bufio.Writer) {
	maxTotal := 90
	if tier == "thorough" {
		maxTotal = 140
	}
	comps := []string{"flushable", "wlru", "sem", "pool", "buf"}
	for c := 0; c < n; c++ {
		comp := comps[c%len(comps)]
		nThreads := 2 + r.Intn(5)
		perThread := 5 + r.Intn(26)
		if perThread*nThreads > maxTotal {
			perThread = maxTotal / nThreads
		}
		nKeys := 1 + r.Intn(4)
		key := func(r *Rand) int { return 1 + r.Intn(nKeys) }
		var initLine string
		var pre, post, cfg []string
		var table []wt
		storm := false
		nEv := 0
		c1 := func(s string) opGen { return func(*Rand) string { return s } }
		switch comp {
		case "flushable":
			initLine = "init flushable"
			table = []wt{
				{25, func(r *Rand) string { return fmt.Sprintf("put %d %s", key(r), hexVal(r)) }},
				{15, func(r *Rand) string { return fmt.Sprintf("get %d", key(r)) }},
				{8, func(r *Rand) string { return fmt.Sprintf("has %d", key(r)) }},
				{10, func(r *Rand) string { return fmt.Sprintf("del %d", key(r)) }},
				{8, c1("flush")}, {4, c1("drop")}, {8, c1("pairs")}, {8, c1("sizeest")},
				{5, func(r *Rand) string {
					s := "batch"
					for i := 0; i <= r.Intn(3); i++ {
						v := hexVal(r)
						if r.Chance(1, 3) {
							v = "x"
						}
						s += fmt.Sprintf(" %d %s", key(r), v)
					}
					return s
				}},
				{4, func(r *Rand) string { return fmt.Sprintf("snapget %d", key(r)) }},
				{3, c1("iter")}, {1, c1("stat")}, {1, c1("compact")},
			}
			for i := 0; i < r.Intn(4); i++ {
				pre = append(pre, fmt.Sprintf("put %d %s", key(r), hexVal(r)))
			}
			if r.Bool() {
				pre = append(pre, "flush")
			}
			post = []string{"pairs", "sizeest"}
			for k := 1; k <= nKeys; k++ {
				post = append(post, fmt.Sprintf("get %d", k))
			}
			post = append(post, "flush", "pairs")
		case "pool":
			initLine = "init pool"
			st := func(r *Rand) string { return []string{"a", "b"}[r.Intn(2)] }
			table = []wt{
				{30, func(r *Rand) string { return fmt.Sprintf("put %s %d %s", st(r), key(r), hexVal(r)) }},
				{15, func(r *Rand) string { return fmt.Sprintf("get %s %d", st(r), key(r)) }},
				{5, func(r *Rand) string { return fmt.Sprintf("has %s %d", st(r), key(r)) }},
				{10, func(r *Rand) string { return fmt.Sprintf("del %s %d", st(r), key(r)) }},
				{15, func(r *Rand) string { return fmt.Sprintf("under %s %d", st(r), key(r)) }},
				{10, func(r *Rand) string { return fmt.Sprintf("flush %02x", 1+r.Intn(200)) }},
				{5, func(r *Rand) string { return "open " + st(r) }},
				{3, c1("names")}, {7, c1("psize")},
				{4, func(r *Rand) string { return "stat " + st(r) }},
			}
			for i := 0; i < r.Intn(3); i++ {
				pre = append(pre, fmt.Sprintf("put %s %d %s", st(r), key(r), hexVal(r)))
			}
			for _, s := range []string{"a", "b"} {
				for k := 1; k <= nKeys; k++ {
					post = append(post, fmt.Sprintf("under %s %d", s, k), fmt.Sprintf("get %s %d", s, k))
				}
			}
			post = append(post, "names")
		case "wlru":
			mw, ms := 3+r.Intn(18), 1+r.Intn(5)
			initLine = fmt.Sprintf("init wlru mw=%d ms=%d", mw, ms)
			nKeys += 2
			val := 0
			kvw := func(r *Rand) string { val++; return fmt.Sprintf("%d %d %d", key(r), val, r.Intn(7)) }
			table = []wt{
				{25, func(r *Rand) string { return "add " + kvw(r) }},
				{15, func(r *Rand) string { return fmt.Sprintf("get %d", key(r)) }},
				{5, func(r *Rand) string { return fmt.Sprintf("peek %d", key(r)) }},
				{8, func(r *Rand) string { return fmt.Sprintf("contains %d", key(r)) }},
				{5, func(r *Rand) string { return "coa " + kvw(r) }},
				{5, func(r *Rand) string { return "poa " + kvw(r) }},
				{8, func(r *Rand) string { return fmt.Sprintf("remove %d", key(r)) }},
				{4, c1("rmoldest")}, {3, c1("getoldest")}, {6, c1("keys")}, {5, c1("len")}, {3, c1("weight")}, {4, c1("total")},
				{2, func(r *Rand) string { return fmt.Sprintf("resize %d %d", 2+r.Intn(20), 1+r.Intn(5)) }},
				{2, c1("purge")},
			}
			for i := 0; i < r.Intn(4); i++ {
				pre = append(pre, "add "+kvw(r))
			}
			post = []string{"keys", "total"}
		case "sem":
			num, size := 3+r.Intn(6), 50+r.Intn(150)
			initLine = fmt.Sprintf("init sem num=%d size=%d", num, size)
			amt := func(r *Rand) string {
				if r.Chance(1, 40) {
					return fmt.Sprintf("%d %d", r.Pick(4294967295, 4294967291), r.Pick(1, 18446744073709551615))
				}
				return fmt.Sprintf("%d %d", r.Intn(5), r.Intn(70))
			}
			table = []wt{
				{30, func(r *Rand) string { return "try " + amt(r) }},
				{12, func(r *Rand) string { return fmt.Sprintf("acq %s %d", amt(r), r.Intn(4)) }},
				{30, func(r *Rand) string { return "rel " + amt(r) }},
				{10, c1("proc")}, {8, c1("avail")},
			}
			if r.Chance(1, 4) {
				table = append(table, wt{2, c1("term")})
			}
			post = []string{"proc", "avail"}
		case "buf":
			nEv = 5 + r.Intn(8)
			num, size := 2+r.Intn(4), 30+r.Intn(100)
			if r.Chance(1, 4) {
				num, size = 100, 100000
			}
			initLine = fmt.Sprintf("init buf num=%d size=%d strict=0", num, size)
			for e := 1; e <= nEv; e++ {
				var ps []string
				for k := 0; k < r.Intn(3) && e > 1; k++ {
					ps = append(ps, fmt.Sprint(1+r.Intn(e-1)))
				}
				p := "-"
				if len(ps) > 0 {
					p = strings.Join(ps, ",")
				}
				// pairwise different sizes: a (count, bytes) pair then identifies one set of entries
				cfg = append(cfg, fmt.Sprintf("ev %d s=%d p=%s", e, 3*e+2+r.Intn(3), p))
			}
			ev := func(r *Rand) int { return 1 + r.Intn(nEv) }
			table = []wt{
				{60, func(r *Rand) string { return fmt.Sprintf("push %d", ev(r)) }},
				{15, func(r *Rand) string { return fmt.Sprintf("isbuf %d", ev(r)) }},
				{15, c1("total")}, {3, c1("clear")},
			}
			if c%4 == 0 {
				// storm: one writer fills the buffer with orphans (parent 99 never arrives) and clears it,
				// again and again, while the other goroutines only read Total(); in lockstep every Total
				// overlaps an Add or a Clear of many single-entry removals
				nEv = 6 + r.Intn(6)
				cfg = cfg[:0]
				for e := 1; e <= nEv; e++ {
					cfg = append(cfg, fmt.Sprintf("ev %d s=%d p=99", e, 3*e+2+r.Intn(3)))
				}
				initLine = "init buf num=100 size=100000 strict=0"
				storm = true
				if nThreads > 4 {
					nThreads = 4
				}
				perThread = 30
			}
			post = []string{"total"}
			for e := 1; e <= nEv; e++ {
				post = append(post, fmt.Sprintf("isbuf %d", e))
			}
		}
		fmt.Fprintf(w, "# case %d comp=%s threads=%d ops=%d\n%s\n", c, comp, nThreads, perThread, initLine)
		for _, l := range cfg {
			fmt.Fprintln(w, l)
		}
		for _, l := range pre {
			fmt.Fprintln(w, "pre "+l)
		}
		if storm {
			for i, e := 0, 1; i < perThread; i++ {
				if e > nEv {
					fmt.Fprintln(w, "t 1 clear")
					e = 1
				} else {
					fmt.Fprintf(w, "t 1 push %d\n", e)
					e++
				}
			}
			for t := 2; t <= nThreads; t++ {
				for i := 0; i < perThread; i++ {
					fmt.Fprintf(w, "t %d total\n", t)
				}
			}
		}
		for t := 1; t <= nThreads && !storm; t++ {
			for i := 0; i < perThread; i++ {
				y := ""
				if r.Chance(1, 4) {
					y = "y "
				}
				fmt.Fprintf(w, "t %d %s%s\n", t, y, weighted(r, table))
			}
		}
		for _, l := range post {
			fmt.Fprintln(w, "post "+l)
		}
		if storm || r.Chance(2, 3) {
			fmt.Fprintln(w, "run lockstep")
		} else {
			fmt.Fprintln(w, "run")
		}
	}
}
