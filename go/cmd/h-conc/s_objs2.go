package main

// wlru, sem and buf components of stream `conc` (see s_objs.go for the op vocabulary).

import (
	. "verifharness/hlib"

	"fmt"
	"strconv"
	"strings"
	"sync"
	"time"

	"github.com/Fantom-foundation/lachesis-base/gossip/dagordering"
	"github.com/Fantom-foundation/lachesis-base/hash"
	"github.com/Fantom-foundation/lachesis-base/inter/dag"
	"github.com/Fantom-foundation/lachesis-base/inter/idx"
	"github.com/Fantom-foundation/lachesis-base/utils/datasemaphore"
	"github.com/Fantom-foundation/lachesis-base/utils/wlru"
)

type lruObj struct{ c *wlru.Cache }

func (o *lruObj) Config(f []string) bool { return false }

func lruOut(ok bool, vals ...int) string {
	if len(vals) == 0 {
		return B2s(ok) + "/-"
	}
	s := make([]string, len(vals))
	for i, v := range vals {
		s[i] = strconv.Itoa(v)
	}
	return B2s(ok) + "/" + strings.Join(s, ",")
}

func (o *lruObj) Do(f []string) string {
	ai := func(i int) int { return int(Atou(f[i])) }
	c := o.c
	switch f[0] {
	case "add":
		return lruOut(true, c.Add(ai(1), ai(2), uint(ai(3))))
	case "get":
		if v, ok := c.Get(ai(1)); ok {
			return lruOut(true, v.(int))
		}
		return lruOut(false)
	case "peek":
		if v, ok := c.Peek(ai(1)); ok {
			return lruOut(true, v.(int))
		}
		return lruOut(false)
	case "contains":
		return lruOut(c.Contains(ai(1)))
	case "coa":
		ok, ev := c.ContainsOrAdd(ai(1), ai(2), uint(ai(3)))
		return lruOut(ok, ev)
	case "poa":
		prev, ok, ev := c.PeekOrAdd(ai(1), ai(2), uint(ai(3)))
		if ok {
			return lruOut(true, prev.(int), ev)
		}
		return lruOut(false, 0, ev)
	case "remove":
		return lruOut(c.Remove(ai(1)))
	case "rmoldest":
		if k, v, ok := c.RemoveOldest(); ok {
			return lruOut(true, k.(int), v.(int))
		}
		return lruOut(false)
	case "getoldest":
		if k, v, ok := c.GetOldest(); ok {
			return lruOut(true, k.(int), v.(int))
		}
		return lruOut(false)
	case "keys":
		ks := c.Keys()
		vals := make([]int, len(ks))
		for i, k := range ks {
			vals[i] = k.(int)
		}
		return lruOut(true, vals...)
	case "len":
		return lruOut(true, c.Len())
	case "weight":
		return lruOut(true, int(c.Weight()))
	case "total":
		w, n := c.Total()
		return lruOut(true, int(w), n)
	case "resize":
		return lruOut(true, c.Resize(uint(ai(1)), ai(2)))
	case "purge":
		c.Purge()
		return lruOut(true)
	}
	return "bad-op"
}

// ---------------------------------------------------------------------------------------------

type semObj struct{ s *datasemaphore.DataSemaphore }

func (o *semObj) Config(f []string) bool { return false }

func (o *semObj) Do(f []string) string {
	m := func() dag.Metric { return dag.Metric{Num: idx.Event(uint32(Atou(f[1]))), Size: Atou(f[2])} }
	fm := func(m dag.Metric) string { return fmt.Sprintf("%d:%d", uint32(m.Num), m.Size) }
	switch f[0] {
	case "try":
		return B2s(o.s.TryAcquire(m()))
	case "acq":
		return B2s(o.s.Acquire(m(), time.Duration(Atou(f[3]))*time.Millisecond))
	case "rel":
		o.s.Release(m())
		return "-"
	case "term":
		o.s.Terminate()
		return "-"
	case "proc":
		return fm(o.s.Processing())
	case "avail":
		return fm(o.s.Available())
	}
	return "bad-op"
}

// ---------------------------------------------------------------------------------------------

type bufEvent struct {
	*dag.BaseEvent
	size int
}

func (e *bufEvent) Size() int { return e.size }

type bufObj struct {
	buf      *dagordering.EventsBuffer
	mu       sync.Mutex // guards the application side (connected set), as a real application would
	defs     map[uint64]*bufEvent
	byID     map[hash.Event]uint64
	conn     map[uint64]bool
	relSleep time.Duration
}

func bufID(num uint64) hash.Event {
	var me dag.MutableBaseEvent
	me.SetEpoch(1)
	var tail [24]byte
	for i := 0; i < 8; i++ {
		tail[23-i] = byte(num >> (8 * i))
	}
	me.SetID(tail)
	return me.ID()
}

func newBufObj(ps []string) *bufObj {
	o := &bufObj{defs: map[uint64]*bufEvent{}, byID: map[hash.Event]uint64{}, conn: map[uint64]bool{},
		relSleep: time.Duration(param(ps, "relsleep", 0)) * time.Millisecond}
	o.buf = dagordering.New(dag.Metric{Num: idx.Event(param(ps, "num", 3)), Size: param(ps, "size", 1000)}, dagordering.Callback{
		Process: func(e dag.Event) error {
			o.mu.Lock()
			defer o.mu.Unlock()
			o.conn[o.byID[e.ID()]] = true
			return nil
		},
		Released: func(e dag.Event, peer string, err error) {
			if o.relSleep > 0 {
				time.Sleep(o.relSleep)
			}
		},
		Get: func(id hash.Event) dag.Event {
			o.mu.Lock()
			defer o.mu.Unlock()
			if n, ok := o.byID[id]; ok && o.conn[n] {
				return o.defs[n]
			}
			return nil
		},
		Exists: func(id hash.Event) bool {
			o.mu.Lock()
			defer o.mu.Unlock()
			n, ok := o.byID[id]
			return ok && o.conn[n]
		},
	})
	return o
}

// ev <id> s=<size> p=<ids>   (before `run`: sequential)
func (o *bufObj) Config(f []string) bool {
	if f[0] != "ev" || len(f) < 2 {
		return false
	}
	num := Atou(f[1])
	size := 10
	var ps hash.Events
	for _, kv := range f[2:] {
		switch {
		case strings.HasPrefix(kv, "s="):
			size = int(Atou(kv[2:]))
		case strings.HasPrefix(kv, "p="):
			for _, p := range SplitList(kv[2:]) {
				ps = append(ps, bufID(Atou(p)))
				o.byID[bufID(Atou(p))] = Atou(p)
			}
		}
	}
	var me dag.MutableBaseEvent
	me.SetEpoch(1)
	me.SetSeq(1)
	me.SetCreator(1)
	me.SetParents(ps)
	var tail [24]byte
	for i := 0; i < 8; i++ {
		tail[23-i] = byte(num >> (8 * i))
	}
	me.SetID(tail)
	o.defs[num] = &bufEvent{BaseEvent: &me.BaseEvent, size: size}
	o.byID[me.ID()] = num
	return true
}

func (o *bufObj) Do(f []string) string {
	switch f[0] {
	case "push":
		d := o.defs[Atou(f[1])]
		if d == nil {
			return "bad-op"
		}
		// every push is its own copy of the event, as a peer would deliver it
		return B2s(o.buf.PushEvent(&bufEvent{BaseEvent: d.BaseEvent, size: d.size}, "peer"))
	case "clear":
		o.buf.Clear()
		return "-"
	case "isbuf":
		return B2s(o.buf.IsBuffered(bufID(Atou(f[1]))))
	case "total":
		t := o.buf.Total()
		return fmt.Sprintf("%d,%d", uint32(t.Num), t.Size)
	}
	return "bad-op"
}
