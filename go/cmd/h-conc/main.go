// Command h-conc: harness stream conc (C28): concurrent workloads on the thread-safe components,
// histories with invoke/return stamps; built a second time with -race by bin/check.
package main

import "verifharness/hlib"

func main() { hlib.Main() }
