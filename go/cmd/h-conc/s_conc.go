package main

// Stream `conc` (C28, judge mode, run under the race detector): concurrent workloads on the real
// thread-safe components; the recorded history is judged for linearizability by the Lean driver.
//
//	init <comp> <k=v ...>      comp = flushable | pool | wlru | sem | buf            -> ok
//	ev <id> s=<size> p=<ids>   (buf) defines an event                                 -> ok
//	pre <op...>                op executed sequentially before the goroutines start   -> q
//	t <thread> [y] <op...>     op of goroutine <thread> (program order = line order);
//	                           `y` = runtime.Gosched() before the call                -> q
//	post <op...>               op executed sequentially after all goroutines joined   -> q
//	                           (any component: `sleep <ms>` = the thread sleeps; result `*`)
//	run [lockstep]             executes everything; `lockstep`: the goroutines meet at a spin barrier
//	                           before their i-th operation (maximal overlap) -> the history, one line:
//	                           h <thread>.<index>:<inv>:<ret>:<result> ...
//
// thread = p (pre), f (post) or the goroutine number. inv / ret are values of one global atomic
// counter taken immediately before the call and immediately after it returned: if ret(a) < inv(b)
// then a returned before b was invoked (the converse need not hold, which only weakens the order
// constraints the judge enforces — never a false alarm). Results are canonical per component (see
// s_objs.go); `*` = not judged (iterators: race-checked only). Nothing is ever compared with one
// expected interleaving. A workload that does not finish within 15 s yields `h timeout` (judged as a
// failure); the histories of later cases of the same process are then `h skipped-after-timeout`.

import (
	. "verifharness/hlib"

	"fmt"
	"runtime"
	"strings"
	"sync"
	"sync/atomic"
	"time"
)

func init() {
	Register("conc", &Stream{Gen: genConc, NewRunner: func() Runner { return &concRunner{} }})
}

// conObj is one component under test.
type conObj interface {
	// Config handles a sequential configuration line (e.g. `ev`); returns false if unknown.
	Config(f []string) bool
	// Do executes one operation on the real object and returns its canonical result.
	Do(f []string) string
}

type concOp struct {
	thread string
	yield  bool
	f      []string
	inv    int64
	ret    int64
	res    string
}

type concRunner struct {
	obj     conObj
	pre     []*concOp
	post    []*concOp
	threads map[string][]*concOp
	order   []string
}

func safeDo(o conObj, f []string) (res string) {
	defer func() {
		if p := recover(); p != nil {
			msg := strings.ReplaceAll(fmt.Sprint(p), "\n", " ")
			msg = strings.ReplaceAll(strings.ReplaceAll(msg, " ", "_"), ":", ";")
			if len(msg) > 60 {
				msg = msg[:60]
			}
			res = "panic=" + msg
		}
	}()
	if len(f) == 2 && f[0] == "sleep" {
		time.Sleep(time.Duration(Atou(f[1])) * time.Millisecond)
		return "*"
	}
	return o.Do(f)
}

func (r *concRunner) Step(line string) string {
	f := Fields(line)
	if len(f) == 0 {
		return "bad-op"
	}
	switch f[0] {
	case "init":
		if len(f) < 2 {
			return "bad-op"
		}
		r.obj = newConObj(f[1], f[2:])
		if r.obj == nil {
			return "bad-op"
		}
		r.threads = map[string][]*concOp{}
		r.pre, r.post, r.order = nil, nil, nil
		return "ok"
	}
	if r.obj == nil {
		return "bad-op"
	}
	switch f[0] {
	case "pre":
		r.pre = append(r.pre, &concOp{thread: "p", f: f[1:]})
		return "q"
	case "post":
		r.post = append(r.post, &concOp{thread: "f", f: f[1:]})
		return "q"
	case "t":
		if len(f) < 3 {
			return "bad-op"
		}
		op := &concOp{thread: f[1], f: f[2:]}
		if f[2] == "y" {
			op.yield, op.f = true, f[3:]
		}
		if _, ok := r.threads[f[1]]; !ok {
			r.order = append(r.order, f[1])
		}
		r.threads[f[1]] = append(r.threads[f[1]], op)
		return "q"
	case "run":
		return r.run(len(f) > 1 && f[1] == "lockstep")
	}
	if r.obj.Config(f) {
		return "ok"
	}
	return "bad-op"
}

// spinBarrier: all n participants meet `rounds` times; abort releases everybody for good.
type spinBarrier struct {
	n, count, gen, abort int32
}

func (b *spinBarrier) wait() {
	g := atomic.LoadInt32(&b.gen)
	if atomic.AddInt32(&b.count, 1) == b.n {
		atomic.StoreInt32(&b.count, 0)
		atomic.AddInt32(&b.gen, 1)
		return
	}
	for i := 0; atomic.LoadInt32(&b.gen) == g && atomic.LoadInt32(&b.abort) == 0; i++ {
		if i > 300 {
			runtime.Gosched()
		}
	}
}

// wedged: an earlier workload of this process never finished (its goroutines still spin or block);
// later histories would be distorted, so they are not recorded any more.
var wedged bool

func (r *concRunner) run(lockstep bool) string {
	if wedged {
		return "h skipped-after-timeout"
	}
	pre, post, order, threads := r.pre, r.post, r.order, r.threads
	obj := r.obj
	// a second `run` in the same case would re-execute nothing
	r.pre, r.post, r.order, r.threads = nil, nil, nil, map[string][]*concOp{}
	bar := &spinBarrier{n: int32(len(order))}
	result := make(chan string, 1)
	go func() {
		var clock int64
		exec := func(op *concOp) {
			if op.yield {
				runtime.Gosched()
			}
			op.inv = atomic.AddInt64(&clock, 1)
			op.res = safeDo(obj, op.f)
			op.ret = atomic.AddInt64(&clock, 1)
		}
		for _, op := range pre {
			exec(op)
		}
		start := make(chan struct{})
		var wg sync.WaitGroup
		rounds := 0
		for _, name := range order {
			if len(threads[name]) > rounds {
				rounds = len(threads[name])
			}
		}
		for _, name := range order {
			ops := threads[name]
			wg.Add(1)
			go func() {
				defer wg.Done()
				<-start
				if !lockstep {
					for _, op := range ops {
						exec(op)
					}
					return
				}
				for i := 0; i < rounds && atomic.LoadInt32(&bar.abort) == 0; i++ {
					bar.wait()
					if i < len(ops) {
						exec(ops[i])
					}
				}
			}()
		}
		close(start)
		wg.Wait()
		for _, op := range post {
			exec(op)
		}
		var b strings.Builder
		b.WriteString("h")
		emit := func(ops []*concOp) {
			for i, op := range ops {
				fmt.Fprintf(&b, " %s.%d:%d:%d:%s", op.thread, i, op.inv, op.ret, op.res)
			}
		}
		emit(pre)
		for _, name := range order {
			emit(threads[name])
		}
		emit(post)
		result <- b.String()
	}()
	select {
	case h := <-result:
		return h
	case <-time.After(15 * time.Second):
		// a call never returned (deadlock or endless loop in the code under test): the goroutines are abandoned
		atomic.StoreInt32(&bar.abort, 1)
		wedged = true
		return "h timeout"
	}
}
