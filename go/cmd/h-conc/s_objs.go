package main

// The components of stream `conc` and the canonical results of their operations.
//
//	flushable (flushable.Wrap over memorydb; keys = one byte, values = hex):
//	  put k v -> ok|err   del k -> ok   get k | snapget k -> <hex>|nil   has k -> 0|1   flush -> ok|err
//	  drop -> -   pairs -> n   sizeest -> n   batch k v k v.. (v = x: delete) -> ok|err
//	  iter | stat | compact -> *  (race-checked only)
//	pool (flushable.SyncedPool over a memorydb producer, stores opened by `init`, underlying DBs created lazily):
//	  put s k v | del s k | get s k | has s k   on the store handle    under s k -> GetUnderlying(s).Get
//	  stat s -> *   open s -> ok   names -> a,b   flush id -> ok|err   psize -> * (a sum over several objects)
//	wlru (wlru.Cache, int keys): add k v w | get k | peek k | contains k | coa k v w | poa k v w | remove k |
//	  rmoldest | getoldest | keys | len | weight | total | resize mw ms | purge   -> <ok>/<v1,v2..|->
//	sem (datasemaphore): try n s | acq n s ms -> 0|1   rel n s | term -> -   proc | avail -> n:s
//	buf (dagordering.EventsBuffer): push e -> 0|1   clear -> -   isbuf e -> 0|1   total -> num,size

import (
	. "verifharness/hlib"

	"fmt"
	"sort"
	"strconv"
	"strings"
	"time"

	"github.com/Fantom-foundation/lachesis-base/inter/dag"
	"github.com/Fantom-foundation/lachesis-base/inter/idx"
	"github.com/Fantom-foundation/lachesis-base/kvdb"
	"github.com/Fantom-foundation/lachesis-base/kvdb/flushable"
	"github.com/Fantom-foundation/lachesis-base/kvdb/memorydb"
	"github.com/Fantom-foundation/lachesis-base/utils/datasemaphore"
	"github.com/Fantom-foundation/lachesis-base/utils/wlru"
)

func param(ps []string, key string, def uint64) uint64 {
	for _, p := range ps {
		if strings.HasPrefix(p, key+"=") {
			return Atou(p[len(key)+1:])
		}
	}
	return def
}

var concCase uint64

func newConObj(comp string, ps []string) conObj {
	switch comp {
	case "flushable":
		return &flObj{db: flushable.Wrap(memorydb.New())}
	case "pool":
		concCase++
		p := &poolObj{stores: map[string]kvdb.Store{}}
		p.pool = flushable.NewSyncedPool(memorydb.NewProducer(fmt.Sprintf("conc-%d-%d", time.Now().UnixNano(), concCase)), []byte{0xff, 'f'})
		for _, n := range []string{"a", "b"} {
			// the underlying DB is created lazily by the first Flush / GetUnderlying, possibly concurrently
			s, _ := p.pool.OpenDB(n)
			p.stores[n] = s
		}
		return p
	case "wlru":
		c, err := wlru.New(uint(param(ps, "mw", 10)), int(param(ps, "ms", 4)))
		if err != nil {
			return nil
		}
		return &lruObj{c: c}
	case "sem":
		return &semObj{s: datasemaphore.New(dag.Metric{Num: idx.Event(param(ps, "num", 5)), Size: param(ps, "size", 100)},
			func(received, processing, releasing dag.Metric) {})}
	case "buf":
		return newBufObj(ps)
	}
	return nil
}

func errStr(err error) string {
	if err != nil {
		return "err"
	}
	return "ok"
}

func valStr(v []byte, err error) string {
	if err != nil {
		return "err"
	}
	if v == nil {
		return "nil"
	}
	return HexOf(v)
}

func bkey(s string) []byte { return []byte{byte(Atou(s))} }

// ---------------------------------------------------------------------------------------------

type flObj struct{ db *flushable.Flushable }

func (o *flObj) Config(f []string) bool { return false }

func storeOp(db kvdb.Store, f []string) (string, bool) {
	switch f[0] {
	case "put":
		return errStr(db.Put(bkey(f[1]), Unhex(f[2]))), true
	case "del":
		return errStr(db.Delete(bkey(f[1]))), true
	case "get":
		return valStr(db.Get(bkey(f[1]))), true
	case "has":
		ok, err := db.Has(bkey(f[1]))
		if err != nil {
			return "err", true
		}
		return B2s(ok), true
	}
	return "", false
}

func (o *flObj) Do(f []string) string {
	if r, ok := storeOp(o.db, f); ok {
		return r
	}
	switch f[0] {
	case "flush":
		return errStr(o.db.Flush())
	case "drop":
		o.db.DropNotFlushed()
		return "-"
	case "pairs":
		return strconv.Itoa(o.db.NotFlushedPairs())
	case "sizeest":
		return strconv.Itoa(o.db.NotFlushedSizeEst())
	case "batch":
		b := o.db.NewBatch()
		for i := 1; i+1 < len(f); i += 2 {
			if f[i+1] == "x" {
				_ = b.Delete(bkey(f[i]))
			} else {
				_ = b.Put(bkey(f[i]), Unhex(f[i+1]))
			}
		}
		return errStr(b.Write())
	case "snapget":
		snap, err := o.db.GetSnapshot()
		if err != nil {
			return "err"
		}
		defer snap.Release()
		return valStr(snap.Get(bkey(f[1])))
	case "iter":
		it := o.db.NewIterator(nil, nil)
		for n := 0; it.Next() && n < 100; n++ {
			_, _ = it.Key(), it.Value()
		}
		it.Release()
		return "*"
	case "stat":
		_, _ = o.db.Stat("x")
		return "*"
	case "compact":
		_ = o.db.Compact(nil, nil)
		return "*"
	}
	return "bad-op"
}

// ---------------------------------------------------------------------------------------------

type poolObj struct {
	pool   *flushable.SyncedPool
	stores map[string]kvdb.Store
}

func (o *poolObj) Config(f []string) bool { return false }

func (o *poolObj) Do(f []string) string {
	switch f[0] {
	case "put", "del", "get", "has":
		s := o.stores[f[1]]
		if s == nil {
			return "bad-op"
		}
		r, _ := storeOp(s, append([]string{f[0]}, f[2:]...))
		return r
	case "under":
		u, err := o.pool.GetUnderlying(f[1])
		if err != nil {
			return "err"
		}
		return valStr(u.Get(bkey(f[2])))
	case "stat":
		if s := o.stores[f[1]]; s != nil {
			_, _ = s.Stat("x")
			return "*"
		}
		return "bad-op"
	case "open":
		s, err := o.pool.OpenDB(f[1])
		if err != nil || s == nil {
			return "err"
		}
		return "ok"
	case "names":
		n := o.pool.Names()
		sort.Strings(n)
		return strings.Join(n, ",")
	case "flush":
		return errStr(o.pool.Flush(Unhex(f[1])))
	case "psize":
		_ = o.pool.NotFlushedSizeEst()
		return "*"
	}
	return "bad-op"
}
