package main

// Stream `parents` (C19, judge mode): ancestor.ChooseParents with logging strategies.
//
//	choose ex=<ids> opts=<ids> st=<strategy,...> m=<id:metric,...>
//
// strategies: fix:<k> (returns k mod len(options)), first, last, metric (the real MetricStrategy
// over the metric table m, missing ids = 0), rand:<seed> (the real RandomStrategy).
// Output: res=<ids> calls=<seen ids '.'-separated>@<index>;...   (the option list each strategy
// call saw, in the map order the real code produced, and the index it returned).

import (
	. "verifharness/hlib"

	"bufio"
	"encoding/binary"
	"fmt"
	"math/rand"
	"strings"

	"github.com/Fantom-foundation/lachesis-base/emitter/ancestor"
	"github.com/Fantom-foundation/lachesis-base/hash"
)

func init() {
	Register("parents", &Stream{Gen: genParents, NewRunner: func() Runner { return RunnerFunc(parentsStep) }})
}

func evID(n uint64) hash.Event {
	var h hash.Event
	binary.BigEndian.PutUint32(h[0:4], 1)
	binary.BigEndian.PutUint32(h[4:8], 1)
	binary.BigEndian.PutUint64(h[24:32], n)
	return h
}

func evNum(h hash.Event) uint64 { return binary.BigEndian.Uint64(h[24:32]) }

func evList(s string) hash.Events {
	var out hash.Events
	for _, x := range SplitList(s) {
		out = append(out, evID(Atou(x)))
	}
	return out
}

func evStr(ee hash.Events, sep string) string {
	if len(ee) == 0 {
		return "-"
	}
	ss := make([]string, len(ee))
	for i, e := range ee {
		ss[i] = fmt.Sprint(evNum(e))
	}
	return strings.Join(ss, sep)
}

type fixStrategy struct{ k int }

func (s fixStrategy) Choose(_ hash.Events, options hash.Events) int {
	if s.k < 0 {
		return len(options) - 1
	}
	return s.k % len(options)
}

type logStrategy struct {
	inner ancestor.SearchStrategy
	log   *[]string
}

func (s logStrategy) Choose(existing hash.Events, options hash.Events) int {
	i := s.inner.Choose(existing, options)
	*s.log = append(*s.log, fmt.Sprintf("%s@%d", evStr(options, "."), i))
	return i
}

func kvArg(f []string, key string) string {
	for _, w := range f {
		if strings.HasPrefix(w, key+"=") {
			return w[len(key)+1:]
		}
	}
	return "-"
}

func parentsStep(line string) string {
	f := Fields(line)
	if f[0] != "choose" {
		return "bad-op"
	}
	metrics := map[hash.Event]ancestor.Metric{}
	for _, p := range SplitList(kvArg(f, "m")) {
		kv := strings.Split(p, ":")
		metrics[evID(Atou(kv[0]))] = ancestor.Metric(Atou(kv[1]))
	}
	var log []string
	var strategies []ancestor.SearchStrategy
	for _, s := range SplitList(kvArg(f, "st")) {
		var inner ancestor.SearchStrategy
		switch {
		case s == "first":
			inner = fixStrategy{0}
		case s == "last":
			inner = fixStrategy{-1}
		case s == "metric":
			inner = ancestor.NewMetricStrategy(func(id hash.Event) ancestor.Metric { return metrics[id] })
		case strings.HasPrefix(s, "fix:"):
			inner = fixStrategy{int(Atou(s[4:]))}
		case strings.HasPrefix(s, "rand:"):
			inner = ancestor.NewRandomStrategy(rand.New(rand.NewSource(int64(Atou(s[5:])))))
		default:
			return "bad-op"
		}
		strategies = append(strategies, logStrategy{inner, &log})
	}
	existing := evList(kvArg(f, "ex"))
	keep := existing.Copy()
	res := ancestor.ChooseParents(existing, evList(kvArg(f, "opts")), strategies)
	for i := range keep { // the caller's slice must not be modified
		if existing[i] != keep[i] {
			return "existing-modified"
		}
	}
	calls := "-"
	if len(log) > 0 {
		calls = strings.Join(log, ";")
	}
	return fmt.Sprintf("res=%s calls=%s", evStr(res, ","), calls)
}

func genParents(r *Rand, n int, tier string, w *bufio.Writer) {
	fmt.Fprintf(w, "# case 0\n")
	for c := 0; c < n; c++ {
		if c > 0 && c%200 == 0 {
			fmt.Fprintf(w, "# case %d\n", c/200)
		}
		universe := 1 + r.Intn(12)
		id := func() uint64 {
			if r.Chance(1, 20) {
				return r.U64() // large ids
			}
			return uint64(1 + r.Intn(universe))
		}
		var ex, opts, st, m []string
		for i := r.Intn(4); i > 0; i-- {
			ex = append(ex, fmt.Sprint(id()))
		}
		nopts := r.Intn(10)
		if r.Chance(1, 8) {
			nopts = 0
		}
		for i := 0; i < nopts; i++ {
			opts = append(opts, fmt.Sprint(id())) // duplicates and overlaps with ex happen by construction
		}
		if r.Chance(1, 6) && len(ex) > 0 { // all options already taken
			opts = append([]string{}, ex...)
		}
		nst := r.Intn(6)
		if r.Chance(1, 10) {
			nst = 0
		}
		for i := 0; i < nst; i++ {
			switch r.Intn(7) {
			case 0:
				st = append(st, "first")
			case 1:
				st = append(st, "last")
			case 2:
				st = append(st, fmt.Sprintf("fix:%d", r.Intn(12)))
			case 3:
				st = append(st, fmt.Sprintf("rand:%d", r.Intn(1000)))
			default:
				st = append(st, "metric")
			}
		}
		// metric table: zeros, ties, maxima at boundary values
		mk := r.Intn(4)
		for i := 1; i <= universe; i++ {
			var v uint64
			switch mk {
			case 0: // all zero
				continue
			case 1: // few distinct values -> ties
				v = uint64(r.Intn(3))
			case 2:
				v = r.Pick(0, 1, 1<<32, 1<<63, 1<<64-1, 1<<64-2, uint64(r.Intn(100)))
			default:
				v = uint64(r.Intn(1000))
			}
			m = append(m, fmt.Sprintf("%d:%d", i, v))
		}
		j := func(s []string) string {
			if len(s) == 0 {
				return "-"
			}
			return strings.Join(s, ",")
		}
		fmt.Fprintf(w, "choose ex=%s opts=%s st=%s m=%s\n", j(ex), j(opts), j(st), j(m))
	}
}
