package main

// Stream `qindex` (C20): ancestor.QuorumIndexer over a fake DagIndex whose merged
// highest-before vectors are chosen by the generator.
//
//	vals diff=<cap|sub|mix|big> id:w ...     validators + the diff-metric function; new indexer
//	ev <eid> c=<creator id> hb=<s|f|f<s>,...>   defines an event: creator, merged highest-before
//	                                         vector by validator index (f = fork detected)
//	process <eid> self=<0|1>                 ProcessEvent; prints matrix rows and selfParentSeqs
//	medians                                  GetGlobalMedianSeqs
//	metric <eid>                             GetMetricOf
//	qchoose <eid,...>                        SearchStrategy().Choose(nil, options)

import (
	. "verifharness/hlib"

	"bufio"
	"fmt"
	"strings"

	"github.com/Fantom-foundation/lachesis-base/abft/dagidx"
	"github.com/Fantom-foundation/lachesis-base/emitter/ancestor"
	"github.com/Fantom-foundation/lachesis-base/hash"
	"github.com/Fantom-foundation/lachesis-base/inter/dag"
	"github.com/Fantom-foundation/lachesis-base/inter/idx"
	"github.com/Fantom-foundation/lachesis-base/inter/pos"
)

func init() {
	Register("qindex", &Stream{Gen: genQindex, NewRunner: func() Runner { return &qRunner{} }})
}

type fakeSeq struct {
	seq  idx.Event
	fork bool
}

func (s fakeSeq) Seq() idx.Event       { return s.seq }
func (s fakeSeq) IsForkDetected() bool { return s.fork }

type fakeVec []fakeSeq

func (v fakeVec) Size() int { return len(v) }
func (v fakeVec) Get(i idx.Validator) dagidx.Seq {
	if int(i) >= len(v) {
		return fakeSeq{}
	}
	return v[i]
}

type fakeIndex map[hash.Event]fakeVec

func (f fakeIndex) GetMergedHighestBefore(id hash.Event) dagidx.HighestBeforeSeq { return f[id] }

type qRunner struct {
	vv     *pos.Validators
	qi     *ancestor.QuorumIndexer
	index  fakeIndex
	events map[uint64]dag.Event
}

func diffFn(name string, vv *pos.Validators) ancestor.DiffMetricFn {
	capFn := func(diff idx.Event, weight pos.Weight) ancestor.Metric {
		if diff > 2 {
			return ancestor.Metric(2 * weight)
		}
		return ancestor.Metric(diff) * ancestor.Metric(weight)
	}
	switch name {
	case "cap": // the function of the repository's own test
		return func(median, current, update idx.Event, v idx.Validator) ancestor.Metric {
			if update <= median || update <= current {
				return 0
			}
			if median < current {
				return capFn(update-median, vv.GetWeightByIdx(v)) - capFn(current-median, vv.GetWeightByIdx(v))
			}
			return capFn(update-median, vv.GetWeightByIdx(v))
		}
	case "sub":
		return func(median, current, update idx.Event, v idx.Validator) ancestor.Metric {
			return ancestor.Metric(update - median) // uint32 wrap-around
		}
	case "mix":
		return func(median, current, update idx.Event, v idx.Validator) ancestor.Metric {
			return ancestor.Metric(median)*1000003 + ancestor.Metric(current)*10007 + ancestor.Metric(update)*101 + ancestor.Metric(v)
		}
	}
	// big: forces the uint64 sum to wrap
	return func(median, current, update idx.Event, v idx.Validator) ancestor.Metric {
		return ^ancestor.Metric(0) - ancestor.Metric(update) - ancestor.Metric(median)*4294967296
	}
}

func (q *qRunner) Step(line string) string {
	f := Fields(line)
	switch f[0] {
	case "vals":
		b := pos.NewBuilder()
		for _, p := range f[2:] {
			kv := strings.Split(p, ":")
			b.Set(idx.ValidatorID(Atou(kv[0])), pos.Weight(Atou(kv[1])))
		}
		q.qi = nil
		q.vv = b.Build()
		q.index = fakeIndex{}
		q.events = map[uint64]dag.Event{}
		q.qi = ancestor.NewQuorumIndexer(q.vv, q.index, diffFn(kvArg(f, "diff"), q.vv))
		return fmt.Sprintf("n=%d q=%d", q.vv.Len(), q.vv.Quorum())
	}
	if q.qi == nil {
		return "novals"
	}
	switch f[0] {
	case "ev":
		n := Atou(f[1])
		if _, ok := q.events[n]; ok {
			return "dup"
		}
		var vec fakeVec
		for _, s := range SplitList(kvArg(f, "hb")) {
			if strings.HasPrefix(s, "f") {
				e := fakeSeq{fork: true}
				if len(s) > 1 {
					e.seq = idx.Event(Atou(s[1:]))
				}
				vec = append(vec, e)
			} else {
				vec = append(vec, fakeSeq{seq: idx.Event(Atou(s))})
			}
		}
		var e dag.MutableBaseEvent
		e.SetEpoch(1)
		e.SetLamport(1)
		e.SetCreator(idx.ValidatorID(Atou(kvArg(f, "c"))))
		id := evID(n)
		var tail [24]byte
		copy(tail[:], id[8:])
		e.SetID(tail)
		q.events[n] = &e
		q.index[e.ID()] = vec
		return "ok"
	case "process":
		e, ok := q.events[Atou(f[1])]
		if !ok {
			return "noevent"
		}
		q.qi.ProcessEvent(e, kvArg(f, "self") == "1")
		var rows []string
		m := q.qi.GetGlobalMatrix()
		for v := idx.Validator(0); v < q.vv.Len(); v++ {
			rows = append(rows, evs(m.Row(v)))
		}
		if len(rows) == 0 {
			rows = []string{"-"}
		}
		return fmt.Sprintf("m=%s self=%s", strings.Join(rows, ";"), evs(q.qi.GetSelfParentSeqs()))
	case "medians":
		return evs(q.qi.GetGlobalMedianSeqs())
	case "metric":
		e, ok := q.events[Atou(f[1])]
		if !ok {
			return "noevent"
		}
		return fmt.Sprint(uint64(q.qi.GetMetricOf(e.ID())))
	case "qchoose":
		var opts hash.Events
		for _, s := range SplitList(f[1]) {
			e, ok := q.events[Atou(s)]
			if !ok {
				return "noevent"
			}
			opts = append(opts, e.ID())
		}
		if len(opts) == 0 {
			return "noevent"
		}
		return fmt.Sprint(q.qi.SearchStrategy().Choose(nil, opts))
	}
	return "bad-op"
}

func evs(l []idx.Event) string {
	if len(l) == 0 {
		return "-"
	}
	ss := make([]string, len(l))
	for i, x := range l {
		ss[i] = fmt.Sprint(uint32(x))
	}
	return strings.Join(ss, ",")
}

func genQindex(r *Rand, n int, tier string, w *bufio.Writer) {
	for c := 0; c < n; c++ {
		fmt.Fprintf(w, "# case %d\n", c)
		nv := 1 + r.Intn(7)
		if r.Chance(1, 40) {
			nv = 0
		}
		var ids []uint64
		line := "vals diff=" + []string{"cap", "sub", "mix", "big"}[r.Intn(4)]
		wk := r.Intn(4)
		for i := 0; i < nv; i++ {
			id := uint64(1 + i*3 + r.Intn(3))
			ids = append(ids, id)
			var wt uint64
			switch wk {
			case 0:
				wt = 1
			case 1:
				wt = uint64(1 + r.Intn(4))
			case 2:
				wt = r.Pick(1, 1, 2, 1000, 1<<20)
			default: // near the weight limit: exercises the uint32 running sum of wmedian
				wt = uint64((1<<31 - 1) / nv)
			}
			line += fmt.Sprintf(" %d:%d", id, wt)
		}
		fmt.Fprintln(w, line)
		// simulated DAG: per creator a growing sequence; each event's vector = what it observes
		maxSeq := r.Pick(3, 10, 1000, 1<<31-3)
		known := [][]uint64{} // per event: observed seq per validator idx
		lastOf := map[uint64]int{}
		nextEv := uint64(1)
		var evIDs []uint64
		steps := 4 + r.Intn(24)
		for s := 0; s < steps; s++ {
			switch k := r.Intn(10); {
			case k < 5 || len(evIDs) == 0: // new event + process
				creator := uint64(99)
				if nv > 0 && !r.Chance(1, 25) {
					creator = ids[r.Intn(nv)]
				}
				vl := nv
				if r.Chance(1, 8) {
					vl = r.Intn(nv + 3) // shorter / longer vectors
				}
				vec := make([]uint64, vl)
				var ss []string
				// start from a previously known vector (monotone growth most of the time)
				if p, ok := lastOf[creator]; ok && r.Chance(4, 5) {
					copy(vec, known[p])
				}
				if len(known) > 0 && r.Chance(1, 2) {
					o := known[r.Intn(len(known))]
					for i := range vec {
						if i < len(o) && o[i] > vec[i] {
							vec[i] = o[i]
						}
					}
				}
				for i := range vec {
					switch r.Intn(6) {
					case 0:
						vec[i] = r.Around(31, 0, 1, maxSeq) % (maxSeq + 1)
					case 1, 2:
						if vec[i] < maxSeq {
							vec[i] += uint64(1 + r.Intn(2))
						}
					}
					switch {
					case r.Chance(1, 12):
						ss = append(ss, "f")
					case r.Chance(1, 40):
						ss = append(ss, fmt.Sprintf("f%d", vec[i]))
					default:
						ss = append(ss, fmt.Sprint(vec[i]))
					}
				}
				id := nextEv
				nextEv++
				known = append(known, vec)
				lastOf[creator] = len(known) - 1
				evIDs = append(evIDs, id)
				hb := "-"
				if len(ss) > 0 {
					hb = strings.Join(ss, ",")
				}
				fmt.Fprintf(w, "ev %d c=%d hb=%s\n", id, creator, hb)
				if r.Chance(9, 10) {
					self := 0
					if nv > 0 && creator == ids[0] || r.Chance(1, 15) {
						self = 1
					}
					fmt.Fprintf(w, "process %d self=%d\n", id, self)
				}
			case k < 6: // re-process an older event (out of order histories)
				fmt.Fprintf(w, "process %d self=%d\n", evIDs[r.Intn(len(evIDs))], r.Intn(2))
			case k < 8:
				fmt.Fprintf(w, "medians\n")
			case k < 9:
				fmt.Fprintf(w, "metric %d\n", evIDs[r.Intn(len(evIDs))])
			default:
				var o []string
				for i := 1 + r.Intn(4); i > 0; i-- {
					o = append(o, fmt.Sprint(evIDs[r.Intn(len(evIDs))]))
				}
				fmt.Fprintf(w, "qchoose %s\n", strings.Join(o, ","))
			}
		}
		fmt.Fprintf(w, "medians\n")
	}
}
