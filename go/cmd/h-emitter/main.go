// Command h-emitter: harness streams parents (C19) and qindex (C20).
package main

import "verifharness/hlib"

func main() { hlib.Main() }
