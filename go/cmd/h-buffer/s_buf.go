package main

// Stream `buf` (C14): the real dagordering.EventsBuffer driven push by push; every callback
// invocation is logged.
//
//	lim <num|inf> <size|inf> [norel]   new buffer with that limit (norel: without a Released callback) -> ok
//	conn <ids>                   ids connected from the start                     -> ok
//	ev <id> l=<lamport> s=<size> p=<ids>   defines an event                       -> ok
//	failc <tag> <k> | failp <tag> <k>      Check / Process of the copy pushed as number <tag>
//	                             fails at its call number k (0 = first call)      -> ok
//	push <id>                    PushEvent of a fresh copy (tag = number of earlier pushes)
//	                             -> <trace> ret=<complete> tot=<num>/<size>
//	connect <id>                 the application connects the event by other means -> ok
//	clear                        Clear()                                          -> <trace> tot=<num>/<size>
//
// trace = callback invocations in order: C<tag>:<ok> P<tag>:<ok> R<tag>:<err> ("-" if none).

import (
	. "verifharness/hlib"

	"bufio"
	"errors"
	"fmt"
	"math"
	"strings"

	"github.com/Fantom-foundation/lachesis-base/eventcheck"
	"github.com/Fantom-foundation/lachesis-base/gossip/dagordering"
	"github.com/Fantom-foundation/lachesis-base/hash"
	"github.com/Fantom-foundation/lachesis-base/inter/dag"
	"github.com/Fantom-foundation/lachesis-base/inter/idx"
)

func init() {
	Register("buf", &Stream{Gen: genBuf, NewRunner: func() Runner { return &bufRunner{w: newWorld()} }})
}

// ---------------------------------------------------------------------------------------------
// shared by buf and proc

var (
	errCheckFail   = errors.New("harness: check failed")
	errProcessFail = errors.New("harness: process failed")
)

func errCode(err error) int {
	switch err {
	case nil:
		return 0
	case eventcheck.ErrDuplicateEvent:
		return 1
	case eventcheck.ErrAlreadyConnectedEvent:
		return 2
	case eventcheck.ErrSpilledEvent:
		return 3
	case errCheckFail:
		return 4
	case errProcessFail:
		return 5
	case errParentlessFail:
		return 6
	}
	return 9
}

// hEvent is one pushed/enqueued copy of an event (a distinct object per copy).
type hEvent struct {
	*dag.BaseEvent
	num  uint64 // the event's number in the ops
	size int
	tag  int
	hook func(*hEvent) // stream proc: called by Lamport()
}

func (e *hEvent) Size() int { return e.size }

type evDef struct {
	num     uint64
	lamport uint64
	size    int
	parents []uint64
	base    *dag.BaseEvent
}

type world struct {
	defs      map[uint64]*evDef
	byID      map[hash.Event]uint64
	connected map[uint64]bool
	failC     map[[2]int]bool
	failP     map[[2]int]bool
	nCheck    map[int]int
	nProc     map[int]int
	trace     []string
}

func newWorld() *world {
	return &world{defs: map[uint64]*evDef{}, byID: map[hash.Event]uint64{}, connected: map[uint64]bool{},
		failC: map[[2]int]bool{}, failP: map[[2]int]bool{}, nCheck: map[int]int{}, nProc: map[int]int{}}
}

func idOf(num, lamport uint64) hash.Event {
	var me dag.MutableBaseEvent
	me.SetEpoch(1)
	me.SetLamport(idx.Lamport(lamport))
	var tail [24]byte
	for i := 0; i < 8; i++ {
		tail[23-i] = byte(num >> (8 * i))
	}
	me.SetID(tail)
	return me.ID()
}

// def returns the definition of an event number (unknown numbers get a parentless dummy, so that
// Get can answer for ids that are only ever named as connected).
func (w *world) def(num uint64) *evDef {
	if d, ok := w.defs[num]; ok {
		return d
	}
	return w.define(num, 1, 10, nil)
}

func (w *world) idFor(num uint64) hash.Event {
	if d, ok := w.defs[num]; ok {
		return d.base.ID()
	}
	// parents may be named before (or without) being defined: ids of undefined events use lamport 0
	id := idOf(num, 0)
	w.byID[id] = num
	return id
}

func (w *world) define(num, lamport uint64, size int, parents []uint64) *evDef {
	var me dag.MutableBaseEvent
	me.SetEpoch(1)
	me.SetSeq(1)
	me.SetCreator(1)
	me.SetLamport(idx.Lamport(lamport))
	ps := make(hash.Events, len(parents))
	for i, p := range parents {
		ps[i] = w.idFor(p)
	}
	me.SetParents(ps)
	var tail [24]byte
	for i := 0; i < 8; i++ {
		tail[23-i] = byte(num >> (8 * i))
	}
	// ids must not depend on the lamport time, or a parent named before its definition would differ
	me.SetLamport(0)
	me.SetID(tail)
	me.SetLamport(idx.Lamport(lamport))
	d := &evDef{num: num, lamport: lamport, size: size, parents: parents, base: &me.BaseEvent}
	w.defs[num] = d
	w.byID[d.base.ID()] = num
	return d
}

func (w *world) parseEv(f []string) {
	num := Atou(f[1])
	lamport, size := uint64(1), 10
	var parents []uint64
	for _, kv := range f[2:] {
		switch {
		case strings.HasPrefix(kv, "l="):
			lamport = Atou(kv[2:])
		case strings.HasPrefix(kv, "s="):
			size = int(Atou(kv[2:]))
		case strings.HasPrefix(kv, "p="):
			for _, p := range SplitList(kv[2:]) {
				parents = append(parents, Atou(p))
			}
		}
	}
	w.define(num, lamport, size, parents)
}

func (w *world) copyOf(num uint64, tag int) *hEvent {
	d := w.def(num)
	return &hEvent{BaseEvent: d.base, num: num, size: d.size, tag: tag}
}

func (w *world) log(format string, a ...interface{}) { w.trace = append(w.trace, fmt.Sprintf(format, a...)) }

func (w *world) takeTrace() string {
	if len(w.trace) == 0 {
		return "-"
	}
	s := strings.Join(w.trace, " ")
	w.trace = w.trace[:0]
	return s
}

func tagOf(e dag.Event) int {
	if h, ok := e.(*hEvent); ok {
		return h.tag
	}
	return -1
}

func (w *world) exists(id hash.Event) bool {
	num, ok := w.byID[id]
	return ok && w.connected[num]
}

func (w *world) get(id hash.Event) dag.Event {
	if !w.exists(id) {
		return nil
	}
	num := w.byID[id]
	return w.copyOf(num, -1)
}

func (w *world) check(e dag.Event, parents dag.Events) error {
	tag := tagOf(e)
	k := w.nCheck[tag]
	w.nCheck[tag]++
	ok := !w.failC[[2]int{tag, k}]
	// the parents handed over must be the event's parents, in order
	if len(parents) != len(e.Parents()) {
		w.log("!parents")
	} else {
		for i, p := range e.Parents() {
			if parents[i] == nil || parents[i].ID() != p {
				w.log("!parents")
				break
			}
		}
	}
	w.log("C%d:%s", tag, B2s(ok))
	if !ok {
		return errCheckFail
	}
	return nil
}

func (w *world) process(e dag.Event) error {
	tag := tagOf(e)
	k := w.nProc[tag]
	w.nProc[tag]++
	ok := !w.failP[[2]int{tag, k}]
	w.log("P%d:%s", tag, B2s(ok))
	if !ok {
		return errProcessFail
	}
	w.connected[e.(*hEvent).num] = true
	return nil
}

func (w *world) released(e dag.Event, peer string, err error) {
	tag := tagOf(e)
	if peer != fmt.Sprintf("peer%d", tag) {
		w.log("!peer")
	}
	w.log("R%d:%d", tag, errCode(err))
}

func parseLim(s string, max uint64) uint64 {
	if s == "inf" {
		return max
	}
	return Atou(s)
}

// ---------------------------------------------------------------------------------------------
// buf

type bufRunner struct {
	w    *world
	buf  *dagordering.EventsBuffer
	next int
}

func (b *bufRunner) Step(line string) string {
	f := Fields(line)
	w := b.w
	switch f[0] {
	case "lim":
		lim := dag.Metric{Num: idx.Event(parseLim(f[1], math.MaxUint32)), Size: parseLim(f[2], math.MaxUint64)}
		cb := dagordering.Callback{Process: w.process, Released: w.released, Get: w.get, Exists: w.exists, Check: w.check}
		if len(f) > 3 && f[3] == "norel" {
			cb.Released = nil // the callback is optional
		}
		b.buf = dagordering.New(lim, cb)
		return "ok"
	case "conn":
		for _, s := range SplitList(f[1]) {
			w.connected[Atou(s)] = true
			w.idFor(Atou(s))
		}
		return "ok"
	case "ev":
		w.parseEv(f)
		return "ok"
	case "failc":
		w.failC[[2]int{int(Atou(f[1])), int(Atou(f[2]))}] = true
		return "ok"
	case "failp":
		w.failP[[2]int{int(Atou(f[1])), int(Atou(f[2]))}] = true
		return "ok"
	case "connect":
		w.idFor(Atou(f[1]))
		w.connected[Atou(f[1])] = true
		return "ok"
	}
	if b.buf == nil {
		return "nobuf"
	}
	switch f[0] {
	case "push":
		tag := b.next
		b.next++
		e := w.copyOf(Atou(f[1]), tag)
		complete := b.buf.PushEvent(e, fmt.Sprintf("peer%d", tag))
		tot := b.buf.Total()
		return fmt.Sprintf("%s ret=%s tot=%d/%d", w.takeTrace(), B2s(complete), tot.Num, tot.Size)
	case "clear":
		b.buf.Clear()
		tot := b.buf.Total()
		return fmt.Sprintf("%s tot=%d/%d", w.takeTrace(), tot.Num, tot.Size)
	}
	return "bad-op"
}

// ---------------------------------------------------------------------------------------------
// generator

type genEv struct {
	id      uint64
	lamport uint64
	size    int
	parents []uint64
}

// genDAG builds n events with ids 1..n; parents point to lower ids, sometimes to ids that are connected
// from the start (900+) or that never arrive (800+).
func genDAG(r *Rand, n int, outside bool) []genEv {
	// event types without size accounting report Size() == 0: in one case of eight every event does, otherwise some do
	zeroSizes := r.Chance(1, 8)
	evs := make([]genEv, n)
	lam := map[uint64]uint64{}
	for i := 0; i < n; i++ {
		id := uint64(i + 1)
		var ps []uint64
		k := r.Intn(4)
		if i == 0 {
			k = 0
		}
		seen := map[uint64]bool{}
		maxL := uint64(0)
		for j := 0; j < k; j++ {
			p := uint64(1 + r.Intn(i))
			if r.Chance(1, 3) && i > 0 {
				p = uint64(i) // chains
			}
			if outside && r.Chance(1, 12) {
				p = uint64(900 + r.Intn(3))
			} else if outside && r.Chance(1, 40) {
				p = uint64(800 + r.Intn(2))
			}
			if seen[p] {
				continue
			}
			seen[p] = true
			ps = append(ps, p)
			if lam[p] > maxL {
				maxL = lam[p]
			}
		}
		lam[id] = maxL + 1
		evs[i] = genEv{id: id, lamport: maxL + 1, size: int(r.Pick(0, 1, 5, 10, 10, 37, 100))}
		if zeroSizes {
			evs[i].size = 0
		}
		evs[i].parents = ps
	}
	return evs
}

func joinIDs(v []uint64) string {
	if len(v) == 0 {
		return "-"
	}
	return JoinU(v, ",")
}

func writeEvs(w *bufio.Writer, evs []genEv) {
	for _, e := range evs {
		fmt.Fprintf(w, "ev %d l=%d s=%d p=%s\n", e.id, e.lamport, e.size, joinIDs(e.parents))
	}
}

func limStr(v uint64) string {
	if v == math.MaxUint64 {
		return "inf"
	}
	return fmt.Sprint(v)
}

func pickLimits(r *Rand, evs []genEv) (uint64, uint64) {
	n := uint64(len(evs))
	total := uint64(0)
	for _, e := range evs {
		total += uint64(e.size)
	}
	inf := uint64(math.MaxUint64)
	num := r.Pick(0, 1, 2, 3, n/2, n, inf, inf, inf)
	size := r.Pick(0, 1, 10, 50, total/2, total, inf, inf, inf)
	if r.Chance(1, 3) {
		num, size = inf, inf
	}
	return num, size
}

// nextPerm advances p to the next permutation in lexicographic order.
func nextPerm(p []int) bool {
	i := len(p) - 2
	for i >= 0 && p[i] >= p[i+1] {
		i--
	}
	if i < 0 {
		return false
	}
	j := len(p) - 1
	for p[j] <= p[i] {
		j--
	}
	p[i], p[j] = p[j], p[i]
	for a, b := i+1, len(p)-1; a < b; a, b = a+1, b-1 {
		p[a], p[b] = p[b], p[a]
	}
	return true
}

func genBuf(r *Rand, n int, tier string, w *bufio.Writer) {
	c := 0
	header := func(kind string) {
		fmt.Fprintf(w, "# case %d %s\n", c, kind)
		c++
	}
	// exhaustive blocks: every arrival order of a small DAG (with failures and limits fixed per block)
	blockSizes := []int{3, 4, 5, 5}
	if tier == "thorough" {
		blockSizes = []int{3, 4, 5, 5, 5, 6, 6, 6, 6, 7, 7}
	}
	for _, k := range blockSizes {
		fact := 1
		for i := 2; i <= k; i++ {
			fact *= i
		}
		if c+fact > n*2/3 {
			continue
		}
		evs := genDAG(r, k, r.Chance(1, 3))
		num, size := pickLimits(r, evs)
		var fails []string
		for f := r.Intn(3); f > 0; f-- {
			fails = append(fails, fmt.Sprintf("%s %d 0", []string{"failc", "failp", "failp"}[r.Intn(3)], r.Intn(k)))
		}
		dup := -1
		if r.Chance(1, 3) {
			dup = r.Intn(k)
		}
		p := make([]int, k)
		for i := range p {
			p[i] = i
		}
		norel := ""
		if r.Chance(1, 3) {
			norel = " norel"
		}
		for {
			header(fmt.Sprintf("all-orders k=%d", k))
			fmt.Fprintf(w, "lim %s %s%s\nconn 900,901\n", limStr(num), limStr(size), norel)
			writeEvs(w, evs)
			for _, f := range fails {
				w.WriteString(f + "\n")
			}
			for pos, i := range p {
				fmt.Fprintf(w, "push %d\n", evs[i].id)
				if pos == dup {
					fmt.Fprintf(w, "push %d\n", evs[i].id)
				}
			}
			w.WriteString("clear\n")
			if !nextPerm(p) {
				break
			}
		}
	}
	for c < n {
		k := 1 + r.Intn(40)
		if r.Chance(1, 2) {
			k = 1 + r.Intn(8)
		}
		evs := genDAG(r, k, r.Chance(1, 2))
		num, size := pickLimits(r, evs)
		if r.Chance(1, 25) { // huge events with an unlimited buffer: nothing may be evicted silently
			for i := range evs {
				if r.Chance(1, 2) {
					evs[i].size = int(r.Pick(1<<30, 1<<30+1, 1<<31, 3<<30))
				}
			}
			num, size = math.MaxUint64, math.MaxUint64
		}
		header(fmt.Sprintf("random k=%d", k))
		if r.Chance(1, 5) {
			fmt.Fprintf(w, "lim %s %s norel\n", limStr(num), limStr(size))
		} else {
			fmt.Fprintf(w, "lim %s %s\n", limStr(num), limStr(size))
		}
		if r.Chance(3, 4) {
			w.WriteString("conn 900,901\n")
		} else {
			w.WriteString("conn 900,901,902,1\n")
		}
		writeEvs(w, evs)
		// arrival order: a random permutation, near-topological, or reverse topological
		order := r.Perm(k)
		switch r.Intn(4) {
		case 0:
			for i := range order {
				order[i] = k - 1 - i
			}
		case 1:
			for i := range order {
				order[i] = i
			}
			for s := r.Intn(k + 1); s > 0; s-- {
				a, b := r.Intn(k), r.Intn(k)
				order[a], order[b] = order[b], order[a]
			}
		}
		var pushes []uint64
		for _, i := range order {
			pushes = append(pushes, evs[i].id)
			if r.Chance(1, 8) {
				pushes = append(pushes, evs[i].id) // immediate duplicate
			}
			if r.Chance(1, 10) {
				pushes = append(pushes, evs[r.Intn(k)].id) // a copy of some event, possibly processed already
			}
			if r.Chance(1, 60) {
				pushes = append(pushes, 800) // an event nobody defined (no parents)
			}
		}
		// failures at chosen copies
		nf := 0
		if r.Chance(1, 2) {
			nf = 1 + r.Intn(3)
		}
		for ; nf > 0; nf-- {
			kind := "failp"
			if r.Chance(1, 3) {
				kind = "failc"
			}
			fmt.Fprintf(w, "%s %d %d\n", kind, r.Intn(len(pushes)), r.Intn(8)/7)
		}
		for _, id := range pushes {
			fmt.Fprintf(w, "push %d\n", id)
			if r.Chance(1, 50) {
				fmt.Fprintf(w, "connect %d\n", evs[r.Intn(k)].id)
			}
			if r.Chance(1, 80) {
				w.WriteString("clear\n")
			}
		}
		w.WriteString("clear\n")
		if r.Chance(1, 6) {
			for j := r.Intn(4); j >= 0; j-- {
				fmt.Fprintf(w, "push %d\n", evs[r.Intn(k)].id)
			}
			w.WriteString("clear\n")
		}
	}
}
