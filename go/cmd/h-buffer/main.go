// Command h-buffer: harness streams buf (C14, real dagordering.EventsBuffer) and proc (C15, real
// dagprocessor.Processor).
package main

import "verifharness/hlib"

func main() { hlib.Main() }
