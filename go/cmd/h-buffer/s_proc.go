package main

// Stream `proc` (C15): the real dagprocessor.Processor with harness-controlled completion order of
// the asynchronous CheckParentless results.
//
//	cfg num=<n|inf> size=<n|inf> semnum=<n> semsize=<n> highest=<l>   New + Start            -> ok
//	conn <ids> | ev <id> l= s= p= | failc <tag> <k> | failp <tag> <k>  as in stream buf     -> ok
//	enq <b> o=<0|1> e=<ids>       Enqueue of batch b (tags = running count of enqueued events) -> ok|busy
//	chk <b> <pos> <err>           the check of position pos of batch b completes (err 0|6)  -> ok
//	stopmid <b> <pos> 0           the result arrives and Stop() is called while the inserter is parked in
//	                              the middle of handling it (inside HighestLamport); it is let go once
//	                              Stop() has terminated the semaphore -> <trace> sem=<n>/<s> buf=<n>/<s>
//	sync                          wait for the batches that can finish; prints the callback trace up
//	                              to the last `done`                                        -> <trace>
//	stop                          Stop()                       -> <trace> sem=<n>/<s> buf=<n>/<s>
//
// trace tokens: H (HighestLamport) U<tag> (event reaches the buffer) C<tag>:<ok> P<tag>:<ok>
// R<tag>:<err> W (semaphore warning) N<b>:<ids> (notifyAnnounces) D<b>:<semN>/<semS>:<bufN>/<bufS>.
//
// Synchronisation is by callbacks only: the harness knows how many `process()` calls and `done()`
// calls the delivered results enable (every process() call starts with HighestLamport() or, for a
// failed check, with Released) and waits for exactly these; whatever the single inserter goroutine
// does is then a deterministic sequence. State sampled between ops is read inside `done` on the
// inserter goroutine.

import (
	. "verifharness/hlib"

	"bufio"
	"errors"
	"fmt"
	"math"
	"strings"
	"sync"
	"time"

	"github.com/Fantom-foundation/lachesis-base/gossip/dagprocessor"
	"github.com/Fantom-foundation/lachesis-base/hash"
	"github.com/Fantom-foundation/lachesis-base/inter/dag"
	"github.com/Fantom-foundation/lachesis-base/inter/idx"
	"github.com/Fantom-foundation/lachesis-base/utils/datasemaphore"
)

func init() {
	Register("proc", &Stream{Gen: genProc, NewRunner: func() Runner {
		r := &procRunner{w: newWorld(), tags: map[int]*tagInfo{}, batches: map[int]*pbatch{}}
		r.cond = sync.NewCond(&r.mu)
		return r
	}})
}

// watchdog bounds every wait for a callback (on the unchanged tree the waits take microseconds);
// once it fires the case is abandoned: every later op answers `timeout` at once.
const watchdog = 8 * time.Second

var errParentlessFail = errors.New("harness: parentless check failed")

type tagInfo struct {
	batch *pbatch
	pos   int
}

type pbatch struct {
	id        int
	ordered   bool
	n         int
	accepted  bool
	delivered []bool
	checked   []func(error)
}

type procRunner struct {
	w    *world
	mu   sync.Mutex
	cond *sync.Cond

	proc    *dagprocessor.Processor
	sem     *datasemaphore.DataSemaphore
	tags    map[int]*tagInfo
	batches map[int]*pbatch
	order   []*pbatch // accepted batches in Enqueue order
	nextTag int

	starts, dones int
	afterH        bool
	cur           int
	highest       idx.Lamport
	stopped       bool
	timedOut      bool
	parkNext      bool          // park the inserter in its next HighestLamport call
	parked        bool
	unpark        chan struct{} // closed to let the parked inserter continue
	midBatch      *pbatch       // the batch whose last result is handled while Stop() runs
}

// Lamport is the first thing process() asks of the event after HighestLamport(): it tells the harness
// which copy is being handled.
func (e *hEvent) Lamport() idx.Lamport {
	if e.hook != nil {
		e.hook(e)
	}
	return e.BaseEvent.Lamport()
}

func (r *procRunner) expected() (starts, dones int) {
	for _, b := range r.order {
		k := 0
		if b.ordered {
			for k < b.n && b.delivered[k] {
				k++
			}
		} else {
			for _, d := range b.delivered {
				if d {
					k++
				}
			}
		}
		starts += k
		if k < b.n {
			break
		}
		dones++
	}
	return
}

// waitQuiet blocks until the inserter has started everything the delivered results enable.
func (r *procRunner) waitQuiet() bool {
	timer := time.AfterFunc(watchdog, func() {
		r.mu.Lock()
		r.timedOut = true
		r.cond.Broadcast()
		r.mu.Unlock()
	})
	defer timer.Stop()
	r.mu.Lock()
	defer r.mu.Unlock()
	for !r.timedOut {
		s, d := r.expected()
		if r.starts >= s && r.dones >= d {
			return true
		}
		r.cond.Wait()
	}
	return false
}

func (r *procRunner) Close() {
	if r.proc != nil && !r.stopped {
		r.stopped = true
		r.proc.Stop()
	}
}

func (r *procRunner) Step(line string) string {
	f := Fields(line)
	w := r.w
	switch f[0] {
	case "cfg":
		kvs := map[string]string{}
		for _, x := range f[1:] {
			if i := strings.Index(x, "="); i > 0 {
				kvs[x[:i]] = x[i+1:]
			}
		}
		r.highest = idx.Lamport(Atou(kvs["highest"]))
		r.sem = datasemaphore.New(dag.Metric{Num: idx.Event(Atou(kvs["semnum"])), Size: Atou(kvs["semsize"])},
			func(received dag.Metric, processing dag.Metric, releasing dag.Metric) {
				r.mu.Lock()
				w.log("W")
				r.mu.Unlock()
			})
		cfg := dagprocessor.Config{
			EventsBufferLimit:      dag.Metric{Num: idx.Event(parseLim(kvs["num"], math.MaxUint32)), Size: parseLim(kvs["size"], math.MaxUint64)},
			EventsSemaphoreTimeout: 250 * time.Millisecond,
			MaxTasks:               128,
		}
		r.proc = dagprocessor.New(r.sem, cfg, dagprocessor.Callback{
			Event: dagprocessor.EventCallback{
				Process: func(e dag.Event) error {
					r.mu.Lock()
					defer r.mu.Unlock()
					err := w.process(e)
					if err == nil && e.(*hEvent).BaseEvent.Lamport() > r.highest {
						r.highest = e.(*hEvent).BaseEvent.Lamport()
					}
					return err
				},
				Released: func(e dag.Event, peer string, err error) {
					r.mu.Lock()
					defer r.mu.Unlock()
					r.afterH = false
					tag := tagOf(e)
					if ti := r.tags[tag]; ti == nil || peer != fmt.Sprintf("peer%d", ti.batch.id) {
						w.log("!peer")
					}
					w.log("R%d:%d", tag, errCode(err))
					if err == errParentlessFail {
						r.starts++
					}
					r.cond.Broadcast()
				},
				Get: func(id hash.Event) dag.Event {
					r.mu.Lock()
					defer r.mu.Unlock()
					return w.get(id)
				},
				Exists: func(id hash.Event) bool {
					r.mu.Lock()
					defer r.mu.Unlock()
					if r.afterH {
						r.afterH = false
						w.log("U%d", r.cur)
					}
					return w.exists(id)
				},
				CheckParents: func(e dag.Event, parents dag.Events) error {
					r.mu.Lock()
					defer r.mu.Unlock()
					return w.check(e, parents)
				},
				CheckParentless: func(e dag.Event, checked func(error)) {
					r.mu.Lock()
					defer r.mu.Unlock()
					if ti := r.tags[tagOf(e)]; ti != nil {
						ti.batch.checked[ti.pos] = checked
					}
					r.cond.Broadcast()
				},
			},
			HighestLamport: func() idx.Lamport {
				r.mu.Lock()
				defer r.mu.Unlock()
				r.starts++
				r.afterH = true
				r.cur = -1
				w.log("H")
				if r.parkNext {
					r.parkNext = false
					r.parked = true
					ch := r.unpark
					r.cond.Broadcast()
					r.mu.Unlock()
					<-ch
					r.mu.Lock()
				}
				r.cond.Broadcast()
				return r.highest
			},
		})
		r.proc.Start()
		return "ok"
	case "conn":
		for _, s := range SplitList(f[1]) {
			w.connected[Atou(s)] = true
			w.idFor(Atou(s))
		}
		return "ok"
	case "ev":
		w.parseEv(f)
		return "ok"
	case "failc":
		w.failC[[2]int{int(Atou(f[1])), int(Atou(f[2]))}] = true
		return "ok"
	case "failp":
		w.failP[[2]int{int(Atou(f[1])), int(Atou(f[2]))}] = true
		return "ok"
	}
	if r.proc == nil {
		return "noproc"
	}
	r.mu.Lock()
	dead := r.timedOut
	r.mu.Unlock()
	if dead {
		return "timeout"
	}
	switch f[0] {
	case "enq":
		b := &pbatch{id: int(Atou(f[1])), ordered: f[2] == "o=1"}
		ids := SplitList(strings.TrimPrefix(f[3], "e="))
		b.n = len(ids)
		b.delivered = make([]bool, b.n)
		b.checked = make([]func(error), b.n)
		events := make(dag.Events, b.n)
		r.mu.Lock()
		for i, s := range ids {
			tag := r.nextTag
			r.nextTag++
			e := w.copyOf(Atou(s), tag)
			e.hook = func(e *hEvent) {
				r.mu.Lock()
				if r.afterH && r.cur < 0 {
					r.cur = e.tag
				}
				r.mu.Unlock()
			}
			events[i] = e
			r.tags[tag] = &tagInfo{batch: b, pos: i}
		}
		r.batches[b.id] = b
		r.mu.Unlock()
		if !r.waitQuiet() {
			return "timeout"
		}
		err := r.proc.Enqueue(fmt.Sprintf("peer%d", b.id), events, b.ordered,
			func(ids hash.Events) {
				r.mu.Lock()
				defer r.mu.Unlock()
				nums := make([]uint64, len(ids))
				for i, id := range ids {
					nums[i] = w.byID[id]
				}
				w.log("N%d:%s", b.id, joinIDs(nums))
			},
			func() {
				sem := r.sem.Processing()
				tot := r.proc.TotalBuffered()
				r.mu.Lock()
				defer r.mu.Unlock()
				full := true
				for _, d := range b.delivered {
					full = full && d
				}
				if full && (!r.stopped || b == r.midBatch) { // an aborted task also calls done(): not a finished batch
					r.dones++
					w.log("D%d:%d/%d:%d/%d", b.id, sem.Num, sem.Size, tot.Num, tot.Size)
				}
				r.cond.Broadcast()
			})
		switch err {
		case nil:
			r.mu.Lock()
			b.accepted = true
			r.order = append(r.order, b)
			r.mu.Unlock()
			return "ok"
		case dagprocessor.ErrBusy:
			return "busy"
		}
		return "err"
	case "chk":
		b := r.batches[int(Atou(f[1]))]
		pos := int(Atou(f[2]))
		if b == nil || !b.accepted || pos >= b.n || b.delivered[pos] || r.stopped {
			return "nobatch"
		}
		timer := time.AfterFunc(watchdog, func() {
			r.mu.Lock()
			r.timedOut = true
			r.cond.Broadcast()
			r.mu.Unlock()
		})
		r.mu.Lock()
		for b.checked[pos] == nil && !r.timedOut {
			r.cond.Wait()
		}
		fn := b.checked[pos]
		if fn != nil {
			b.delivered[pos] = true
		}
		r.mu.Unlock()
		timer.Stop()
		if fn == nil {
			return "timeout"
		}
		if Atou(f[3]) != 0 {
			fn(errParentlessFail)
		} else {
			fn(nil)
		}
		return "ok"
	case "stopmid":
		b := r.batches[int(Atou(f[1]))]
		pos := int(Atou(f[2]))
		if b == nil || !b.accepted || pos >= b.n || b.delivered[pos] || r.stopped {
			return "nobatch"
		}
		if !r.waitQuiet() {
			return "timeout"
		}
		timer := time.AfterFunc(watchdog, func() {
			r.mu.Lock()
			r.timedOut = true
			r.cond.Broadcast()
			r.mu.Unlock()
		})
		defer timer.Stop()
		r.mu.Lock()
		for b.checked[pos] == nil && !r.timedOut {
			r.cond.Wait()
		}
		fn := b.checked[pos]
		if fn == nil {
			r.mu.Unlock()
			return "timeout"
		}
		b.delivered[pos] = true
		// will the inserter start handling this result now? (ordered batches wait for the prefix)
		s0, _ := r.expected()
		willStart := s0 > r.starts
		r.unpark = make(chan struct{})
		r.parkNext = willStart
		r.midBatch = b
		r.mu.Unlock()
		fn(nil)
		if willStart {
			r.mu.Lock()
			for !r.parked && !r.timedOut {
				r.cond.Wait()
			}
			r.mu.Unlock()
		}
		before := r.sem.Available()
		r.mu.Lock()
		r.stopped = true
		r.mu.Unlock()
		stopDone := make(chan struct{})
		go func() {
			r.proc.Stop()
			close(stopDone)
		}()
		if willStart {
			// Stop() has been entered once the semaphore is terminated; give it a moment to get to the
			// point where it waits for the workers, then let the inserter go. Whatever the timing, the
			// repository's Stop() yields the same trace (it clears the buffer after the workers exited).
			for i := 0; i < 2000 && r.sem.Available() == before; i++ {
				time.Sleep(time.Millisecond)
			}
			time.Sleep(25 * time.Millisecond)
			close(r.unpark)
		}
		select {
		case <-stopDone:
		case <-time.After(watchdog):
			r.mu.Lock()
			r.timedOut = true
			r.mu.Unlock()
			return "timeout"
		}
		sem := r.sem.Processing()
		tot := r.proc.TotalBuffered()
		r.mu.Lock()
		defer r.mu.Unlock()
		return fmt.Sprintf("%s sem=%d/%d buf=%d/%d", w.takeTrace(), sem.Num, sem.Size, tot.Num, tot.Size)
	case "sync":
		if !r.waitQuiet() {
			return "timeout"
		}
		r.mu.Lock()
		defer r.mu.Unlock()
		last := -1
		for i, t := range w.trace {
			if strings.HasPrefix(t, "D") {
				last = i
			}
		}
		if last < 0 {
			return "-"
		}
		out := strings.Join(w.trace[:last+1], " ")
		w.trace = append([]string(nil), w.trace[last+1:]...)
		return out
	case "stop":
		if r.stopped {
			return "stopped"
		}
		if !r.waitQuiet() {
			return "timeout"
		}
		r.mu.Lock()
		r.stopped = true
		r.mu.Unlock()
		r.proc.Stop()
		sem := r.sem.Processing()
		tot := r.proc.TotalBuffered()
		r.mu.Lock()
		defer r.mu.Unlock()
		return fmt.Sprintf("%s sem=%d/%d buf=%d/%d", w.takeTrace(), sem.Num, sem.Size, tot.Num, tot.Size)
	}
	return "bad-op"
}

// ---------------------------------------------------------------------------------------------
// generator

func genProc(r *Rand, n int, tier string, w *bufio.Writer) {
	inf := uint64(math.MaxUint64)
	for c := 0; c < n; c++ {
		fmt.Fprintf(w, "# case %d\n", c)
		k := 1 + r.Intn(12)
		evs := genDAG(r, k, r.Chance(1, 3))
		num := r.Pick(0, 1, 2, 3, 5, 10, 10, 30, inf)
		size := r.Pick(0, 10, 50, 200, inf, inf, inf)
		highest := r.Pick(0, 0, 1, 3, 10)
		// far-future events around the boundary highest + 1 + num
		if num != inf {
			for j := r.Intn(3); j > 0; j-- {
				id := uint64(len(evs) + 1)
				l := highest + 1 + num + uint64(r.Intn(3))
				if l > 0 && r.Chance(1, 2) {
					l-- // exactly at the boundary: not far-future
				}
				evs = append(evs, genEv{id: id, lamport: l, size: 10, parents: []uint64{uint64(1 + r.Intn(k))}})
			}
		}
		total := 0
		for _, e := range evs {
			total += e.size
		}
		nb := 1 + r.Intn(5)
		type batch struct {
			ids     []uint64
			ordered bool
		}
		bs := make([]batch, nb)
		for i := range bs {
			m := r.Intn(7)
			if r.Chance(1, 3) {
				m = len(evs)
			}
			perm := r.Perm(len(evs))
			for j := 0; j < m && j < len(perm); j++ {
				bs[i].ids = append(bs[i].ids, evs[perm[j]].id)
				if r.Chance(1, 15) {
					bs[i].ids = append(bs[i].ids, evs[perm[j]].id) // the same event twice in a batch
				}
			}
			bs[i].ordered = r.Bool()
		}
		semnum, semsize := uint64(1000), uint64(1000000)
		if r.Chance(1, 8) {
			semnum = r.Pick(1, 2, 3, 5, 8)
		}
		if r.Chance(1, 10) {
			semsize = r.Pick(10, 50, 100, 300)
		}
		fmt.Fprintf(w, "cfg num=%s size=%s semnum=%d semsize=%d highest=%d\n", limStr(num), limStr(size), semnum, semsize, highest)
		if r.Chance(1, 2) {
			w.WriteString("conn 900,901\n")
		} else {
			w.WriteString("conn 900,901,902,1\n")
		}
		writeEvs(w, evs)
		ntags := 0
		for _, b := range bs {
			ntags += len(b.ids)
		}
		if ntags > 0 && r.Chance(1, 3) {
			for j := 1 + r.Intn(2); j > 0; j-- {
				kind := "failp"
				if r.Chance(1, 3) {
					kind = "failc"
				}
				fmt.Fprintf(w, "%s %d 0\n", kind, r.Intn(ntags))
			}
		}
		// plan: batches before `cut` are fully delivered, batch `cut` partially, later ones not at all
		cut := nb
		if r.Chance(1, 3) {
			cut = r.Intn(nb)
		}
		type deliv struct{ b, pos int }
		var planned [][]deliv
		for i, b := range bs {
			var d []deliv
			if i <= cut {
				for _, p := range r.Perm(len(b.ids)) {
					d = append(d, deliv{i, p})
				}
				if i == cut {
					d = d[:r.Intn(len(d)+1)]
				}
				if b.ordered && r.Chance(1, 3) { // in-order and reverse-order completions
					for x, y := 0, len(d)-1; x < y; x, y = x+1, y-1 {
						if d[x].pos < d[y].pos {
							d[x], d[y] = d[y], d[x]
						}
					}
				}
			}
			planned = append(planned, d)
		}
		// complete[i]: every result of batch i is going to be delivered by `chk` ops
		complete := make([]bool, nb)
		for i := range bs {
			complete[i] = len(planned[i]) == len(bs[i].ids)
		}
		// sometimes the very last result (of the last batch) arrives while Stop() is being called
		var mid *deliv
		if cut >= nb-1 && len(planned[nb-1]) > 0 && r.Chance(1, 3) {
			d := planned[nb-1][len(planned[nb-1])-1]
			planned[nb-1] = planned[nb-1][:len(planned[nb-1])-1]
			complete[nb-1] = false
			mid = &d
		}
		enq := 0
		for {
			var choices []int // batch indices with an undelivered planned result, -1 = enqueue the next batch
			if enq < nb {
				choices = append(choices, -1, -1)
			}
			for i := 0; i < enq; i++ {
				if len(planned[i]) > 0 {
					choices = append(choices, i)
				}
			}
			if len(choices) == 0 {
				break
			}
			ch := choices[r.Intn(len(choices))]
			if ch < 0 {
				o := 0
				if bs[enq].ordered {
					o = 1
				}
				fmt.Fprintf(w, "enq %d o=%d e=%s\n", enq, o, joinIDs(bs[enq].ids))
				enq++
			} else {
				d := planned[ch][0]
				planned[ch] = planned[ch][1:]
				e := 0
				if r.Chance(1, 8) {
					e = 6
				}
				fmt.Fprintf(w, "chk %d %d %d\n", d.b, d.pos, e)
			}
			if r.Chance(1, 4) {
				w.WriteString("sync\n")
				// an event (possibly one that is buffered as incomplete) gets connected by another route — only at a
				// point where the inserter is certainly idle: every enqueued batch was delivered completely, so `sync`
				// has waited for its `done` (a partially delivered batch may still be inside a process() call)
				idle := true
				for i := 0; i < enq; i++ {
					if len(planned[i]) > 0 || !complete[i] {
						idle = false
					}
				}
				if idle && enq > 0 && r.Chance(2, 3) {
					// preferably an event that was enqueued already (it may sit in the buffer as incomplete)
					b := bs[r.Intn(enq)]
					if len(b.ids) > 0 && r.Chance(3, 4) {
						fmt.Fprintf(w, "conn %d\n", b.ids[r.Intn(len(b.ids))])
					} else {
						fmt.Fprintf(w, "conn %d\n", evs[r.Intn(len(evs))].id)
					}
				}
			}
		}
		w.WriteString("sync\n")
		if mid != nil {
			fmt.Fprintf(w, "stopmid %d %d 0\n", mid.b, mid.pos)
		}
		w.WriteString("stop\n")
		if r.Chance(1, 8) {
			fmt.Fprintf(w, "enq %d o=0 e=%d\n", nb, evs[0].id)
		}
	}
}
