// Command h-cache: harness streams wlru (C29), sem and semtimed (C30), cprod (C27).
package main

import "verifharness/hlib"

func main() { hlib.Main() }
