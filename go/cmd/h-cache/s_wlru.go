package main

// Stream `wlru` (C29): every public operation of utils/simplewlru.Cache and utils/wlru.Cache,
// with the eviction callback log of each call.
//
//	new simple|sync <maxWeight> <maxSize>
//	add k v w | get k | peek k | contains k | coa k v w | poa k v w | remove k | rmoldest | oldest
//	keys | len | total | resize <maxWeight> <maxSize> | purge
//
// Output of every call: ok=<0|1> v=<returned numbers> cb=<key:value of every callback, in call order>.
// Purge walks a Go map: its callbacks are reported sorted by key.

import (
	. "verifharness/hlib"

	"bufio"
	"fmt"
	"sort"
	"strconv"
	"strings"
	"time"

	"github.com/Fantom-foundation/lachesis-base/utils/simplewlru"
	"github.com/Fantom-foundation/lachesis-base/utils/wlru"
)

func init() {
	Register("wlru", &Stream{Gen: genWlru, NewRunner: func() Runner { return &wlruRunner{} }})
}

type lruAPI interface {
	Add(key, value interface{}, weight uint) int
	Get(key interface{}) (interface{}, bool)
	Peek(key interface{}) (interface{}, bool)
	Contains(key interface{}) bool
	Remove(key interface{}) bool
	RemoveOldest() (interface{}, interface{}, bool)
	GetOldest() (interface{}, interface{}, bool)
	Keys() []interface{}
	Len() int
	Weight() uint
	Total() (uint, int)
	Resize(maxWeight uint, maxSize int) int
	Purge()
}

type wlruRunner struct {
	c    lruAPI
	sync *wlru.Cache
	cb   [][2]int
}

func (r *wlruRunner) out(ok bool, vals ...int) string {
	v := "-"
	if len(vals) > 0 {
		s := make([]string, len(vals))
		for i, x := range vals {
			s[i] = strconv.Itoa(x)
		}
		v = strings.Join(s, ",")
	}
	cb := "-"
	if len(r.cb) > 0 {
		s := make([]string, len(r.cb))
		for i, e := range r.cb {
			s[i] = fmt.Sprintf("%d:%d", e[0], e[1])
		}
		cb = strings.Join(s, ",")
	}
	return fmt.Sprintf("ok=%s v=%s cb=%s", B2s(ok), v, cb)
}

// lruHung is set when a call did not return: normalize spins forever when its condition stays
// true on an empty list. The spinning goroutine cannot be stopped, so every later line of the run
// is answered without touching the code.
var lruHung = false

// Step runs the calls that end in normalize under a watchdog.
func (r *wlruRunner) Step(line string) string {
	if lruHung {
		return "not-run (an earlier call never returned)"
	}
	switch Fields(line)[0] {
	case "add", "coa", "poa", "resize":
		done := make(chan string, 1)
		go func() {
			defer func() {
				if p := recover(); p != nil {
					done <- "panic " + fmt.Sprint(p)
				}
			}()
			done <- r.step(line)
		}()
		select {
		case out := <-done:
			return out
		case <-time.After(2 * time.Second):
			lruHung = true
			return "hung (the call did not return within 2 s)"
		}
	}
	return r.step(line)
}

func (r *wlruRunner) step(line string) string {
	f := Fields(line)
	r.cb = r.cb[:0]
	num := func(i int) int { return int(Atou(f[i])) }
	if f[0] == "new" {
		onEvict := func(k, v interface{}) { r.cb = append(r.cb, [2]int{k.(int), v.(int)}) }
		r.c, r.sync = nil, nil
		switch f[1] {
		case "simple":
			c, err := simplewlru.NewWithEvict(uint(num(2)), num(3), onEvict)
			if err != nil {
				return "err"
			}
			r.c = c
		default:
			c, err := wlru.NewWithEvict(uint(num(2)), num(3), onEvict)
			if err != nil {
				return "err"
			}
			r.c, r.sync = c, c
		}
		return "ok"
	}
	if r.c == nil {
		return "nocache"
	}
	c := r.c
	switch f[0] {
	case "add":
		return r.out(true, c.Add(num(1), num(2), uint(num(3))))
	case "get":
		if v, ok := c.Get(num(1)); ok {
			return r.out(true, v.(int))
		}
		return r.out(false)
	case "peek":
		if v, ok := c.Peek(num(1)); ok {
			return r.out(true, v.(int))
		}
		return r.out(false)
	case "contains":
		return r.out(c.Contains(num(1)))
	case "coa":
		if r.sync != nil {
			ok, ev := r.sync.ContainsOrAdd(num(1), num(2), uint(num(3)))
			return r.out(ok, ev)
		}
		// simplewlru has no ContainsOrAdd: the same two calls, as wlru makes them
		if c.Contains(num(1)) {
			return r.out(true, 0)
		}
		return r.out(false, c.Add(num(1), num(2), uint(num(3))))
	case "poa":
		if r.sync != nil {
			prev, ok, ev := r.sync.PeekOrAdd(num(1), num(2), uint(num(3)))
			if ok {
				return r.out(true, prev.(int), ev)
			}
			if prev != nil {
				return "previous-not-nil"
			}
			return r.out(false, 0, ev)
		}
		if prev, ok := c.Peek(num(1)); ok {
			return r.out(true, prev.(int), 0)
		}
		return r.out(false, 0, c.Add(num(1), num(2), uint(num(3))))
	case "remove":
		return r.out(c.Remove(num(1)))
	case "rmoldest":
		if k, v, ok := c.RemoveOldest(); ok {
			return r.out(true, k.(int), v.(int))
		}
		return r.out(false)
	case "oldest":
		if k, v, ok := c.GetOldest(); ok {
			return r.out(true, k.(int), v.(int))
		}
		return r.out(false)
	case "keys":
		ks := c.Keys()
		vals := make([]int, len(ks))
		for i, k := range ks {
			vals[i] = k.(int)
		}
		return r.out(true, vals...)
	case "len":
		return r.out(true, c.Len())
	case "total":
		w, n := c.Total()
		if w != c.Weight() {
			return "total-weight-mismatch"
		}
		return r.out(true, int(w), n)
	case "resize":
		return r.out(true, c.Resize(uint(num(1)), num(2)))
	case "purge":
		c.Purge()
		sort.Slice(r.cb, func(i, j int) bool { return r.cb[i][0] < r.cb[j][0] })
		return r.out(true)
	}
	return "bad-op"
}

// ---------------------------------------------------------------------------------------------

// lruMini selects the smallest alphabet (longest exhaustive sequences)
var lruMini = false

// op templates of the exhaustive part; %k = key slot
type lruTmpl struct {
	format string
	key    bool
}

func lruAlphabet(full bool) []lruTmpl {
	if !full && lruMini {
		return []lruTmpl{{"add %k %v 2", true}, {"add %k %v 3", true}, {"get %k", true}, {"rmoldest", false}, {"resize 4 2", false}}
	}
	a := []lruTmpl{
		{"add %k %v 1", true}, {"add %k %v 2", true}, {"add %k %v 5", true},
		{"get %k", true}, {"rmoldest", false}, {"resize 2 1", false}, {"purge", false},
	}
	if full {
		a = append(a, []lruTmpl{
			{"peek %k", true}, {"contains %k", true}, {"coa %k %v 2", true}, {"poa %k %v 1", true},
			{"remove %k", true}, {"oldest", false}, {"resize 9 3", false}, {"resize 4 0", false},
		}...)
	}
	return a
}

// enumLru writes every op sequence of the given length over the alphabet, keys 1..3 up to renaming
// (a sequence may use key j+1 only after key j has been used), until *budget cases are written.
func enumLru(w *bufio.Writer, alphabet []lruTmpl, length int, cfg string, caseNo *int, budget int) {
	ops := make([]string, 0, length)
	var rec func(depth, maxKey int)
	rec = func(depth, maxKey int) {
		if *caseNo >= budget {
			return
		}
		if depth == length {
			// wlru.Cache only adds a lock and the two ...OrAdd calls: sequences containing those run
			// against both caches, the others alternate
			kinds := []string{"simple", "sync"}[*caseNo%2 : *caseNo%2+1]
			for _, o := range ops {
				if strings.HasPrefix(o, "coa") || strings.HasPrefix(o, "poa") {
					kinds = []string{"simple", "sync"}
					break
				}
			}
			for _, kind := range kinds {
				fmt.Fprintf(w, "# case %d exhaustive len=%d\nnew %s %s\n", *caseNo, length, kind, cfg)
				for _, o := range ops {
					w.WriteString(o)
					w.WriteByte('\n')
				}
				w.WriteString("keys\ntotal\n")
				*caseNo++
			}
			return
		}
		for _, t := range alphabet {
			if !t.key {
				ops = append(ops, strings.ReplaceAll(t.format, "%v", strconv.Itoa(10+depth)))
				rec(depth+1, maxKey)
				ops = ops[:len(ops)-1]
				continue
			}
			top := maxKey + 1
			if top > 3 {
				top = 3
			}
			for k := 1; k <= top; k++ {
				o := strings.ReplaceAll(t.format, "%k", strconv.Itoa(k))
				ops = append(ops, strings.ReplaceAll(o, "%v", strconv.Itoa(10+depth)))
				mk := maxKey
				if k > mk {
					mk = k
				}
				rec(depth+1, mk)
				ops = ops[:len(ops)-1]
			}
		}
	}
	rec(0, 0)
}

func genWlru(r *Rand, n int, tier string, w *bufio.Writer) {
	c := 0
	// random part first: longer sequences, more keys, all configurations
	nRandom := n / 3
	if tier == "thorough" {
		nRandom = n / 8
	}
	for ; c < nRandom; c++ {
		kind := "simple"
		if r.Bool() {
			kind = "sync"
		}
		nKeys := 2 + r.Intn(5)
		weights := []int{0, 1, 1, 2, 2, 3, 5, 8}
		mw := r.Intn(12)
		ms := r.Intn(6)
		if r.Chance(1, 10) {
			ms = 100
		}
		if r.Chance(1, 10) {
			mw = 1000
		}
		fmt.Fprintf(w, "# case %d random\nnew %s %d %d\n", c, kind, mw, ms)
		length := 3 + r.Intn(40)
		for i := 0; i < length; i++ {
			k := 1 + r.Intn(nKeys)
			wt := weights[r.Intn(len(weights))]
			if r.Chance(1, 12) {
				wt = mw + r.Intn(3) // around the bound
			}
			switch r.Intn(24) {
			case 0, 1, 2, 3, 4, 5, 6:
				fmt.Fprintf(w, "add %d %d %d\n", k, 100+i, wt)
			case 7, 8, 9:
				fmt.Fprintf(w, "get %d\n", k)
			case 10:
				fmt.Fprintf(w, "peek %d\n", k)
			case 11:
				fmt.Fprintf(w, "contains %d\n", k)
			case 12, 13:
				fmt.Fprintf(w, "coa %d %d %d\n", k, 100+i, wt)
			case 14, 15:
				fmt.Fprintf(w, "poa %d %d %d\n", k, 100+i, wt)
			case 16:
				fmt.Fprintf(w, "remove %d\n", k)
			case 17:
				w.WriteString("rmoldest\n")
			case 18:
				w.WriteString("oldest\n")
			case 19, 20:
				w.WriteString("keys\n")
			case 21:
				if r.Bool() {
					w.WriteString("total\n")
				} else {
					w.WriteString("len\n")
				}
			case 22:
				fmt.Fprintf(w, "resize %d %d\n", r.Intn(12), r.Intn(6))
			case 23:
				if r.Chance(1, 3) {
					w.WriteString("purge\n")
				} else {
					fmt.Fprintf(w, "get %d\n", k)
				}
			}
		}
		w.WriteString("keys\ntotal\n")
	}
	// exhaustive part: core alphabet first (longer), then the full alphabet
	if tier == "thorough" {
		enumLru(w, lruAlphabet(false), 5, "4 2", &c, n)
		enumLru(w, lruAlphabet(true), 4, "4 2", &c, n)
		lruMini = true
		enumLru(w, lruAlphabet(false), 6, "5 3", &c, n)
		lruMini = false
	} else {
		enumLru(w, lruAlphabet(false), 3, "4 2", &c, n)
		enumLru(w, lruAlphabet(true), 3, "4 2", &c, n)
		enumLru(w, lruAlphabet(false), 4, "5 3", &c, n)
	}
}
