package main

// Streams of C30 (utils/datasemaphore).
//
// `sem` (diff mode): single-threaded call sequences with boundary amounts.
//
//	new <num> <size> | try n s | acq n s <timeout ms> | rel n s | term | proc
//	-> <events> held=<num>:<size>     events: r=<0|1>, warn=<processing>/<releasing>, or -
//
// `semtimed` (judge mode): real goroutines blocked in Acquire, on a logical clock in ms.
//
//	new <num> <size> | acquire <id> n s <timeout ms> | try <id> n s | release n s | tick <ms> | terminate | end
//	-> ret=<id:res[:elapsed ms],...> held=<num>:<size> [warn=1] [hung=<ids>] | noisy
//
// After every call the controller waits until each Acquire goroutine has either returned or is
// parked in sync.Cond.Wait (read off the goroutine dump), so the order of the semaphore's steps is
// the order of the op lines whatever the scheduler does. What remains real time is judged with
// slack by the model driver (timeout <= elapsed <= 2*timeout+200 ms). A run in which a deadline
// that the logical clock has not reached yet comes closer than 5 ms in real time (a slipped
// schedule), or in which a return is late, is repeated from the start of the scenario, up to 3
// attempts; a scenario that stays noisy is reported as `noisy` and skipped by the judge.

import (
	. "verifharness/hlib"

	"bufio"
	"fmt"
	"runtime"
	"sort"
	"strings"
	"sync"
	"time"

	"github.com/Fantom-foundation/lachesis-base/inter/dag"
	"github.com/Fantom-foundation/lachesis-base/inter/idx"
	"github.com/Fantom-foundation/lachesis-base/utils/datasemaphore"
)

func init() {
	Register("sem", &Stream{Gen: genSem, NewRunner: func() Runner { return &semRunner{} }})
	Register("semtimed", &Stream{Gen: genSemTimed, NewRunner: func() Runner { return &timedRunner{} }})
}

func metric(n, s string) dag.Metric { return dag.Metric{Num: idx.Event(uint32(Atou(n))), Size: Atou(s)} }

func fmtMetric(m dag.Metric) string { return fmt.Sprintf("%d:%d", uint32(m.Num), m.Size) }

// ---------------------------------------------------------------------------------------------

// semHung counts the Acquire calls that did not return (a waiter that nothing wakes up)
var semHung = 0

type semRunner struct {
	s     *datasemaphore.DataSemaphore
	warns []string
}

func (r *semRunner) fin(evs ...string) string {
	all := append(r.warns, evs...)
	r.warns = nil
	e := "-"
	if len(all) > 0 {
		e = strings.Join(all, " ")
	}
	return fmt.Sprintf("%s held=%s", e, fmtMetric(r.s.Processing()))
}

func (r *semRunner) Step(line string) string {
	f := Fields(line)
	if f[0] == "new" {
		r.warns = nil
		r.s = datasemaphore.New(metric(f[1], f[2]), func(received, processing, releasing dag.Metric) {
			if received != processing {
				r.warns = append(r.warns, "warn-received-differs")
			}
			r.warns = append(r.warns, "warn="+fmtMetric(processing)+"/"+fmtMetric(releasing))
		})
		return "ok"
	}
	if r.s == nil {
		return "nosem"
	}
	switch f[0] {
	case "try":
		return r.fin("r=" + B2s(r.s.TryAcquire(metric(f[1], f[2]))))
	case "acq":
		// patience: 3 s, as long as nothing ever hung in this run (always, on a correct tree); once three
		// calls have hung for 3 s, later ones are given 50 ms so that a broken tree is not explored at 3 s a call
		patience := 3 * time.Second
		if semHung >= 3 {
			patience = 50 * time.Millisecond
		}
		done := make(chan bool, 1)
		s := r.s
		go func() { done <- s.Acquire(metric(f[1], f[2]), time.Duration(Atou(f[3]))*time.Millisecond) }()
		select {
		case res := <-done:
			return r.fin("r=" + B2s(res))
		case <-time.After(patience):
			semHung++
			return "hung (Acquire with a timeout of " + f[3] + " ms did not return)"
		}
	case "rel":
		r.s.Release(metric(f[1], f[2]))
		return r.fin()
	case "term":
		r.s.Terminate()
		return r.fin()
	case "proc":
		return r.fin()
	}
	return "bad-op"
}

func genSem(r *Rand, n int, tier string, w *bufio.Writer) {
	const m32, m64 = uint64(1)<<32 - 1, ^uint64(0)
	for c := 0; c < n; c++ {
		capN := r.Pick(0, 1, 10, 100, 100, 1<<31, m32-1, m32)
		capS := r.Pick(0, 1, 1000, 1000, 1<<63, m64-1, m64)
		fmt.Fprintf(w, "# case %d\nnew %d %d\n", c, capN, capS)
		num := func() uint64 {
			switch r.Intn(8) {
			case 0:
				return m32 - uint64(r.Intn(14)) // wraps past small held amounts
			case 1:
				return (capN + uint64(r.Intn(3)) + m32) % (m32 + 1) // cap-1 .. cap+1
			case 2:
				return 0
			case 3:
				return r.Pick(1<<31, 1<<31+1, 1<<31-1)
			}
			return uint64(r.Intn(12))
		}
		size := func() uint64 {
			switch r.Intn(8) {
			case 0:
				return m64 - uint64(r.Intn(14))
			case 1:
				return capS + uint64(r.Intn(3)) - 1
			case 2:
				return 0
			case 3:
				return r.Pick(1<<63, 1<<63+1, 1<<63-1)
			}
			return uint64(r.Intn(300))
		}
		small := func() (uint64, uint64) { return uint64(r.Intn(12)), uint64(r.Intn(300)) }
		length := 4 + r.Intn(16)
		for i := 0; i < length; i++ {
			a, b := num(), size()
			if r.Chance(1, 2) {
				a, b = small()
			} else if r.Chance(1, 3) {
				_, b = small() // only one component at a boundary
			} else if r.Chance(1, 3) {
				a, _ = small()
			}
			switch x := r.Intn(20); {
			case x < 7:
				fmt.Fprintf(w, "try %d %d\n", a, b)
			case x < 11:
				fmt.Fprintf(w, "acq %d %d %d\n", a, b, r.Pick(0, 0, 1, 2))
			case x < 17:
				fmt.Fprintf(w, "rel %d %d\n", a, b)
			case x < 18 && i > length/2:
				w.WriteString("term\n")
			default:
				w.WriteString("proc\n")
			}
		}
	}
}

// ---------------------------------------------------------------------------------------------

type tWaiter struct {
	id       int
	timeout  time.Duration
	start    time.Time
	deadline int // logical, ms
	done     chan struct{}
	res      bool
	end      time.Time
	reported bool
}

func (w *tWaiter) isDone() bool {
	select {
	case <-w.done:
		return true
	default:
		return false
	}
}

type timedRunner struct {
	s        *datasemaphore.DataSemaphore
	mu       sync.Mutex
	warns    int
	waiters  []*tWaiter
	logical  int
	baseline int
	history  []string // op lines of this case
	sigs     []string // their outputs without the elapsed times
	noisy    bool
}

const guard = 5 * time.Millisecond

// blockedInAcquire counts the goroutines parked in sync.Cond.Wait inside DataSemaphore.Acquire.
func blockedInAcquire() int {
	buf := make([]byte, 1<<18)
	buf = buf[:runtime.Stack(buf, true)]
	n := 0
	for _, g := range strings.Split(string(buf), "\n\n") {
		nl := strings.IndexByte(g, '\n')
		if nl < 0 {
			continue
		}
		if strings.Contains(g[:nl], "sync.Cond.Wait") && strings.Contains(g[nl:], "datasemaphore.(*DataSemaphore).Acquire") {
			n++
		}
	}
	return n
}

func (r *timedRunner) pending() int {
	n := 0
	for _, w := range r.waiters {
		if !w.isDone() {
			n++
		}
	}
	return n
}

// settle waits until every Acquire goroutine of this case has returned or is parked.
func (r *timedRunner) settle() bool {
	limit := time.Now().Add(2 * time.Second)
	for i := 0; ; i++ {
		runtime.Gosched()
		n1 := r.pending()
		b := blockedInAcquire() - r.baseline
		n2 := r.pending()
		if n1 == n2 && b == n1 {
			return true
		}
		if time.Now().After(limit) {
			return false
		}
		if i > 2 {
			time.Sleep(50 * time.Microsecond)
		}
	}
}

func (r *timedRunner) reset() {
	r.cleanup()
	r.waiters = nil
	r.logical = 0
	r.warns = 0
	r.s = nil
}

// cleanup wakes whatever is still blocked on the old semaphore and waits for it to go away.
func (r *timedRunner) cleanup() {
	if r.s != nil {
		r.s.Terminate()
		r.s.Release(dag.Metric{Num: ^idx.Event(0), Size: ^uint64(0)})
		var latest time.Time
		for _, w := range r.waiters {
			if d := w.start.Add(w.timeout); d.After(latest) {
				latest = d
			}
		}
		limit := latest.Add(100 * time.Millisecond)
		if min := time.Now().Add(20 * time.Millisecond); limit.Before(min) {
			limit = min
		}
		for r.pending() > 0 && time.Now().Before(limit) {
			time.Sleep(200 * time.Microsecond)
		}
	}
	r.baseline = blockedInAcquire()
}

func (r *timedRunner) Close() { r.reset() }

// exec runs one op; returns the output line, its timing-free signature and whether the run must be repeated.
func (r *timedRunner) exec(line string) (out, sig string, again bool) {
	f := Fields(line)
	if f[0] == "new" {
		r.reset()
		r.s = datasemaphore.New(metric(f[1], f[2]), func(_, _, _ dag.Metric) {
			r.mu.Lock()
			r.warns++
			r.mu.Unlock()
		})
		return "ok", "ok", false
	}
	if r.s == nil {
		return "nosem", "nosem", false
	}
	// requests that were blocked when the op started and whose logical deadline is not reached by it
	var mustStay []*tWaiter
	warns0 := r.warns
	var hung []string
	timed := false
	awaitExpired := func() {
		for _, w := range r.waiters {
			if w.isDone() || w.deadline > r.logical {
				continue
			}
			limit := w.start.Add(2*w.timeout + 300*time.Millisecond)
			select {
			case <-w.done:
			case <-time.After(time.Until(limit)):
				hung = append(hung, fmt.Sprint(w.id))
			}
		}
	}
	markStay := func() {
		for _, w := range r.waiters {
			if !w.isDone() && w.deadline > r.logical {
				mustStay = append(mustStay, w)
			}
		}
	}
	switch f[0] {
	case "acquire":
		markStay()
		w := &tWaiter{id: int(Atou(f[1])), timeout: time.Duration(Atou(f[4])) * time.Millisecond, done: make(chan struct{}),
			deadline: r.logical + int(Atou(f[4]))}
		m, s := metric(f[2], f[3]), r.s
		r.waiters = append(r.waiters, w)
		w.start = time.Now()
		go func() {
			w.res = s.Acquire(m, w.timeout)
			w.end = time.Now()
			close(w.done)
		}()
		if w.timeout > 0 {
			mustStay = append(mustStay, w)
		}
	case "try":
		markStay()
		w := &tWaiter{id: int(Atou(f[1])), done: make(chan struct{}), start: time.Now()}
		w.res = r.s.TryAcquire(metric(f[2], f[3]))
		w.end = time.Now()
		close(w.done)
		r.waiters = append(r.waiters, w)
	case "release":
		markStay()
		r.s.Release(metric(f[1], f[2]))
	case "terminate":
		markStay()
		r.s.Terminate()
	case "tick":
		timed = true
		r.logical += int(Atou(f[1]))
		markStay()
		time.Sleep(time.Duration(Atou(f[1])) * time.Millisecond)
		awaitExpired()
	case "end":
		timed = true
		r.logical += 1000000
		awaitExpired()
	default:
		return "bad-op", "bad-op", false
	}
	if !r.settle() {
		// goroutines neither returned nor parked after 2 s: the machine, not the semaphore
		return "noisy", "stuck", true
	}
	now := time.Now()
	for _, w := range mustStay {
		// the logical clock says this request's deadline is still ahead: real time must agree
		if now.After(w.start.Add(w.timeout - guard)) {
			again = true
			out = "noisy"
		}
	}
	var fresh []*tWaiter
	for _, w := range r.waiters {
		if !w.reported && w.isDone() {
			w.reported = true
			fresh = append(fresh, w)
		}
	}
	sort.SliceStable(fresh, func(i, j int) bool { return fresh[i].end.Before(fresh[j].end) })
	rets, sigRets := []string{}, []string{}
	for _, w := range fresh {
		el := w.end.Sub(w.start)
		item := fmt.Sprintf("%d:%s", w.id, B2s(w.res))
		sigRets = append(sigRets, item)
		if timed {
			item += fmt.Sprintf(":%d", el/time.Millisecond)
			if !w.res && el > 2*w.timeout+200*time.Millisecond {
				again = true // late: maybe the machine, maybe the code — decided after the retries
			}
		}
		rets = append(rets, item)
	}
	if len(hung) > 0 {
		again = true
	}
	join := func(l []string) string {
		if len(l) == 0 {
			return "-"
		}
		return strings.Join(l, ",")
	}
	sort.Strings(sigRets)
	tail := " held=" + fmtMetric(r.s.Processing())
	r.mu.Lock()
	if r.warns > warns0 {
		tail += " warn=1"
	}
	r.mu.Unlock()
	if len(hung) > 0 {
		tail += " hung=" + join(hung)
	}
	sig = "ret=" + join(sigRets) + tail
	if out == "noisy" {
		return out, sig, true
	}
	return "ret=" + join(rets) + tail, sig, again
}

// timedHung: a blocked request was still blocked past 2*timeout+300 ms in all three attempts of a
// scenario; the remaining scenarios are not run (each would cost seconds and the finding is made).
var timedHung = false

func (r *timedRunner) Step(line string) string {
	if r.noisy {
		return "noisy"
	}
	if timedHung && len(r.history) == 0 {
		r.noisy = true
		return "noisy"
	}
	out, sig, again := r.exec(line)
	for attempt := 1; again && attempt < 3; attempt++ {
		// repeat the scenario from its start
		ok := true
		for i, l := range r.history {
			_, s, a := r.exec(l)
			if a || s != r.sigs[i] {
				ok = false
				break
			}
		}
		if !ok {
			out, again = "noisy", true
			continue
		}
		out, sig, again = r.exec(line)
	}
	if out == "noisy" {
		r.noisy = true
	}
	if strings.Contains(out, " hung=") {
		timedHung = true
	}
	r.history = append(r.history, line)
	r.sigs = append(r.sigs, sig)
	return out
}

func genSemTimed(r *Rand, n int, tier string, w *bufio.Writer) {
	for c := 0; c < n; c++ {
		capN, capS := uint64(4+r.Intn(8)), uint64(100*(1+r.Intn(10)))
		fmt.Fprintf(w, "# case %d\nnew %d %d\n", c, capN, capS)
		heldN := uint64(0) // rough shadow, only used to aim the amounts
		id, blocked, budget := 0, 0, 150
		terminated := false
		length := 4 + r.Intn(7)
		for i := 0; i < length; i++ {
			timeout := 20 + 10*r.Intn(4)
			switch x := r.Intn(16); {
			case x < 3: // fill
				a := 1 + uint64(r.Intn(int(capN)))
				fmt.Fprintf(w, "acquire %d %d %d %d\n", id, a, a*10, timeout)
				if heldN+a <= capN {
					heldN += a
				} else {
					blocked++
				}
				id++
			case x < 7 && blocked < 3: // a request that has to wait (or just fits)
				free := capN - heldN
				a := free + uint64(r.Intn(3))
				if a == 0 || a > capN {
					a = capN
				}
				fmt.Fprintf(w, "acquire %d %d %d %d\n", id, a, uint64(r.Intn(int(capS)+1)), timeout)
				if heldN+a <= capN {
					heldN += a
				} else {
					blocked++
				}
				id++
			case x < 8: // beyond the capacity in one component, incl. amounts that would wrap
				switch r.Intn(4) {
				case 0:
					fmt.Fprintf(w, "acquire %d %d %d %d\n", id, capN+1+uint64(r.Intn(3)), 1, timeout)
				case 1:
					fmt.Fprintf(w, "acquire %d %d %d %d\n", id, 1, capS+1+uint64(r.Intn(3)), timeout)
				case 2:
					fmt.Fprintf(w, "acquire %d %d %d %d\n", id, uint64(1)<<32-1-uint64(r.Intn(6)), 1, timeout)
				default:
					fmt.Fprintf(w, "acquire %d %d %d %d\n", id, 1, ^uint64(0)-uint64(r.Intn(6)), timeout)
				}
				id++
			case x < 9:
				fmt.Fprintf(w, "try %d %d %d\n", id, 1+r.Intn(4), r.Intn(50))
				id++
			case x < 12:
				a := uint64(1 + r.Intn(int(capN)))
				if r.Chance(1, 6) {
					a = capN + 5 // over-release
				}
				fmt.Fprintf(w, "release %d %d\n", a, a*10+uint64(r.Intn(30)))
				if a >= heldN {
					heldN = 0
				} else {
					heldN -= a
				}
				blocked = 0
			case x < 15:
				t := 10 * (1 + r.Intn(4))
				if budget >= t {
					budget -= t
					fmt.Fprintf(w, "tick %d\n", t)
				}
			default:
				if i > length/2 && !terminated {
					terminated = true
					w.WriteString("terminate\n")
				}
			}
		}
		w.WriteString("end\n")
	}
}
