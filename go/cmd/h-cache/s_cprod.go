package main

// Stream `cprod` (C27): kvdb/cachedproducer.Wrap and WrapAll over a fake producer that logs every
// call it receives (OpenDB, and Close/Drop of the stores it handed out).
//
//	new wrap|wrapall
//	open <name> [fail]   -> h=<handle> same=<first handle that is the same Go object> gen=<underlying store id> ev=<calls>
//	                        | err ev=<calls>            (fail: the underlying OpenDB returns an error)
//	close <handle>       -> err=<0|1> ev=<calls>
//	drop <handle>        -> ev=<calls>

import (
	. "verifharness/hlib"

	"bufio"
	"errors"
	"fmt"
	"strings"

	"github.com/Fantom-foundation/lachesis-base/kvdb"
	"github.com/Fantom-foundation/lachesis-base/kvdb/cachedproducer"
	"github.com/Fantom-foundation/lachesis-base/kvdb/memorydb"
)

func init() {
	Register("cprod", &Stream{Gen: genCprod, NewRunner: func() Runner { return &cprodRunner{} }})
}

type fakeStore struct {
	kvdb.Store
	name string
	id   int
	p    *fakeProducer
}

func (s *fakeStore) Close() error {
	s.p.log = append(s.p.log, fmt.Sprintf("close:%s:%d", s.name, s.id))
	return nil
}

func (s *fakeStore) Drop() {
	s.p.log = append(s.p.log, fmt.Sprintf("drop:%s:%d", s.name, s.id))
}

// fakeProducer implements kvdb.FullDBProducer.
type fakeProducer struct {
	log      []string
	next     int
	failNext bool
}

func (p *fakeProducer) OpenDB(name string) (kvdb.Store, error) {
	if p.failNext {
		p.failNext = false
		p.log = append(p.log, "openfail:"+name)
		return nil, errors.New("fake open failure")
	}
	s := &fakeStore{Store: memorydb.New(), name: name, id: p.next, p: p}
	p.next++
	p.log = append(p.log, fmt.Sprintf("open:%s:%d", name, s.id))
	return s, nil
}
func (p *fakeProducer) Names() []string                                    { return nil }
func (p *fakeProducer) NotFlushedSizeEst() int                             { return 0 }
func (p *fakeProducer) Flush(id []byte) error                              { return nil }
func (p *fakeProducer) Initialize(names []string, id []byte) ([]byte, error) { return id, nil }
func (p *fakeProducer) Close() error                                       { return nil }

type cprodRunner struct {
	fake    *fakeProducer
	prod    kvdb.DBProducer
	handles []kvdb.Store
}

func (r *cprodRunner) events() string {
	ev := "-"
	if len(r.fake.log) > 0 {
		ev = strings.Join(r.fake.log, ",")
	}
	r.fake.log = r.fake.log[:0]
	return ev
}

func (r *cprodRunner) Step(line string) string {
	f := Fields(line)
	if f[0] == "new" {
		r.fake = &fakeProducer{}
		r.handles = nil
		if f[1] == "wrap" {
			r.prod = cachedproducer.Wrap(r.fake)
		} else {
			r.prod = cachedproducer.WrapAll(r.fake)
		}
		return "ok"
	}
	if r.prod == nil {
		return "noproducer"
	}
	switch f[0] {
	case "open":
		r.fake.failNext = len(f) > 2 && f[2] == "fail"
		s, err := r.prod.OpenDB(f[1])
		r.fake.failNext = false
		if err != nil {
			return "err ev=" + r.events()
		}
		r.handles = append(r.handles, s)
		same := 0
		for i, h := range r.handles {
			if h == s {
				same = i
				break
			}
		}
		gen := -1
		if sw, ok := s.(*cachedproducer.StoreWithFn); ok {
			if fs, ok := sw.Store.(*fakeStore); ok {
				gen = fs.id
			}
		}
		return fmt.Sprintf("h=%d same=%d gen=%d ev=%s", len(r.handles)-1, same, gen, r.events())
	case "close":
		h := int(Atou(f[1]))
		if h >= len(r.handles) {
			return "bad-handle"
		}
		err := r.handles[h].Close()
		return fmt.Sprintf("err=%s ev=%s", B2s(err != nil), r.events())
	case "drop":
		h := int(Atou(f[1]))
		if h >= len(r.handles) {
			return "bad-handle"
		}
		r.handles[h].Drop()
		return "ev=" + r.events()
	}
	return "bad-op"
}

// enumCprod writes all op sequences of the given length over names 0,1 (the first opened name is 0)
// and the handles obtained so far.
func enumCprod(w *bufio.Writer, length int, withFail bool, caseNo *int, budget int) {
	ops := make([]string, 0, length)
	var rec func(depth, handles int, usedName1 bool)
	rec = func(depth, handles int, opened bool) {
		if *caseNo >= budget {
			return
		}
		if depth == length {
			for _, kind := range []string{"wrap", "wrapall"} {
				fmt.Fprintf(w, "# case %d exhaustive len=%d\nnew %s\n", *caseNo, length, kind)
				for _, o := range ops {
					w.WriteString(o)
					w.WriteByte('\n')
				}
				*caseNo++
			}
			return
		}
		names := 2
		if !opened {
			names = 1 // up to renaming
		}
		for n := 0; n < names; n++ {
			ops = append(ops, fmt.Sprintf("open %d", n))
			rec(depth+1, handles+1, true)
			ops = ops[:len(ops)-1]
			if withFail {
				ops = append(ops, fmt.Sprintf("open %d fail", n))
				rec(depth+1, handles, true)
				ops = ops[:len(ops)-1]
			}
		}
		for h := 0; h < handles; h++ {
			for _, o := range []string{"close", "drop"} {
				ops = append(ops, fmt.Sprintf("%s %d", o, h))
				rec(depth+1, handles, opened)
				ops = ops[:len(ops)-1]
			}
		}
	}
	rec(0, 0, false)
}

func genCprod(r *Rand, n int, tier string, w *bufio.Writer) {
	c := 0
	nRandom := n / 4
	for ; c < nRandom; c++ {
		kind := "wrap"
		if r.Bool() {
			kind = "wrapall"
		}
		fmt.Fprintf(w, "# case %d random\nnew %s\n", c, kind)
		names := 1 + r.Intn(3)
		handles := 0
		length := 4 + r.Intn(30)
		for i := 0; i < length; i++ {
			switch x := r.Intn(10); {
			case x < 4 || handles == 0:
				if r.Chance(1, 8) {
					fmt.Fprintf(w, "open %d fail\n", r.Intn(names))
				} else {
					fmt.Fprintf(w, "open %d\n", r.Intn(names))
					handles++
				}
			case x < 8:
				// mostly recent handles: balanced open/close patterns
				h := handles - 1 - r.Intn(handles)%(1+r.Intn(3))
				fmt.Fprintf(w, "close %d\n", h)
			default:
				fmt.Fprintf(w, "drop %d\n", r.Intn(handles))
			}
		}
	}
	if tier == "thorough" {
		enumCprod(w, 7, false, &c, n)
		enumCprod(w, 6, true, &c, n)
	} else {
		enumCprod(w, 5, false, &c, n)
		enumCprod(w, 4, true, &c, n)
	}
}
