// Package hlib is the shared plumbing of the harness commands (go/cmd/h-<family>), which drive the real lachesis-base code in-process.
//
//	harness gen <stream> <seed> <n> [tier]   -> writes an ops file (one op per line) to stdout
//	harness run <stream>                     -> reads ops on stdin, executes them on the real
//	                                            code, writes exactly one canonical output line
//	                                            per input line to stdout
//
// Lines starting with '#' are case separators / comments and are echoed verbatim by `run`.
// All random choices of `gen` derive from <seed> through one splitmix64 PRNG.
package hlib

import (
	"bufio"
	"fmt"
	"os"
	"runtime/debug"
	"sort"
	"strconv"
	"strings"
	"time"
)

// Stream is one correspondence stream.
type Stream struct {
	// Gen writes n cases to w. Each case starts with a line "# case <i> ...".
	Gen func(r *Rand, n int, tier string, w *bufio.Writer)
	// NewRunner returns a fresh per-case state machine; Step is called for every op line
	// of the case and must return exactly one output line (no newline).
	NewRunner func() Runner
}

type Runner interface {
	Step(line string) string
}

// RunnerFunc adapts a stateless function to Runner.
type RunnerFunc func(line string) string

func (f RunnerFunc) Step(line string) string { return f(line) }

// Closer may be implemented by runners that hold resources; Close is called at the end of a case.
type Closer interface {
	Close()
}

var streams = map[string]*Stream{}

// Register adds a stream (called from init functions of the family commands).
func Register(name string, s *Stream) { streams[name] = s }

// Main is the entry point of every family command.
func Main() {
	if len(os.Args) < 3 {
		usage()
	}
	s, ok := streams[os.Args[2]]
	if !ok {
		fmt.Fprintf(os.Stderr, "unknown stream %q\n", os.Args[2])
		names := make([]string, 0, len(streams))
		for n := range streams {
			names = append(names, n)
		}
		sort.Strings(names)
		fmt.Fprintf(os.Stderr, "streams: %s\n", strings.Join(names, " "))
		os.Exit(2)
	}
	out := bufio.NewWriterSize(os.Stdout, 1<<20)
	defer out.Flush()
	switch os.Args[1] {
	case "gen":
		if len(os.Args) < 5 {
			usage()
		}
		seed, err := strconv.ParseUint(os.Args[3], 10, 64)
		if err != nil {
			usage()
		}
		n, err := strconv.Atoi(os.Args[4])
		if err != nil {
			usage()
		}
		tier := "quick"
		if len(os.Args) > 5 {
			tier = os.Args[5]
		}
		s.Gen(NewRand(seed), n, tier, out)
	case "run":
		in := bufio.NewScanner(os.Stdin)
		in.Buffer(make([]byte, 1<<20), 1<<26)
		var r Runner
		hung, hangs := false, 0
		// run budget (VERIF_RUN_BUDGET seconds, 0 = none): cases that start after it is used up are not run
		// ("skipped-run-budget", not compared by bin/check): code that answers every op only after an internal
		// time-out would otherwise keep a check busy for hours
		started, overBudget := time.Now(), false
		budget := 0
		if v, err := strconv.Atoi(os.Getenv("VERIF_RUN_BUDGET")); err == nil && v > 0 {
			budget = v
		}
		closeR := func() {
			if c, ok := r.(Closer); ok && c != nil {
				safeClose(c)
			}
		}
		for in.Scan() {
			line := in.Text()
			if strings.HasPrefix(line, "#") {
				if !hung {
					closeR()
				}
				hung = hangs >= 2 // after two stuck cases the rest of the input is skipped as well
				if budget > 0 && time.Since(started) > time.Duration(budget)*time.Second {
					overBudget = true
				}
				r = nil
				out.WriteString(line)
				out.WriteByte('\n')
				continue
			}
			if overBudget {
				out.WriteString("skipped-run-budget\n")
				continue
			}
			if hung {
				// the runner of this case is stuck in an earlier op: nothing more can be asked of it
				out.WriteString("skipped-after-hang\n")
				continue
			}
			if r == nil {
				r = s.NewRunner()
			}
			// watchdog: an op of the real code that does not return (deadlock, lost wake-up) becomes the
			// output line "hang"; the rest of the case is skipped and the next case gets a fresh runner
			resCh := make(chan string, 1)
			go func(r Runner, line string) { resCh <- safeStep(r, line) }(r, line)
			select {
			case res := <-resCh:
				out.WriteString(res)
			case <-time.After(opTimeout()):
				out.WriteString("hang")
				hung = true
				hangs++
			}
			out.WriteByte('\n')
		}
		if !hung {
			closeR()
		}
	default:
		usage()
	}
}

// opTimeout is the watchdog limit for one op (VERIF_OP_TIMEOUT seconds, default 40)
func opTimeout() time.Duration {
	if v, err := strconv.Atoi(os.Getenv("VERIF_OP_TIMEOUT")); err == nil && v > 0 {
		return time.Duration(v) * time.Second
	}
	return 40 * time.Second
}

// safeClose closes a runner; a Close that panics or does not return (e.g. a Stop waiting for a goroutine
// that is stuck) is abandoned after the watchdog limit
func safeClose(c Closer) {
	done := make(chan struct{})
	go func() {
		defer close(done)
		defer func() { _ = recover() }()
		c.Close()
	}()
	select {
	case <-done:
	case <-time.After(opTimeout()):
	}
}

// safeStep converts a panic of the real code into an output line (properties such as "never
// panics" are then decided by the comparison with the model, which never prints "panic").
func safeStep(r Runner, line string) (res string) {
	defer func() {
		if p := recover(); p != nil {
			msg := fmt.Sprint(p)
			if os.Getenv("VERIF_DEBUG") != "" {
				fmt.Fprintf(os.Stderr, "panic on %q: %v\n%s\n", line, p, debug.Stack())
			}
			msg = strings.ReplaceAll(msg, "\n", " ")
			if len(msg) > 80 {
				msg = msg[:80]
			}
			res = "panic " + msg
		}
	}()
	return r.Step(line)
}

func usage() {
	fmt.Fprintln(os.Stderr, "usage: harness gen <stream> <seed> <n> [tier] | harness run <stream>")
	os.Exit(2)
}

// ---------------------------------------------------------------------------------------------

// Rand is a splitmix64 PRNG.
type Rand struct{ s uint64 }

func NewRand(seed uint64) *Rand {
	// hash the seed first: consecutive seeds must not give shifted copies of one sequence
	z := seed ^ 0xD6E8FEB86659FD93
	z = (z ^ (z >> 32)) * 0xD6E8FEB86659FD93
	z = (z ^ (z >> 32)) * 0xD6E8FEB86659FD93
	z ^= z >> 32
	return &Rand{s: z}
}

func (r *Rand) U64() uint64 {
	r.s += 0x9E3779B97F4A7C15
	z := r.s
	z = (z ^ (z >> 30)) * 0xBF58476D1CE4E5B9
	z = (z ^ (z >> 27)) * 0x94D049BB133111EB
	return z ^ (z >> 31)
}

// Intn returns a value in [0,n).
func (r *Rand) Intn(n int) int {
	if n <= 0 {
		return 0
	}
	return int(r.U64() % uint64(n))
}

func (r *Rand) Bool() bool { return r.U64()&1 == 1 }

// Chance returns true with probability num/den.
func (r *Rand) Chance(num, den int) bool { return r.Intn(den) < num }

// Pick returns one of the values.
func (r *Rand) Pick(vals ...uint64) uint64 { return vals[r.Intn(len(vals))] }

// Perm returns a random permutation of 0..n-1.
func (r *Rand) Perm(n int) []int {
	p := make([]int, n)
	for i := range p {
		p[i] = i
	}
	for i := n - 1; i > 0; i-- {
		j := r.Intn(i + 1)
		p[i], p[j] = p[j], p[i]
	}
	return p
}

// Around returns a value near one of the boundary points (±2), or a uniformly random one.
func (r *Rand) Around(bits uint, points ...uint64) uint64 {
	mask := uint64(1)<<bits - 1
	if bits >= 64 {
		mask = ^uint64(0)
	}
	if r.Chance(1, 4) {
		return r.U64() & mask
	}
	p := points[r.Intn(len(points))]
	d := uint64(r.Intn(5))
	return (p + d - 2) & mask
}

// ---------------------------------------------------------------------------------------------
// small parsing helpers shared by the streams

func Fields(line string) []string { return strings.Fields(line) }

func Atou(s string) uint64 {
	v, err := strconv.ParseUint(s, 10, 64)
	if err != nil {
		panic("bad number " + s)
	}
	return v
}

func Atoi(s string) int64 {
	v, err := strconv.ParseInt(s, 10, 64)
	if err != nil {
		panic("bad number " + s)
	}
	return v
}

func HexOf(b []byte) string {
	if len(b) == 0 {
		return "-"
	}
	const digits = "0123456789abcdef"
	out := make([]byte, 0, 2*len(b))
	for _, c := range b {
		out = append(out, digits[c>>4], digits[c&15])
	}
	return string(out)
}

func Unhex(s string) []byte {
	if s == "-" {
		return []byte{}
	}
	out := make([]byte, len(s)/2)
	for i := range out {
		v, err := strconv.ParseUint(s[2*i:2*i+2], 16, 8)
		if err != nil {
			panic("bad hex " + s)
		}
		out[i] = byte(v)
	}
	return out
}

func B2s(b bool) string {
	if b {
		return "1"
	}
	return "0"
}

func JoinU(vs []uint64, sep string) string {
	ss := make([]string, len(vs))
	for i, v := range vs {
		ss[i] = strconv.FormatUint(v, 10)
	}
	return strings.Join(ss, sep)
}

// splitList parses "a,b,c" ("-" or "" = empty).
func SplitList(s string) []string {
	if s == "-" || s == "" {
		return nil
	}
	return strings.Split(s, ",")
}
