"""Registry fragment: family `kv` (C22 flushable store, C23 backends and wrappers, C24 tables)."""
FAMILY = "kv"

# The three streams share one protocol (go/cmd/h-kv/s_kv.go, lean/Driver/Kv.lean): a tree of named
# stores (table / flushable / lazy flushable / synced) over one real backend (memory, LevelDB, Pebble);
# every iterator is drained at creation. The driver answers from Spec.KV (base), Model.Table and
# Model.Flushable (overlay + the transliterated merged iterator over the inner store's own iterator).
STREAMS = {
    "kv": {"quick": 3000, "thorough": 100000, "trivial": ["bad-op", "nostore", "nosnap", "noflushable", "nolazy"], "timeout": 3600},
    "kvflush": {"quick": 6000, "thorough": 120000, "trivial": ["bad-op", "nostore", "nosnap", "noflushable", "nolazy"], "timeout": 3600},
    "kvtable": {"quick": 4000, "thorough": 80000, "trivial": ["bad-op", "nostore", "nosnap", "noflushable", "nolazy"], "timeout": 3600},
}

_TRUSTED_COMMON = [
    "go/cmd/extract (go/ast printer of the flushable iterator conditions, noPrefix / incPrefix length tests, pebble bytesPrefixRange / bytesPrefix / iterator.Next conditions)",
    "contract: emirpasic/gods red-black tree = sorted association list (Ceiling, Left, in-order successor)",
    "contract: goleveldb and pebble = ordered maps with range iteration, batches and snapshots (tied by the streams only)",
]

PROPS = {
    "C22": {
        "props": ["LachesisVerif.Props.C22"],
        "streams": ["kvflush"],
        "claim": "Proof: for every sorted underlying store, every tree with tombstones, every prefix (nil or not) and start key, draining a fresh "
                 "flushable iterator (tree cursor, parent cursor, prevKey, tombstones, prefix cut-off transliterated; all comparison conditions "
                 "regenerated from flushable.go) equals iterSpec of the view (iter_drain_eq_spec, by induction on the two cursors with the prevKey "
                 "invariant); Get/Has read the view; Put/Delete/batch = insert/erase on the view; flush makes the underlying store the view and "
                 "empties the tree, drop restores the underlying view, NotFlushedPairs = number of distinct keys written since, for every "
                 "operation sequence (refinement run_refines); snapshots read the view of their creation whatever follows. "
                 "Correspondence: real Flushable / LazyFlushable over memorydb, LevelDB, Pebble, bare and under table/synced, incl. NotFlushedSizeEst.",
        "note": "Trusted: Lean kernel, extractor, harness/diff, gods tree contract (nextNode's parent-pointer walk = in-order successor). "
                "Iterators are drained at creation; iterators kept across later writes (weakly consistent in the code) are outside theorem and stream. "
                "The underlying store's own iterator is assumed to obey iterSpec (C23).",
        "trusted": _TRUSTED_COMMON + ["harness stream kvflush"],
        "assumptions": ["iterators are drained without intervening writes (DESIGN 2.6)",
                        "the underlying store's iterator yields iterSpec of its content (contract shared with C23)",
                        "keys and values are non-nil byte strings (a nil and an empty key are the same key)"],
    },
    "C23": {
        "props": ["LachesisVerif.Props.C23"],
        "streams": ["kv"],
        "claim": "Proof of the repository's glue + composition: bytesPrefixRange (LevelDB and Pebble variants incl. nil/nil and empty lower bound) "
                 "selects exactly iterSpec's keys; Pebble's iterator wrapper yields every item once in order; table and flushable batch replays hand "
                 "the writer the recorded operations in order; composition theorem: if a store refines Spec.KV then so do table, flushable "
                 "(incl. Flush / DropNotFlushed) and synced over it, hence memorydb (= flushable over an empty store) and every stacking. "
                 "The engines goleveldb / pebble themselves are NOT proved: covered by correspondence only - stream kv runs every op sequence "
                 "(puts, deletes, batches, replays, gets, has, prefix/start iterations, snapshots, empty values) against memory, LevelDB and Pebble, "
                 "bare and under table / flushable / lazy flushable / synced stackings up to depth 3, against the Spec.KV-based model.",
        "note": "Trusted: Lean kernel, extractor, harness/diff, engine contracts. Found by this stream: Replay of a goleveldb batch holding an empty "
                "value into a flushable writer lost the value and swallowed the writer's error (repaired in /repo 228cf31, regression case "
                "corpus/kv/leveldb-replay-empty.ops); syncedBatch.Replay into a store behind the same mutex self-deadlocks (known finding, "
                "corpus/kv/synced-replay-self.ops, executed under a 2 s guard, not generated at random).",
        "trusted": _TRUSTED_COMMON + ["harness stream kv"],
        "assumptions": ["byte strings have entries < 256 (hypothesis IsBytes of the range theorems)",
                        "LevelDB / Pebble behave as ordered maps (not proved; sampled by the stream)"],
    },
    "C24": {
        "props": ["LachesisVerif.Props.C24"],
        "streams": ["kvtable"],
        "claim": "Proof: get, has, put, delete, batch write, replay (noPrefix undoes prefixed), snapshot and iteration with inner prefix/start all "
                 "commute with tableView p; writes through a table change no key without the prefix; tables whose prefixes are not prefixes of one "
                 "another do not observe each other's writes; nested tables compose (tableView p2 . tableView p1 = tableView (p1++p2)); "
                 "incPrefix_spec: every key with prefix p lies in [p, incPrefix p) and Compact(nil,nil), also through nested tables with the "
                 "all-0xff fall-through, passes a range covering every key of the table. Correspondence: real table.Table trees (siblings, nested, "
                 "under synced / flushable) over all backends, underlying dumps, recorded Compact ranges, incPrefix / noPrefix / bytesPrefixRange via verif exports.",
        "note": "Trusted: Lean kernel, extractor, harness/diff. incPrefix is modelled as big-endian increment with carry; the math/big implementation "
                "is tied by the stream (hook kvdb/table/export_verif.go). Commutation of writes assumes a sorted (duplicate-free) underlying store.",
        "trusted": _TRUSTED_COMMON + ["harness stream kvtable", "hooks kvdb/table|leveldb|pebble/export_verif.go (re-exports, add-only)"],
        "assumptions": ["the underlying store is an ordered map (Spec.KV)"],
    },
}
