"""Registry fragment: family `multi` (C25 crash consistency, C26 multidb routing)."""
FAMILY = "multi"

STREAMS = {
    "route": {"quick": 4000, "thorough": 150000, "trivial": ["bad-op", "noprod", "nodb"]},
    "crash": {"quick": 2500, "thorough": 120000, "mode": "judge", "keep_prefix": 1, "trivial": ["bad-op", "nomode", "nobatch"]},
}

PROPS = {
    "C26": {
        "props": ["LachesisVerif.Props.C26"],
        "streams": ["route"],
        "claim": "Proof: RouteOf terminates on every router NewProducer returns (default route); NewProducer (sorted construction) and hence "
                 "RouteOf/OpenDB/Verify are independent of the Go map order of the routing table (any permutation; pre-fix order dependence kept "
                 "as a decide witness); for every sequence of OpenDB calls of any instances/tables from empty DBs: two different successfully "
                 "opened requests in one DB have tables neither a prefix of the other, hence disjoint table++key spaces; a request overlapping a "
                 "recorded one is refused; re-opening yields the same DB/table/flag and leaves the records untouched; Verify fails iff some "
                 "recorded request now routes to another type, name or table. Boolean kernels (exact-route test, pattern loop condition, "
                 "tablesConflicting, the three handleRoute tests, the three Verify tests) are regenerated from kvdb/multidb. "
                 "Correspondence: real NewProducer/RouteOf/OpenDB/Verify over random tables with overlapping %d/%s patterns, nested paths, "
                 "several instances per table, restarts, mutated tables, raw DB dumps.",
        "note": "Trusted: Lean kernel; go/ast extractor; harness/diff. fmt.Sscanf/Sprintf are modelled concretely for the fragment the tables "
                "use (%d, %s, literal text, no white space, no widths, no %%) and tied by the stream only; all RouteOf theorems hold for "
                "arbitrary matcher functions. rlp encoding of the record list and table.New prefixing are not modelled beyond "
                "'records = list', 'key = table ++ key' (C24 covers tables). DB drops are outside the model (records live in the DB).",
        "trusted": ["go/cmd/extract (exactRoute, tryNextPattern, tablesConflicting, recordFound/Reassigned/Conflicts, verify*Differs)",
                    "harness stream route + diff", "contract model of fmt.Sscanf/Sprintf on the %d/%s fragment"],
        "assumptions": ["routing table keys are distinct (Go map)", "requests/templates are ASCII without white space; only %d and %s verbs",
                        "the metadata (records) key is never written through a table store (property's exclusion)"],
    },
    "C25": {
        "props": ["LachesisVerif.Props.C25"],
        "streams": ["crash"],
        "claim": "Proof: C25_crash_consistent — for every history through SyncedPool (opens, puts, deletes, queued drops, flushes) or "
                 "flaggedproducer (opens, writes/batches, drops, flushes), every crash point k of the durable-op list and every order in which "
                 "the restart visits the surviving DBs, CheckDBsSynced reports an error, or returns nil with no user data anywhere, or returns "
                 "the clean mark of a flush that completed before the crash with every DB holding exactly the user data of that moment. "
                 "Shape: write discipline Reach (dirty mark before data, drop only if another DB is dirty or nothing remains, clean marks of one "
                 "fresh id in a row) + invariant 'all marks clean with one id => contents = snapshot' (reach_consistent), both producers obey "
                 "the discipline for all map-order oracles (pool_reach, flagged_reach), Reach is prefix closed. Negative witnesses (decide): the "
                 "two pre-fix orderings of D7 and the residual all-dropped case of the intermediate repair (6f78193 without 3bb25a4). Prefix bytes, mark layout, all "
                 "CheckDBsSynced conditions and the flagged-store dirty test are regenerated from the sources. "
                 "Explicit batch objects need no extra model op: filling a batch is not durable, so a batch filled before a Flush and written after it "
                 "is a FlagOp.write (pool: a run of puts) at the time of Write - already quantified over by the theorem; the stream checks that "
                 "the real code indeed emits nothing durable on batch Put/Delete and marks dirty on every Write (also for batches of only "
                 "empty values / only deletes; the harness batch ValueSize counts value bytes only, like leveldb/pebble). "
                 "Correspondence (judge): real SyncedPool/flaggedproducer over a journaling memory backend; model journal = real journal op "
                 "by op (oracles read off the real journal and checked to be permutations); for EVERY prefix the real Initialize over the "
                 "rebuilt DBs is compared with the model and P_C25 is evaluated on the real answer.",
        "note": "Trusted: Lean kernel; go/ast extractor; harness + judge driver (its executable P_C25 over the finite names/keys of a case is "
                "not proved equal to the Prop). Hypotheses of the theorem: pairwise distinct flush ids; oracles are enumerations of the Go maps; "
                "user keys differ from the flush-id key; every existing DB was opened through the producer. The residual hole of the first "
                "repair (a flush dropping >= 2 existing DBs while no wrapper remains wrote no dirty mark; fixed by 3bb25a4) is kept as the "
                "negative witness pool_all_dropped_violates and is generated by the stream. 'Flush completed' is defined intrinsically (the clean mark that makes every DB clean); the driver "
                "additionally demands that this point is the end of a Flush call. Durable ops include DB creation (more crash points than the "
                "property lists). Batches larger than IdealBatchSize are not generated (single batch per flushable).",
        "trusted": ["go/cmd/extract (DirtyPrefix, CleanPrefix, MarkFlushID value, CheckDBsSynced conditions x5, flaggedStore.modified test and mark)",
                    "harness stream crash (journaling in-memory kvdb.Store/DBProducer) + judge driver"],
        "assumptions": ["pairwise distinct flush ids", "user keys != flush-id key", "all existing DBs opened through the producer",
                        "disk/fs behaviour of real backends = their logical durable-operation order"],
    },
}
