"""Registry fragment: family `emitter` (C19, C20)."""
FAMILY = "emitter"

STREAMS = {
    # judge: the option order each strategy saw comes out of a Go map; the driver replays the model with the
    # logged orders/indices as oracle and checks the environment contract, the call count and the result
    "parents": {"quick": 400000, "thorough": 6000000, "mode": "judge", "trivial": ["bad-op"]},
    "qindex": {"quick": 40000, "thorough": 600000, "trivial": ["bad-op", "novals", "noevent", "dup", "ok"]},
}

PROPS = {
    "C19": {
        "props": ["LachesisVerif.Props.C19"],
        "streams": ["parents", "qindex"],
        "claim": "Proof: for every existing list, option list (overlaps, duplicates), number of strategies, strategy behaviour (any in-range "
                 "index) and map iteration order (any permutation of the remaining options): result = existing ++ added, |added| <= "
                 "#strategies, added are offered options not among the existing parents, pairwise distinct, and fewer additions than "
                 "strategies only if no option remains (loop condition regenerated); MetricStrategy.Choose returns an in-range index of "
                 "maximal metric for every metric list (update test regenerated), incl. all-zero. Correspondence (judge): real ChooseParents "
                 "with logging wrappers around fixed-index, real MetricStrategy and real RandomStrategy; the model replayed on the logged "
                 "option orders must make the same number of calls and return the same parents; each logged slice must be a permutation of "
                 "the model's remaining options; each deterministic strategy's index must equal the model's.",
        "note": "Trusted: Lean kernel; go/ast extractor; harness + judge driver. Event ids are numbers (equal numbers <=> equal hashes). "
                "A strategy answering out of range makes Go panic (index error): excluded by the contract `callsOk`.",
        "trusted": ["go/cmd/extract (ChooseParents loop condition, MetricStrategy.Choose update test)", "harness stream parents + judge (Driver/Emitter.lean)"],
        "assumptions": ["strategies return an index inside the option slice they are given"],
    },
    "C20": {
        "props": ["LachesisVerif.Props.C20"],
        "streams": ["qindex"],
        "claim": "Proof: wmedian.Of after sort.Slice (any permutation ordered by the regenerated less function, i.e. any tie order) returns "
                 "max{s | weight{i | seq_i >= s} >= stop} and never panics when 1 <= stop <= total < 2^32 (stop test and uint32 sum "
                 "regenerated); for every history of ProcessEvent/GetGlobalMedianSeqs/GetMetricOf: no panic, matrix[v][c] = observation of v "
                 "in the latest processed event of creator c, self vector from the latest self event, a clean state caches the medians of "
                 "the current matrix (dirty-flag coherence), GetGlobalMedianSeqs returns the medians by definition, GetMetricOf = sum_v "
                 "diff(median_v, self_v, candidate_v, v) mod 2^64 for an arbitrary diff function; fork value 2^31-2 exceeds every "
                 "sequence number basiccheck admits. Correspondence: real QuorumIndexer over a fake DagIndex with generator-chosen vectors "
                 "(forks, short/long vectors, unknown creators), matrix and self vector after every ProcessEvent, medians, metrics for four "
                 "diff functions (incl. uint64 wrap-around), SearchStrategy().Choose.",
        "note": "Trusted: Lean kernel; go/ast extractor; harness/diff. The DAG index is an input (merged highest-before vectors incl. fork "
                "marker are supplied by the harness); sort.Slice is a contract model (permutation ordered by less). The per-recache metric "
                "cache (wlru) is modelled as transparent; tied by the stream only.",
        "trusted": ["go/cmd/extract (seqOf fork test and value, loop conditions, sort less, wmedian sum and stop test, metric sum, dirty tests)",
                    "harness stream qindex (fake DagIndex)", "contract: sort.Slice returns a permutation ordered by less"],
        "assumptions": ["1 <= quorum <= total weight < 2^32 (C11: holds for every non-empty validator set)",
                        "GetMergedHighestBefore is a function of the event id"],
    },
}
