"""Registry fragment: family `conc` (C28)."""
FAMILY = "conc"

STREAMS = {
    # concurrent workloads on the real components, executed by the race-detector build of the harness
    # (bin/check builds build/h-conc-race with `go build -race -tags verif`); the recorded history is
    # judged for linearizability by the Lean driver. A history is scheduling dependent, so shrinking
    # re-executes the workload: kept (cheap), the init / ev / run lines are never removed.
    "conc": {"quick": 500, "thorough": 30000, "mode": "judge", "race": True, "timeout": 900,
             "keep_ops": ["init", "ev", "run"], "trivial": ["bad-op", "q", "ok"]},
}

PROPS = {
    "C28": {
        "props": ["LachesisVerif.Props.C28"],
        "streams": ["conc"],
        "claim": "Proof (i): lock_atomic_linearizable - in an interleaving semantics where every operation is invoke; acquire the object's "
                 "RW mutex (shared for read-only ops); body reading at the start and writing at the end of the section; release; return, every "
                 "well-formed history that respects mutual exclusion is linearizable w.r.t. the sequential specification: the critical sections "
                 "in release order are a sequential run producing exactly the returned values and the final state, each section lies inside its "
                 "call, hence real-time order of non-overlapping calls is respected (readers overlap and commute). Negative witness: without the "
                 "guards two increments lose an update. Proof (ii): lock_facts_ok - by decide over Gen/Locks.lean, regenerated from the Go source "
                 "by a go/ast pass on every run: every non-exempt exported method of Flushable, SyncedPool, wlru.Cache, DataSemaphore, EventsBuffer "
                 "takes the object's mutex first (Lock, or RLock and then writes no guarded field), releases it by defer or a paired unlock with no "
                 "return in between, does not wait inside and touches no guarded receiver field outside (own-method calls followed); D11's pre-fix "
                 "rows are rejected (d11_prefix_row_rejected). Search: generated concurrent workloads (2-6 goroutines x 5-30 ops, all public ops "
                 "incl. size/statistics accessors, iterators race-only) on the real code under the race detector; histories with invoke/return "
                 "stamps judged by a memoised DFS over linearisations against Model.Flushable / Model.Wlru / Model.Semaphore and a small buffer spec.",
        "note": "Partial by nature: the Go memory model and sync.(RW)Mutex are trusted; data-race freedom is searched (race detector), not proved; "
                "the step from a rowOk row to 'the method's effect is the model's step' rests on the correspondence streams. Outside the claim: "
                "cross-object atomicity (SyncedPool.Flush vs Puts on its stores = a sequence of per-store sections; the judge treats each store as "
                "its own object; pool NotFlushedSizeEst is not judged), iterators / snapshots' readers, DataSemaphore.Acquire as a blocking call "
                "(judged as the tryAcquire of its last section), life-cycle methods SyncedPool.Initialize/Close and Flushable.Close/Drop (not run "
                "concurrently), EventsBuffer.IsBuffered/Total while a PushEvent/Clear runs (judged only when nothing runs concurrently), goroutines "
                "started internally. The lock-fact analysis is syntactic (no aliasing, closures are analysed where they are written).",
        "trusted": ["go/cmd/extract/lockfacts.go (go/ast lock-pattern analysis; field classification table)",
                    "Go race detector; harness stream conc (stamps from one atomic counter); Lean judge Driver/Conc.lean",
                    "sync.Mutex / sync.RWMutex / sync.Cond semantics"],
        "assumptions": ["a held sync.RWMutex excludes writers from everybody and readers from writers (what Model.LockAtomic.run checks)",
                        "life-cycle methods (Initialize, Close, Drop) are not called concurrently with other operations",
                        "callbacks given to EventsBuffer do not call back into the buffer"],
    },
}
