"""Registry fragment: family `buffer` (C14 ordering buffer, C15 event processor)."""
FAMILY = "buffer"

# Both streams run in judge mode: the driver computes the model's line for every op, compares it with
# the implementation's line AND evaluates the property predicate (P_C14 / P_C15) on the implementation's
# own callback trace; the answer is "FAIL <violated clause> model=<model line>" on any difference.
STREAMS = {
    "buf": {"quick": 15000, "thorough": 300000, "mode": "judge", "trivial": ["bad-op", "nobuf", "ok"]},
    "proc": {"quick": 900, "thorough": 20000, "mode": "judge", "timeout": 3000,
             "trivial": ["bad-op", "noproc", "ok", "nobatch", "-", "timeout"]},
}

PROPS = {
    "C14": {
        "props": ["LachesisVerif.Props.C14"],
        "streams": ["buf"],
        "claim": "Proof (model of EventsBuffer with pushEvent exactly as written: stale snapshot, recheck flag, released guard; spill "
                 "condition regenerated from the source): for ALL sequences of pushes/outside connections/clears, all limits and all "
                 "Check/Process behaviours: (a) every Process has all parents connected, (b) no copy is processed twice or after its "
                 "Released, (c) no copy is released twice and after Clear every pushed copy has exactly one Released, (d) the spill "
                 "condition is false after every operation (= within limits for counts/bytes that fit Go's types), and the recursion "
                 "fuel |incompletes|+1 is never exhausted (C14_safety, C14_released_by_clear, C14_within_limits). (e) C14_liveness: "
                 "for every arrival sequence (any order, any duplication) of a parents-closed acyclic set with sufficient limits and "
                 "succeeding callbacks every event is processed. C14_defect_double_process: decide-checked witness that the pre-fix "
                 "code (no released guard) runs Process twice on a 3-event scenario. Correspondence: real dagordering.EventsBuffer, "
                 "random DAGs of 1-40 events, random / reverse / near-topological orders, ALL orders of DAGs up to 5 (quick) / 7 "
                 "(thorough) events, duplicates, limits from {0,1,small,half,all,inf}, failing Check/Process at chosen copies, "
                 "outside connections, clears; callback trace, return value and Total() per push compared, and P_C14 evaluated on "
                 "the implementation's trace.",
        "note": "Trusted: Lean kernel, go/ast extractor (spill loop condition), harness + judge driver. A pushed copy = one PushEvent "
                "call. Exists/Get = processed successfully or connected from outside. PushEvent/Clear hold the buffer mutex for their "
                "whole duration, so concurrent callers are modelled as a sequence of operations. The wlru behind `incompletes` has no cap of its own "
                "(MaxUint bytes / MaxInt entries since fix 52f91c5; on 32-bit platforms MaxInt = 2^31-1).",
        "trusted": ["go/cmd/extract (spillIncompletes loop condition)", "harness stream buf + judge driver (model line and P_C14 on the implementation's trace)"],
        "assumptions": ["concurrent PushEvent/Clear calls are serialised by the buffer's mutex (not exercised concurrently by the stream)"],
    },
    "C15": {
        "props": ["LachesisVerif.Props.C15"],
        "streams": ["proc"],
        "claim": "Proof (model = semaphore counters + process() + C14 buffer run by the single inserter; far-future constant/condition, "
                 "re-request condition, reassembly loop conditions, tryAcquire/Release conditions and arithmetic regenerated from the "
                 "source), for ALL sequences of Enqueue / check-result arrivals (any order, any interleaving of batches) / Stop and all "
                 "oracles: C15_released_exactly_once - after Stop every event has exactly as many Released as process() calls, "
                 "whatever its fate (processed, rejected, far-future, duplicate, connected, spilled), every buffer copy has exactly one "
                 "Released and the buffer is empty; C15_released_at_most_once - before Stop the difference is exactly the copies still "
                 "buffered; C15_ordered_batch_in_order / C15_unordered_batch_each_once - for every permutation of result arrivals a "
                 "batch hands each event to process() exactly once, ordered batches in batch order; C15_far_future_never_processed / "
                 "C15_rejected_never_processed - such events get their single Released inside process() and never reach the buffer "
                 "(bound shown tight); C15_semaphore_within_capacity - held <= capacity always; C15_semaphore_balanced - for every "
                 "operation sequence in which no (batch id, position) check result is delivered twice (predicate wfOps; guaranteed by "
                 "the real processor: one checkedC channel per batch, each check callback fires once) the semaphore's warning callback "
                 "(over-release) never fires, held = acquired - released (events and bytes) always, hence held = 0 once everything "
                 "acquired is released (invariant: held >= copies waiting in the buffer + what the pending inserter tasks will still "
                 "hand to process(), events and bytes; weighted release accounting of the C14 buffer); C15_double_delivery_warns - "
                 "decide-checked witness that without wfOps a doubly delivered result of an unordered batch fires the warning; "
                 "C15_semaphore_balanced_partial - the hypothesis-free conditional form (balance as long as the warning has not fired). "
                 "Partial by nature: goroutine "
                 "interleavings beyond the oracles (result arrival order, position of Stop). Correspondence: real dagprocessor.Processor "
                 "with CheckParentless results completed in harness-chosen order across several outstanding batches, small "
                 "buffer/semaphore limits, far-future boundary Lamports, failing checks, Stop with a half-delivered batch; callback "
                 "trace incl. HighestLamport, push order, notifyAnnounces, done() with semaphore/buffer readings, semaphore warning "
                 "callback, final semaphore amount compared; P_C15 on the implementation's trace (released at most once, exactly once "
                 "for finished batches after Stop, ordered batches in order, semaphore within capacity and balanced at Stop).",
        "note": "Trusted: Lean kernel, extractor, harness + judge driver. Synchronisation in the harness is by callbacks only "
                "(count of process() starts and done() calls enabled by the delivered results); Enqueue's Acquire is modelled at a "
                "quiescent moment (busy = does not fit after everything deliverable was handled; the harness uses a 250 ms semaphore "
                "timeout). At Stop only the first unfinished batch may have delivered results (otherwise Go's select makes the "
                "outcome random).",
        "trusted": ["go/cmd/extract (process(): maxLamportDiff, far-future and re-request conditions; Enqueue loop conditions; semaphore conditions)",
                    "harness stream proc + judge driver"],
        "assumptions": ["batch sizes and byte totals fit uint32/uint64", "CheckParentless calls `checked` exactly once per event",
                        "real goroutine interleavings beyond the oracle are covered by the stream only"],
    },
}
