"""Registry fragment: family `cache` (C27 caching producer, C29 weighted LRU, C30 events semaphore)."""
FAMILY = "cache"

STREAMS = {
    # all public ops of simplewlru.Cache / wlru.Cache incl. the eviction callback log
    "wlru": {"quick": 33000, "thorough": 900000, "trivial": ["bad-op", "nocache"]},
    # single-threaded TryAcquire/Acquire/Release/Terminate sequences with boundary amounts (2^32, 2^64)
    "sem": {"quick": 15000, "thorough": 300000, "trivial": ["bad-op", "nosem", "ok"]},
    # blocked Acquire goroutines on a logical clock; trace acceptance with slack, retried in the harness
    "semtimed": {"quick": 400, "thorough": 4000, "mode": "judge", "noshrink": True, "trivial": ["noisy", "ok"], "timeout": 3600},
    # Wrap / WrapAll over a logging fake producer
    "cprod": {"quick": 4000, "thorough": 225000, "trivial": ["bad-op", "noproducer", "bad-handle", "ok"]},
}

PROPS = {
    "C27": {"props": ["LachesisVerif.Props.C27"], "streams": ["cprod"], "claim": "", "note": ""},
    "C29": {"props": ["LachesisVerif.Props.C29"], "streams": ["wlru"], "claim": "", "note": ""},
    "C30": {"props": ["LachesisVerif.Props.C30"], "streams": ["sem", "semtimed"], "claim": "", "note": ""},
}
