"""Registry fragment: family `cache` (C27 caching producer, C29 weighted LRU, C30 events semaphore)."""
FAMILY = "cache"

STREAMS = {
    # all public ops of simplewlru.Cache / wlru.Cache incl. the eviction callback log
    "wlru": {"quick": 33000, "thorough": 900000, "trivial": ["bad-op", "nocache"]},
    # single-threaded TryAcquire/Acquire/Release/Terminate sequences with boundary amounts (2^32, 2^64)
    "sem": {"quick": 15000, "thorough": 300000, "trivial": ["bad-op", "nosem", "ok"]},
    # blocked Acquire goroutines on a logical clock; trace acceptance with slack, retried in the harness
    "semtimed": {"quick": 400, "thorough": 4000, "mode": "judge", "noshrink": True, "trivial": ["noisy", "ok"], "timeout": 3600},
    # Wrap / WrapAll over a logging fake producer
    "cprod": {"quick": 4000, "thorough": 225000, "trivial": ["bad-op", "noproducer", "bad-handle", "ok"]},
}

PROPS = {
    "C27": {
        "props": ["LachesisVerif.Props.C27"],
        "streams": ["cprod"],
        "claim": "Proof (both constructors, all op sequences over any number of names): refcount_balance (counter = successful opens - successful "
                 "closes; store cached iff positive), open_returns_same_store, close_at_last_close (underlying Close iff exactly one open is "
                 "outstanding, error iff none, otherwise count down - stated on the observable history), drop_at_most_once_per_open, and "
                 "closed_exactly_once (every store ever opened underneath is closed underneath exactly once when no longer cached, never while "
                 "cached) for sequences that do not close a stale handle of an earlier generation while a newer one is open (DESIGN 2.6). "
                 "Pre-fix Wrap (nil refCounter map, D9) kept as a decide witness. Correspondence: all sequences <= 7 over 2 names (thorough) + "
                 "random, Wrap and WrapAll over a logging fake producer, incl. stale handles and failing underlying opens.",
        "note": "Trusted: Lean kernel; extractor (counter tests, reuse test, toClose/toDrop tests); harness stream cprod. Map allocation in the "
                "constructors is not extracted (composite literal): tied by the stream only. Concurrency of openDB (two racing first opens) is out of scope.",
        "trusted": ["go/cmd/extract (counter <= 0, counter == 1, ok, toClose, toDrop in openDB)", "harness stream cprod (fake producer logs Close/Drop)"],
        "assumptions": ["closed_exactly_once: no close through a handle of an earlier generation while a newer generation of the name is open",
                        "sequential use of one producer"],
    },
    "C29": {
        "props": ["LachesisVerif.Props.C29"],
        "streams": ["wlru"],
        "claim": "Proof over all op sequences of every public op (Add, Get, Peek, Contains, ContainsOrAdd, PeekOrAdd, Remove, RemoveOldest, GetOldest, "
                 "Keys, Len, Total, Resize, Purge with any map order): bounds_after_every_op (size, weight, counter = sum, distinct keys), "
                 "evicts_lru_first (callbacks ++ remaining entries strictly ascending in last-touch time of the observable history), "
                 "evict_only_when_over, evict_callback_once (callbacks + remaining = entries in play, as multisets, keys distinct), "
                 "heavy_entry_evicted_at_once, keys_oldest_to_newest. normalize condition and weight subtractions regenerated from the source. "
                 "Correspondence: exhaustive sequences (len 4 full alphabet, len 5/6 reduced alphabets, 3 keys up to renaming, 3 weights) + random "
                 "long ones against simplewlru and wlru incl. the callback log.",
        "note": "Trusted: Lean kernel, extractor, harness/diff. maxSize >= 0 (the Go loop does not terminate for a negative size: observation, not "
                "claimed); uint weight sums do not wrap; Purge callbacks compared sorted by key (map order is an oracle in the theorems). "
                "The list is kept oldest-first in the model (= evictList.Back() first).",
        "trusted": ["go/cmd/extract (normalize loop condition, weight subtractions)", "harness stream wlru"],
        "assumptions": ["maxSize >= 0", "sums of weights stay below 2^64"],
    },
    "C30": {
        "props": ["LachesisVerif.Props.C30"],
        "streams": ["sem", "semtimed"],
        "claim": "Proof over all sequences of acquire/try/release/tick/terminate (any amounts incl. wrapping ones, any timeouts, any wake order): "
                 "held_never_exceeds_capacity, fitting_granted_at_once + no_fitting_request_left_waiting + release_grants_what_fits/"
                 "release_grants_first (granted at once or at the release that makes room, never refused by a release), above_capacity_refused, "
                 "waiter_returns_false_at_deadline (exactly the expired ones, only then), terminate_releases_waiters + refused_after_terminate + "
                 "terminated_forever, over_release_resets. tryAcquire incl. its overflow guard, Release and the Acquire loop conditions are "
                 "regenerated from the source; pre-fix wrap-around and the missing deadline wake-up (D10) kept as decide witnesses. "
                 "Partial: 'shortly after the timeout' is real time - judged on the real code by stream semtimed "
                 "(timeout <= elapsed <= 2*timeout+200 ms, noisy runs repeated up to 3 times in the harness). "
                 "Correspondence: sem = single-threaded sequences with amounts around 2^32 / 2^64 (diff); semtimed = blocked goroutines (judge).",
        "note": "Trusted: Lean kernel, extractor, harness; the Go runtime (sync.Cond, timers). time.Now().After(deadline) is modelled as "
                "deadline <= now. The harness orders the semaphore's steps by waiting until every Acquire goroutine has returned or is parked in "
                "sync.Cond.Wait (goroutine dump), so only deadlines are real time.",
        "trusted": ["go/cmd/extract (tryAcquire sums and both conditions, Release condition and subtractions, Acquire loop and give-up conditions)",
                    "harness streams sem, semtimed", "Go runtime: sync.Cond, time.AfterFunc"],
        "assumptions": ["capacity within uint32/uint64 (it is a dag.Metric)", "real-time clause checked with slack on the real code only"],
    },
}
