"""Registry fragment: family `pos` (C12)."""
FAMILY = "pos"

STREAMS = {
    "canon": {"quick": 40000, "thorough": 600000, "trivial": ["bad-op", "nolast", "err"]},
}

PROPS = {
    "C12": {
        "props": ["LachesisVerif.Props.C12"],
        "streams": ["canon"],
        "claim": "Proof: any two sorted permutations (weight desc, id asc; comparison kernels regenerated from validators.Less) of the same "
                 "pairs are equal, so unstable sort.Sort and map iteration order cannot matter; a sequence of Set calls stores exactly the "
                 "non-zero pairs of the map it denotes (last write wins, zero deletes), hence canonical order, SortedIDs/SortedWeights/Idxs, "
                 "total and the panic condition are functions of the non-zero pairs; GetIdx/Idxs agree with the sorted arrays, total = sum "
                 "<= 2^31-1; decode(encode v) = v for the modelled RLP fragment and for every buildable set; BigBuilder over Nat: shift = "
                 "BitLen(total)-31 (test `totalBits > 31` regenerated), scaled total fits, shift minimal, uint32 truncation is the identity, "
                 "monotone, Build never panics, result independent of map order. Correspondence: real Validators / rlp / ValidatorsBigBuilder "
                 "vs the model on random multisets in shuffled orders with overwritten duplicates and zero deletes, RLP bytes byte-for-byte, "
                 "mutated and hand-made non-canonical encodings (accept/reject and decoded set), big stakes up to 2^256 around power-of-two totals.",
        "note": "Trusted: Lean kernel; go/ast extractor; harness/diff. go-ethereum rlp (v1.9.22) and math/big (BitLen, Rsh, Uint64) are contract "
                "models validated by the stream only. uint32 ids/weights are Nat with range hypotheses. BitLen of the "
                "total is assumed to fit a Go uint (it is an int).",
        "trusted": ["go/cmd/extract (Less x3, calcCaches tests, Set zero test, BigBuilder Set guard, `totalBits > 31`, both shift values)",
                    "correspondence harness + diff (stream canon)", "contract models: go-ethereum rlp fragment, math/big BitLen/Rsh/Uint64"],
        "assumptions": ["stakes are non-negative big.Int values (nil allowed)",
                        "RLP payload length < 2^64 (holds for every buildable set: at most 2^31-1 validators of at most 11 bytes)"],
    },
}
