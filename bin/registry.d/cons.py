"""Registry fragment: family `cons` (C01–C10, C33): consensus core."""
FAMILY = "cons"

STREAMS = {
    # cases = whole multi-instance, multi-epoch scenarios (30–120 events quick, up to 280 thorough)
    "cons": {"quick": 300, "thorough": 1500, "trivial": ["bad-op", "na", "unknown-event"], "timeout": 3000, "keep_ops": ["vals", "seal", "inst"]},
}

_REF = ("Reference = lean/LachesisVerif/Spec/Lachesis.lean: an independent naive implementation of the Lachesis rules written from the "
        "rule text (graph ancestry, fork = equal-seq pair, graph forkless cause, frame rule, round-1 votes, weighted majority with ties = yes, "
        "decision on quorum, Atropos by canonical order). ")
_STREAM = ("Correspondence stream `cons`: 2–3 real IndexedLachesis instances over vecfc.Index (exported API only, roots/vector caches of sizes "
           "0,1,small,default), 1–7 validators, forks by cheaters below 1/3 (fork-of-fork, seq-1 restarts), lagging parents, each instance its own "
           "random parents-first order, speculative builds, wrong-frame twins, restarts at random event boundaries, seals at arbitrary frames; every "
           "accept/reject, frame, block (atropos, cheaters, delivered set, call count), epoch switch, fc / merged-clock / roots query is compared.")
_NOTE = ("Trusted: Lean kernel; harness + diff; the reference implementation is our reading of the rule text (quoted in the property). "
         "The generator is closed-loop (it runs the real code to learn frames and seal points) but the ops it writes are explicit and replayed blindly.")


def _p(claim, props=None, level="other"):
    d = {"props": props or [], "streams": ["cons"], "claim": claim, "note": _NOTE, "level": level,
         "explanation": _REF + _STREAM,
         "trusted": ["reference implementation Spec/Lachesis.lean (reading of the rule text)", "harness stream cons"],
         "assumptions": ["cheaters hold < 1/3 of the weight in generated scenarios"]}
    return d


PROPS = {
    "C01": _p("Every instance's accept/reject decisions, blocks and epoch transitions are compared with the graph-level reference, which is "
              "order-free by construction; instances process the same events in different random parents-first orders. No theorem yet links the "
              "implementation model to the reference (see DESIGN: C10 lemma chain) - correspondence only."),
    "C02": _p("Each block's delivered set and ApplyEvent call count are compared with 'ancestry of the Atropos minus everything delivered before' "
              "computed by the reference; frames consecutive from 1; Atropos is a root of the frame (reference picks it among roots)."),
    "C03": _p("Cheater lists compared with the canonical-order list of validators having an equal-seq pair in the Atropos' ancestry."),
    "C04": _p("Build results compared with the highest allowed frame (cap 100) and Process accept/reject with the frame rule of the reference, "
              "including under-claimed and over-claimed frames and events built but never processed."),
    "C05": _p("ForklessCause answers compared with the graph definition for random pairs, under every indexing order and cache size."),
    "C06": _p("Merged highest-before vectors (both accessors) compared with fork/max-seq of the graph definition."),
    "C07": _p("Speculative builds and rejected wrong-frame events are injected on the builder instance only; the other instances never see them; "
              "all instances must keep agreeing with the reference (which ignores them by construction)."),
    "C08": _p("Instances are restarted (fresh Store caches, fresh vecfc.Index over the kept DBs) at random event boundaries; later outputs must "
              "equal the reference, which has no notion of restart."),
    "C09": _p("Proof (reference level): a Process call that emits a sealed block ends with it and leaves exactly the fresh state of the next "
              "epoch with the requested set (= the state a direct Reset produces, hence identical continuations). Correspondence: seals at arbitrary "
              "frames with mutated/unchanged sets on the real code.", props=["LachesisVerif.Props.C09"], level="proof"),
    "C10": _p("Accepted frames and emitted blocks of the real code equal those of the independent reference implementation on every generated "
              "event set (forks below one third)."),
    "C33": _p("GetFrameRoots compared with the set of registered roots of the reference for cache sizes 0/1/small/default, across epoch switches."),
}
