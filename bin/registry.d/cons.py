"""Registry fragment: family `cons` (C01–C10, C33): consensus core."""
FAMILY = "cons"

STREAMS = {
    # cases = whole multi-instance, multi-epoch scenarios (30–120 events quick, up to 280 thorough)
    # vector index alone: forkers of ANY weight, 2-3 indexes with different parents-first orders, all pairs on small DAGs
    "vec": {"quick": 400, "thorough": 6000, "trivial": ["bad-op", "na", "ok"], "keep_ops": ["vals", "idx", "ev"]},
    # the same op language and driver as `cons`, another generator: dense gossip with one validator hidden for a few rounds,
    # which then catches up (delayed decisions, several frames decided by one multi-frame root, seals at frames 1-4)
    "cons-hider": {"quick": 250, "thorough": 2500, "run_as": "cons", "trivial": ["bad-op", "na", "unknown-event"], "timeout": 3000, "keep_ops": ["vals", "seal", "inst", "noapply"]},
    "cons": {"quick": 300, "thorough": 1500, "trivial": ["bad-op", "na", "unknown-event"], "timeout": 3000, "keep_ops": ["vals", "seal", "inst", "noapply"]},
}

_REF = ("Reference = lean/LachesisVerif/Spec/Lachesis.lean: an independent naive implementation of the Lachesis rules written from the "
        "rule text (graph ancestry, fork = equal-seq pair, graph forkless cause, frame rule, round-1 votes, weighted majority with ties = yes, "
        "decision on quorum, Atropos by canonical order). ")
_MODEL = ("The driver also runs, in lock-step on every op, the implementation-level models Model/Election.lean + Model/Orderer.lean (ProcessRoot, "
          "chooseAtropos, calcFrameIdx, handleElection, bootstrapElection, processKnownRoots, onFrameDecided; kernels regenerated from abft/) and "
          "Model/Vec.lean (fillGlobalBranchID, fillEventVectors, CollectFrom, fork detection, LowestAfter DFS, GatherFrom, forklessCause; kernels "
          "regenerated from vecengine/vecfc) and flags any difference between real code, these models and the reference. ")
_STREAM = ("Correspondence stream `cons`: 2–3 real IndexedLachesis instances over vecfc.Index (exported API only, roots/vector caches of sizes "
           "0,1,small,default), 1–7 validators, forks by cheaters below 1/3 (fork-of-fork, seq-1 restarts), lagging parents, each instance its own "
           "random parents-first order, speculative builds, wrong-frame twins, restarts at random event boundaries, seals at arbitrary frames; every "
           "accept/reject, frame, block (atropos, cheaters, delivered set, call count), epoch switch, fc / merged-clock / roots query is compared.")
_NOTE = ("Trusted: Lean kernel; harness + diff; the reference implementation is our reading of the rule text (quoted in the property). "
         "The generator is closed-loop (it runs the real code to learn frames and seal points) but the ops it writes are explicit and replayed blindly.")


def _p(claim, props=None, level="other", streams=None):
    d = {"props": props or [], "streams": (streams or ["cons"]) + ["cons-hider"], "claim": claim, "note": _NOTE, "level": level,
         "explanation": _REF + _MODEL + _STREAM,
         "trusted": ["reference implementation Spec/Lachesis.lean (reading of the rule text)", "harness stream cons"],
         "assumptions": ["cheaters hold < 1/3 of the weight in generated scenarios"]}
    return d


PROPS = {
    "C01": _p("Proof (partial: (frame, Atropos) sequences per epoch; (epoch, frame, Atropos, sealed) sequences and epoch transitions over several epochs), about the implementation-level model Model/Orderer.lean + Model/Election.lean (kernels regenerated from abft/) and the graph-level rules of Spec/ElectionRules.lean. "
              "C01_order_independent_partial: let N be a valid history (Valid = what the event checkers guarantee; FramesAccepted = every claimed frame obeys the frame rule, the quorum counted over roots other than the event itself) "
              "whose forking validators hold less than one third of the weight. Two instances of the model, each started by `initial` and each processing ALL events of N with `process` in its own parents-first order, "
              "both accept every event (no wrong-frame rejection, none of the election errors two-fork-roots / missing-vote / not-enough-votes / all-decided-no), emit the same (frame, Atropos) sequence and end with the same last decided frame. "
              "Proved through L5 (invariant of Orderer.process over any parents-first history: roots table = graph roots of the processed events; blocks carry frames 1,2,... and the Atropos of the rules; the open election decides ldf+1, "
              "stores exactly the votes/decisions of the rules for all known later roots, and has decided everything decidable), L2, L4, uniqueness of the Atropos and L6 (for every frame >= 1 some validator is not decided no; proved by weighted double counting over round-1 votes). "
              "Hypotheses remaining beyond the property's own (hence _partial): each instance's forkless-cause oracle answers the graph relation N.FC on the event numbers of N (C05); each validator record is the canonical one with total <= 2^31-1 (C12); "
              "accepted frames < 2^31; the application never seals (one epoch). No longer assumed (now derived): BlocksFromElections, OpenElection, FramesConsecutive, not-all-decided-no, root table = graph roots. "
              "Also C01_election_order_independent / C01_election_same_result: one election, any two closed feeds (other oracles, other orders) return the same Atropos. "
              "Several epochs: the application's seal decision is the oracle sealAt(epoch, frame). C01_epoch_partial: two instances in `initial ep vals` that are given all events of the epoch's history, each in its own "
              "parents-first order, with applications sealing at the same frames with the same sets, accept every event submitted, emit the same decided frames (epoch, frame, Atropos, sealed flag) and either both seal at the "
              "same frame and are then exactly `initial (ep+1) nv` (C09_seal_state) or neither seals and they end in the same epoch / validators / last decided frame. C01_multi_epoch_partial: by induction over the epochs "
              "(the run decomposes into per-epoch runs each starting from `initial`), both emit the same (epoch, frame, Atropos, sealed) sequence and make the same epoch transitions. Proof: the sealing instance is computed "
              "from the never-sealing one of L5 (cut the decided frames at the first sealing frame: boot_sim / handle_sim / process_sim / runEpoch_sim). Events of an old epoch arriving after the seal are not submitted: "
              "runEpoch stops at the Process call that seals and skips the rest of that epoch's list (as the harness does); C01_late_events_partial: this is the plain run on the input list without those events. "
              "Per-epoch hypotheses (EpochsOK): those above except 'never seals', the forkless-cause oracle being per epoch, and for every validator set the application may return in an epoch the next epoch's history carries its canonical record. "
              "Not proved: equality of cheater lists (C03/C06), restarts combined with seals (C08 is one epoch). "
              "Correspondence: every instance's accept/reject decisions, blocks, cheaters and epoch transitions are compared with the graph-level reference, which is "
              "order-free by construction; instances process the same events in different random parents-first orders. "
              "Composed with the vector index (Props/Consensus.lean, combined model Model/Indexed.lean = IndexedLachesis: DagIndexer.Add + Orderer.Process with the oracle answered by THIS instance's index at the positions of its own indexing order, Flush / DropNotFlushed as keep-new / keep-old state): "
              "Consensus.indexed_order_independent_partial - two instances, each over its own index filled in its own parents-first order, accept every event and emit the same (frame, Atropos, cheaters) sequence and last decided frame; "
              "Consensus.indexed_blocks_cheaters_partial - every block carries the Atropos of the rules and the cheater list computed by the instance's own index at the decision = exactly the validators with a fork among the Atropos' ancestors, canonical order (C03/C06; an emitted Atropos is always an indexed event). "
              "GONE in these corollaries: hobs (oracle = graph forkless cause: Consensus.observe_eq_FC from C05_fc_eq_spec for the instance's own history + emb_fcspec + FC_eq_FCSpec; Orderer.process only asks about the processed event and owners of table roots: Compose.process_congr), "
              "hvals/ValsOK (Consensus.valsOK_of_build from C12), hbound/FrameBound (Consensus.frameBound_of_checks from C13), and 'cheater lists not proved'. "
              "Several epochs, combined model: Consensus.indexed_multi_epoch_partial - two instances over their own indexes (index reset to the new validators at a seal, as IndexedLachesis does), fed epoch by epoch with all events of the epoch in their own parents-first orders and the same application seal function, "
              "emit literally the same list of blocks (epoch, frame, Atropos, cheaters, sealed) and end in the same epoch / validators / last decided frame; no oracle hypothesis, no ValsOK, no FrameBound, no hseal; remaining per epoch: Valid, FramesAccepted, BFT, the two covering parents-first orders, WeightsOK, BuiltFor, Checked, nVals+events < 2^32 (Consensus.EpochHyps). "
              "Hypotheses that remain there: the property's own (Valid history, claimed frames obey the frame rule, forkers < 1/3, parents-first orders), the application never seals (one epoch), nVals + number of events < 2^32 (C05: 32-bit branch ids), validators named by canonical index with non-zero 32-bit weights and the record built by Model.Pos.build (WeightsOK/BuiltFor), every event passed eventcheck with its claimed frame and parent list (Checked). C01_multi_epoch_partial is not composed (per-epoch hypotheses unchanged).",
              props=["LachesisVerif.Props.C01", "LachesisVerif.Props.Consensus"], level="proof"),
    "C02": _p("Proof (partial): the explicit-stack DFS of confirmEvents, started on an ancestor-closed confirmed set, delivers exactly the Atropos' "
              "ancestry minus what was confirmed, each event once, and leaves an ancestor-closed set; decided frames are frameToDecide and onFrameDecided "
              "moves to the next frame / FirstFrame after a seal. Termination is proved too: on a DAG given as a parents-first history (parents have smaller positions) with n events and at most k parents per event the loop finishes within n*(k+1)+1 iterations from any confirmed set (C02_confirm_terminates; total correctness C02_block_total). "
              "C02_atropos_is_root: in every election-model state reachable from reset by processRoot calls whose roots oracle returns only roots of the asked frame, "
              "a returned Atropos is (frameToDecide, a) with a a root of that frame in the slot of a validator of the set (that the real roots table returns exactly the registered "
              "roots is C33; that roots are registered for the frames (spf, frame] is C04). "
              "C02_reference_delivers / C02_reference_eq_model_delivered: in every run of one epoch (no seals) of the executable reference Spec/Lachesis.lean (the oracle of the cons stream) each block carries the Atropos of its frame by the Prop-level rules (C10), its events are exactly the protocol numbers of the ancestors-or-self of that Atropos not reached from an earlier Atropos (ascending), the confirmed mask is the union of these ancestries, "
              "and any finished confirmEvents run of the model on the same DAG from the confirmed set of the earlier blocks delivers exactly those events and leaves the confirmed set of the next block (seals / several epochs not covered). "
              "Correspondence: each block's delivered set and ApplyEvent call count are compared with 'ancestry of the Atropos minus everything delivered before' "
              "computed by the reference; frames consecutive from 1; Atropos is a root of the frame (reference picks it among roots)."
              " Optional callbacks (Model/ApplyAtropos.lean, conditions of applyAtropos/confirmEvents regenerated as Gen.Lachesis): C02_callbacks_irrelevant - with BeginBlock given, the events a block marks confirmed are exactly those of the confirmEvents model whatever callbacks the application returned (ApplyEvent / EndBlock nil or not), ApplyEvent receives exactly the delivered list (nothing when nil), a seal is reported only through a given EndBlock; C02_no_begin_block.",
              props=["LachesisVerif.Props.Facts", "LachesisVerif.Props.C02"], level="proof"),
    "C03": _p("Proof: on the implementation-level model of the vector index (Model/Vec.lean, run in lock-step with vecengine/vecfc, kernels regenerated) "
              "the cheater loop of applyAtropos (validators in canonical order filtered by GetMergedHighestBefore(atropos).IsForkDetected) yields, for every "
              "valid parents-first history of fewer than 2^32-nVals events, every indexed event taken as Atropos and ANY number/weight of forkers, exactly the "
              "ascending list of validator indices having two different equal-seq events among the ancestors-or-self of that event (C03_cheaters_exact, "
              "C03_mem_cheaters, C03_cheaters_sorted); a validator that never created two different events with one seq is never listed "
              "(C03_honest_never_listed). Corollary of C06 (invariants I1/I2 by induction over the history). "
              "C03_reference_cheaters: in every run of one epoch (no seals) of the executable reference Spec/Lachesis.lean (the oracle of the cons stream) with fewer than 2^32-nVals events, block i names the Atropos of frame i+1 of the Prop-level rules (C10) and its cheater list is exactly the model's cheater loop output for that Atropos mapped through the reference's index->id table. "
              "Not proved: that the event handed to applyAtropos in the real code is the elected Atropos (C10: model = reference) and the index->validator-ID map (C12); seals / several epochs for the reference corollary. Correspondence: cheater lists of the real code compared with the "
              "canonical-order list of validators having an equal-seq pair in the Atropos' ancestry.",
              props=["LachesisVerif.Props.C03"], level="proof", streams=["vec", "cons"]),
    "C04": _p("Proof: on the model of calcFrameIdx/checkAndSaveEvent (loop condition, cap +100, f==0->1, final comparison regenerated) Process accepts "
              "exactly the allowed frames, Build returns the greatest allowed frame <= spf+100, built-then-processed is accepted, roots are registered for "
              "exactly the frames (spf, frame]; for an arbitrary quorum predicate. That the predicate is the graph one regardless of earlier builds is "
              "covered by correspondence: Build results compared with the highest allowed frame (cap 100) and Process accept/reject with the frame rule of the reference, "
              "including under-claimed and over-claimed frames and events built but never processed.",
              props=["LachesisVerif.Props.C04"], level="proof"),
    "C05": _p("Proof: on the implementation-level model of the vector index (fillGlobalBranchID, fillEventVectors with the explicit-stack LowestAfter DFS, "
              "forklessCause; branch conditions regenerated from vecengine/vecfc), for every valid history (parents earlier, seq = self-parent seq + 1), all event pairs, "
              "all weights and every quorum >= 1: fc = the graph definition (no fork of B's creator in A's ancestry and the unforked validators having an event between B and A hold a quorum) "
              "- C05_fc_eq_spec; the LowestAfter invariant (C05_lowinv: the DFS with pruning at non-zero entries and fuel (n+1)(n+2) sets exactly the ancestors whose entry was zero); "
              "answers for old events are unchanged by indexing further events (C05_fc_stable, soundness of the result cache); two parents-first orders of the same graph give the same answers "
              "(C05_fc_order_independent). Uses the HighestBefore invariants proved for C06 (hb_invariants). Hypotheses: at most i parents for the event at position i (no double parents; needed "
              "for the model's DFS fuel only), nVals + #events < 2^32 (32-bit branch ids), quorum >= 1 (with quorum 0 code and definition differ on a three-way fork: witness in Props/C05.lean). "
              "Only covered by correspondence: that the Go code equals the model (LRU result cache warm/cold, every indexing order) - ForklessCause answers compared with the graph definition "
              "for random pairs, under every indexing order and cache size.",
              props=["LachesisVerif.Props.Facts", "LachesisVerif.Props.VecRowCache", "LachesisVerif.Props.C05"], level="proof", streams=["vec", "cons"]),
    "C06": _p("Proof: for the implementation-level model of the vector index (Model/Vec.lean: fillGlobalBranchID, CollectFrom, the two fork-detection loops, "
              "GatherFrom / no-fork fast path of GetMergedHighestBefore; kernels regenerated from vecengine/vecfc; run in lock-step with the real code) and EVERY valid "
              "parents-first history (any forks, forks of forks, any indexing order) of fewer than 2^32-nVals events, every indexed event a and validator c: "
              "merged = fork iff two different equal-seq events of c are ancestors-or-self of a, otherwise the highest seq of c in that ancestry, 0 if none "
              "(C06_merged_eq_spec, full strength, both code paths). Proved via invariants by induction over the history: I1 (a global branch is a self-parent chain with "
              "one event per seq and consecutive seqs) and I2 (HighestBefore entry = (max,min) observed seq of the branch, or the marker on all branches of a creator iff "
              "a fork of it is visible; overlap test exact) - Proofs/VecHB*.lean, hb_invariants. Hypotheses: what the event checkers guarantee (C13: parents first, "
              "self-parent first with seq+1, 1 <= seq < 2^31-2, creator a validator) and the 32-bit branch-count bound (AtLeastOneFork compares a uint32). Not proved: "
              "that the Go code equals the model (correspondence), the adapters wrapper. Correspondence: merged highest-before vectors (both accessors) compared with "
              "fork/max-seq of the graph definition."
              " Persistence of the index (Props/VecPersist.lean over Model/VecPersist.lean: store + unflushed overlay + in-memory branch table; the conditions of Engine.Flush / DropNotFlushed / InitBranchesInfo regenerated as Gen.VecPersist): for every sequence of add / flush / DropNotFlushed / query / restart the working view equals the functional run over the surviving events (working_view_eq_run), a restart gives the run over the FLUSHED events with the persisted branch table even when no fork happened yet (reload_eq_run_flushed, reload_branch_table, branches_record_persisted, fork_after_restart), and add followed by DropNotFlushed leaves no trace (add_drop_no_trace, add_drop_erased); negative witness for a Flush that persists the table only once a fork exists (Mutant.witness). ",
              props=["LachesisVerif.Props.Facts", "LachesisVerif.Props.C06", "LachesisVerif.Props.VecPersist"], level="proof", streams=["vec", "cons"]),
    "C07": _p("Proof (partial): the forkless-cause result cache (the only volatile state that survives DropNotFlushed) is transparent for every "
              "history of adds, commits, roll-backs, queries and evictions, provided an id never denotes two different events (negative witness for "
              "the pre-fix temporary ids); the Orderer model writes nothing before the frame check. Determinism of the uncached answer is discharged "
              "for the vector model: fc_deterministic_prefix (= C05 stability) and fc_deterministic (two valid index states over one graph with "
              "consistent ids answer alike: C05_fc_eq_spec + the graph definition only depends on A's ancestry); C07_cache_transparent_vec: for all "
              "sequences of add-an-event / roll-back-to-a-prefix / query / evict over one valid history every cached answer equals the uncached vector "
              "answer of the current state (C07_cache_transparent_vec_ids: same for arbitrary valid index states over one graph). "
              "Not proved: restoration of the real vector/branch tables by DropNotFlushed (the model's roll-back is the index of the prefix). "
              "Correspondence: speculative builds and "
              "rejected wrong-frame events are injected on the builder instance only; the other instances never see them; "
              "all instances must keep agreeing with the reference (which ignores them by construction). "
              "Combined model (Props/Consensus.lean over Model/Indexed.lean = IndexedLachesis): Consensus.indexed_no_trace - a buildIndexed or a rejected processIndexed (wrong frame / election error) made at any point of any log of Process/Build calls returns literally the "
              "previous (Orderer state, index state, indexing order), so the final state and every later answer equal those of the log without the call (Consensus.processIndexed_rejected, buildIndexed_state); no hypotheses - true by construction of the model's transaction "
              "(Flush = keep the new index state, DropNotFlushed = keep the old one). Still not proved: that the real DropNotFlushed restores the tables (correspondence)."
              " Row caches of vecfc.Index (Props/VecRowCache.lean): for every history of get / set / flush / DropNotFlushed / Reset / eviction (any policy) a read through the HighestBefore / LowestAfter LRU caches equals the uncached read (get_transparent, answers_transparent); transparent_iff: exactly the purge on roll-back, the purge on Reset and the Add in the setters are necessary (negative witnesses), the guard `NotFlushedPairs() != 0` is safe; the call pattern is the regenerated one (goCalls_is_the_code over Gen.FactsVec). Temporary ids of Build (Model/TempId.lean: the counter right-aligned in 24 bytes, shape of uniqueID.sample regenerated): Facts.temp_ids_never_reused - two different builds of an instance (fewer than 2^192) never get the same id, which is what makes the forkless-cause cache keys of built events deterministic. Structural expectations (Props/Facts.lean over Gen.FactsCons / Gen.FactsVec): the unconditional calls and statement orders the models take for granted (fresh id in Build, deferred DropNotFlushed, Add before Process before Flush, purges, branch table written before the flush, ...) are regenerated as Bool facts and stated as theorems. "
              " Persistence of the index (Props/VecPersist.lean over Model/VecPersist.lean: store + unflushed overlay + in-memory branch table; the conditions of Engine.Flush / DropNotFlushed / InitBranchesInfo regenerated as Gen.VecPersist): for every sequence of add / flush / DropNotFlushed / query / restart the working view equals the functional run over the surviving events (working_view_eq_run), a restart gives the run over the FLUSHED events with the persisted branch table even when no fork happened yet (reload_eq_run_flushed, reload_branch_table, branches_record_persisted, fork_after_restart), and add followed by DropNotFlushed leaves no trace (add_drop_no_trace, add_drop_erased); negative witness for a Flush that persists the table only once a fork exists (Mutant.witness). ",
              props=["LachesisVerif.Props.Facts", "LachesisVerif.Props.VecRowCache", "LachesisVerif.Props.C07", "LachesisVerif.Props.Consensus", "LachesisVerif.Props.VecPersist"], level="proof"),
    "C08": _p("Proof (partial: one epoch): on Model.Orderer (persisted = epoch, validators, LastDecidedFrame, roots table; volatile = the election; restart = "
              "bootstrap, which re-creates the election at LastDecidedFrame+1 and re-votes the known roots in table order). "
              "Whole continuations, from L5 as a proved invariant of process runs (OInv/OpenEl, C10): C08_restart_invisible_partial - for every valid history with accepted frames and "
              "forkers below one third, every parents-first processing order pre ++ post of (an ancestry-closed part of) its events and every split point, the instance that processed pre "
              "can be restarted (bootstrap succeeds, emits no block, reports no seal, keeps epoch / validators / LastDecidedFrame / roots table) and the restarted instance answers every "
              "event of post exactly like the instance that kept running (all accepted, per event the same decided frames = epoch, frame, Atropos, sealed flag) and ends with the same "
              "persisted state; C08_restart_invisible_history_partial - the same for the history order 0..n-1 itself with a restart after the first k events; "
              "C08_restarts_invisible_partial - restarts at any number of points give the same answers and final persisted state as the run without restarts. "
              "The earlier named hypotheses RunningFeed, Contiguous, Setup, 'new event not forkless-caused by known roots' are discharged (OrdererRestart3.restart_open, step_agree, "
              "process_lockstep, run_lockstep: two instances with equal persisted state whose elections satisfy the L5 invariant run in lock-step). "
              "Hypotheses remaining beyond valid history + BFT (hence _partial): claimed frames obey the frame rule (what Process checks) and are < 2^31; canonical validator record (C12); "
              "the forkless-cause oracle answers the graph relation N.FC before and after the restart (C05; the reload of the vector index from BranchesInfo is not modelled); the "
              "application does not seal (one epoch). Not proved: restarts across epoch seals, the vector-index reload, store caches (C33). "
              "Kept from before: C08_persisted_unchanged, C08_volatile_irrelevant, C08_sync (unconditional) and the one-step theorems under named hypotheses "
              "(C08_restart_election_equiv_partial, C08_next_root_equiv_partial, C08_restart_next_process_partial). "
              "Non-vacuity: one-validator examples (all hypotheses of C08_restarts_invisible_partial and of C08_restart_election_equiv_partial hold). "
              "Correspondence: instances are restarted (fresh Store caches, fresh vecfc.Index over the kept DBs) at random event boundaries; later outputs must "
              "equal the reference, which has no notion of restart. "
              "Composed with the vector index (Props/Consensus.lean, Model/Indexed.lean): Consensus.indexed_restart_invisible_partial - the combined instance that processed pre is restarted by Bootstrap over the PERSISTED index state (nothing re-indexed: same VState, same indexing order); "
              "the restart succeeds, emits nothing, keeps the persisted Orderer state, and the restarted instance answers every event of post like the one that kept running (all accepted, same blocks incl. cheater lists per event), ending with the same persisted Orderer state and the same index. "
              "GONE there: hobs before and after the restart (Consensus.observe_eq_FC + Compose.bootstrap_congr), hvals (valsOK_of_build, C12), hbound (frameBound_of_checks, C13). "
              "Hypotheses that remain there: the property's own (Valid history, claimed frames obey the frame rule, forkers < 1/3, parents-first orders), the application never seals (one epoch), nVals + number of events < 2^32 (C05: 32-bit branch ids), validators named by canonical index with non-zero 32-bit weights and the record built by Model.Pos.build (WeightsOK/BuiltFor), every event passed eventcheck with its claimed frame and parent list (Checked). Still not modelled: the reload of the index tables from BranchesInfo, store caches (C33), restarts across seals."
              "Several epochs with restarts (Consensus.indexed_restarts_multi_epoch_partial): the several-epoch run of the combined model and the same run with any number of restartIndexed calls at any points between Process calls in any epochs (also right after a seal) both succeed, emit literally the same block list and end with the same persisted Orderer state (epoch, validators, last decided frame, roots table), index state and indexing order; remaining per epoch: Valid, FramesAccepted, BFT, parents-first order, nVals+events < 2^32, WeightsOK, BuiltFor, Checked. "
              " Persistence of the index (Props/VecPersist.lean over Model/VecPersist.lean: store + unflushed overlay + in-memory branch table; the conditions of Engine.Flush / DropNotFlushed / InitBranchesInfo regenerated as Gen.VecPersist): for every sequence of add / flush / DropNotFlushed / query / restart the working view equals the functional run over the surviving events (working_view_eq_run), a restart gives the run over the FLUSHED events with the persisted branch table even when no fork happened yet (reload_eq_run_flushed, reload_branch_table, branches_record_persisted, fork_after_restart), and add followed by DropNotFlushed leaves no trace (add_drop_no_trace, add_drop_erased); negative witness for a Flush that persists the table only once a fork exists (Mutant.witness). ",
              props=["LachesisVerif.Props.Facts", "LachesisVerif.Props.VecRowCache", "LachesisVerif.Props.C08", "LachesisVerif.Props.Consensus", "LachesisVerif.Props.VecPersist"], level="proof"),
    "C09": _p("Proof. Implementation level (Model.Orderer, run in lock-step against the Go code; unconditional in the oracles): if EndBlock returns a "
              "set at block (E,f), the state after onFrameDecided is literally Model.Orderer.initial (E+1 as idx.Epoch) set = the state Reset produces "
              "(LastDecidedFrame 0, frame to decide 1, no roots, fresh election), hence process/build/bootstrap continuations coincide "
              "(C09_seal_state, C09_initial_fields, C09_reset_equiv); in the decided frames returned by one Process / handleElection / "
              "bootstrapElection / Bootstrap call only the LAST entry can be sealed, all entries belong to the old epoch, after a sealed entry the "
              "returned state is that fresh state, without a seal epoch and validators are unchanged (C09_no_block_after_seal, by induction over the "
              "loop fuel); decided frames of one call are consecutive from the frame to decide (C09_frames_consecutive, C09_next_frame). Reference "
              "level: the same statement for Spec.Lachesis (C09_seal_switches_cleanly). Non-vacuity: executable one-validator runs sealing at frame 2. "
              "Correspondence only: that sealEpoch really empties the epoch DB / vector tables of the real store, and the confirmed-events half of "
              "'same blocks'; seals at arbitrary frames with mutated/unchanged sets and Reset twins on the real code.",
              props=["LachesisVerif.Props.Facts", "LachesisVerif.Props.C09"], level="proof"),
    "C10": _p("Proof (partial). On the election model (regenerated kernels): Atropos choice rule, vote rule (tie = yes, decision on quorum), round arithmetic; invariants of any run of "
              "processRoot from reset (yes-votes name a root of the frame to decide in the subject's slot, decisions only in rounds >= 2 and once per subject, returned frame = frameToDecide). "
              "On the graph-level rules (Spec/ElectionRules.lean: forkless cause = FCSpec of C05, roots, frame rule, votes by recursion on the round, decisions, Atropos, BFT): L1 (two quorums share a "
              "never-forking validator), L2 (under Valid, accepted frames and forkers < 1/3, two different roots of one slot are never both forkless-caused), L3 (votes and decisions of old events do not "
              "change when the history grows), L4 (a decision fixes all later votes and excludes the opposite decision), uniqueness of the Atropos, L6 (L6_not_all_decided_no: for every frame >= 1 some validator is not decided no; "
              "the statement is false for frame 0, which is never decided). Single election (C10_single_election_partial / _BFT / _complete / _same_result): one election of the model fed roots in any closed order with observe = graph forkless cause and a "
              "roots table that lists graph roots and contains whatever a listed root forkless-causes (any parents-first prefix) stores exactly the votes and decisions of the rules, never reaches two-fork-roots / missing-vote / "
              "not-enough-votes, a returned Atropos is the Atropos of the rules; conversely every decision the rules derive from a fed root is stored. "
              "L5 (L5_process_invariant, L5_run_invariant, L5_facts), for whole Orderer.process runs of one epoch in any parents-first order: after every process call the roots table is exactly the graph roots of the processed events, "
              "the open election has frameToDecide = ldf+1 and holds the votes/decisions of the rules for all known roots of later frames (all fed), everything decidable from the known roots has been decided, every event was accepted without error, "
              "and every emitted block carries the next frame and the Atropos of the rules. C10_model_eq_rules_partial: the (frame, Atropos) sequence the model emits over all events of a history is exactly the sequence of Atropoi of the Prop-level rules for frames 1,2,... up to the first frame without Atropos. "
              "Hypotheses of L5 beyond valid events + forkers < 1/3: observe = graph forkless cause (C05), canonical validator record with total <= 2^31-1 (C12), frames < 2^31, no sealing (one epoch). "
              "Reference equivalence (reference_anc_eq_rules, reference_fork_eq_rules, reference_hb_eq_rules, reference_fc_eq_rules, reference_fc_eq_rules_reachable, reference_hist_valid): for every instance of the executable reference Spec/Lachesis.lean built by Inst.insert "
              "(and every state the oracle reaches through process), bit-mask ancestry = Anc, forkIn / fork masks = ForkSeen, hbSpec = ForkSeen/MaxSeq, fcSpec = FCSpec = Net.FC with the same quorum; the associated history is Valid when inserted events pass the event checks. "
              "Frame and election part of the executable reference (Proofs/RefEquivH..M), for the states reached through process without seals on checked events (RefEquiv.Run; frame lemmas for every reachable state): "
              "rootsAt lists exactly the graph roots, quorumOn = quorum of forkless-caused roots other than the event (reference_roots_eq_rules, reference_quorumOn_eq_rules); allowed = Net.Allowed = C04.Allowed = the model's frameAccepted, process accepts exactly the allowed frames "
              "(reference_allowed_eq_rules, reference_process_accepts_iff_allowed); build/maxFrame = the model's calcFrameIdx = highest allowed frame <= spf+100 (reference_build_max); votesOfFrame computes voteYes and DecidesYes/No, yes-votes carry the candidate root (reference_votes_eq_rules); "
              "atroposSpec f = atropos a <-> IsAtropos f a under BFT (soundness without BFT), undecided <-> no Atropos, allNo impossible for f >= 1 (reference_atropos_eq_rules); decideLoop emits exactly the blocks (frame k, Atropos of frame k) for k = ldf+1,... while an Atropos exists and the fuel size+2 never runs out "
              "(reference_decideLoop_eq_rules, reference_blocks_eq_rules, incl. cheater list = stored fork mask = ForkSeen). C10_model_eq_reference_partial: for a run of the reference ending in state s with blocks out, and the model processing the events of the net of s in ANY parents-first order under Ctx, "
              "the model accepts everything, ends with the same last decided frame, and its decided (frame, Atropos) list = the reference's block (frame, Atropos) list (Atropos by protocol number); C10_model_eq_reference_canon: the same with validity and accepted frames discharged by the run itself (remaining hypotheses: BFT, frames < 2^31, total <= 2^31-1, canonical validator record and oracle). "
              "So 'model = executable reference' is closed inside Lean for the (frame, Atropos) sequence of one epoch; cheaters: C03_reference_cheaters; delivered events: C02_reference_delivers / C02_reference_eq_model_delivered. "
              "Not proved: several epochs / seals (decideLoop with a seal, next-epoch instance), restarts; a multi-event Run cannot be evaluated by decide (Array.findIdx? does not reduce in the kernel), the non-vacuity witness is a one-event run. "
              "Correspondence (three-way): accepted frames and emitted blocks of the real code equal those of the independent reference implementation on every generated "
              "event set (forks below one third). "
              "Composed with the vector index (Props/Consensus.lean, Model/Indexed.lean): Consensus.indexed_eq_reference_partial - for a run of the reference ending in s with blocks out, one instance of the combined model (Orderer over its own vector index) processing the events of the net of s in ANY parents-first order "
              "accepts everything, ends with the reference's last decided frame and emits the reference's (frame, Atropos) list; its cheater lists are C03's sentence (indexed_blocks_cheaters_partial) = what the reference lists (C03_reference_cheaters). "
              "GONE there: Ctx's obs (observe_eq_FC, C05), ok/ValsOK (valsOK_of_build, C12), hb/FrameBound (frameBound_of_checks, C13); validity and accepted frames come from the run. "
              "Remaining there: BFT, no seal (one epoch), nVals + events < 2^32, validators named by canonical index with non-zero 32-bit weights and the record built by the builder, every event passed eventcheck with its claimed frame and parent list."
              " Several epochs (C10_model_eq_reference_epochs_partial, Proofs/RefEpochs*.lean): driven epoch by epoch with the same events and agreeing seal tables, the model and the executable reference emit the same (epoch, frame, Atropos, sealed) sequence and make the same epoch transitions; after a seal the model is initial (epoch+1) nv and the reference is Inst.fresh (epoch+1) pairs (reference_process_seal: a sealing process call of the reference emits the blocks up to the sealing frame and returns the fresh instance of the next epoch).",
              props=["LachesisVerif.Props.C10", "LachesisVerif.Props.Consensus"], level="proof"),
    "C33": _p("Proof: for every history of addRoot/GetFrameRoots/epoch switches and EVERY cache eviction policy, GetFrameRoots f returns exactly "
              "the roots registered for f in the current epoch; a new epoch starts empty (key layout abstracted to records, injectivity is C32). "
              "Correspondence: GetFrameRoots compared with the set of registered roots of the reference for cache sizes 0/1/small/default, across epoch switches.", props=["LachesisVerif.Props.C33"], level="proof"),
}
