"""Registry fragment: family `cons` (C01–C10, C33): consensus core."""
FAMILY = "cons"

STREAMS = {
    # cases = whole multi-instance, multi-epoch scenarios (30–120 events quick, up to 280 thorough)
    # vector index alone: forkers of ANY weight, 2-3 indexes with different parents-first orders, all pairs on small DAGs
    "vec": {"quick": 400, "thorough": 6000, "trivial": ["bad-op", "na", "ok"], "keep_ops": ["vals", "idx", "ev"]},
    "cons": {"quick": 300, "thorough": 1500, "trivial": ["bad-op", "na", "unknown-event"], "timeout": 3000, "keep_ops": ["vals", "seal", "inst"]},
}

_REF = ("Reference = lean/LachesisVerif/Spec/Lachesis.lean: an independent naive implementation of the Lachesis rules written from the "
        "rule text (graph ancestry, fork = equal-seq pair, graph forkless cause, frame rule, round-1 votes, weighted majority with ties = yes, "
        "decision on quorum, Atropos by canonical order). ")
_MODEL = ("The driver also runs, in lock-step on every op, the implementation-level models Model/Election.lean + Model/Orderer.lean (ProcessRoot, "
          "chooseAtropos, calcFrameIdx, handleElection, bootstrapElection, processKnownRoots, onFrameDecided; kernels regenerated from abft/) and "
          "Model/Vec.lean (fillGlobalBranchID, fillEventVectors, CollectFrom, fork detection, LowestAfter DFS, GatherFrom, forklessCause; kernels "
          "regenerated from vecengine/vecfc) and flags any difference between real code, these models and the reference. ")
_STREAM = ("Correspondence stream `cons`: 2–3 real IndexedLachesis instances over vecfc.Index (exported API only, roots/vector caches of sizes "
           "0,1,small,default), 1–7 validators, forks by cheaters below 1/3 (fork-of-fork, seq-1 restarts), lagging parents, each instance its own "
           "random parents-first order, speculative builds, wrong-frame twins, restarts at random event boundaries, seals at arbitrary frames; every "
           "accept/reject, frame, block (atropos, cheaters, delivered set, call count), epoch switch, fc / merged-clock / roots query is compared.")
_NOTE = ("Trusted: Lean kernel; harness + diff; the reference implementation is our reading of the rule text (quoted in the property). "
         "The generator is closed-loop (it runs the real code to learn frames and seal points) but the ops it writes are explicit and replayed blindly.")


def _p(claim, props=None, level="other", streams=None):
    d = {"props": props or [], "streams": streams or ["cons"], "claim": claim, "note": _NOTE, "level": level,
         "explanation": _REF + _MODEL + _STREAM,
         "trusted": ["reference implementation Spec/Lachesis.lean (reading of the rule text)", "harness stream cons"],
         "assumptions": ["cheaters hold < 1/3 of the weight in generated scenarios"]}
    return d


PROPS = {
    "C01": _p("Proof (partial), about the election model and the graph-level rules of Spec/ElectionRules.lean. (a) C01_election_order_independent / C01_election_same_result: for one valid "
              "history with accepted frames and forkers below one third, two runs of the election model for the same frame (different forkless-cause oracles, root tables "
              "and feeding orders; each oracle answers the graph forkless cause, each table lists the graph's roots, each feed is closed = every root fed after the "
              "previous-frame roots it forkless-causes, e.g. any parents-first or frame-ascending order) return the same Atropos; and if one feed makes the election return an Atropos, every closed "
              "feed containing the same later-frame roots returns it too (neither nothing nor an error). From L2, L4, uniqueness of the Atropos and the single-election refinement of C10 and its converse. "
              "(b) C01_order_independent_partial: the (frame, Atropos) sequences of two instances are identical (same length, same entries) under explicit named hypotheses that are NOT proved: "
              "OraclesAgree (C05: index = graph forkless cause in any indexing order; C33+C04: root table = graph roots; canonical validator set), FramesAccepted (C04), "
              "BlocksFromElections and OpenElection (L5: every emitted block is the result of one election run from reset; the election open at the end has been fed every later root and returned nothing - "
              "this also assumes away the all-decided-no error, i.e. L6), FramesConsecutive (C02). Not proved: L5, L6 / 'accept every event', cheater lists (C03/C06), epoch transitions. "
              "Correspondence: every instance's accept/reject decisions, blocks, cheaters and epoch transitions are compared with the graph-level reference, which is "
              "order-free by construction; instances process the same events in different random parents-first orders.",
              props=["LachesisVerif.Props.C01"], level="proof"),
    "C02": _p("Proof (partial): the explicit-stack DFS of confirmEvents, started on an ancestor-closed confirmed set, delivers exactly the Atropos' "
              "ancestry minus what was confirmed, each event once, and leaves an ancestor-closed set; decided frames are frameToDecide and onFrameDecided "
              "moves to the next frame / FirstFrame after a seal. Termination is proved too: on a DAG given as a parents-first history (parents have smaller positions) with n events and at most k parents per event the loop finishes within n*(k+1)+1 iterations from any confirmed set (C02_confirm_terminates; total correctness C02_block_total). "
              "C02_atropos_is_root: in every election-model state reachable from reset by processRoot calls whose roots oracle returns only roots of the asked frame, "
              "a returned Atropos is (frameToDecide, a) with a a root of that frame in the slot of a validator of the set (that the real roots table returns exactly the registered "
              "roots is C33; that roots are registered for the frames (spf, frame] is C04). "
              "Correspondence: each block's delivered set and ApplyEvent call count are compared with 'ancestry of the Atropos minus everything delivered before' "
              "computed by the reference; frames consecutive from 1; Atropos is a root of the frame (reference picks it among roots).",
              props=["LachesisVerif.Props.C02"], level="proof"),
    "C03": _p("Proof: on the implementation-level model of the vector index (Model/Vec.lean, run in lock-step with vecengine/vecfc, kernels regenerated) "
              "the cheater loop of applyAtropos (validators in canonical order filtered by GetMergedHighestBefore(atropos).IsForkDetected) yields, for every "
              "valid parents-first history of fewer than 2^32-nVals events, every indexed event taken as Atropos and ANY number/weight of forkers, exactly the "
              "ascending list of validator indices having two different equal-seq events among the ancestors-or-self of that event (C03_cheaters_exact, "
              "C03_mem_cheaters, C03_cheaters_sorted); a validator that never created two different events with one seq is never listed "
              "(C03_honest_never_listed). Corollary of C06 (invariants I1/I2 by induction over the history). Not proved: that the event handed to "
              "applyAtropos is the elected Atropos (C10) and the index->validator-ID map (C12). Correspondence: cheater lists of the real code compared with the "
              "canonical-order list of validators having an equal-seq pair in the Atropos' ancestry.",
              props=["LachesisVerif.Props.C03"], level="proof", streams=["vec", "cons"]),
    "C04": _p("Proof: on the model of calcFrameIdx/checkAndSaveEvent (loop condition, cap +100, f==0->1, final comparison regenerated) Process accepts "
              "exactly the allowed frames, Build returns the greatest allowed frame <= spf+100, built-then-processed is accepted, roots are registered for "
              "exactly the frames (spf, frame]; for an arbitrary quorum predicate. That the predicate is the graph one regardless of earlier builds is "
              "covered by correspondence: Build results compared with the highest allowed frame (cap 100) and Process accept/reject with the frame rule of the reference, "
              "including under-claimed and over-claimed frames and events built but never processed.",
              props=["LachesisVerif.Props.C04"], level="proof"),
    "C05": _p("Proof: on the implementation-level model of the vector index (fillGlobalBranchID, fillEventVectors with the explicit-stack LowestAfter DFS, "
              "forklessCause; branch conditions regenerated from vecengine/vecfc), for every valid history (parents earlier, seq = self-parent seq + 1), all event pairs, "
              "all weights and every quorum >= 1: fc = the graph definition (no fork of B's creator in A's ancestry and the unforked validators having an event between B and A hold a quorum) "
              "- C05_fc_eq_spec; the LowestAfter invariant (C05_lowinv: the DFS with pruning at non-zero entries and fuel (n+1)(n+2) sets exactly the ancestors whose entry was zero); "
              "answers for old events are unchanged by indexing further events (C05_fc_stable, soundness of the result cache); two parents-first orders of the same graph give the same answers "
              "(C05_fc_order_independent). Uses the HighestBefore invariants proved for C06 (hb_invariants). Hypotheses: at most i parents for the event at position i (no double parents; needed "
              "for the model's DFS fuel only), nVals + #events < 2^32 (32-bit branch ids), quorum >= 1 (with quorum 0 code and definition differ on a three-way fork: witness in Props/C05.lean). "
              "Only covered by correspondence: that the Go code equals the model (LRU result cache warm/cold, every indexing order) - ForklessCause answers compared with the graph definition "
              "for random pairs, under every indexing order and cache size.",
              props=["LachesisVerif.Props.C05"], level="proof", streams=["vec", "cons"]),
    "C06": _p("Proof: for the implementation-level model of the vector index (Model/Vec.lean: fillGlobalBranchID, CollectFrom, the two fork-detection loops, "
              "GatherFrom / no-fork fast path of GetMergedHighestBefore; kernels regenerated from vecengine/vecfc; run in lock-step with the real code) and EVERY valid "
              "parents-first history (any forks, forks of forks, any indexing order) of fewer than 2^32-nVals events, every indexed event a and validator c: "
              "merged = fork iff two different equal-seq events of c are ancestors-or-self of a, otherwise the highest seq of c in that ancestry, 0 if none "
              "(C06_merged_eq_spec, full strength, both code paths). Proved via invariants by induction over the history: I1 (a global branch is a self-parent chain with "
              "one event per seq and consecutive seqs) and I2 (HighestBefore entry = (max,min) observed seq of the branch, or the marker on all branches of a creator iff "
              "a fork of it is visible; overlap test exact) - Proofs/VecHB*.lean, hb_invariants. Hypotheses: what the event checkers guarantee (C13: parents first, "
              "self-parent first with seq+1, 1 <= seq < 2^31-2, creator a validator) and the 32-bit branch-count bound (AtLeastOneFork compares a uint32). Not proved: "
              "that the Go code equals the model (correspondence), the adapters wrapper. Correspondence: merged highest-before vectors (both accessors) compared with "
              "fork/max-seq of the graph definition.",
              props=["LachesisVerif.Props.C06"], level="proof", streams=["vec", "cons"]),
    "C07": _p("Proof (partial): the forkless-cause result cache (the only volatile state that survives DropNotFlushed) is transparent for every "
              "history of adds, commits, roll-backs, queries and evictions, provided an id never denotes two different events (negative witness for "
              "the pre-fix temporary ids); the Orderer model writes nothing before the frame check. Not proved: determinism of the uncached answer "
              "for the vector model (= C05 stability), restoration of vector/branch tables by DropNotFlushed. Correspondence: speculative builds and "
              "rejected wrong-frame events are injected on the builder instance only; the other instances never see them; "
              "all instances must keep agreeing with the reference (which ignores them by construction).",
              props=["LachesisVerif.Props.C07"], level="proof"),
    "C08": _p("Instances are restarted (fresh Store caches, fresh vecfc.Index over the kept DBs) at random event boundaries; later outputs must "
              "equal the reference, which has no notion of restart."),
    "C09": _p("Proof (reference level): a Process call that emits a sealed block ends with it and leaves exactly the fresh state of the next "
              "epoch with the requested set (= the state a direct Reset produces, hence identical continuations). Correspondence: seals at arbitrary "
              "frames with mutated/unchanged sets on the real code.", props=["LachesisVerif.Props.C09"], level="proof"),
    "C10": _p("Proof (partial). On the election model (regenerated kernels): Atropos choice rule, vote rule (tie = yes, decision on quorum), round arithmetic; invariants of any run of "
              "processRoot from reset (yes-votes name a root of the frame to decide in the subject's slot, decisions only in rounds >= 2 and once per subject, returned frame = frameToDecide). "
              "On the graph-level rules (Spec/ElectionRules.lean: forkless cause = FCSpec of C05, roots, frame rule, votes by recursion on the round, decisions, Atropos, BFT): L1 (two quorums share a "
              "never-forking validator), L2 (under Valid, accepted frames and forkers < 1/3, two different roots of one slot are never both forkless-caused), L3 (votes and decisions of old events do not "
              "change when the history grows), L4 (a decision fixes all later votes and excludes the opposite decision), uniqueness of the Atropos. Tie (C10_single_election_partial / _BFT / _complete / "
              "_same_result): one election of the model fed roots in any closed order (e.g. frame-ascending) with observe = graph forkless cause and frameRoots = the roots by frame stores exactly the "
              "votes and decisions of the rules, never reaches two-fork-roots / missing-vote / not-enough-votes, reports all-no only if the rules decide every validator no, a returned Atropos is the "
              "Atropos of the rules (slot uniqueness discharged from BFT by L2); conversely every decision the rules derive from a fed root is stored, and any closed feed containing the same roots "
              "returns the same Atropos. Not proved: L5 (lifting from one election to whole Orderer runs and epochs: 'model blocks = reference blocks'), L6, equivalence of the executable reference "
              "Spec/Lachesis.lean with the Prop-level rules. "
              "Correspondence (three-way): accepted frames and emitted blocks of the real code equal those of the independent reference implementation on every generated "
              "event set (forks below one third).", props=["LachesisVerif.Props.C10"], level="proof"),
    "C33": _p("Proof: for every history of addRoot/GetFrameRoots/epoch switches and EVERY cache eviction policy, GetFrameRoots f returns exactly "
              "the roots registered for f in the current epoch; a new epoch starts empty (key layout abstracted to records, injectivity is C32). "
              "Correspondence: GetFrameRoots compared with the set of registered roots of the reference for cache sizes 0/1/small/default, across epoch switches.", props=["LachesisVerif.Props.C33"], level="proof"),
}
