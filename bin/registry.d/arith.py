"""Registry fragment: family `arith` (C11, C13, C21, C31, C32)."""
FAMILY = "arith"

# stream name -> sizes per tier (number of generated cases) and comparison mode
#   mode "diff"  : the driver answers every op; outputs must be equal line by line
#   mode "judge" : the driver receives op lines interleaved with the implementation's output
#                  ("> ...") and answers "ok" / "FAIL ..." (trace acceptance)
#   decides      : a differing case is by itself a concrete input on which the property fails
#                  (the model output is the value the property prescribes)
STREAMS = {
    "quorum": {"quick": 3000, "thorough": 300000, "trivial": ["bad-op", "novals"]},
    "enc": {"quick": 200000, "thorough": 5000000},
    "evcheck": {"quick": 100000, "thorough": 5000000},
    "dsign": {"quick": 100000, "thorough": 3000000},
    "piecefunc": {"quick": 8000, "thorough": 400000, "trivial": ["bad-op", "nofunc"]},
}

PROPS = {
    "C11": {
        "props": ["LachesisVerif.Props.C11"],
        "claim": "Proof: quorum = floor(2t/3)+1 without uint32 overflow for every total admitted by calcCaches, whole set reaches it, "
                 "<= 2/3 never reaches it, two quorums intersect in > 1/3, and the weight counter refines 'sum of marked weights' for every "
                 "call sequence; all stated over kernels regenerated from inter/pos on every run. Correspondence: real Validators/WeightCounter "
                 "vs the model on boundary totals and random counting sequences.",
        "note": "Trusted: Lean kernel; go/ast extractor (prints the Go expressions); harness/diff. uint32 modelled as Nat mod 2^32. "
                "Subsets are Boolean masks over the canonical order.",
        "streams": ["quorum"],
        "trusted": ["go/cmd/extract (go/ast printer of Quorum, calcCaches limit, Less, HasQuorum, CountByIdx sum)",
                    "correspondence harness + diff (stream quorum)"],
        "assumptions": ["Go's uint32 arithmetic is modelled as Nat arithmetic modulo 2^32",
                        "CountByIdx is only called with indices below the set size (Go panics otherwise)"],
    },
    "C13": {
        "props": ["LachesisVerif.Props.C13"],
        "streams": ["evcheck"],
        "claim": "Proof: validate (basiccheck -> epochcheck -> parentscheck, every condition regenerated from the source) returns no error "
                 "iff the event is well-formed in the property's words, for all uint32 field values and parent lists of any length. "
                 "Correspondence: real eventcheck.Checkers on boundary-value events with single/double mutations, error kind compared.",
        "note": "Trusted: Lean kernel, go/ast extractor, harness/diff. Parents are passed in the order of e.Parents() (the API contract). "
                "Event ids are abstract numbers; equal numbers <=> equal hashes.",
        "trusted": ["go/cmd/extract (conditions of checkLimits, checkInited, Validate x3, SelfParent)", "harness stream evcheck"],
        "assumptions": ["parents argument = events of e.Parents() in order (caller contract, panics otherwise)"],
    },
    "C21": {
        "props": ["LachesisVerif.Props.C21"],
        "streams": ["dsign"],
        "claim": "Proof: SyncedToEmit permits emission iff peers != 0, P2P synced and all five stamps are >= threshold in the past on the unbounded "
                 "time line (every int64 threshold except -2^63); otherwise error with 0 < wait <= 2^63-1, and wait = longest remaining time capped for every threshold >= 0 (C21_synced_to_emit) and for every "
                 "negative threshold > -2^63 whose stamps lie at most 2^63 ns ahead of now (C21_wait_any_threshold; the excluded corner differs by a few ns: C21_far_future_negative_threshold_witness); DetectParallelInstance exact iff. Pre-fix wrap-around kept as a machine-checked negative witness. "
                 "Correspondence on extreme-stamp products incl. error identity.",
        "note": "Trusted: Lean kernel, extractor, harness. time.Time.Sub modelled as saturating difference (stdlib contract, validated by the stream "
                "around +-2^63 ns). Threshold -2^63 is outside the theorems; for negative thresholds with a stamp > 292 years ahead the wait is proved positive and <= 2^63-1 but not equal to the capped remaining time (machine-checked witness that it is not).",
        "trusted": ["go/cmd/extract (remaining, apply, all comparisons)", "harness stream dsign", "contract: time.Time.Sub saturates"],
        "assumptions": ["instants are >= the zero Time and <= year 9999 in the stream (the theorem has no such bound)"],
    },
    "C31": {
        "props": ["LachesisVerif.Props.C31"],
        "streams": ["piecefunc"],
        "claim": "Proof: NewFunc accepts exactly the valid dot lists; Get returns first/last Y outside, each dot's Y exactly at its X, "
                 "stays within [min-1, max] of the neighbouring Ys, never overflows uint64 (equals the formula over naturals) and is within "
                 "|dY|/10^6+2 of the exact rational interpolation (near_linear, division-free: |Get*D*10^6 - L*D*10^6| <= (|dY|+2*10^6)*D), "
                 "for every valid list and every x. Correspondence: bit-exact comparison with the real code.",
        "note": "Trusted: Lean kernel, extractor (constants, Mul, Div, all comparisons, final sum), harness. uint64 modelled modulo 2^64. "
                "The piece search is modelled as index recursion with fuel = len(dots).",
        "trusted": ["go/cmd/extract (DecimalUnit, maxVal, Mul, Div, NewFunc and Get conditions)", "harness stream piecefunc"],
        "assumptions": [],
    },
    "C32": {
        "props": ["LachesisVerif.Props.C32"],
        "streams": ["enc"],
        "claim": "Proof: big-endian and little-endian encode/decode round-trip for every width and value, big-endian byte order = numeric order, "
                 "event id layout carries epoch and lamport, byte-wise id order = (epoch, lamport, tail) order. Correspondence: all bigendian/"
                 "littleendian/idx functions, SetID/Build, hash.Event.Epoch/Lamport on boundary and random values.",
        "note": "Trusted: Lean kernel; harness/diff. The model of encoding/binary is hand-written (no kernel extraction: the Go code only calls the stdlib); "
                "it is tied by the stream only.",
        "trusted": ["harness stream enc", "contract model of encoding/binary"],
        "assumptions": [],
    },
}
