"""Registry fragment: family `gossip` (C16 items fetcher, C17 stream seeder, C18 leechers)."""
FAMILY = "gossip"

STREAMS = {
    # real BaseSeeder with its own goroutines; one case in 25 (40) has a phase with blocked senders (250 ms per stall)
    "seed": {"quick": 1000, "thorough": 20000, "trivial": ["bad-op", "nocfg", "bad-cfg", "gated", "gatelimit", "bad-gate"],
             "timeout": 3000},
    # BaseLeecher through its exported methods: ALL sequences of length 5 (quick) / 7 (thorough) over a 7-symbol alphabet
    # (2 peers), then n random cases with richer oracles
    "leech": {"quick": 3000, "thorough": 50000},
    # BasePeerLeecher through its real loop (RecheckInterval 1 h), synchronised on callbacks
    "peerleech": {"quick": 3000, "thorough": 60000, "trivial": ["bad-op", "nocfg", "bad-cfg"]},
    # timed scenarios on the real Fetcher (20-60 ms timeouts, ~1 s each), judged by trace acceptance; the harness
    # re-runs a scenario the judge rejects (up to 3 times) before reporting its log
    "fetch": {"quick": 40, "thorough": 400, "mode": "judge", "noshrink": True, "timeout": 3000},
}

PROPS = {
    "C17": {
        "props": ["LachesisVerif.Props.C17"],
        "streams": ["seed"],
        "claim": "Proof, for every sequence of requests and unregistrations of the reader-loop model (all comparisons regenerated from seeder.go): "
                 "per live session the payloads sent since its creation, followed by the unsent rest, are exactly the data base items of [start, stop) "
                 "in order (no gaps, no repeats); a response marked done is the last one and then everything was sent; a request finishes the session or "
                 "sends >= MaxChunks more items (done once enough chunks were requested); payloads with two or more items stay below both limits without "
                 "their last item; a live session survives every step except unregistration of its peer or the creation of a fourth session by its peer "
                 "while it is the oldest of three, and the peer list = the live sessions, <= 3, no duplicates; pending memory <= limit - 1 + one response "
                 "for every interleaving of reader and senders. decide-witnesses: the pre-fix placement repeats items (D4a) and prunes a live session "
                 "through MaxChunks=0 duplicates (D4b). Correspondence: real BaseSeeder (own goroutines), per (peer, session) response sequences, "
                 "selector mismatch, too-many-chunks, pruning, unregistration, stalls of the reader with blocked senders.",
        "note": "Trusted: Lean kernel, go/ast extractor, harness/diff. Locators = naturals with Inc = +1; ForEachItem contract = ascending from the first "
                "key >= start, onKey before / onAppended after each item (implemented so by the harness callback). The sender threads are not modelled "
                "(per-session FIFO of one worker is a contract of utils/workers); the pending counter is modelled as an event system (enqueue only when "
                "below the limit, senders subtract). Harness synchronises with sentinel requests; a reader stall is recognised by 250 ms without progress.",
        "trusted": ["go/cmd/extract (all conditions of readerLoop, NotifyRequestReceived, waitPendingResponsesBelowLimit)", "harness stream seed",
                    "contract: utils/workers runs the tasks of one Workers instance with one worker in FIFO order"],
        "assumptions": ["data base keys strictly ascending, fewer than 2^32 items", "MaxPendingResponsesSize >= 1",
                        "ForEachItem obeys its contract (DESIGN 2.6)"],
    },
    "C18": {
        "props": ["LachesisVerif.Props.C18"],
        "streams": ["leech", "peerleech"],
        "claim": "Proof, for all operation sequences and all callback answers (comparisons regenerated from session.go / base_leecher.go): "
                 "peer leecher: totalRequested <= totalProcessed + ParallelChunksDownload always, every RequestChunks asks for >= 1 chunk and "
                 "fills the window exactly; no request in an event during which Suspend() is true; the event in which Done() is true stops it, "
                 "a stopped leecher never requests again. Base leecher: at most one running session, only with a registered peer; after "
                 "UnregisterPeer(P) (repaired order) no session with P runs and StartSession never picks P until P registers again; after Terminate "
                 "no session runs or starts. decide-witness: the pre-fix order restarts a session with the peer being removed (D5). "
                 "Correspondence: BaseLeecher through exported methods on ALL op sequences of length 5/7 over {Routine x2, Register x2, Unregister x2, "
                 "Terminate} plus random cases; BasePeerLeecher through its real loop driven by NotifyChunkReceived.",
        "note": "Trusted: Lean kernel, extractor, harness/diff. The application callbacks are modelled as an explicit `running` list (StartSession "
                "adds the picked candidate, TerminateSession clears) and candidates = offered peers that are registered at the call (contract of "
                "SelectSessionPeerCandidates). Processed chunks = the leecher's own count of chunks IsProcessed confirmed. Ticker events are in the "
                "theorems but not in the stream (RecheckInterval 1 h).",
        "trusted": ["go/cmd/extract (window, accept, Routine and Unregister conditions)", "harness streams leech, peerleech"],
        "assumptions": ["SelectSessionPeerCandidates offers registered peers only; StartSession picks one of the offered candidates",
                        "callbacks are called in the order Done, IsProcessed*, Suspend (as in routine)"],
    },
    "C16": {
        "props": ["LachesisVerif.Props.C16"],
        "streams": ["fetch"],
        "claim": "Proof (safety, full): in every run of the timed model (events notify/received/timerFire with time stamps; OnlyInterested, Suspend, "
                 "rand as oracles; LRU with eviction) a request for an item goes to a peer whose accepted announcement is still valid (not received / "
                 "not reported uninteresting since) and the item is reported interesting in the event that issues the request; hence no request after "
                 "received/not-interested until announced anew. Proof (liveness): C16_pending_requested - from any state of a run (timer-armed invariant: announces non-empty => armed, "
                 "deadline <= last event + ArriveTimeout), through any notifications/receipts (they never move an armed deadline), the timer event "
                 "comes by t0 + ArriveTimeout + timer latency and requests every pending item; the constant proved is 1x ArriveTimeout + latency after "
                 "the announcement, independent of suspension. decide-witnesses for the two earlier arming rules (D3: timer unarmed; re-arm: pending item "
                 "postponed without bound). Correspondence: real Fetcher, 20-60 ms timeouts, trace acceptance: every observed request "
                 "is one the model issues, every model request is observed, the announced set at every timer event equals the model's, an armed timer "
                 "fires within 2*ArriveTimeout+300 ms, plus the property's own bound evaluated on the trace.",
        "note": "Trusted: Lean kernel, extractor, harness, judge (lean/Driver/Gossip.lean Drv.Fetch). Go timer/scheduler latency is outside the model; "
                "the judge allows 2*ArriveTimeout + 300 ms and calls a scenario inconclusive when a comparison is within 1.5 ms of its threshold; the "
                "harness repeats a rejected scenario up to 3 times. rescheduleFetch scans HashLimit/32+1 map entries: the judge accepts any deadline "
                "between the model's and now+ArriveTimeout.",
        "trusted": ["go/cmd/extract (first, noAnnounces, arming rule, forget/refetch tests, reschedule guard, maxDuration)",
                    "harness stream fetch + judge", "Go runtime timers deliver within the slack"],
        "assumptions": ["GatherSlack <= ArriveTimeout", "time stamps of loop events do not decrease", "announcement batches <= MaxBatch",
                        "liveness only while the LRU does not evict (HashLimit not reached)"],
    },
}
