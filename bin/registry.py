"""Registry of properties and correspondence streams used by bin/check."""

# stream name -> sizes per tier (number of generated cases) and comparison mode
#   mode "diff"  : the driver answers every op; outputs must be equal line by line
#   mode "judge" : the driver receives op lines interleaved with the implementation's output
#                  ("> ...") and answers "ok" / "FAIL ..." (trace acceptance)
#   decides      : a differing case is by itself a concrete input on which the property fails
#                  (the model output is the value the property prescribes)
STREAMS = {
    "quorum": {"quick": 3000, "thorough": 300000, "trivial": ["bad-op", "novals"]},
    "enc": {"quick": 200000, "thorough": 5000000},
}

HOOK_COMMITS = []

PROPS = {
    "C11": {
        "props": ["LachesisVerif.Props.C11"],
        "claim": "Proof: quorum = floor(2t/3)+1 without uint32 overflow for every total admitted by calcCaches, whole set reaches it, "
                 "<= 2/3 never reaches it, two quorums intersect in > 1/3, and the weight counter refines 'sum of marked weights' for every "
                 "call sequence; all stated over kernels regenerated from inter/pos on every run. Correspondence: real Validators/WeightCounter "
                 "vs the model on boundary totals and random counting sequences.",
        "note": "Trusted: Lean kernel; go/ast extractor (prints the Go expressions); harness/diff. uint32 modelled as Nat mod 2^32. "
                "Subsets are Boolean masks over the canonical order.",
        "streams": ["quorum"],
        "trusted": ["go/cmd/extract (go/ast printer of Quorum, calcCaches limit, Less, HasQuorum, CountByIdx sum)",
                    "correspondence harness + diff (stream quorum)"],
        "assumptions": ["Go's uint32 arithmetic is modelled as Nat arithmetic modulo 2^32",
                        "CountByIdx is only called with indices below the set size (Go panics otherwise)"],
    },
}
