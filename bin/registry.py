"""Registry of properties and correspondence streams used by bin/check.

Assembled from the fragments bin/registry.d/<family>.py. Each fragment defines
  FAMILY  : family name; its harness is go/cmd/h-<family>, its driver lean exe lvdriver-<family>
  STREAMS : stream name -> {"quick": n, "thorough": n, optional "mode": "diff"|"judge",
            "trivial": [...], "decides": bool, "timeout": s, "noshrink": bool}
            mode "diff"  : the driver answers every op; outputs must be equal line by line
            mode "judge" : the driver receives op lines interleaved with the implementation's output
                           ("> ...") and answers "ok" / "FAIL ..." (trace acceptance)
            decides      : a differing case is by itself a concrete input on which the property fails
  PROPS   : property id -> {"props": [lean modules], "streams": [...], "claim", "note", ...}
"""
import glob, os, importlib.util

STREAMS, PROPS = {}, {}
# commits in /repo that add verif-tagged hook files (MANIFEST.hooks.source_commits)
HOOK_COMMITS = ["39810c1"]

for _f in sorted(glob.glob(os.path.join(os.path.dirname(os.path.abspath(__file__)), "registry.d", "*.py"))):
    _spec = importlib.util.spec_from_file_location("registry_" + os.path.basename(_f)[:-3], _f)
    _m = importlib.util.module_from_spec(_spec)
    _spec.loader.exec_module(_m)
    for _k, _v in getattr(_m, "STREAMS", {}).items():
        _v.setdefault("family", _m.FAMILY)
        STREAMS[_k] = _v
    for _k, _v in getattr(_m, "PROPS", {}).items():
        PROPS[_k] = _v
    HOOK_COMMITS += getattr(_m, "HOOK_COMMITS", [])

# structural expectations: lean/LachesisVerif/Props/Facts<id>.lean (regenerated facts Gen.Facts<id>*) are part of
# the property's proof obligations whenever the file exists
_PROPS_DIR = os.path.join(os.path.dirname(os.path.dirname(os.path.abspath(__file__))), "lean", "LachesisVerif", "Props")
for _k, _v in PROPS.items():
    if os.path.exists(os.path.join(_PROPS_DIR, "Facts%s.lean" % _k)):
        _mod = "LachesisVerif.Props.Facts%s" % _k
        if _mod not in _v.setdefault("props", []):
            _v["props"].append(_mod)
            _v["claim"] = _v.get("claim", "") + (" Structural expectations (Props/Facts%s.lean): unconditional calls and statement orders of the modelled Go functions that no decision kernel covers "
                                               "are regenerated as Bool facts (go/cmd/extract: hascall / topcall / topassign / before) and their expected values are theorems." % _k)
